(* C04: the group status is a faithful aggregate of its partitions. *)
From Coq Require Import ZArith List Bool Lia Permutation.
From Burrow Require Import Int64 Int64Proofs F32 Eval.
Import ListNotations.
Open Scope Z_scope.

(* ---- the four independent components of the fold ---- *)
Definition cap (s : status) : status := if worse s StErr then StErr else s.
Definition step_status (st : status) (ps : pstatus) : status :=
  if worse (ps_status ps) st then cap (ps_status ps) else st.
Definition step_max (mx : option pstatus) (ps : pstatus) : option pstatus :=
  match mx with None => Some ps | Some m => if ps_lag m <? ps_lag ps then Some ps else mx end.
Definition is_complete (ps : pstatus) : bool := f32_eq (ps_complete ps) f32_one.
Definition count_complete (l : list pstatus) : Z := Z.of_nat (length (filter is_complete l)).

Lemma fold_part_split parts st mx nc lst :
  fold_left fold_part parts (st, mx, nc, lst) =
  (fold_left step_status parts st, fold_left step_max parts mx, nc + count_complete parts, lst ++ parts).
Proof.
  revert st mx nc lst; induction parts as [|p r IH]; intros st mx nc lst.
  - cbn. unfold count_complete; cbn. rewrite Z.add_0_r, app_nil_r. reflexivity.
  - cbn [fold_left].
    change (fold_part (st, mx, nc, lst) p)
      with (step_status st p, step_max mx p, (if is_complete p then nc + 1 else nc), lst ++ [p]).
    rewrite IH. rewrite <- app_assoc. cbn [app].
    replace ((if is_complete p then nc + 1 else nc) + count_complete r) with (nc + count_complete (p :: r)); [reflexivity|].
    unfold count_complete. cbn [filter]. destruct (is_complete p); cbn [length]; lia.
Qed.

(* ---- status ---- *)
Definition sn := status_num.
Lemma worse_spec a b : worse a b = true <-> sn b < sn a.
Proof. unfold worse, sn. apply Z.ltb_lt. Qed.

Definition maxz (a b : Z) := Z.max a b.

Lemma cap_num s : sn (cap s) = Z.min (sn s) 3.
Proof. unfold cap, worse, sn. destruct s; cbn; reflexivity. Qed.

Lemma fold_status_num parts st :
  sn st <= 3 ->
  sn (fold_left step_status parts st) = fold_left (fun a p => Z.max a (Z.min (sn (ps_status p)) 3)) parts (sn st).
Proof.
  revert st; induction parts as [|p r IH]; intros st Hst; [reflexivity|].
  cbn [fold_left]. unfold step_status at 2.
  destruct (worse (ps_status p) st) eqn:E.
  - apply worse_spec in E. rewrite IH by (rewrite cap_num; lia). rewrite cap_num. f_equal. lia.
  - assert (~ sn st < sn (ps_status p)) by (intros H; apply worse_spec in H; congruence).
    rewrite IH by exact Hst. f_equal. lia.
Qed.

Lemma fold_max_ge parts a :
  a <= fold_left (fun a p => Z.max a (Z.min (sn (ps_status p)) 3)) parts a.
Proof.
  revert a; induction parts as [|p r IH]; intros a; cbn [fold_left]; [lia|].
  etransitivity; [|apply IH]. lia.
Qed.

Lemma fold_max_char parts a :
  let m := fold_left (fun a p => Z.max a (Z.min (sn (ps_status p)) 3)) parts a in
  (m = a \/ exists p, In p parts /\ m = Z.min (sn (ps_status p)) 3) /\
  (forall p, In p parts -> Z.min (sn (ps_status p)) 3 <= m).
Proof.
  revert a; induction parts as [|p r IH]; intros a; cbn [fold_left].
  - split; [left; reflexivity|intros p []].
  - destruct (IH (Z.max a (Z.min (sn (ps_status p)) 3))) as [H1 H2]. cbn zeta in *. split.
    + destruct H1 as [H1|(q & Hq & H1)].
      * destruct (Z.max_spec a (Z.min (sn (ps_status p)) 3)) as [[_ E]|[_ E]].
        -- right. exists p. split; [left; reflexivity|rewrite H1; exact E].
        -- left. rewrite H1; exact E.
      * right. exists q. split; [right; exact Hq|exact H1].
    + intros q [<-|Hq]; [|apply H2; exact Hq].
      etransitivity; [|apply fold_max_ge]. lia.
Qed.

(* statuses a partition evaluation can produce *)
Definition part_status_ok (s : status) : Prop := s = StOK \/ s = StWarn \/ s = StStop \/ s = StStall \/ s = StRewind.

Theorem group_status_spec parts :
  Forall (fun p => part_status_ok (ps_status p)) parts ->
  let g := fold_left step_status parts StOK in
  (g = StOK <-> Forall (fun p => ps_status p = StOK) parts) /\
  (g = StWarn <-> (exists p, In p parts /\ ps_status p = StWarn) /\
                  Forall (fun p => ps_status p = StOK \/ ps_status p = StWarn) parts) /\
  (g = StErr <-> exists p, In p parts /\ (ps_status p = StStop \/ ps_status p = StStall \/ ps_status p = StRewind)) /\
  (g = StOK \/ g = StWarn \/ g = StErr).
Proof.
  intros Hok g.
  assert (Hn : sn g = fold_left (fun a p => Z.max a (Z.min (sn (ps_status p)) 3)) parts 1).
  { unfold g. rewrite fold_status_num by (cbn; lia). reflexivity. }
  destruct (fold_max_char parts 1) as [Hc Hub]. cbn zeta in *. rewrite <- Hn in Hc, Hub.
  pose proof (fold_max_ge parts 1) as Hge. rewrite <- Hn in Hge.
  rewrite Forall_forall in Hok.
  assert (Hrange : sn g = 1 \/ sn g = 2 \/ sn g = 3).
  { destruct Hc as [Hc|(p & Hp & Hc)]; [lia|].
    destruct (Hok p Hp) as [E|[E|[E|[E|E]]]]; rewrite E in Hc; cbn in Hc; lia. }
  assert (Hinj : forall s, sn g = sn s -> g = s).
  { intros s. unfold sn. destruct g, s; cbn; intros; try reflexivity; lia. }
  repeat split.
  - intros Hg. rewrite Forall_forall. intros p Hp. specialize (Hub p Hp). rewrite Hg in Hub. cbn in Hub.
    destruct (Hok p Hp) as [E|[E|[E|[E|E]]]]; rewrite E in *; cbn in Hub; try reflexivity; lia.
  - intros Hall. rewrite Forall_forall in Hall. apply Hinj. cbn.
    destruct Hc as [Hc|(p & Hp & Hc)]; [exact Hc|]. rewrite (Hall p Hp) in Hc. cbn in Hc. exact Hc.
  - rewrite H in Hc. cbn in Hc. destruct Hc as [Hc|(p & Hp & Hc)]; [lia|].
    exists p. split; [exact Hp|].
    destruct (Hok p Hp) as [E|[E|[E|[E|E]]]]; rewrite E in Hc; cbn in Hc; try lia. exact E.
  - rewrite Forall_forall. intros p Hp. specialize (Hub p Hp). rewrite H in Hub. cbn in Hub.
    destruct (Hok p Hp) as [E|[E|[E|[E|E]]]]; rewrite E in *; cbn in Hub; auto; lia.
  - intros [(p & Hp & E) Hall]. apply Hinj. cbn. rewrite Forall_forall in Hall.
    pose proof (Hub p Hp) as H1. rewrite E in H1. cbn in H1.
    destruct Hc as [Hc|(q & Hq & Hc)]; [lia|].
    destruct (Hall q Hq) as [E'|E']; rewrite E' in Hc; cbn in Hc; lia.
  - intros Hg. rewrite Hg in Hc. cbn in Hc. destruct Hc as [Hc|(p & Hp & Hc)]; [lia|].
    exists p. split; [exact Hp|].
    destruct (Hok p Hp) as [E|[E|[E|[E|E]]]]; rewrite E in Hc; cbn in Hc; try lia; auto.
  - intros (p & Hp & E). apply Hinj. cbn. pose proof (Hub p Hp) as H1.
    destruct E as [E|[E|E]]; rewrite E in H1; cbn in H1; lia.
  - destruct Hrange as [H|[H|H]]; [left|right; left|right; right]; apply Hinj; exact H.
Qed.

(* ---- max lag ---- *)
Theorem maxlag_is_max parts :
  match fold_left step_max parts None with
  | None => parts = []
  | Some m => In m parts /\ Forall (fun p => ps_lag p <= ps_lag m) parts
  end.
Proof.
  assert (G : forall parts mx,
            match fold_left step_max parts mx with
            | None => parts = [] /\ mx = None
            | Some m => (In m parts \/ mx = Some m) /\ Forall (fun p => ps_lag p <= ps_lag m) parts /\
                        (forall m0, mx = Some m0 -> ps_lag m0 <= ps_lag m)
            end).
  { clear. induction parts as [|p r IH]; intros mx; cbn [fold_left].
    - destruct mx; [split; [right; reflexivity|split; [constructor|intros m0 H; injection H as ->; lia]]|auto].
    - specialize (IH (step_max mx p)). destruct (fold_left step_max r (step_max mx p)) as [m|].
      + destruct IH as (H1 & H2 & H3).
        assert (Hp : ps_lag p <= ps_lag m).
        { unfold step_max in H3. destruct mx as [m0|].
          - destruct (ps_lag m0 <? ps_lag p) eqn:E.
            + apply (H3 p eq_refl).
            + apply Z.ltb_ge in E. specialize (H3 m0 eq_refl). lia.
          - apply (H3 p eq_refl). }
        split; [|split].
        * destruct H1 as [H1|H1]; [left; right; exact H1|].
          unfold step_max in H1. destruct mx as [m0|].
          -- destruct (ps_lag m0 <? ps_lag p); injection H1 as <-; [left; left; reflexivity|right; reflexivity].
          -- injection H1 as <-. left; left; reflexivity.
        * constructor; assumption.
        * intros m0 ->. unfold step_max in H3. destruct (ps_lag m0 <? ps_lag p) eqn:E.
          -- apply Z.ltb_lt in E. lia.
          -- apply (H3 m0 eq_refl).
      + destruct IH as [_ IH]. unfold step_max in IH. destruct mx as [m0|]; [destruct (_ <? _)|]; discriminate. }
  specialize (G parts None). destruct (fold_left step_max parts None) as [m|].
  - destruct G as ([H|H] & H2 & _); [split; assumption|discriminate].
  - apply G.
Qed.

(* ---- totals ---- *)
Definition part_lags (ts : list (Z * list cpart)) : list Z := flat_map (fun tp => map cp_lag (snd tp)) ts.

Lemma fold_addu64_sum l a :
  0 <= a < two64 -> Forall in_u64 l ->
  fold_left addu64 l a = (a + fold_right Z.add 0 l) mod two64.
Proof.
  revert a; induction l as [|x l IH]; intros a Ha Hl; cbn [fold_left fold_right].
  - rewrite Z.add_0_r. symmetry; apply Z.mod_small; exact Ha.
  - inversion Hl; subst. rewrite IH; [|unfold addu64, u64, two64; apply Z.mod_pos_bound; lia|assumption].
    unfold addu64, u64. rewrite Zplus_mod_idemp_l. f_equal. lia.
Qed.

Lemma sum_lags_flat ts a :
  fold_left (fun acc tp => fold_left (fun a p => addu64 a (cp_lag p)) (snd tp) acc) ts a
  = fold_left addu64 (part_lags ts) a.
Proof.
  revert a; induction ts as [|[t ps] r IH]; intros a; [reflexivity|].
  cbn [fold_left]. rewrite IH. unfold part_lags at 2. cbn [flat_map snd]. rewrite fold_left_app. f_equal.
  clear. revert a. induction ps as [|p ps IHp]; intros a; [reflexivity|]. cbn [map fold_left]. apply IHp.
Qed.

(* total lag is the sum of the partitions' current lags (as a uint64) *)
Theorem total_lag_sum ts :
  Forall in_u64 (part_lags ts) ->
  sum_lags ts = (fold_right Z.add 0 (part_lags ts)) mod two64.
Proof.
  intros H. unfold sum_lags. rewrite sum_lags_flat, fold_addu64_sum; [reflexivity|unfold two64; lia|exact H].
Qed.

Corollary total_lag_exact ts :
  Forall in_u64 (part_lags ts) -> fold_right Z.add 0 (part_lags ts) < two64 ->
  sum_lags ts = fold_right Z.add 0 (part_lags ts).
Proof.
  intros H Hlt. rewrite total_lag_sum by exact H. apply Z.mod_small. split; [|exact Hlt].
  clear Hlt. induction H as [|x l Hx _ IH]; cbn; [lia|]. unfold in_u64 in Hx. lia.
Qed.

Lemma count_parts_flat ts a :
  fold_left (fun acc tp => acc + Z.of_nat (length (snd tp))) ts a = a + Z.of_nat (length (part_lags ts)).
Proof.
  revert a; induction ts as [|[t ps] r IH]; intros a; cbn [fold_left]; [cbn; lia|].
  rewrite IH. unfold part_lags. cbn [flat_map snd]. rewrite app_length, map_length. lia.
Qed.

(* the statuses produced for a reply, in order, with their provenance *)
Lemma eval_parts_props t i ps minimum allowed now l :
  eval_parts t i ps minimum allowed now = Ok l ->
  map ps_lag l = map cp_lag ps /\
  Forall (fun s => ps_topic s = t) l /\
  map ps_partition l = map (fun k => i + Z.of_nat k) (seq 0 (length ps)) /\
  Forall2 (fun p s => exists st en c, eval_partition p minimum allowed now = Ok (ps_status s, st, en, c)
                      /\ ps_start s = st /\ ps_end s = en /\ ps_complete s = c
                      /\ ps_owner s = cp_owner p /\ ps_client s = cp_client p) ps l.
Proof.
  revert i l; induction ps as [|p r IH]; intros i l; cbn [eval_parts].
  - intros H; injection H as <-. repeat split; constructor.
  - destruct (eval_partition p minimum allowed now) as [[[[s st] en] c]|] eqn:E; [|discriminate].
    destruct (eval_parts t (i + 1) r minimum allowed now) as [l'|] eqn:E'; [|discriminate].
    intros H; injection H as <-. destruct (IH _ _ E') as (H1 & H2 & H3 & H4).
    split; [|split; [|split]].
    + cbn [map ps_lag]. f_equal. exact H1.
    + constructor; [reflexivity|exact H2].
    + cbn [map length seq ps_partition]. f_equal; [lia|]. rewrite H3, <- seq_shift, map_map.
      apply map_ext. intros; lia.
    + constructor; [|exact H4]. cbn. exists st, en, c. auto 10.
Qed.

Lemma eval_topics_lags ts minimum allowed now l :
  eval_topics ts minimum allowed now = Ok l -> map ps_lag l = part_lags ts.
Proof.
  revert l; induction ts as [|[t ps] r IH]; intros l; cbn [eval_topics].
  - intros H; injection H as <-. reflexivity.
  - destruct (eval_parts t 0 ps minimum allowed now) as [l1|] eqn:E1; [|discriminate].
    destruct (eval_topics r minimum allowed now) as [l2|] eqn:E2; [|discriminate].
    intros H; injection H as <-. rewrite map_app. unfold part_lags. cbn [flat_map snd].
    f_equal; [apply (eval_parts_props _ _ _ _ _ _ _ E1)|apply IH; reflexivity].
Qed.

(* ---- the whole group ---- *)
Theorem eval_group_spec ts minimum allowed now g :
  eval_group ts minimum allowed now = Ok g ->
  exists parts,
    eval_topics ts minimum allowed now = Ok parts /\
    gs_partitions g = parts /\
    gs_status g = fold_left step_status parts StOK /\
    gs_maxlag g = fold_left step_max parts None /\
    gs_total_partitions g = Z.of_nat (length parts) /\
    gs_totallag g = sum_lags ts /\
    map ps_lag parts = part_lags ts /\
    gs_complete g = (if 0 <? Z.of_nat (length parts)
                     then f32_div (f32_of_int (count_complete parts)) (f32_of_int (Z.of_nat (length parts)))
                     else f32_zero).
Proof.
  unfold eval_group. destruct (eval_topics ts minimum allowed now) as [parts|] eqn:E; [|discriminate].
  rewrite fold_part_split. intros H; injection H as <-. exists parts. cbn.
  pose proof (eval_topics_lags _ _ _ _ _ E) as Hl.
  assert (Hc : count_parts ts = Z.of_nat (length parts)).
  { unfold count_parts. rewrite count_parts_flat, <- Hl, map_length. lia. }
  rewrite Hc. repeat split; auto.
Qed.

(* ---- order independence ---- *)
Lemma fold_status_perm l l' st :
  Permutation l l' -> sn st <= 3 -> fold_left step_status l st = fold_left step_status l' st.
Proof.
  intros HP Hst.
  assert (Hinj : forall a b, sn a = sn b -> a = b) by (intros a b; unfold sn; destruct a, b; cbn; intros; try reflexivity; lia).
  apply Hinj. rewrite !fold_status_num by exact Hst. generalize (sn st). clear Hst st Hinj.
  induction HP; intros a; cbn [fold_left]; auto.
  - f_equal. lia.
  - rewrite IHHP1. apply IHHP2.
Qed.

Lemma count_complete_perm l l' : Permutation l l' -> count_complete l = count_complete l'.
Proof.
  intros HP. unfold count_complete. f_equal. apply Permutation_length.
  induction HP; cbn [filter]; auto.
  - destruct (is_complete x); auto.
  - destruct (is_complete x), (is_complete y); auto. apply perm_swap.
  - etransitivity; eauto.
Qed.

Lemma sum_perm l l' : Permutation l l' -> fold_right Z.add 0 l = fold_right Z.add 0 l'.
Proof. induction 1; cbn; lia. Qed.

(* the largest lag does not depend on the order; which of several tied partitions is named does *)
Lemma maxlag_value_perm l l' :
  Permutation l l' ->
  option_map ps_lag (fold_left step_max l None) = option_map ps_lag (fold_left step_max l' None).
Proof.
  intros HP. pose proof (maxlag_is_max l) as H1. pose proof (maxlag_is_max l') as H2.
  destruct (fold_left step_max l None) as [m|], (fold_left step_max l' None) as [m'|]; cbn.
  - destruct H1 as [I1 F1], H2 as [I2 F2]. rewrite Forall_forall in F1, F2. f_equal.
    assert (ps_lag m' <= ps_lag m) by (apply F1; eapply Permutation_in; [symmetry; exact HP|exact I2]).
    assert (ps_lag m <= ps_lag m') by (apply F2; eapply Permutation_in; [exact HP|exact I1]). lia.
  - subst l'. apply Permutation_sym, Permutation_nil in HP. subst l. destruct H1 as [[] _].
  - subst l. apply Permutation_nil in HP. subst l'. destruct H2 as [[] _].
  - reflexivity.
Qed.

Lemma eval_topics_perm ts ts' minimum allowed now l :
  Permutation ts ts' -> eval_topics ts minimum allowed now = Ok l ->
  exists l', eval_topics ts' minimum allowed now = Ok l' /\ Permutation l l'.
Proof.
  intros HP. revert l. induction HP; intros l0.
  - intros H; exists l0; split; [exact H|reflexivity].
  - destruct x as [t ps]. cbn [eval_topics].
    destruct (eval_parts t 0 ps minimum allowed now) as [l1|]; [|discriminate].
    destruct (eval_topics l minimum allowed now) as [l2|] eqn:E2; [|discriminate].
    intros H; injection H as <-. destruct (IHHP _ eq_refl) as (l2' & -> & HP2).
    exists (l1 ++ l2'). split; [reflexivity|apply Permutation_app_head; exact HP2].
  - destruct x as [t1 p1], y as [t2 p2]. cbn [eval_topics].
    destruct (eval_parts t2 0 p2 minimum allowed now) as [l2|]; [|discriminate].
    destruct (eval_parts t1 0 p1 minimum allowed now) as [l1|]; [|discriminate].
    destruct (eval_topics l minimum allowed now) as [l3|]; [|discriminate].
    intros H; injection H as <-. exists (l1 ++ l2 ++ l3). split; [reflexivity|].
    rewrite !app_assoc. apply Permutation_app_tail. apply Permutation_app_comm.
  - intros H. destruct (IHHP1 _ H) as (l1 & H1 & P1). destruct (IHHP2 _ H1) as (l2 & H2 & P2).
    exists l2. split; [exact H2|etransitivity; eauto].
Qed.

Lemma part_lags_perm ts ts' : Permutation ts ts' -> Permutation (part_lags ts) (part_lags ts').
Proof.
  unfold part_lags. induction 1; cbn [flat_map]; auto.
  - apply Permutation_app_head; assumption.
  - rewrite !app_assoc. apply Permutation_app_tail, Permutation_app_comm.
  - etransitivity; eauto.
Qed.

Theorem order_independent ts ts' minimum allowed now g :
  Permutation ts ts' -> Forall in_u64 (part_lags ts) ->
  eval_group ts minimum allowed now = Ok g ->
  exists g', eval_group ts' minimum allowed now = Ok g' /\
    gs_status g' = gs_status g /\ gs_totallag g' = gs_totallag g /\
    gs_total_partitions g' = gs_total_partitions g /\ gs_complete g' = gs_complete g /\
    Permutation (gs_partitions g) (gs_partitions g') /\
    option_map ps_lag (gs_maxlag g') = option_map ps_lag (gs_maxlag g).
Proof.
  intros HP Hu Hg. destruct (eval_group_spec _ _ _ _ _ Hg) as (parts & E & Hp & Hs & Hm & Hn & Ht & Hl & Hc).
  destruct (eval_topics_perm _ _ _ _ _ _ HP E) as (parts' & E' & HPP).
  destruct (eval_group ts' minimum allowed now) as [g'|] eqn:Hg'.
  2:{ unfold eval_group in Hg'. rewrite E' in Hg'. rewrite fold_part_split in Hg'. discriminate. }
  exists g'. split; [reflexivity|].
  destruct (eval_group_spec _ _ _ _ _ Hg') as (parts2 & E2 & Hp' & Hs' & Hm' & Hn' & Ht' & Hl' & Hc').
  rewrite E' in E2. injection E2 as <-.
  assert (Hlen : length parts' = length parts) by (symmetry; apply Permutation_length; exact HPP).
  repeat split.
  - rewrite Hs, Hs'. symmetry. apply fold_status_perm; [exact HPP|cbn; lia].
  - rewrite Ht, Ht'. rewrite !total_lag_sum; auto.
    + f_equal. symmetry. apply sum_perm, part_lags_perm; exact HP.
    + eapply Permutation_Forall; [apply part_lags_perm; exact HP|exact Hu].
  - rewrite Hn, Hn', Hlen. reflexivity.
  - rewrite Hc, Hc', Hlen, (count_complete_perm _ _ HPP). reflexivity.
  - rewrite Hp, Hp'. exact HPP.
  - rewrite Hm, Hm'. symmetry. apply maxlag_value_perm; exact HPP.
Qed.

(* ---- the problems-only view ---- *)
Theorem filtered_view_spec g :
  gs_partitions (filter_view g) = filter (fun p => worse (ps_status p) StOK) (gs_partitions g) /\
  gs_status (filter_view g) = gs_status g /\ gs_complete (filter_view g) = gs_complete g /\
  gs_total_partitions (filter_view g) = gs_total_partitions g /\
  gs_maxlag (filter_view g) = gs_maxlag g /\ gs_totallag (filter_view g) = gs_totallag g.
Proof. repeat split. Qed.

Lemma filter_worse_spec p : worse (ps_status p) StOK = true <-> sn (ps_status p) > 1.
Proof. rewrite worse_spec. cbn. lia. Qed.

(* statuses produced by eval_partition are partition statuses *)
Lemma calc_status_some_range offs brokers cur now allowed : part_status_ok (calc_status_some offs brokers cur now allowed).
Proof.
  unfold calc_status_some, lag_rules, part_status_ok.
  repeat match goal with |- context [if ?b then _ else _] => destruct b end; auto 10.
Qed.

Lemma eval_partition_range p minimum allowed now s st en c :
  eval_partition p minimum allowed now = Ok (s, st, en, c) -> part_status_ok s.
Proof.
  unfold eval_partition. destruct (length (cp_offsets p)); [intros H; injection H as <-; left; reflexivity|].
  destruct (skipn _ _) as [|o r]; [intros H; injection H as <-; left; reflexivity|].
  destruct (f32_ge _ _); [|intros H; injection H as <-; left; reflexivity].
  unfold calc_status. destruct (_ <=? _); [intros H; injection H as <-; left; reflexivity|].
  destruct (all_some (o :: r)); [|discriminate]. intros H; injection H as <-. apply calc_status_some_range.
Qed.

Lemma eval_topics_range ts minimum allowed now l :
  eval_topics ts minimum allowed now = Ok l -> Forall (fun p => part_status_ok (ps_status p)) l.
Proof.
  revert l; induction ts as [|[t ps] r IH]; intros l; cbn [eval_topics].
  - intros H; injection H as <-. constructor.
  - destruct (eval_parts t 0 ps minimum allowed now) as [l1|] eqn:E1; [|discriminate].
    destruct (eval_topics r minimum allowed now) as [l2|] eqn:E2; [|discriminate].
    intros H; injection H as <-. apply Forall_app. split; [|apply IH; reflexivity].
    destruct (eval_parts_props _ _ _ _ _ _ _ E1) as (_ & _ & _ & H4).
    clear E1. induction H4 as [|p s ps' l' (st & en & c & Hev & _) _ IH4]; constructor; [|exact IH4].
    eapply eval_partition_range; exact Hev.
Qed.

Example group_witness :
  let p1 := mkCpart [Some (mkCoff 10 1 1000 (Some 5)); Some (mkCoff 10 2 2000 (Some 5))] [30] 1 1 20 in
  let p2 := mkCpart [None; Some (mkCoff 10 1 1000 (Some 0))] [10] 0 0 0 in
  match eval_group [(1, [p1; p2])] f32_zero 0 3 with
  | Ok g => gs_status g = StErr /\ gs_totallag g = 20 /\ gs_total_partitions g = 2 /\
            length (gs_partitions (filter_view g)) = 1%nat
  | Crash => False
  end.
Proof. vm_compute. repeat split. Qed.
