(* Proofs about the offsets-topic decoder model (Wire.v) against the reference encoders (WireEnc.v), first half;
   WireRoundtripProofs.v continues (metadata round trip, in_range, commit_at_most_one, commit_update_wellformed,
   reader_accept_spec, reader_lists_enforced).
   C06: process_never_crashes, process_alloc_bounded, commit_alloc_bounded, *_unrepaired_refuted (finding F1)
   C07: offset_roundtrip, offset_tombstone, and the decoder-on-encoder lemmas up to decode_member_enc
   C10 (reader half): reader_rejected_silent, reader_rejected_nothing, reader_no_group_nothing,
                      reader_accepted_as_unfiltered, reader_rejected_silent_unrepaired_refuted (finding F2) *)
From Coq Require Import ZArith List Bool Lia.
From Burrow Require Import Int64 Int64Proofs Wire WireEnc.
Import ListNotations.
Open Scope Z_scope.

(* ------------------------------------------------------------------------------------------ *)
(* A. integers                                                                                 *)
(* ------------------------------------------------------------------------------------------ *)

Lemma sumz_app a b : sumz (a ++ b) = sumz a + sumz b.
Proof. induction a; simpl; lia. Qed.

Lemma blen_app {A} (a b : list A) : blen (a ++ b) = blen a + blen b.
Proof. unfold blen. rewrite app_length. lia. Qed.

Lemma blen_nonneg {A} (a : list A) : 0 <= blen a.
Proof. unfold blen. lia. Qed.

Lemma blen_cons {A} (x : A) (a : list A) : blen (x :: a) = blen a + 1.
Proof. unfold blen. simpl length. lia. Qed.

Lemma be_val_app acc a b : be_val acc (a ++ b) = be_val (be_val acc a) b.
Proof. revert acc. induction a; simpl; intros; auto. Qed.

Lemma enc_be_length n u : length (enc_be n u) = n.
Proof. revert u. induction n; simpl; intros; auto. rewrite app_length, IHn. simpl. lia. Qed.

Lemma be_val_enc_be n u : be_val 0 (enc_be n u) = u mod 256 ^ Z.of_nat n.
Proof.
  revert u. induction n; intros.
  - simpl. rewrite Z.mod_1_r. reflexivity.
  - cbn [enc_be]. rewrite be_val_app, IHn. cbn [be_val].
    rewrite Nat2Z.inj_succ, Z.pow_succ_r by lia.
    rewrite (Z.rem_mul_r u 256 (256 ^ Z.of_nat n)) by (try lia; apply Z.pow_nonzero; lia).
    lia.
Qed.

Definition in_i16 (x : Z) : Prop := -32768 <= x < 32768.

Lemma wrap16_mod x : in_i16 x -> wrap16 (x mod 65536) = x.
Proof.
  unfold in_i16, wrap16. intros.
  rewrite Zplus_mod_idemp_l.
  replace ((x + 32768) mod 65536) with (x + 32768) by (symmetry; apply Z.mod_small; lia). lia.
Qed.
Lemma wrap32_mod x : in_i32 x -> wrap32 (x mod two32) = x.
Proof.
  unfold in_i32, wrap32, two31, two32. intros.
  rewrite Zplus_mod_idemp_l.
  replace ((x + 2147483648) mod 4294967296) with (x + 2147483648) by (symmetry; apply Z.mod_small; lia). lia.
Qed.
Lemma wrap64_mod x : in_i64 x -> wrap64 (x mod two64) = x.
Proof.
  unfold in_i64, wrap64, two63, two64. intros.
  rewrite Zplus_mod_idemp_l.
  replace ((x + 9223372036854775808) mod 18446744073709551616) with (x + 9223372036854775808)
    by (symmetry; apply Z.mod_small; lia). lia.
Qed.

Lemma wrap16_range z : in_i16 (wrap16 z).
Proof. unfold in_i16, wrap16. pose proof (Z.mod_pos_bound (z + 32768) 65536). lia. Qed.
Lemma wrap32_range z : in_i32 (wrap32 z).
Proof. unfold in_i32, wrap32, two31, two32. pose proof (Z.mod_pos_bound (z + 2147483648) 4294967296). lia. Qed.

Lemma read_n_app n a r : length a = n -> read_n n (a ++ r) = Some (be_val 0 a, r).
Proof.
  intros H. unfold read_n. rewrite app_length.
  replace (length a + length r <? n)%nat with false by (symmetry; apply Nat.ltb_ge; lia).
  subst n. rewrite firstn_app, Nat.sub_diag, firstn_all, skipn_app, Nat.sub_diag, skipn_all. simpl.
  rewrite app_nil_r. reflexivity.
Qed.

Lemma read_i16_enc x r : in_i16 x -> read_i16 (enc_i16 x ++ r) = Some (x, r).
Proof.
  intros. unfold read_i16, enc_i16. rewrite read_n_app by apply enc_be_length.
  rewrite be_val_enc_be. change (256 ^ Z.of_nat 2) with 65536. rewrite wrap16_mod; auto.
Qed.
Lemma read_i32_enc x r : in_i32 x -> read_i32 (enc_i32 x ++ r) = Some (x, r).
Proof.
  intros. unfold read_i32, enc_i32. rewrite read_n_app by apply enc_be_length.
  rewrite be_val_enc_be. change (256 ^ Z.of_nat 4) with two32. rewrite wrap32_mod; auto.
Qed.
Lemma read_i64_enc x r : in_i64 x -> read_i64 (enc_i64 x ++ r) = Some (x, r).
Proof.
  intros. unfold read_i64, enc_i64. rewrite read_n_app by apply enc_be_length.
  rewrite be_val_enc_be. change (256 ^ Z.of_nat 8) with two64. rewrite wrap64_mod; auto.
Qed.

Lemma read_n_len n b u r : read_n n b = Some (u, r) -> blen b = blen r + Z.of_nat n.
Proof.
  unfold read_n. destruct (length b <? n)%nat eqn:E; [discriminate|].
  apply Nat.ltb_ge in E. intros H. inversion H; subst. unfold blen. rewrite skipn_length. lia.
Qed.
Lemma read_i16_len b x r : read_i16 b = Some (x, r) -> blen b = blen r + 2.
Proof.
  unfold read_i16. destruct (read_n 2 b) as [[u r']|] eqn:E; [|discriminate].
  intros H; inversion H; subst. apply read_n_len in E. lia.
Qed.
Lemma read_i32_len b x r : read_i32 b = Some (x, r) -> blen b = blen r + 4.
Proof.
  unfold read_i32. destruct (read_n 4 b) as [[u r']|] eqn:E; [|discriminate].
  intros H; inversion H; subst. apply read_n_len in E. lia.
Qed.
Lemma read_i64_len b x r : read_i64 b = Some (x, r) -> blen b = blen r + 8.
Proof.
  unfold read_i64. destruct (read_n 8 b) as [[u r']|] eqn:E; [|discriminate].
  intros H; inversion H; subst. apply read_n_len in E. lia.
Qed.
Lemma read_n_some n b : Z.of_nat n <= blen b -> exists u r, read_n n b = Some (u, r).
Proof.
  unfold read_n, blen. intros. destruct (length b <? n)%nat eqn:E.
  - apply Nat.ltb_lt in E. lia.
  - eauto.
Qed.
Lemma read_i32_some b : 4 <= blen b -> exists x r, read_i32 b = Some (x, r).
Proof.
  intros. destruct (read_n_some 4 b) as (u & r & E); [simpl; lia|].
  unfold read_i32. rewrite E. eauto.
Qed.
Lemma read_i32_range b x r : read_i32 b = Some (x, r) -> in_i32 x.
Proof.
  unfold read_i32. destruct (read_n 4 b) as [[u r']|]; [|discriminate].
  intros H; inversion H; subst. apply wrap32_range.
Qed.
Lemma read_i64_range b x r : read_i64 b = Some (x, r) -> in_i64 x.
Proof.
  unfold read_i64. destruct (read_n 8 b) as [[u r']|]; [|discriminate].
  intros H; inversion H; subst. apply wrap64_range.
Qed.

Lemma take_drop_len n (b : list Z) : 0 <= n <= blen b -> blen (drop n b) = blen b - n /\ blen (take n b) = n.
Proof.
  unfold take, drop, blen. intros. rewrite skipn_length, firstn_length. lia.
Qed.

(* ------------------------------------------------------------------------------------------ *)
(* B. no decoder crashes; what it allocates is paid for by the bytes it consumes               *)
(* ------------------------------------------------------------------------------------------ *)

Definition safe_at {A} (c : Z) (d : dec A) (b : list Z) : Prop :=
  match d b with
  | DOk _ r al => blen r <= blen b /\ 0 <= sumz al <= c * (blen b - blen r)
  | DErr al => 0 <= sumz al <= c * blen b
  | DCrash _ => False
  end.
Definition safe {A} (c : Z) (d : dec A) : Prop := forall b, safe_at c d b.

Lemma safe_at_bind {A B} c (m : dec A) (f : A -> dec B) b :
  0 <= c -> safe_at c m b ->
  (forall a r al, m b = DOk a r al -> safe_at c (f a) r) ->
  safe_at c (bind m f) b.
Proof.
  unfold safe_at, bind. intros Hc Hm Hf.
  destruct (m b) as [a r al|al|w] eqn:E; auto.
  specialize (Hf a r al eq_refl).
  destruct (f a r) as [x r' al'|al'|w]; auto; rewrite sumz_app; nia.
Qed.

Lemma safe_bind {A B} c (m : dec A) (f : A -> dec B) :
  0 <= c -> safe c m -> (forall a, safe c (f a)) -> safe c (bind m f).
Proof. intros Hc Hm Hf b. apply safe_at_bind; auto. intros. apply Hf. Qed.

Lemma safe_ret {A} c (a : A) : 0 <= c -> safe c (ret a).
Proof. intros Hc b. unfold safe_at, ret. simpl. lia. Qed.
Lemma safe_fail {A} c : 0 <= c -> safe c (@fail A).
Proof. intros Hc b. unfold safe_at, fail. simpl. pose proof (blen_nonneg b). nia. Qed.

Lemma safe_mono {A} c c' (d : dec A) : c <= c' -> safe c d -> safe c' d.
Proof.
  intros Hc H b. specialize (H b). unfold safe_at in *. pose proof (blen_nonneg b).
  destruct (d b); auto; nia.
Qed.

Lemma safe_ok_len {A} c (d : dec A) b a r al : safe c d -> d b = DOk a r al -> blen r <= blen b.
Proof. intros H E. specialize (H b). unfold safe_at in H. rewrite E in H. tauto. Qed.

Lemma safe_d_i16 c : 0 <= c -> safe c d_i16.
Proof.
  intros Hc b. unfold safe_at, d_i16, of_read. pose proof (blen_nonneg b).
  destruct (read_i16 b) as [[x r]|] eqn:E; simpl; [apply read_i16_len in E|]; nia.
Qed.
Lemma safe_d_i32 c : 0 <= c -> safe c d_i32.
Proof.
  intros Hc b. unfold safe_at, d_i32, of_read. pose proof (blen_nonneg b).
  destruct (read_i32 b) as [[x r]|] eqn:E; simpl; [apply read_i32_len in E|]; nia.
Qed.
Lemma safe_d_i64 c : 0 <= c -> safe c d_i64.
Proof.
  intros Hc b. unfold safe_at, d_i64, of_read. pose proof (blen_nonneg b).
  destruct (read_i64 b) as [[x r]|] eqn:E; simpl; [apply read_i64_len in E|]; nia.
Qed.

Lemma safe_read_string c : 1 <= c -> safe c (read_string true).
Proof.
  intros Hc b. unfold safe_at, read_string. pose proof (blen_nonneg b).
  destruct (read_i16 b) as [[n r]|] eqn:E; simpl; [|nia].
  apply read_i16_len in E. pose proof (blen_nonneg r).
  destruct (n =? -1); simpl; [nia|].
  destruct (n <? 0) eqn:E1; simpl; [nia|].
  destruct (blen r <? n) eqn:E2; simpl; [nia|].
  apply Z.ltb_ge in E1, E2.
  destruct (take_drop_len n r) as [H1 H2]; [lia|]. rewrite H1. nia.
Qed.

Lemma next_spec n b : 0 < n ->
  exists d r, next n b = DOk d r [] /\ blen d + blen r = blen b /\ blen d <= n /\ b = d ++ r.
Proof.
  intros Hn. unfold next. destruct (blen b <=? n) eqn:E.
  - exists b, []. apply Z.leb_le in E. rewrite app_nil_r. unfold blen at 2. simpl. repeat split; lia.
  - apply Z.leb_gt in E. exists (take n b), (drop n b).
    destruct (take_drop_len n b) as [H1 H2]; [lia|]. repeat split; try lia.
    unfold take, drop. symmetry. apply firstn_skipn.
Qed.

Lemma safe_skip_pos c n : 0 <= c -> safe c (skip_pos n).
Proof.
  intros Hc b. unfold safe_at, skip_pos. pose proof (blen_nonneg b).
  destruct (n >? 0) eqn:E; simpl; [|nia].
  destruct (next_spec n b) as (d & r & H1 & H2 & H3 & _); [lia|]. rewrite H1. simpl.
  pose proof (blen_nonneg d). nia.
Qed.

(* the partition loop: never allocates, never runs out of fuel when started with fuel > length *)
Lemma parts_loop_safe c : 0 <= c -> forall fuel count b, (length b < fuel)%nat ->
  safe_at c (parts_loop fuel count) b.
Proof.
  intros Hc. induction fuel; intros count b Hf; [lia|].
  unfold safe_at. cbn [parts_loop]. destruct (count <=? 0); [simpl; lia|].
  change (safe_at c (p <- d_i32 ;; ps <- parts_loop fuel (count - 1) ;; ret (p :: ps)) b).
  apply safe_at_bind; auto. { apply safe_d_i32; auto. }
  intros p r al E. apply safe_at_bind; auto.
  - apply IHfuel. unfold d_i32, of_read in E. destruct (read_i32 b) as [[x r']|] eqn:E'; [|discriminate].
    inversion E; subst. apply read_i32_len in E'. unfold blen in E'. lia.
  - intros. apply safe_ret; auto.
Qed.

(* with the count checked against the bytes left, the loop cannot fail: the slice is filled completely *)
Lemma parts_loop_enough : forall fuel count b, (length b < fuel)%nat -> 0 <= count -> 4 * count <= blen b ->
  exists ps r, parts_loop fuel count b = DOk ps r [] /\ blen r = blen b - 4 * count /\ blen ps = count.
Proof.
  induction fuel; intros count b Hf Hc Hb; [lia|].
  cbn [parts_loop]. destruct (count <=? 0) eqn:E.
  - apply Z.leb_le in E. assert (count = 0) by lia. subst. exists [], b. repeat split; try lia.
  - apply Z.leb_gt in E. destruct (read_i32_some b) as (x & r & Hr); [lia|].
    pose proof (read_i32_len _ _ _ Hr) as Hl.
    destruct (IHfuel (count - 1) r) as (ps & r' & H1 & H2 & H3); try (unfold blen in *; lia).
    exists (x :: ps), r'. unfold bind, d_i32, of_read, ret. rewrite Hr, H1. cbv beta iota. simpl app.
    repeat split; try lia. rewrite blen_cons. lia.
Qed.

Lemma safe_parts_block c np : 1 <= c -> safe c (parts_block true np).
Proof.
  intros Hc b. unfold safe_at, parts_block, bind, make_parts. pose proof (blen_nonneg b).
  destruct (np <? 0) eqn:E1; cbn [orb]; [simpl; nia|].
  destruct (blen b / 4 <? np) eqn:E2; cbv beta iota; [simpl; nia|].
  apply Z.ltb_ge in E1, E2.
  assert (4 * np <= blen b).
  { pose proof (Z.mul_div_le (blen b) 4). lia. }
  destruct (parts_loop_enough (S (length b)) np b) as (ps & r & H1 & H2 & H3); try lia.
  rewrite H1. cbn [app sumz]. nia.
Qed.

Lemma read_string_consumes b s r al : read_string true b = DOk s r al -> blen r + 2 <= blen b.
Proof.
  unfold read_string. destruct (read_i16 b) as [[n r0]|] eqn:E; [|discriminate].
  apply read_i16_len in E.
  destruct (n =? -1). { intros H; inversion H; subst. lia. }
  destruct (n <? 0) eqn:E1; simpl; [discriminate|].
  destruct (blen r0 <? n) eqn:E2; simpl; [discriminate|].
  apply Z.ltb_ge in E1, E2. intros H; inversion H; subst.
  destruct (take_drop_len n r0) as [H1 H2]; lia.
Qed.

Lemma topics_loop_safe c : 1 <= c -> forall fuel count m b, (length b < fuel)%nat ->
  safe_at c (topics_loop true fuel count m) b.
Proof.
  intros Hc. induction fuel; intros count m b Hf; [lia|].
  unfold safe_at. cbn [topics_loop]. destruct (count <=? 0); [simpl; lia|].
  change (safe_at c (name <- read_string true ;; np <- d_i32 ;; ps <- parts_block true np ;;
                     topics_loop true fuel (count - 1) (amap_set name ps m)) b).
  apply safe_at_bind; try lia. { apply safe_read_string; auto. }
  intros name r1 al1 E1. apply read_string_consumes in E1.
  apply safe_at_bind; try lia. { apply safe_d_i32; lia. }
  intros np r2 al2 E2. apply (safe_ok_len c) in E2; [|apply safe_d_i32; lia].
  apply safe_at_bind; try lia. { apply safe_parts_block; auto. }
  intros ps r3 al3 E3. apply (safe_ok_len c) in E3; [|apply safe_parts_block; auto].
  apply IHfuel. unfold blen in *. lia.
Qed.

(* decodeMemberAssignmentV0: nothing is allocated on the strength of the topic count; strings and partition slices are
   paid for by the bytes they consume *)
Lemma safe_decode_assignment : safe 1 (decode_assignment true).
Proof.
  unfold decode_assignment.
  apply safe_bind; try lia. { apply safe_d_i32; lia. } intros nt.
  apply safe_bind; try lia.
  { intros b. unfold safe_at, make_topics. pose proof (blen_nonneg b). destruct (nt <? -1); cbn [sumz]; lia. } intros _.
  apply safe_bind; try lia. { intros b. apply topics_loop_safe; lia. } intros m.
  apply safe_bind; try lia. { apply safe_d_i32; lia. } intros ud.
  apply safe_bind; try lia. { apply safe_skip_pos; lia. } intros _.
  apply safe_ret; lia.
Qed.

Lemma safe_decode_assignment_bytes ab : 0 < ab -> safe 1 (decode_assignment_bytes true ab).
Proof.
  intros Hab b. unfold safe_at, decode_assignment_bytes.
  destruct (next_spec ab b) as (d & r & H1 & H2 & H3 & _); auto. rewrite H1.
  pose proof (blen_nonneg d). pose proof (blen_nonneg r).
  unfold bind at 1. unfold d_i16 at 1, of_read.
  destruct (read_i16 d) as [[ver d1]|] eqn:E; [|cbn [sumz]; lia].
  apply read_i16_len in E.
  destruct (ver <? 0); [unfold fail; cbn [sumz app]; lia|].
  pose proof (safe_decode_assignment d1) as T. unfold safe_at in T.
  pose proof (blen_nonneg d1).
  destruct (decode_assignment true d1) as [m r' al|al|w]; cbn [app]; auto; [pose proof (blen_nonneg r')|]; lia.
Qed.

Lemma safe_decode_member vv : safe 1 (decode_member true vv).
Proof.
  unfold decode_member.
  apply safe_bind; try lia. { apply safe_read_string; lia. } intros _.
  apply safe_bind; try lia.
  { destruct (vv =? 3); [apply safe_read_string; lia | apply safe_ret; lia]. } intros _.
  apply safe_bind; try lia. { apply safe_read_string; lia. } intros cid.
  apply safe_bind; try lia. { apply safe_read_string; lia. } intros host.
  apply safe_bind; try lia.
  { destruct (vv >=? 1); [apply safe_d_i32; lia | apply safe_ret; lia]. } intros _.
  apply safe_bind; try lia. { apply safe_d_i32; lia. } intros _.
  apply safe_bind; try lia. { apply safe_d_i32; lia. } intros sb.
  apply safe_bind; try lia. { apply safe_skip_pos; lia. } intros _.
  apply safe_bind; try lia. { apply safe_d_i32; lia. } intros ab.
  apply safe_bind; try lia.
  { destruct (ab >? 0) eqn:E; [apply safe_decode_assignment_bytes; lia | apply safe_ret; lia]. }
  intros. apply safe_ret; lia.
Qed.

Lemma bind_ok_inv {A B} (m : dec A) (f : A -> dec B) b x r al :
  bind m f b = DOk x r al ->
  exists a r1 al1 al2, m b = DOk a r1 al1 /\ f a r1 = DOk x r al2 /\ al = al1 ++ al2.
Proof.
  unfold bind. destruct (m b) as [a r1 al1|al1|w]; try discriminate.
  destruct (f a r1) as [x' r' al2|al2|w] eqn:E; try discriminate.
  intros H; inversion H; subst. eauto 8.
Qed.

Lemma decode_member_consumes vv b m r al : decode_member true vv b = DOk m r al -> blen r + 2 <= blen b.
Proof.
  unfold decode_member. intros H. apply bind_ok_inv in H. destruct H as (a & r1 & al1 & al2 & H1 & H2 & _).
  apply read_string_consumes in H1.
  match type of H2 with ?d r1 = _ => assert (S : safe 1 d) end.
  { pose proof (safe_decode_member vv) as Sm. unfold decode_member in Sm.
    (* the tail of the member decoder is safe: same proof as above without the first step *)
    apply safe_bind; try lia.
    { destruct (vv =? 3); [apply safe_read_string; lia | apply safe_ret; lia]. } intros _.
    apply safe_bind; try lia. { apply safe_read_string; lia. } intros cid.
    apply safe_bind; try lia. { apply safe_read_string; lia. } intros host.
    apply safe_bind; try lia.
    { destruct (vv >=? 1); [apply safe_d_i32; lia | apply safe_ret; lia]. } intros _.
    apply safe_bind; try lia. { apply safe_d_i32; lia. } intros _.
    apply safe_bind; try lia. { apply safe_d_i32; lia. } intros sb.
    apply safe_bind; try lia. { apply safe_skip_pos; lia. } intros _.
    apply safe_bind; try lia. { apply safe_d_i32; lia. } intros ab.
    apply safe_bind; try lia.
    { destruct (ab >? 0) eqn:E; [apply safe_decode_assignment_bytes; lia | apply safe_ret; lia]. }
    intros. apply safe_ret; lia. }
  apply (safe_ok_len 1) in H2; auto. lia.
Qed.

Definition osafe (bound : Z) (o : outcome) : Prop :=
  match o with Crash _ => False | Done _ al => 0 <= sumz al <= bound end.

Lemma members_loop_safe vv g : forall fuel count b, (length b < fuel)%nat ->
  osafe (blen b) (members_loop true vv g fuel count b).
Proof.
  induction fuel; intros count b Hf; [lia|].
  cbn [members_loop]. pose proof (blen_nonneg b).
  destruct (count <=? 0); [cbn [osafe sumz]; lia|].
  pose proof (safe_decode_member vv b) as S. unfold safe_at in S.
  destruct (decode_member true vv b) as [m r al|al|w] eqn:E; auto; try (cbn [osafe]; lia).
  - apply decode_member_consumes in E.
    specialize (IHfuel (count - 1) r). unfold osafe in *.
    destruct (members_loop true vv g fuel (count - 1) r) as [w|rs al'].
    + apply IHfuel. unfold blen in *. lia.
    + rewrite sumz_app. assert (0 <= sumz al' <= blen r) by (apply IHfuel; unfold blen in *; lia). lia.
Qed.

Lemma safe_decode_meta_header vv : safe 1 (decode_meta_header true vv).
Proof.
  unfold decode_meta_header.
  apply safe_bind; try lia. { apply safe_read_string; lia. } intros pt.
  apply safe_bind; try lia. { apply safe_d_i32; lia. } intros _.
  apply safe_bind; try lia. { apply safe_read_string; lia. } intros _.
  apply safe_bind; try lia. { apply safe_read_string; lia. } intros _.
  destruct (vv >=? 2).
  - apply safe_bind; try lia. { apply safe_d_i64; lia. } intros. apply safe_ret; lia.
  - apply safe_ret; lia.
Qed.

Lemma decode_and_send_metadata_safe vv g vr :
  osafe (blen vr) (decode_and_send_metadata true vv g vr).
Proof.
  unfold decode_and_send_metadata. pose proof (blen_nonneg vr).
  pose proof (safe_decode_meta_header vv vr) as Sf. unfold safe_at in Sf.
  destruct (decode_meta_header true vv vr) as [pt r al|al|w]; auto; [|cbn [osafe]; lia].
  pose proof (blen_nonneg r).
  destruct (negb (bytes_eqb pt str_consumer)); [cbn [osafe]; lia|].
  destruct (read_i32 r) as [[mc r']|] eqn:E; [|cbn [osafe]; lia].
  apply read_i32_len in E. pose proof (blen_nonneg r').
  destruct (mc =? 0); [cbn [osafe]; lia|].
  pose proof (members_loop_safe vv g (S (length r')) mc r') as L.
  destruct (members_loop true vv g (S (length r')) mc r') as [w|rs al']; cbn [add_allocs osafe] in *.
  - apply L. lia.
  - rewrite sumz_app. assert (0 <= sumz al' <= blen r') by (apply L; lia). lia.
Qed.

Lemma decode_group_metadata_safe macc accept kr value :
  osafe (blen kr + blen value) (decode_group_metadata true macc accept kr value).
Proof.
  unfold decode_group_metadata. pose proof (blen_nonneg kr). pose proof (blen_nonneg value).
  pose proof (safe_read_string 1 (Z.le_refl 1) kr) as Sf. unfold safe_at in Sf.
  destruct (read_string true kr) as [g r al|al|w]; auto; [|cbn [osafe]; lia].
  pose proof (blen_nonneg r).
  destruct (macc && negb (accept g)); [cbn [osafe]; lia|].
  destruct value as [|v0 value']; [cbn [osafe]; lia|].
  set (value := v0 :: value') in *.
  destruct (read_i16 value) as [[vv vr]|] eqn:E; [|cbn [osafe]; lia].
  apply read_i16_len in E. pose proof (blen_nonneg vr).
  destruct ((0 <=? vv) && (vv <=? 3)); [|cbn [osafe]; lia].
  pose proof (decode_and_send_metadata_safe vv g vr) as L.
  destruct (decode_and_send_metadata true vv g vr) as [w|rs al']; cbn [add_allocs osafe] in *; auto.
  rewrite sumz_app. lia.
Qed.

Lemma safe_decode_offset_key : safe 1 (decode_offset_key true).
Proof.
  unfold decode_offset_key.
  apply safe_bind; try lia. { apply safe_read_string; lia. } intros g.
  apply safe_bind; try lia. { apply safe_read_string; lia. } intros t.
  apply safe_bind; try lia. { apply safe_d_i32; lia. } intros p.
  apply safe_ret; lia.
Qed.
Lemma safe_decode_offset_value_v0 : safe 1 (decode_offset_value_v0 true).
Proof.
  unfold decode_offset_value_v0.
  apply safe_bind; try lia. { apply safe_d_i64; lia. } intros off.
  apply safe_bind; try lia. { apply safe_read_string; lia. } intros _.
  apply safe_bind; try lia. { apply safe_d_i64; lia. } intros ts.
  apply safe_ret; lia.
Qed.
Lemma safe_decode_offset_value_v3 : safe 1 (decode_offset_value_v3 true).
Proof.
  unfold decode_offset_value_v3.
  apply safe_bind; try lia. { apply safe_d_i64; lia. } intros off.
  apply safe_bind; try lia. { apply safe_d_i32; lia. } intros _.
  apply safe_bind; try lia. { apply safe_read_string; lia. } intros _.
  apply safe_bind; try lia. { apply safe_d_i64; lia. } intros ts.
  apply safe_ret; lia.
Qed.

Lemma send_offset_safe g t p o al d vr bound :
  safe 1 d -> 0 <= sumz al -> sumz al + blen vr <= bound ->
  osafe bound (send_offset g t p o al (d vr)).
Proof.
  intros Sf Ha Hb. specialize (Sf vr). unfold safe_at in Sf. unfold send_offset.
  pose proof (blen_nonneg vr).
  destruct (d vr) as [[off ts] r al'|al'|w]; auto; cbn [osafe]; rewrite sumz_app;
    [pose proof (blen_nonneg r)|]; lia.
Qed.

Lemma decode_key_and_offset_safe accept kr value o :
  osafe (blen kr + blen value) (decode_key_and_offset true accept kr value o).
Proof.
  unfold decode_key_and_offset. pose proof (blen_nonneg kr). pose proof (blen_nonneg value).
  pose proof (safe_decode_offset_key kr) as Sf. unfold safe_at in Sf.
  destruct (decode_offset_key true kr) as [[[g t] p] r al|al|w]; auto; [|cbn [osafe]; lia].
  pose proof (blen_nonneg r).
  destruct (negb (accept g)); [cbn [osafe]; lia|].
  destruct value as [|v0 value']; [cbn [osafe]; lia|].
  set (value := v0 :: value') in *.
  destruct (read_i16 value) as [[vv vr]|] eqn:E; [|cbn [osafe]; lia].
  apply read_i16_len in E. pose proof (blen_nonneg vr).
  destruct ((vv =? 0) || (vv =? 1)).
  { apply send_offset_safe; try lia. apply safe_decode_offset_value_v0. }
  destruct (vv =? 3); [|cbn [osafe]; lia].
  apply send_offset_safe; try lia. apply safe_decode_offset_value_v3.
Qed.

Lemma osafe_mono b b' o : b <= b' -> osafe b o -> osafe b' o.
Proof. unfold osafe. destruct o; auto. lia. Qed.

Lemma process_safe accept key value o :
  osafe (blen key + blen value) (process_message accept key value o).
Proof.
  unfold process_message, process_message_gen.
  pose proof (blen_nonneg key). pose proof (blen_nonneg value).
  destruct (read_i16 key) as [[kv kr]|] eqn:E; [|cbn [osafe sumz]; lia].
  apply read_i16_len in E. pose proof (blen_nonneg kr).
  destruct ((kv =? 0) || (kv =? 1)).
  { eapply osafe_mono; [|apply decode_key_and_offset_safe]. lia. }
  destruct (kv =? 2); [|cbn [osafe sumz]; lia].
  eapply osafe_mono; [|apply decode_group_metadata_safe]. lia.
Qed.

(* ------------------------------------------------------------------------------------------ *)
(* C06                                                                                         *)
(* ------------------------------------------------------------------------------------------ *)

(* For every key and value (any lists of integers, in particular any bytes), every allow/deny decision
   and every message offset, processing finishes without a panic and without running out of fuel. *)
Theorem process_never_crashes : forall (accept : list Z -> bool) (key value : list Z) (o : Z),
  exists rs al, process_message accept key value o = Done rs al.
Proof.
  intros. pose proof (process_safe accept key value o) as Sf.
  destruct (process_message accept key value o) as [w|rs al]; [destruct Sf | eauto].
Qed.

(* The sizes handed to make / to the string conversion, in bytes (strings n, partition slices 4n), add up to at most the
   message size: every one of them is paid for by bytes that are present and consumed.  Nothing is allocated on the
   strength of a number in the message alone. *)
Theorem process_alloc_bounded : forall (accept : list Z -> bool) (key value : list Z) (o : Z) rs al,
  process_message accept key value o = Done rs al ->
  0 <= sumz al <= blen key + blen value.
Proof.
  intros. pose proof (process_safe accept key value o) as Sf. rewrite H in Sf. exact Sf.
Qed.

Definition is_commit_key (key : list Z) : Prop :=
  exists kv kr, read_i16 key = Some (kv, kr) /\ (kv = 0 \/ kv = 1).

Theorem commit_alloc_bounded : forall (accept : list Z -> bool) (key value : list Z) (o : Z) rs al,
  is_commit_key key ->
  process_message accept key value o = Done rs al ->
  0 <= sumz al <= blen key + blen value.
Proof.
  intros accept key value o rs al (kv & kr & E & Hkv) H.
  unfold process_message, process_message_gen in H. rewrite E in H.
  replace ((kv =? 0) || (kv =? 1)) with true in H by (destruct Hkv; subst; reflexivity).
  pose proof (decode_key_and_offset_safe accept kr value o) as Sf. rewrite H in Sf.
  apply read_i16_len in E. cbn [osafe] in Sf. lia.
Qed.

(* ------------------------------------------------------------------------------------------ *)
(* D. decoders on encoded values                                                               *)
(* ------------------------------------------------------------------------------------------ *)

Lemma bind_ok {A B} (m : dec A) (f : A -> dec B) b a r al :
  m b = DOk a r al ->
  bind m f b = match f a r with
               | DOk x r' al' => DOk x r' (al ++ al')
               | DErr al' => DErr (al ++ al')
               | DCrash w => DCrash w
               end.
Proof. unfold bind. intros ->. reflexivity. Qed.

(* m b = DOk a r al and the continuation succeeds: the usual case in the round trips *)
Lemma bind_ok2 {A B} (m : dec A) (f : A -> dec B) b a r al x r' al' :
  m b = DOk a r al -> f a r = DOk x r' al' -> bind m f b = DOk x r' (al ++ al').
Proof. intros H1 H2. rewrite (bind_ok _ _ _ _ _ _ H1), H2. reflexivity. Qed.

Lemma d_i16_enc x r : in_i16 x -> d_i16 (enc_i16 x ++ r) = DOk x r [].
Proof. intros. unfold d_i16, of_read. rewrite read_i16_enc; auto. Qed.
Lemma d_i32_enc x r : in_i32 x -> d_i32 (enc_i32 x ++ r) = DOk x r [].
Proof. intros. unfold d_i32, of_read. rewrite read_i32_enc; auto. Qed.
Lemma d_i64_enc x r : in_i64 x -> d_i64 (enc_i64 x ++ r) = DOk x r [].
Proof. intros. unfold d_i64, of_read. rewrite read_i64_enc; auto. Qed.

Definition str_ok (s : option (list Z)) : Prop :=
  match s with None => True | Some b => blen b <= 32767 end.
Definition str_al (s : option (list Z)) : list Z :=
  match s with None => [] | Some b => [blen b] end.

Lemma take_app (d r : list Z) : take (blen d) (d ++ r) = d.
Proof. unfold take, blen. rewrite Nat2Z.id, firstn_app, Nat.sub_diag, firstn_all. simpl. apply app_nil_r. Qed.
Lemma drop_app (d r : list Z) : drop (blen d) (d ++ r) = r.
Proof. unfold drop, blen. rewrite Nat2Z.id, skipn_app, Nat.sub_diag, skipn_all. reflexivity. Qed.

Lemma read_string_enc s r : str_ok s ->
  read_string true (enc_string s ++ r) = DOk (str_val s) r (str_al s).
Proof.
  intros Hs. unfold read_string, enc_string. destruct s as [b|]; cbn [str_val str_al].
  - cbn [str_ok] in Hs. pose proof (blen_nonneg b). rewrite <- app_assoc.
    rewrite read_i16_enc by (unfold in_i16; lia).
    replace (blen b =? -1) with false by (symmetry; apply Z.eqb_neq; lia).
    replace (blen b <? 0) with false by (symmetry; apply Z.ltb_ge; lia).
    replace (blen (b ++ r) <? blen b) with false
      by (symmetry; apply Z.ltb_ge; rewrite blen_app; pose proof (blen_nonneg r); lia).
    cbn [orb]. rewrite take_app, drop_app. reflexivity.
  - rewrite read_i16_enc by (unfold in_i16; lia). reflexivity.
Qed.

Lemma next_app (d r : list Z) : 0 < blen d -> next (blen d) (d ++ r) = DOk d r [].
Proof.
  intros. unfold next. destruct (blen (d ++ r) <=? blen d) eqn:E.
  - apply Z.leb_le in E. rewrite blen_app in E. pose proof (blen_nonneg r).
    assert (blen r = 0) by lia. destruct r; [|rewrite blen_cons in *; pose proof (blen_nonneg r); lia].
    rewrite app_nil_r. reflexivity.
  - rewrite take_app, drop_app. reflexivity.
Qed.

Lemma skip_pos_app (d r : list Z) : skip_pos (blen d) (d ++ r) = DOk tt r [].
Proof.
  unfold skip_pos. destruct (blen d >? 0) eqn:E.
  - rewrite next_app by lia. reflexivity.
  - destruct d; [reflexivity|]. rewrite blen_cons in E. pose proof (blen_nonneg d). lia.
Qed.

Definition bytes_ok32 (s : option (list Z)) : Prop :=
  match s with None => True | Some b => blen b < two31 end.

Ltac step tac := erewrite bind_ok by tac; cbv beta iota.

(* an int32-length bytes field that the decoder only skips *)
Lemma skip_bytes_enc s r : bytes_ok32 s ->
  (n <- d_i32 ;; skip_pos n) (enc_bytes s ++ r) = DOk tt r [].
Proof.
  intros Hs. unfold enc_bytes. destruct s as [b|]; cbn [bytes_ok32] in Hs.
  - pose proof (blen_nonneg b). rewrite <- app_assoc.
    step ltac:(apply d_i32_enc; unfold in_i32, two31 in *; lia).
    rewrite skip_pos_app. reflexivity.
  - step ltac:(apply d_i32_enc; unfold in_i32, two31; lia). reflexivity.
Qed.

Lemma decode_offset_key_enc g t p r : str_ok g -> str_ok t -> in_i32 p ->
  exists al, decode_offset_key true (enc_string g ++ enc_string t ++ enc_i32 p ++ r)
             = DOk (str_val g, str_val t, p) r al.
Proof.
  intros. unfold decode_offset_key.
  step ltac:(apply read_string_enc; auto).
  step ltac:(apply read_string_enc; auto).
  step ltac:(apply d_i32_enc; auto).
  unfold ret. eauto.
Qed.

Lemma decode_offset_value_v0_enc off md ts r : in_i64 off -> str_ok md -> in_i64 ts ->
  exists al, decode_offset_value_v0 true (enc_i64 off ++ enc_string md ++ enc_i64 ts ++ r)
             = DOk (off, ts) r al.
Proof.
  intros. unfold decode_offset_value_v0.
  step ltac:(apply d_i64_enc; auto).
  step ltac:(apply read_string_enc; auto).
  step ltac:(apply d_i64_enc; auto).
  unfold ret. eauto.
Qed.

Lemma decode_offset_value_v3_enc off ep md ts r : in_i64 off -> in_i32 ep -> str_ok md -> in_i64 ts ->
  exists al, decode_offset_value_v3 true (enc_i64 off ++ enc_i32 ep ++ enc_string md ++ enc_i64 ts ++ r)
             = DOk (off, ts) r al.
Proof.
  intros. unfold decode_offset_value_v3.
  step ltac:(apply d_i64_enc; auto).
  step ltac:(apply d_i32_enc; auto).
  step ltac:(apply read_string_enc; auto).
  step ltac:(apply d_i64_enc; auto).
  unfold ret. eauto.
Qed.

(* ------------------------------------------------------------------------------------------ *)
(* C07: offset commits                                                                         *)
(* ------------------------------------------------------------------------------------------ *)

Definition offset_value_ok (v : offset_value) : Prop :=
  in_i64 (ov_offset v) /\ in_i32 (ov_leader_epoch v) /\ str_ok (ov_metadata v)
  /\ in_i64 (ov_commit_ts v) /\ in_i64 (ov_expire_ts v).

Lemma enc_i16_cons x r : exists a b, enc_i16 x ++ r = a :: b :: r.
Proof. unfold enc_i16. cbn [enc_be app]. eauto. Qed.

(* For every well-formed offset commit - key version 0 or 1, value version 0, 1 or 3, any (possibly null or
   empty) group, topic and metadata strings of encodable length, any int32 partition and leader epoch, any int64
   offset and timestamps - exactly one consumer-offset update is produced, carrying the message's group, topic,
   partition, offset and commit timestamp and ordered by the message's own position o in the offsets log, when
   the reader's lists accept the group; nothing when they reject it. *)
Theorem offset_roundtrip : forall (accept : list Z -> bool) kv vv g t p v o,
  (kv = 0 \/ kv = 1) -> (vv = 0 \/ vv = 1 \/ vv = 3) ->
  str_ok g -> str_ok t -> in_i32 p -> offset_value_ok v ->
  exists al,
    process_message accept (enc_offset_key kv g t p) (enc_offset_value vv v) o
    = Done (if accept (str_val g)
            then [SetConsumerOffset (str_val g) (str_val t) p (ov_offset v) (ov_commit_ts v) o]
            else []) al.
Proof.
  intros accept kv vv g t p v o Hkv Hvv Hg Ht Hp (Ho & He & Hm & Hts & Hex).
  unfold process_message, process_message_gen, enc_offset_key.
  rewrite read_i16_enc by (unfold in_i16; lia).
  replace ((kv =? 0) || (kv =? 1)) with true by (destruct Hkv; subst; reflexivity).
  unfold decode_key_and_offset.
  rewrite <- (app_nil_r (enc_i32 p)).
  destruct (decode_offset_key_enc g t p [] Hg Ht Hp) as (al0 & ->).
  destruct (accept (str_val g)); cbn [negb]; [|eauto].
  unfold enc_offset_value.
  match goal with |- context [enc_i16 vv ++ ?x] =>
    destruct (enc_i16_cons vv x) as (a & b & Ev); set (rest := x) in * end.
  assert (Hr : read_i16 (enc_i16 vv ++ rest) = Some (vv, rest)) by (apply read_i16_enc; unfold in_i16; lia).
  rewrite Ev in *. rewrite Hr. subst rest.
  destruct Hvv as [-> | [-> | ->]]; cbn [Z.eqb orb Pos.eqb app].
  - destruct (decode_offset_value_v0_enc (ov_offset v) (ov_metadata v) (ov_commit_ts v) []) as (al1 & ->); auto.
    cbn [send_offset]. eauto.
  - destruct (decode_offset_value_v0_enc (ov_offset v) (ov_metadata v) (ov_commit_ts v)
                                         (enc_i64 (ov_expire_ts v))) as (al1 & ->); auto.
    cbn [send_offset]. eauto.
  - destruct (decode_offset_value_v3_enc (ov_offset v) (ov_leader_epoch v) (ov_metadata v) (ov_commit_ts v) [])
      as (al1 & ->); auto.
    cbn [send_offset]. eauto.
Qed.

Example offset_roundtrip_example :
  process_message (fun _ => true) (enc_offset_key 1 (Some [103]) None (-1))
                  (enc_offset_value 3 (mkOV (-9223372036854775808) (-1) None 9223372036854775807 0)) 42
  = Done [SetConsumerOffset [103] [] (-1) (-9223372036854775808) 9223372036854775807 42] [1].
Proof. vm_compute. reflexivity. Qed.

(* an offset tombstone (empty value) yields nothing *)
Theorem offset_tombstone : forall (accept : list Z -> bool) kv g t p o,
  (kv = 0 \/ kv = 1) -> str_ok g -> str_ok t -> in_i32 p ->
  exists al, process_message accept (enc_offset_key kv g t p) [] o = Done [] al.
Proof.
  intros accept kv g t p o Hkv Hg Ht Hp.
  unfold process_message, process_message_gen, enc_offset_key.
  rewrite read_i16_enc by (unfold in_i16; lia).
  replace ((kv =? 0) || (kv =? 1)) with true by (destruct Hkv; subst; reflexivity).
  unfold decode_key_and_offset.
  rewrite <- (app_nil_r (enc_i32 p)).
  destruct (decode_offset_key_enc g t p [] Hg Ht Hp) as (al0 & ->).
  destruct (negb (accept (str_val g))); eauto.
Qed.

(* ------------------------------------------------------------------------------------------ *)
(* C10, reader half: the allow/deny decision governs every request, on both paths              *)
(* ------------------------------------------------------------------------------------------ *)

Definition oall (P : request -> Prop) (o : outcome) : Prop :=
  match o with Crash _ => True | Done rs _ => Forall P rs end.

Lemma member_requests_group g m : Forall (fun r => req_group r = g) (member_requests g m).
Proof.
  unfold member_requests. apply Forall_forall. intros r Hr.
  apply in_flat_map in Hr. destruct Hr as (tp & _ & Hr). apply in_map_iff in Hr.
  destruct Hr as (p & <- & _). reflexivity.
Qed.

Lemma members_loop_group bd vv g : forall fuel count b,
  oall (fun r => req_group r = g) (members_loop bd vv g fuel count b).
Proof.
  induction fuel; intros count b; cbn [members_loop].
  - destruct (count <=? 0); cbn [oall]; auto.
  - destruct (count <=? 0); [cbn [oall]; auto|].
    destruct (decode_member bd vv b) as [m r al|al|w]; cbn [oall]; auto.
    specialize (IHfuel (count - 1) r).
    destruct (members_loop bd vv g fuel (count - 1) r); cbn [oall] in *; auto.
    apply Forall_app. split; auto. apply member_requests_group.
Qed.

Lemma decode_and_send_metadata_group bd vv g vr :
  oall (fun r => req_group r = g) (decode_and_send_metadata bd vv g vr).
Proof.
  unfold decode_and_send_metadata.
  destruct (decode_meta_header bd vv vr) as [pt r al|al|w]; cbn [oall]; auto.
  destruct (negb (bytes_eqb pt str_consumer)); cbn [oall]; auto.
  destruct (read_i32 r) as [[mc r']|]; cbn [oall]; auto.
  destruct (mc =? 0); cbn [oall]; auto.
  pose proof (members_loop_group bd vv g (S (length r')) mc r') as L.
  destruct (members_loop bd vv g (S (length r')) mc r'); cbn [add_allocs oall] in *; auto.
Qed.

Lemma oall_impl (P Q : request -> Prop) o : (forall r, P r -> Q r) -> oall P o -> oall Q o.
Proof. destruct o; cbn [oall]; auto. intros H. apply Forall_impl. exact H. Qed.

Lemma decode_group_metadata_accepted bd accept kr value :
  oall (fun r => accept (req_group r) = true) (decode_group_metadata bd true accept kr value).
Proof.
  unfold decode_group_metadata.
  destruct (read_string bd kr) as [g r al|al|w]; cbn [oall]; auto.
  destruct (accept g) eqn:Ea; cbn [andb negb oall]; auto.
  destruct value as [|v0 value']; [cbn [oall]; auto|].
  destruct (read_i16 (v0 :: value')) as [[vv vr]|]; cbn [oall]; auto.
  destruct ((0 <=? vv) && (vv <=? 3)); cbn [oall]; auto.
  pose proof (decode_and_send_metadata_group bd vv g vr) as L.
  destruct (decode_and_send_metadata bd vv g vr); cbn [add_allocs oall] in *; auto.
  eapply Forall_impl; [|exact L]. cbn beta. intros rq ->. exact Ea.
Qed.

Lemma send_offset_all (P : request -> Prop) g t p o al d :
  (forall off ts, P (SetConsumerOffset g t p off ts o)) -> oall P (send_offset g t p o al d).
Proof. intros H. unfold send_offset. destruct d as [[off ts] r al'|al'|w]; cbn [oall]; auto. Qed.

Lemma decode_key_and_offset_accepted bd accept kr value o :
  oall (fun r => accept (req_group r) = true) (decode_key_and_offset bd accept kr value o).
Proof.
  unfold decode_key_and_offset.
  destruct (decode_offset_key bd kr) as [[[g t] p] r al|al|w]; cbn [oall]; auto.
  destruct (accept g) eqn:Ea; cbn [negb oall]; auto.
  destruct value as [|v0 value']; [cbn [oall]; auto|].
  destruct (read_i16 (v0 :: value')) as [[vv vr]|]; cbn [oall]; auto.
  destruct ((vv =? 0) || (vv =? 1)). { apply send_offset_all. intros. exact Ea. }
  destruct (vv =? 3); [|cbn [oall]; auto]. apply send_offset_all. intros. exact Ea.
Qed.

(* Whatever the bytes: every request the reader forwards - offset update, owner update, owner clear, group
   delete - is for a group that the module's lists accept.  Hence nothing at all for a rejected group. *)
Theorem reader_rejected_silent : forall (accept : list Z -> bool) key value o rs al,
  process_message accept key value o = Done rs al ->
  Forall (fun r => accept (req_group r) = true) rs.
Proof.
  intros accept key value o rs al H.
  assert (L : oall (fun r => accept (req_group r) = true) (process_message accept key value o)).
  { unfold process_message, process_message_gen.
    destruct (read_i16 key) as [[kv kr]|]; [|cbn [oall]; auto].
    destruct ((kv =? 0) || (kv =? 1)). { apply decode_key_and_offset_accepted. }
    destruct (kv =? 2); [|cbn [oall]; auto]. apply decode_group_metadata_accepted. }
  rewrite H in L. exact L.
Qed.

Example reader_rejected_silent_example :
  process_message (fun g => negb (bytes_eqb g [116; 101; 115; 116; 103; 114; 111; 117; 112])) lit_mkey lit_mval1 0
  = Done [] [9].   (* with lists that accept the group: WireEnc.anchor_decode_metadata, one owner update *)
Proof. vm_compute. reflexivity. Qed.

(* The same, told from the key: a message whose key names a rejected group yields nothing ... *)
Theorem reader_rejected_nothing : forall (accept : list Z -> bool) key value o g,
  msg_group key = Some g -> accept g = false ->
  exists al, process_message accept key value o = Done [] al.
Proof.
  intros accept key value o g Hg Ha.
  unfold process_message, process_message_gen, msg_group in *.
  destruct (read_i16 key) as [[kv kr]|]; [|discriminate].
  destruct ((kv =? 0) || (kv =? 1)).
  - unfold decode_key_and_offset.
    destruct (decode_offset_key true kr) as [[[g' t] p] r al|al|w]; try discriminate.
    inversion Hg; subst. rewrite Ha. cbn [negb]. eauto.
  - destruct (kv =? 2); [|discriminate]. unfold decode_group_metadata.
    destruct (read_string true kr) as [g' r al|al|w]; try discriminate.
    inversion Hg; subst. rewrite Ha. cbn [negb andb]. eauto.
Qed.

(* ... a message whose key names no group yields nothing either ... *)
Theorem reader_no_group_nothing : forall (accept : list Z -> bool) key value o,
  msg_group key = None ->
  exists al, process_message accept key value o = Done [] al.
Proof.
  intros accept key value o Hg.
  pose proof (process_never_crashes accept key value o) as (rs & al & H).
  unfold process_message, process_message_gen, msg_group in *.
  destruct (read_i16 key) as [[kv kr]|]; [|eauto].
  destruct ((kv =? 0) || (kv =? 1)).
  - unfold decode_key_and_offset in *.
    destruct (decode_offset_key true kr) as [[[g' t] p] r al'|al'|w]; try discriminate; eauto.
  - destruct (kv =? 2); [|eauto]. unfold decode_group_metadata in *.
    destruct (read_string true kr) as [g' r al'|al'|w]; try discriminate; eauto.
Qed.

(* ... and a message for an accepted group is processed exactly as if no lists were configured. *)
Theorem reader_accepted_as_unfiltered : forall (accept : list Z -> bool) key value o g,
  msg_group key = Some g -> accept g = true ->
  process_message accept key value o = process_message (fun _ => true) key value o.
Proof.
  intros accept key value o g Hg Ha.
  unfold process_message, process_message_gen, msg_group in *.
  destruct (read_i16 key) as [[kv kr]|]; [|discriminate].
  destruct ((kv =? 0) || (kv =? 1)).
  - unfold decode_key_and_offset.
    destruct (decode_offset_key true kr) as [[[g' t] p] r al|al|w]; try discriminate.
    inversion Hg; subst. rewrite Ha. reflexivity.
  - destruct (kv =? 2); [|discriminate]. unfold decode_group_metadata.
    destruct (read_string true kr) as [g' r al|al|w]; try discriminate.
    inversion Hg; subst. rewrite Ha. reflexivity.
Qed.

(* Finding F2 on the model of the unrepaired tree: owner updates were forwarded for a rejected group. *)
Theorem reader_rejected_silent_unrepaired_refuted :
  exists (accept : list Z -> bool) key value o rs al,
    process_message_gen true false accept key value o = Done rs al /\
    ~ Forall (fun r => accept (req_group r) = true) rs.
Proof.
  exists (fun _ => false), lit_mkey, lit_mval1, 0.
  eexists. eexists. split; [vm_compute; reflexivity|].
  intros H. inversion H; subst. discriminate.
Qed.

(* Finding F1 on the model of the unrepaired tree: a string length below -1 panics in make, and a topic count
   from the wire is an allocation size. *)
Theorem process_crash_unrepaired_refuted :
  exists key value, process_message_unrepaired (fun _ => true) key value 0 = Crash MakeSliceLen.
Proof. exists [0; 0; 255; 254], []. vm_compute. reflexivity. Qed.

Theorem process_alloc_unrepaired_refuted :
  exists key value rs al,
    process_message_unrepaired (fun _ => true) key value 0 = Done rs al /\
    sumz al > 1000000 * (blen key + blen value).
Proof.
  (* metadata v0, protocol type "consumer", one member whose assignment announces 2^31-1 topics *)
  exists [0; 2; 0; 1; 103],
         ([0; 0; 0; 8; 99; 111; 110; 115; 117; 109; 101; 114; 0; 0; 0; 0; 255; 255; 255; 255; 0; 0; 0; 1]
          ++ [255; 255; 255; 255; 255; 255; 0; 0; 0; 0; 0; 0; 0; 0; 0; 0; 0; 6; 0; 0; 127; 255; 255; 255]).
  eexists. eexists. split; [vm_compute; reflexivity|]. vm_compute. reflexivity.
Qed.

(* ------------------------------------------------------------------------------------------ *)
(* C07: group metadata                                                                         *)
(* ------------------------------------------------------------------------------------------ *)

Lemma bytes_eqb_eq a : forall b, bytes_eqb a b = true <-> a = b.
Proof.
  induction a as [|x a IH]; intros [|y b]; cbn [bytes_eqb]; split; intros H; try discriminate; auto.
  - apply andb_true_iff in H. destruct H as [H1 H2]. apply Z.eqb_eq in H1. apply IH in H2. subst. reflexivity.
  - inversion H; subst. rewrite Z.eqb_refl. cbn [andb]. apply IH. reflexivity.
Qed.
Lemma bytes_eqb_neq a b : a <> b -> bytes_eqb a b = false.
Proof. intros H. destruct (bytes_eqb a b) eqn:E; auto. apply bytes_eqb_eq in E. contradiction. Qed.

Lemma amap_set_new k v m : ~ In k (map fst m) -> amap_set k v m = m ++ [(k, v)].
Proof.
  induction m as [|[k' v'] m IH]; cbn [amap_set map fst In app]; intros H; auto.
  rewrite bytes_eqb_neq by (intros ->; apply H; auto). rewrite IH; auto.
Qed.

Definition topic_ok (tp : option (list Z) * list Z) : Prop :=
  str_ok (fst tp) /\ blen (snd tp) < two31 /\ Forall in_i32 (snd tp).
Definition topic_name (tp : option (list Z) * list Z) : list Z := str_val (fst tp).
Definition topic_conv (tp : option (list Z) * list Z) : list Z * list Z := (str_val (fst tp), snd tp).

Definition asg_ok (a : assignment) : Prop :=
  0 <= a_version a < 32768 /\ blen (a_topics a) < two31 /\ Forall topic_ok (a_topics a)
  /\ NoDup (map topic_name (a_topics a)) /\ bytes_ok32 (a_userdata a)
  /\ blen (enc_assignment a) < two31.
Definition asg_field_ok (f : asg_field) : Prop := match f with Asg a => asg_ok a | _ => True end.

Definition member_ok (m : wmember) : Prop :=
  str_ok (wm_id m) /\ str_ok (wm_instance m) /\ str_ok (wm_client_id m) /\ str_ok (wm_host m)
  /\ in_i32 (wm_rebalance m) /\ in_i32 (wm_session m) /\ bytes_ok32 (wm_subscription m)
  /\ asg_field_ok (wm_assignment m).

Definition meta_ok (v : meta_value) : Prop :=
  str_ok (mv_ptype v) /\ in_i32 (mv_generation v) /\ str_ok (mv_protocol v) /\ str_ok (mv_leader v)
  /\ in_i64 (mv_state_ts v) /\ blen (mv_members v) < two31 /\ Forall member_ok (mv_members v).

Lemma enc_i32_length x : length (enc_i32 x) = 4%nat.
Proof. apply enc_be_length. Qed.
Lemma flat_enc_i32_blen ps : blen (flat_map enc_i32 ps) = 4 * blen ps.
Proof.
  induction ps; [reflexivity|]. cbn [flat_map]. rewrite blen_app, blen_cons, IHps.
  unfold blen at 1. rewrite enc_i32_length. lia.
Qed.

Lemma parts_loop_enc : forall ps fuel r, (length ps <= fuel)%nat -> Forall in_i32 ps ->
  parts_loop fuel (blen ps) (flat_map enc_i32 ps ++ r) = DOk ps r [].
Proof.
  induction ps as [|p ps IH]; intros fuel r Hf Hp.
  - destruct fuel; reflexivity.
  - destruct fuel; [cbn [length] in Hf; lia|]. cbn [parts_loop].
    pose proof (blen_nonneg ps).
    replace (blen (p :: ps) <=? 0) with false by (symmetry; apply Z.leb_gt; rewrite blen_cons; lia).
    inversion Hp; subst. cbn [flat_map]. rewrite <- app_assoc.
    step ltac:(apply d_i32_enc; auto).
    replace (blen (p :: ps) - 1) with (blen ps) by (rewrite blen_cons; lia).
    step ltac:(apply IH; [cbn [length] in Hf; lia | auto]).
    reflexivity.
Qed.

Lemma parts_block_enc ps r : blen ps < two31 -> Forall in_i32 ps ->
  exists al, parts_block true (blen ps) (flat_map enc_i32 ps ++ r) = DOk ps r al.
Proof.
  intros Hl Hp. unfold parts_block. pose proof (blen_nonneg ps). pose proof (blen_nonneg r).
  erewrite bind_ok.
  2:{ unfold make_parts.
      replace (blen ps <? 0) with false by (symmetry; apply Z.ltb_ge; lia).
      replace (blen (flat_map enc_i32 ps ++ r) / 4 <? blen ps) with false; [reflexivity|].
      symmetry. apply Z.ltb_ge. apply Z.div_le_lower_bound; [lia|].
      rewrite blen_app, flat_enc_i32_blen. lia. }
  cbv beta. rewrite parts_loop_enc; auto; [eauto|].
  rewrite app_length. assert (length ps <= length (flat_map enc_i32 ps))%nat.
  { pose proof (flat_enc_i32_blen ps). unfold blen in *. lia. }
  lia.
Qed.

Lemma enc_string_nonempty s : (2 <= length (enc_string s))%nat.
Proof.
  unfold enc_string. destruct s; [rewrite app_length|]; unfold enc_i16; rewrite enc_be_length; lia.
Qed.
Lemma enc_topic_nonempty tp : (1 <= length (enc_topic tp))%nat.
Proof. unfold enc_topic. rewrite app_length. pose proof (enc_string_nonempty (fst tp)). lia. Qed.
Lemma flat_map_length_ge {A} (f : A -> list Z) l :
  (forall x, 1 <= length (f x))%nat -> (length l <= length (flat_map f l))%nat.
Proof.
  intros H. induction l; cbn [flat_map length]; [lia|]. rewrite app_length. specialize (H a). lia.
Qed.

Lemma topics_loop_enc : forall ts fuel m r, (length ts <= fuel)%nat -> Forall topic_ok ts ->
  NoDup (map fst m ++ map topic_name ts) ->
  exists al, topics_loop true fuel (blen ts) m (flat_map enc_topic ts ++ r)
             = DOk (m ++ map topic_conv ts) r al.
Proof.
  induction ts as [|t ts IH]; intros fuel m r Hf Ht Hn.
  - rewrite app_nil_r. destruct fuel; cbn; eauto.
  - destruct fuel; [cbn [length] in Hf; lia|]. cbn [topics_loop].
    pose proof (blen_nonneg ts).
    replace (blen (t :: ts) <=? 0) with false by (symmetry; apply Z.leb_gt; rewrite blen_cons; lia).
    inversion Ht as [|? ? (Hs & Hl & Hp) Ht']; subst.
    cbn [flat_map]. unfold enc_topic at 1. rewrite <- !app_assoc.
    step ltac:(apply read_string_enc; auto).
    step ltac:(apply d_i32_enc; unfold in_i32, two31 in *; pose proof (blen_nonneg (snd t)); lia).
    destruct (parts_block_enc (snd t) (flat_map enc_topic ts ++ r) Hl Hp) as (al1 & E1).
    erewrite bind_ok by exact E1. cbv beta.
    replace (blen (t :: ts) - 1) with (blen ts) by (rewrite blen_cons; lia).
    cbn [map] in Hn.
    rewrite amap_set_new by (apply NoDup_remove_2 in Hn; intros Hi; apply Hn; apply in_or_app; auto).
    destruct (IH fuel (m ++ [(str_val (fst t), snd t)]) r) as (al2 & E2); auto.
    { cbn [length] in Hf. lia. }
    { rewrite map_app. cbn [map fst]. rewrite <- app_assoc. exact Hn. }
    rewrite E2. cbn [map]. rewrite <- app_assoc. cbn [app]. unfold topic_conv at 2. eauto.
Qed.

Lemma skip_bytes_then {B} s r (k : dec B) : bytes_ok32 s ->
  (n <- d_i32 ;; _ <- skip_pos n ;; k) (enc_bytes s ++ r) = k r.
Proof.
  intros Hs. unfold enc_bytes. destruct s as [b|]; cbn [bytes_ok32] in Hs.
  - pose proof (blen_nonneg b). rewrite <- app_assoc.
    step ltac:(apply d_i32_enc; unfold in_i32, two31 in *; lia).
    step ltac:(apply skip_pos_app). destruct (k r); reflexivity.
  - step ltac:(apply d_i32_enc; unfold in_i32, two31; lia).
    erewrite bind_ok by reflexivity. destruct (k r); reflexivity.
Qed.

Lemma decode_assignment_enc ts ud r :
  blen ts < two31 -> Forall topic_ok ts -> NoDup (map topic_name ts) -> bytes_ok32 ud ->
  exists al, decode_assignment true (enc_i32 (blen ts) ++ flat_map enc_topic ts ++ enc_bytes ud ++ r)
             = DOk (map topic_conv ts) r al.
Proof.
  intros Hl Ht Hn Hu. unfold decode_assignment. pose proof (blen_nonneg ts).
  step ltac:(apply d_i32_enc; unfold in_i32, two31 in *; lia).
  erewrite bind_ok.
  2:{ unfold make_topics. replace (blen ts <? -1) with false by (symmetry; apply Z.ltb_ge; lia). reflexivity. }
  cbv beta.
  destruct (topics_loop_enc ts (S (length (flat_map enc_topic ts ++ enc_bytes ud ++ r))) []
                            (enc_bytes ud ++ r)) as (al1 & E1); auto.
  { rewrite app_length. pose proof (flat_map_length_ge enc_topic ts enc_topic_nonempty). lia. }
  erewrite bind_ok by exact E1. cbv beta. cbn [app].
  rewrite skip_bytes_then by auto. unfold ret. eauto.
Qed.

Lemma enc_assignment_pos a : 0 < blen (enc_assignment a).
Proof.
  unfold enc_assignment. rewrite blen_app. unfold blen at 1, enc_i16. rewrite enc_be_length.
  match goal with |- context [blen ?x] => pose proof (blen_nonneg x) end. lia.
Qed.

Lemma decode_assignment_bytes_enc a r : asg_ok a ->
  exists al, decode_assignment_bytes true (blen (enc_assignment a)) (enc_assignment a ++ r)
             = DOk (map topic_conv (a_topics a)) r al.
Proof.
  intros (Hv & Hl & Ht & Hn & Hu & _). unfold decode_assignment_bytes.
  rewrite next_app by apply enc_assignment_pos.
  unfold enc_assignment at 1.
  step ltac:(apply d_i16_enc; unfold in_i16; lia).
  replace (a_version a <? 0) with false by (symmetry; apply Z.ltb_ge; lia).
  rewrite <- (app_nil_r (enc_bytes (a_userdata a))).
  destruct (decode_assignment_enc (a_topics a) (a_userdata a) [] Hl Ht Hn Hu) as (al1 & ->). eauto.
Qed.

Definition amap_of (f : asg_field) : amap :=
  match f with Asg a => map topic_conv (a_topics a) | _ => [] end.

Ltac member_tail Hsu Ha r :=
  step ltac:(apply d_i32_enc; auto);
  rewrite skip_bytes_then by auto;
  match goal with |- context [enc_asg_field ?f] => destruct f end;
  cbn [enc_asg_field amap_of asg_field_ok] in *;
  [ step ltac:(apply d_i32_enc; unfold in_i32, two31; lia); cbn; eauto
  | step ltac:(apply d_i32_enc; unfold in_i32, two31; lia); cbn; eauto
  | match goal with |- context [enc_assignment ?a] =>
      pose proof (enc_assignment_pos a); rewrite <- app_assoc;
      step ltac:(apply d_i32_enc; destruct Ha as (_ & _ & _ & _ & _ & Hb); unfold in_i32, two31 in *; lia);
      replace (blen (enc_assignment a) >? 0) with true by (symmetry; apply Z.gtb_lt; lia);
      let al1 := fresh "al" in let E1 := fresh "E" in
      destruct (decode_assignment_bytes_enc a r Ha) as (al1 & E1);
      erewrite bind_ok by exact E1; cbv beta; unfold ret; eauto
    end ].

Lemma decode_member_enc vv m r : member_ok m ->
  exists al, decode_member true vv (enc_member vv m ++ r)
             = DOk (mkMember (str_val (wm_client_id m)) (str_val (wm_host m)) (amap_of (wm_assignment m))) r al.
Proof.
  intros (Hid & Hin & Hc & Hh & Hrb & Hse & Hsu & Ha). unfold decode_member, enc_member.
  rewrite <- !app_assoc.
  step ltac:(apply read_string_enc; auto).
  destruct (vv =? 3).
  - step ltac:(apply read_string_enc; auto).
    step ltac:(apply read_string_enc; auto). step ltac:(apply read_string_enc; auto).
    destruct (vv >=? 1).
    + step ltac:(apply d_i32_enc; auto). member_tail Hsu Ha r.
    + cbn [app]. step ltac:(reflexivity). member_tail Hsu Ha r.
  - cbn [app]. step ltac:(reflexivity).
    step ltac:(apply read_string_enc; auto). step ltac:(apply read_string_enc; auto).
    destruct (vv >=? 1).
    + step ltac:(apply d_i32_enc; auto). member_tail Hsu Ha r.
    + cbn [app]. step ltac:(reflexivity). member_tail Hsu Ha r.
Qed.
