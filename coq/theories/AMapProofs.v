From Coq Require Import ZArith List Bool Lia.
From Burrow Require Import AMap.
Import ListNotations.
Open Scope Z_scope.

Lemma get_remove_eq {V} (m : amap V) k : get (remove m k) k = None.
Proof.
  induction m as [|[k' v] r IH]; cbn; [reflexivity|].
  destruct (k' =? k) eqn:E; cbn; [exact IH|]. rewrite E. exact IH.
Qed.

Lemma get_remove_neq {V} (m : amap V) k k' : k <> k' -> get (remove m k) k' = get m k'.
Proof.
  intros Hne. induction m as [|[k0 v] r IH]; cbn; [reflexivity|].
  destruct (k0 =? k) eqn:E; cbn.
  - apply Z.eqb_eq in E. subst k0. destruct (k =? k') eqn:E'; [apply Z.eqb_eq in E'; contradiction|exact IH].
  - destruct (k0 =? k'); [reflexivity|exact IH].
Qed.

Lemma get_set_eq {V} (m : amap V) k v : get (set m k v) k = Some v.
Proof. unfold set; cbn. rewrite Z.eqb_refl. reflexivity. Qed.

Lemma get_set_neq {V} (m : amap V) k k' v : k <> k' -> get (set m k v) k' = get m k'.
Proof.
  intros Hne. unfold set; cbn. destruct (k =? k') eqn:E; [apply Z.eqb_eq in E; contradiction|].
  apply get_remove_neq; exact Hne.
Qed.

Lemma get_in_keys {V} (m : amap V) k : get m k <> None <-> In k (keys m).
Proof.
  induction m as [|[k' v] r IH]; cbn; [tauto|].
  destruct (k' =? k) eqn:E.
  - apply Z.eqb_eq in E. split; [auto|discriminate].
  - apply Z.eqb_neq in E. rewrite IH. split; [auto|intros [H|H]; [contradiction|exact H]].
Qed.

Lemma get_map_vals {V W} (f : V -> W) (m : amap V) k : get (map_vals f m) k = option_map f (get m k).
Proof.
  induction m as [|[k' v] r IH]; cbn; [reflexivity|]. destruct (k' =? k); [reflexivity|exact IH].
Qed.

Lemma keys_remove {V} (m : amap V) k x : In x (keys (remove m k)) <-> In x (keys m) /\ x <> k.
Proof.
  unfold keys, remove. induction m as [|[k' v] r IH]; cbn; [tauto|].
  destruct (k' =? k) eqn:E; cbn.
  - apply Z.eqb_eq in E. subst. rewrite IH. split; [tauto|]. intros [[->|H] Hne]; [contradiction|tauto].
  - apply Z.eqb_neq in E. rewrite IH. split.
    + intros [->|[H1 H2]]; tauto.
    + intros [[->|H] Hne]; tauto.
Qed.

Lemma keys_map_vals {V W} (f : V -> W) (m : amap V) : keys (map_vals f m) = keys m.
Proof. unfold keys, map_vals. rewrite map_map. reflexivity. Qed.
