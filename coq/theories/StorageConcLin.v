(* C08, final state of a group (audit point 4).
   Full linearisability is false (StorageConcProofs.not_linearisable: addConsumerOffset's check-then-act against
   deleteTopic).  This file proves the strongest statement found true: when NO deleteTopic of the cluster is among the
   requests, then for every group (c, g), after ANY schedule, the cluster's broker map and the group's state are exactly
   what the SEQUENTIAL model Storage.step produces on one list [lin] that interleaves, in some order, the cluster's broker
   updates (in the order they executed) with the group's own requests IN SUBMISSION ORDER.
   Linearisation points: a broker update at its (single) locked step; a commit / owner update at the step that reads the
   broker map; clear / delete-group / fetch at their lookup step; a request that ends in its prologue there. *)
From Coq Require Import ZArith List Bool Lia Arith String.
From Burrow Require Import Int64 Eval AMap AMapProofs Ring Storage Lockset StorageConc StorageConcProofs.
Import ListNotations.
Open Scope Z_scope.
Open Scope list_scope.

Section Lin.
  Variable cf : config.
  Variable now : Z.
  Variable c g : Z.
  Hypothesis HN : (1 <= cf_intervals cf)%nat.

  Definition bro (st : state) : option (amap (list bring)) := option_map cl_broker (get st c).
  Definition grp (st : state) : option cgroup := group_state st c g.
  Definition dflt (o : option cgroup) : cgroup := match o with Some x => x | None => empty_group end.

  Lemma bro_of st cl : get st c = Some cl -> bro st = Some (cl_broker cl).
  Proof. unfold bro. intros ->. reflexivity. Qed.
  Lemma grp_of st cl : get st c = Some cl -> grp st = get (cl_consumer cl) g.
  Proof. unfold grp, group_state. intros ->. reflexivity. Qed.
  Lemma bro_set st b X : bro (set st c (mkCluster b X)) = Some b.
  Proof. unfold bro. rewrite get_set_eq. reflexivity. Qed.
  Lemma grp_set st b X : grp (set st c (mkCluster b X)) = get X g.
  Proof. apply group_state_set_here. Qed.
  Lemma bro_set_other st c0 x : c0 <> c -> bro (set st c0 x) = bro st.
  Proof. intros N. unfold bro. rewrite get_set_neq; auto. Qed.
  Lemma grp_set_other st c0 x : c0 <> c -> grp (set st c0 x) = grp st.
  Proof. intros N. apply group_state_set_other. congruence. Qed.

  Definition is_own (r : req) : bool :=
    match keyed_group r with Some (c', g') => (c' =? c) && (g' =? g) | None => false end.
  Definition is_b (r : req) : bool := match r with SetBrokerOffset c' _ _ _ _ => c' =? c | _ => false end.
  Definition is_dt (r : req) : bool := match r with DeleteTopic c' _ => c' =? c | _ => false end.

  (* the sequential runs from st0 *)
  Inductive seqreach (st0 : state) : list req -> state -> Prop :=
  | SR0 : seqreach st0 [] st0
  | SRS lin s r s' rep : seqreach st0 lin s -> Storage.step cf now s r = Done s' rep -> seqreach st0 (lin ++ [r]) s'.

  (* ---- what Storage.step does to the view (broker of c, group (c, g)) ---- *)
  Lemma gbo_ext a b t p : cl_broker a = cl_broker b -> get_broker_offset a t p = get_broker_offset b t p.
  Proof. unfold get_broker_offset. intros ->. reflexivity. Qed.

  Lemma seq_broker seq cls t p cnt off :
    get seq c = Some cls -> 0 <= p < cnt ->
    exists seq' cls', Storage.step cf now seq (SetBrokerOffset c t p cnt off) = Done seq' RNone /\
      get seq' c = Some cls' /\ cl_consumer cls' = cl_consumer cls /\
      (forall cl, cl_broker cl = cl_broker cls -> forall st st' r, get st c = Some cl ->
         add_broker_offset cf st c t p cnt off = Done st' r -> bro st' = Some (cl_broker cls')).
  Proof.
    intros Hg Hp. cbn [Storage.step].
    destruct (add_broker_offset cf seq c t p cnt off) as [s' r|] eqn:E; [|exfalso; exact (add_broker_no_crash cf _ _ _ _ _ _ Hp E)].
    unfold add_broker_offset in E. rewrite Hg in E.
    match type of E with (if ?b then _ else _) = _ => destruct b eqn:Eb end; [discriminate|]. inversion E; subst; clear E.
    eexists. eexists. split; [reflexivity|]. split; [apply get_set_eq|]. split; [reflexivity|].
    intros cl Hb st st' r Hst Hadd. unfold add_broker_offset in Hadd. rewrite Hst, Hb, Eb in Hadd. inversion Hadd; subst.
    rewrite bro_set. reflexivity.
  Qed.

  Lemma seq_commit seq cls t p off order ts boff cnt :
    get seq c = Some cls -> too_old cf now ts = false -> cf_accept cf g = true -> get_broker_offset cls t p = (boff, cnt) ->
    Storage.step cf now seq (SetConsumerOffset c g t p off order ts) =
    if cnt =? 0 then Done seq RNone
    else Done (set seq c (mkCluster (cl_broker cls) (set (cl_consumer cls) g
                 (place_commit cf (dflt (get (cl_consumer cls) g)) t p off order ts boff cnt)))) RNone.
  Proof.
    intros Hg Ho Ha Hb. cbn [Storage.step]. unfold add_consumer_offset. rewrite Hg, Ho, Ha, Hb. cbn [negb].
    destruct (cnt =? 0); [reflexivity|]. unfold place_commit, dflt.
    destruct (get (cl_consumer cls) g);
      match goal with |- context [ring_step ?a ?b ?x ?d] => destruct (ring_step a b x d) as [w' app] end; reflexivity.
  Qed.

  Lemma seq_owner seq cls t p owner client boff cnt :
    get seq c = Some cls -> cf_accept cf g = true -> get_broker_offset cls t p = (boff, cnt) ->
    Storage.step cf now seq (SetConsumerOwner c g t p owner client) =
    Done (set seq c (mkCluster (cl_broker cls) (set (cl_consumer cls) g
            (if cnt =? 0 then dflt (get (cl_consumer cls) g)
             else place_owner cf (dflt (get (cl_consumer cls) g)) t p owner client cnt)))) RNone.
  Proof.
    intros Hg Ha Hb. cbn [Storage.step]. unfold add_consumer_owner. rewrite Hg, Ha, Hb. cbn [negb].
    destruct (cnt =? 0); unfold place_owner, dflt; destruct (get (cl_consumer cls) g); reflexivity.
  Qed.

  Lemma seq_clear seq cls :
    get seq c = Some cls -> cf_accept cf g = true ->
    Storage.step cf now seq (ClearConsumerOwners c g) =
    match get (cl_consumer cls) g with
    | None => Done seq RNone
    | Some x => Done (set seq c (mkCluster (cl_broker cls) (set (cl_consumer cls) g (clear_owners_group x)))) RNone
    end.
  Proof. intros Hg Ha. cbn [Storage.step]. unfold clear_consumer_owners. rewrite Hg, Ha. reflexivity. Qed.

  Definition rel (k : cont) (rg sg : option cgroup) : Prop :=
    match k with
    | KCommit1 _ g' _ _ _ _ ts => rg = sg /\ too_old cf now ts = false /\ cf_accept cf g' = true
    | KCommit2 _ _ t p off order ts boff cnt | KCommit3 _ _ t p off order ts boff cnt =>
        sg = Some (place_commit cf (dflt rg) t p off order ts boff cnt)
    | KOwner1 _ g' _ _ _ _ => rg = sg /\ cf_accept cf g' = true
    | KOwner2 _ g' _ _ _ _ => rg = Some (dflt sg) /\ cf_accept cf g' = true
    | KOwner3 _ _ t p owner client cnt => sg = Some (place_owner cf (dflt rg) t p owner client cnt)
    | KClear1 _ g' => rg = sg /\ cf_accept cf g' = true
    | KClear2 _ _ => sg = option_map clear_owners_group rg
    | KDelG2 _ _ t => sg = match remove (g_topics (dflt rg)) t with
                               | [] => match get (g_topics (dflt rg)) t with
                                       | Some _ => None
                                       | None => Some (mkCgroup [] (g_last (dflt rg)))
                                       end
                               | tops => Some (mkCgroup tops (g_last (dflt rg)))
                               end
    | KFetchConsPurge _ _ => sg = None
    | _ => rg = sg
    end.

  (* the request of a handler that has not reached its linearisation point yet *)
  Definition cont_pending (k : cont) : list req :=
    match k with
    | KCommit1 c' g' t p off order ts => [SetConsumerOffset c' g' t p off order ts]
    | KOwner1 c' g' t p owner client | KOwner2 c' g' t p owner client => [SetConsumerOwner c' g' t p owner client]
    | KClear1 c' g' => [ClearConsumerOwners c' g']
    | KDelG1 c' g' t => [DeleteGroup c' g' t]
    | KFetchCons1 c' g' => [FetchConsumer c' g']
    | _ => []
    end.

  Definition post (k : cont) (lp : list req) (res : sres) (st seq' : state) : Prop :=
    match res with
    | SNext st' k' => bro st' = bro st /\ cont_pending k = lp ++ cont_pending k' /\
                      ((cont_group k' = Some (c, g) /\ rel k' (grp st') (grp seq')) \/ (cont_group k' = None /\ grp st' = grp seq'))
    | SDone st' _ => bro st' = bro st /\ cont_pending k = lp /\ grp st' = grp seq'
    | SCrash => True
    end.

  Definition lp_ok (lp : list req) (seq seq' : state) : Prop :=
    (lp = [] /\ seq' = seq) \/
    (exists r rep, lp = [r] /\ is_own r = true /\ Storage.step cf now seq r = Done seq' rep).

  Ltac own_ok := unfold is_own; cbn [keyed_group]; rewrite !Z.eqb_refl; reflexivity.

  (* one step of a request keyed on (c, g) *)
  Lemma own_exec prio st k cl seq cls :
    cont_group k = Some (c, g) -> get st c = Some cl -> get seq c = Some cls -> cl_broker cls = cl_broker cl ->
    rel k (grp st) (grp seq) ->
    exists seq' lp, lp_ok lp seq seq' /\ bro seq' = bro seq /\ post k lp (exec cf now true prio st k) st seq'.
  Proof.
    intros Hcg Hst Hseq Hb Hrel.
    pose proof (grp_of st cl Hst) as Gst. pose proof (grp_of seq cls Hseq) as Gseq.
    pose proof (bro_of seq cls Hseq) as Bseq.
    destruct k; cbn [cont_group] in Hcg; try discriminate; inversion Hcg; subst c0 g0; clear Hcg; cbn [exec]; rewrite Hst;
      cbn [rel] in Hrel.
    - (* KCommit1: linearisation point *)
      destruct Hrel as (E & Ho & Ha). destruct (get_broker_offset cl t p) as [boff cnt] eqn:Eb.
      assert (Eb' : get_broker_offset cls t p = (boff, cnt)) by (rewrite (gbo_ext cls cl); auto).
      pose proof (seq_commit seq cls t p off order ts boff cnt Hseq Ho Ha Eb') as Hs.
      destruct (cnt =? 0) eqn:Ec.
      + exists seq, [SetConsumerOffset c g t p off order ts]. split; [right; eexists; eexists; split; [reflexivity|split; [own_ok|exact Hs]]|].
        split; [reflexivity|]. cbn [post cont_pending]. auto.
      + eexists. exists [SetConsumerOffset c g t p off order ts]. split; [right; eexists; eexists; split; [reflexivity|split; [own_ok|exact Hs]]|].
        split; [rewrite bro_set; auto|]. cbn [post cont_pending cont_group app]. split; [reflexivity|]. split; [reflexivity|]. left. split; [reflexivity|].
        cbn [rel]. rewrite grp_set, get_set_eq. rewrite E, Gseq. reflexivity.
    - (* KCommit2: ensure the group *)
      exists seq, []. split; [left; auto|]. split; [reflexivity|]. cbn [post cont_pending cont_group app]. unfold set_consumer.
      split; [rewrite bro_set; symmetry; apply bro_of; exact Hst|]. split; [reflexivity|]. left. split; [reflexivity|].
      cbn [rel]. rewrite grp_set. unfold ensure_group. rewrite get_set_eq. cbn [dflt]. rewrite Hrel, Gst. reflexivity.
    - (* KCommit3: place the commit *)
      destruct (get (cl_consumer cl) g) as [x|] eqn:Ex; [|exists seq, []; split; [left; auto|]; split; [reflexivity | exact I]].
      exists seq, []. split; [left; auto|]. split; [reflexivity|]. cbn [post cont_pending]. unfold set_consumer.
      split; [rewrite bro_set; symmetry; apply bro_of; exact Hst|]. split; [reflexivity|].
      rewrite grp_set, get_set_eq. rewrite Hrel, Gst. reflexivity.
    - (* KOwner1: ensure the group (before the linearisation point) *)
      destruct Hrel as (E & Ha).
      exists seq, []. split; [left; auto|]. split; [reflexivity|]. cbn [post cont_pending cont_group app]. unfold set_consumer.
      split; [rewrite bro_set; symmetry; apply bro_of; exact Hst|]. split; [reflexivity|]. left. split; [reflexivity|].
      cbn [rel]. split; [|exact Ha]. rewrite grp_set. unfold ensure_group. rewrite get_set_eq. rewrite <- E, Gst. reflexivity.
    - (* KOwner2: linearisation point *)
      destruct Hrel as (E & Ha). destruct (get_broker_offset cl t p) as [boff cnt] eqn:Eb.
      assert (Eb' : get_broker_offset cls t p = (boff, cnt)) by (rewrite (gbo_ext cls cl); auto).
      pose proof (seq_owner seq cls t p owner client boff cnt Hseq Ha Eb') as Hs.
      eexists. exists [SetConsumerOwner c g t p owner client]. split; [right; eexists; eexists; split; [reflexivity|split; [own_ok|exact Hs]]|].
      split; [rewrite bro_set; auto|]. destruct (cnt =? 0) eqn:Ec; cbn [post cont_pending cont_group app].
      + split; [reflexivity|]. split; [reflexivity|]. rewrite grp_set, get_set_eq. rewrite E, Gseq. reflexivity.
      + split; [reflexivity|]. split; [reflexivity|]. left. split; [reflexivity|]. cbn [rel]. rewrite grp_set, get_set_eq.
        rewrite E. cbn [dflt]. rewrite Gseq. reflexivity.
    - (* KOwner3 *)
      destruct (get (cl_consumer cl) g) as [x|] eqn:Ex; [|exists seq, []; split; [left; auto|]; split; [reflexivity | exact I]].
      exists seq, []. split; [left; auto|]. split; [reflexivity|]. cbn [post cont_pending]. unfold set_consumer.
      split; [rewrite bro_set; symmetry; apply bro_of; exact Hst|]. split; [reflexivity|].
      rewrite grp_set, get_set_eq. rewrite Hrel, Gst. reflexivity.
    - (* KClear1: linearisation point *)
      destruct Hrel as (E & Ha). pose proof (seq_clear seq cls Hseq Ha) as Hs.
      assert (Ex : get (cl_consumer cls) g = get (cl_consumer cl) g) by (rewrite <- Gseq, <- Gst; symmetry; exact E).
      rewrite Ex in Hs. destruct (get (cl_consumer cl) g) as [x|] eqn:Ey.
      + eexists. exists [ClearConsumerOwners c g]. split; [right; eexists; eexists; split; [reflexivity|split; [own_ok|exact Hs]]|].
        split; [rewrite bro_set; auto|]. cbn [post cont_pending cont_group app]. split; [reflexivity|]. split; [reflexivity|]. left. split; [reflexivity|].
        cbn [rel]. rewrite grp_set, get_set_eq, Gst. reflexivity.
      + exists seq, [ClearConsumerOwners c g]. split; [right; eexists; eexists; split; [reflexivity|split; [own_ok|exact Hs]]|].
        split; [reflexivity|]. cbn [post cont_pending]. auto.
    - (* KClear2 *)
      destruct (get (cl_consumer cl) g) as [x|] eqn:Ex; [|exists seq, []; split; [left; auto|]; split; [reflexivity | exact I]].
      exists seq, []. split; [left; auto|]. split; [reflexivity|]. cbn [post cont_pending]. unfold set_consumer.
      split; [rewrite bro_set; symmetry; apply bro_of; exact Hst|]. split; [reflexivity|].
      rewrite grp_set, get_set_eq. rewrite Hrel, Gst. reflexivity.
    - (* KDelG1: linearisation point *)
      assert (Ex : get (cl_consumer cls) g = get (cl_consumer cl) g) by (rewrite <- Gseq, <- Gst; symmetry; exact Hrel).
      assert (Hs : Storage.step cf now seq (DeleteGroup c g t) =
                   match get (cl_consumer cl) g with
                   | Some x => if t =? 0 then Done (set seq c (mkCluster (cl_broker cls) (remove (cl_consumer cls) g))) RNone
                               else match remove (g_topics x) t with
                                    | [] => match get (g_topics x) t with
                                            | Some _ => Done (set seq c (mkCluster (cl_broker cls) (remove (cl_consumer cls) g))) RNone
                                            | None => Done (set seq c (mkCluster (cl_broker cls) (set (cl_consumer cls) g (mkCgroup [] (g_last x))))) RNone
                                            end
                                    | tops => Done (set seq c (mkCluster (cl_broker cls) (set (cl_consumer cls) g (mkCgroup tops (g_last x))))) RNone
                                    end
                   | None => Done seq RNone
                   end).
      { cbn [Storage.step]. unfold delete_group. rewrite Hseq, Ex. destruct (get (cl_consumer cl) g) as [x|]; [|reflexivity].
        destruct (t =? 0); [reflexivity|]. destruct (remove (g_topics x) t); [destruct (get (g_topics x) t)|]; reflexivity. }
      destruct (get (cl_consumer cl) g) as [x|] eqn:Ey.
      + destruct (t =? 0) eqn:Et.
        * eexists. exists [DeleteGroup c g t]. split; [right; eexists; eexists; split; [reflexivity|split; [own_ok|exact Hs]]|].
          split; [rewrite bro_set; auto|]. cbn [post cont_pending]. unfold set_consumer.
          split; [rewrite bro_set; symmetry; apply bro_of; exact Hst|]. split; [reflexivity|].
          rewrite !grp_set, !get_remove_eq. reflexivity.
        * destruct (remove (g_topics x) t) as [|tp tops] eqn:Er; [destruct (get (g_topics x) t) eqn:Egt|].
          -- eexists. exists [DeleteGroup c g t]. split; [right; eexists; eexists; split; [reflexivity|split; [own_ok|exact Hs]]|].
             split; [rewrite bro_set; auto|]. cbn [post cont_pending cont_group app]. split; [reflexivity|]. split; [reflexivity|]. left. split; [reflexivity|].
             cbn [rel]. rewrite grp_set, get_remove_eq, Gst. cbn [dflt]. rewrite Er, Egt. reflexivity.
          -- eexists. exists [DeleteGroup c g t]. split; [right; eexists; eexists; split; [reflexivity|split; [own_ok|exact Hs]]|].
             split; [rewrite bro_set; auto|]. cbn [post cont_pending cont_group app]. split; [reflexivity|]. split; [reflexivity|]. left. split; [reflexivity|].
             cbn [rel]. rewrite grp_set, get_set_eq, Gst. cbn [dflt]. rewrite Er, Egt. reflexivity.
          -- eexists. exists [DeleteGroup c g t]. split; [right; eexists; eexists; split; [reflexivity|split; [own_ok|exact Hs]]|].
             split; [rewrite bro_set; auto|]. cbn [post cont_pending cont_group app]. split; [reflexivity|]. split; [reflexivity|]. left. split; [reflexivity|].
             cbn [rel]. rewrite grp_set, get_set_eq, Gst. cbn [dflt]. rewrite Er. reflexivity.
      + exists seq, [DeleteGroup c g t]. split; [right; eexists; eexists; split; [reflexivity|split; [own_ok|exact Hs]]|].
        split; [reflexivity|]. cbn [post cont_pending]. rewrite Gst, Gseq, Ex. auto.
    - (* KDelG2 *)
      destruct (get (cl_consumer cl) g) as [x|] eqn:Ex; [|exists seq, []; split; [left; auto|]; split; [reflexivity | exact I]].
      rewrite Gst in Hrel. cbn [dflt] in Hrel.
      exists seq, []. split; [left; auto|]. split; [reflexivity|].
      destruct (remove (g_topics x) t) as [|tp tops] eqn:Er; [destruct (get (g_topics x) t)|]; cbn [post cont_pending]; unfold set_consumer;
        (split; [rewrite bro_set; symmetry; apply bro_of; exact Hst|]); (split; [reflexivity|]); rewrite grp_set, Hrel.
      + apply get_remove_eq.
      + apply get_set_eq.
      + apply get_set_eq.
    - (* KFetchCons1: linearisation point *)
      assert (Ex : get (cl_consumer cls) g = get (cl_consumer cl) g) by (rewrite <- Gseq, <- Gst; symmetry; exact Hrel).
      destruct (get (cl_consumer cl) g) as [x|] eqn:Ey.
      + destruct (expired cf now (g_last x)) eqn:Ee.
        * eexists. exists [FetchConsumer c g]. split.
          { right. eexists; eexists. split; [reflexivity|]. split; [own_ok|]. cbn [Storage.step]. unfold fetch_consumer.
            rewrite Hseq, Ex, Ee. reflexivity. }
          split; [rewrite bro_set; auto|]. cbn [post cont_pending cont_group app]. split; [reflexivity|]. split; [reflexivity|]. left. split; [reflexivity|].
          cbn [rel]. rewrite grp_set. apply get_remove_eq.
        * exists seq, [FetchConsumer c g]. split.
          { right. eexists; eexists. split; [reflexivity|]. split; [own_ok|]. cbn [Storage.step]. unfold fetch_consumer.
            rewrite Hseq, Ex, Ee. rewrite fetch_lags_agree. reflexivity. }
          split; [reflexivity|]. cbn [post cont_pending cont_group app]. split; [reflexivity|]. split; [reflexivity|]. left. split; [reflexivity|].
          cbn [rel]. exact Hrel.
      + exists seq, [FetchConsumer c g]. split.
        { right. eexists; eexists. split; [reflexivity|]. split; [own_ok|]. cbn [Storage.step]. unfold fetch_consumer.
          rewrite Hseq, Ex. reflexivity. }
        split; [reflexivity|]. cbn [post cont_pending]. auto.
    - (* KFetchConsPurge *)
      exists seq, []. split; [left; auto|]. split; [reflexivity|]. cbn [post cont_pending]. unfold set_consumer.
      split; [rewrite bro_set; symmetry; apply bro_of; exact Hst|]. split; [reflexivity|]. rewrite grp_set, get_remove_eq. symmetry. exact Hrel.
    - (* KFetchCons2 *)
      destruct (get (cl_consumer cl) g) as [x|] eqn:Ex; [|exists seq, []; split; [left; auto|]; split; [reflexivity | exact I]].
      exists seq, []. split; [left; auto|]. split; [reflexivity|]. cbn [post cont_pending cont_group app]. split; [reflexivity|]. split; [reflexivity|].
      right. split; [reflexivity | exact Hrel].
  Qed.

  (* ---- steps of the other requests ---- *)
  Definition dt_free (k : cont) : Prop :=
    match k with KDelT1 c' _ | KDelT2 c' _ _ | KDelT3 c' _ => c' <> c | _ => True end.

  Lemma exec_dt_free prio st k st' k' : exec cf now true prio st k = SNext st' k' -> dt_free k -> dt_free k'.
  Proof. intros H D. destruct k; cbn [exec] in H; break_match_hyp H; inversion H; subst; cbn in *; auto. Qed.

  Lemma start_cont st r st' k :
    start cf now st r = SNext st' k -> cont_group k = keyed_group r /\ (is_dt r = false -> dt_free k).
  Proof.
    unfold start. intros H. destruct r; break_match_hyp H; inversion H; subst; cbn; split; auto.
    intros HE. apply Z.eqb_neq in HE. exact HE.
  Qed.

  Lemma is_own_spec r : is_own r = true <-> keyed_group r = Some (c, g).
  Proof.
    unfold is_own. destruct (keyed_group r) as [[c' g']|]; [|split; discriminate]. split.
    - intros H. apply andb_true_iff in H. destruct H as [A B]. apply Z.eqb_eq in A, B. subst. reflexivity.
    - intros H. inversion H; subst. rewrite !Z.eqb_refl. reflexivity.
  Qed.

  Lemma pending_group k r : In r (cont_pending k) -> keyed_group r = cont_group k.
  Proof. destruct k; cbn; try tauto; intros [<-|[]]; reflexivity. Qed.

  Lemma pending_not_own k : cont_group k <> Some (c, g) -> filter is_own (cont_pending k) = [].
  Proof.
    intros N. destruct (cont_pending k) as [|r l] eqn:E; [reflexivity|].
    assert (L : l = []) by (destruct k; cbn in E; inversion E; reflexivity). subst l. cbn.
    destruct (is_own r) eqn:O; [|reflexivity]. exfalso. apply N. rewrite <- (pending_group k r); [apply is_own_spec; exact O | rewrite E; left; reflexivity].
  Qed.

  Lemma pending_nil k : cont_group k = None -> cont_pending k = [].
  Proof. destruct k; cbn; try discriminate; reflexivity. Qed.

  Lemma pending_own k : cont_group k = Some (c, g) -> filter is_own (cont_pending k) = cont_pending k.
  Proof.
    intros N. destruct (cont_pending k) as [|r l] eqn:E; [reflexivity|].
    assert (L : l = []) by (destruct k; cbn in E; inversion E; reflexivity). subst l. cbn.
    assert (O : is_own r = true) by (apply is_own_spec; rewrite (pending_group k r); [exact N | rewrite E; left; reflexivity]).
    rewrite O. reflexivity.
  Qed.

  (* the broker map of the cluster is changed only by a broker update and by deleteTopic's last step *)
  Lemma exec_bro_frame prio st k st' :
    res_state (exec cf now true prio st k) = Some st' ->
    bro st' = bro st \/ (exists t p cnt off, k = KBroker c t p cnt off) \/ (exists t, k = KDelT3 c t).
  Proof.
    intros H. destruct k; cbn [exec] in H.
    all: try solve [break_match_hyp H; cbn in H; inversion H; subst; clear H; unfold set_consumer; auto;
                    left; match goal with
                          | Hc : get ?s ?c0 = Some ?cl |- bro (set ?s ?c0 _) = _ =>
                              destruct (Z.eq_dec c0 c) as [->|Nc]; [rewrite bro_set; symmetry; apply bro_of; exact Hc | apply bro_set_other; exact Nc]
                          end].
    - (* KBroker *)
      destruct (Z.eq_dec c0 c) as [->|Nc]; [right; left; eauto|]. left.
      destruct (Nat.eqb (cf_intervals cf) O); [cbn in H; discriminate|].
      destruct (add_broker_offset cf st c0 t p cnt off) as [s r|] eqn:E; cbn in H; inversion H; subst; clear H.
      destruct (add_broker_effect _ _ _ _ _ _ _ _ _ E) as [->|(cl & b' & Hg & ->)]; [reflexivity | apply bro_set_other; exact Nc].
    - (* KDelT3 *)
      destruct (Z.eq_dec c0 c) as [->|Nc]; [right; right; eauto|]. left.
      break_match_hyp H; cbn in H; inversion H; subst. apply bro_set_other; exact Nc.
    - (* KFetchTopic *)
      destruct (fetch_topic st c0 t) as [s r|] eqn:E; cbn in H; inversion H; subst. apply fetch_topic_state in E. subst. auto.
  Qed.

  Lemma other_exec prio st k st' :
    res_state (exec cf now true prio st k) = Some st' -> cont_group k <> Some (c, g) -> dt_free k ->
    grp st' = grp st /\ ((forall t p cnt off, k <> KBroker c t p cnt off) -> bro st' = bro st).
  Proof.
    intros H N D. split.
    - destruct (exec_frame cf now true prio st k st' H c g) as [F|[F|(t & p & -> & _)]]; [exact F | contradiction | cbn in D; congruence].
    - intros NB. destruct (exec_bro_frame prio st k st' H) as [F|[(t & p & cnt & off & ->)|(t & ->)]]; [exact F | exfalso; eapply NB; eauto | cbn in D; congruence].
  Qed.

  (* a broker update of the cluster: linearised where it runs *)
  Lemma broker_exec prio st t p cnt off st' r cl seq cls :
    exec cf now true prio st (KBroker c t p cnt off) = SDone st' r ->
    get st c = Some cl -> get seq c = Some cls -> cl_broker cls = cl_broker cl ->
    exists seq', Storage.step cf now seq (SetBrokerOffset c t p cnt off) = Done seq' RNone /\
                 (exists b, bro st' = Some b /\ bro seq' = Some b) /\ grp st' = grp st /\ grp seq' = grp seq.
  Proof.
    cbn [exec]. intros H Hst Hseq Hb. destruct (Nat.eqb (cf_intervals cf) O); [discriminate|].
    destruct (add_broker_offset cf st c t p cnt off) as [s rr|] eqn:E; inversion H; subst; clear H.
    unfold add_broker_offset in E. rewrite Hst in E.
    match type of E with (if ?b then _ else _) = _ => destruct b eqn:Eb end; [discriminate|]. inversion E; subst; clear E.
    cbn [Storage.step]. unfold add_broker_offset. rewrite Hseq, Hb, Eb.
    eexists. split; [reflexivity|]. split; [eexists; split; [apply bro_set | rewrite bro_set; reflexivity]|].
    rewrite !grp_set. split; [symmetry; apply grp_of; exact Hst | symmetry; apply grp_of; exact Hseq].
  Qed.

  (* prologues *)
  Lemma start_rel st r st' k rg :
    start cf now st r = SNext st' k -> is_own r = true -> rel k rg rg /\ cont_pending k = [r].
  Proof.
    unfold start. intros H O. destruct r; cbn in O; try discriminate; break_match_hyp H; inversion H; subst; cbn [rel cont_pending];
      repeat split; auto; try (apply negb_false_iff; assumption).
  Qed.

  Lemma start_done_seq st r st' rep seq cl cls :
    start cf now st r = SDone st' rep -> is_own r = true -> get st c = Some cl -> get seq c = Some cls ->
    exists rep', Storage.step cf now seq r = Done seq rep'.
  Proof.
    unfold start. intros H O Hst Hseq.
    assert (K : keyed_group r = Some (c, g)) by (apply is_own_spec; exact O).
    destruct r; cbn in K; try discriminate; inversion K; subst; rewrite Hst in H; cbn [Storage.step].
    - unfold add_consumer_offset. rewrite Hseq. break_match_hyp H; try discriminate; eauto.
    - unfold add_consumer_owner. rewrite Hseq. break_match_hyp H; try discriminate; eauto.
    - unfold clear_consumer_owners. rewrite Hseq. break_match_hyp H; try discriminate; eauto.
    - discriminate.
    - discriminate.
  Qed.

  (* ---- the simulation ---- *)
  Variable i0 : nat.            (* the worker the router gives the requests of (c, g) to *)
  Variable st0 : state.
  Variable q0 : list req.       (* the queue worker i0 was given *)

  Definition pend (w : worker) : list req := match w_run w with Some k => cont_pending k | None => [] end.

  Record sim (gs : gstate) (lin : list req) (seq : state) : Prop := mkSim {
    sim_reach : seqreach st0 lin seq;
    sim_bro : exists b, bro (g_st gs) = Some b /\ bro seq = Some b;
    sim_run : forall i w k, nth_error (g_ws gs) i = Some w -> w_run w = Some k -> cont_group k = Some (c, g) ->
              i = i0 /\ rel k (grp (g_st gs)) (grp seq);
    sim_idle : (forall w k, nth_error (g_ws gs) i0 = Some w -> w_run w = Some k -> cont_group k <> Some (c, g)) ->
               grp (g_st gs) = grp seq;
    sim_own : forall i w r, nth_error (g_ws gs) i = Some w -> In r (w_queue w) -> is_own r = true -> i = i0;
    sim_dt : forall i w, nth_error (g_ws gs) i = Some w ->
             (forall r, In r (w_queue w) -> is_dt r = false) /\ (forall k, w_run w = Some k -> dt_free k);
    sim_lin : Forall (fun r => is_own r = true \/ is_b r = true) lin;
    sim_order : forall w, nth_error (g_ws gs) i0 = Some w ->
                filter is_own q0 = filter is_own lin ++ filter is_own (pend w) ++ filter is_own (w_queue w) }.

  Lemma own_dec k : {cont_group k = Some (c, g)} + {cont_group k <> Some (c, g)}.
  Proof.
    destruct (cont_group k) as [[c' g']|]; [|right; discriminate].
    destruct (Z.eq_dec c' c) as [->|N]; [|right; congruence]. destruct (Z.eq_dec g' g) as [->|N]; [left; reflexivity | right; congruence].
  Qed.

  Lemma bro_get st b : bro st = Some b -> exists cl, get st c = Some cl /\ cl_broker cl = b.
  Proof. unfold bro. destruct (get st c) as [cl|]; [|discriminate]. cbn. intros H. inversion H. eauto. Qed.

  Lemma sim_step gs lin seq i gs' t :
    sim gs lin seq -> sched_step cf now true gs i = (gs', t) -> g_crashed gs' = false ->
    exists lin' seq', sim gs' lin' seq'.
  Proof.
    intros S H Hnc. unfold sched_step in H.
    destruct (g_crashed gs) eqn:Hc0; [inversion H; subst; eauto|].
    destruct (nth_error (g_ws gs) i) as [w|] eqn:Hi; [|inversion H; subst; eauto].
    destruct (sim_bro _ _ _ S) as (b & Bst & Bseq).
    destruct (bro_get _ _ Bst) as (cl & Hst & Hclb). destruct (bro_get _ _ Bseq) as (cls & Hseq & Hclsb).
    assert (Hb : cl_broker cls = cl_broker cl) by congruence.
    pose proof (nth_error_lt _ _ _ Hi) as Hlt.
    assert (G : forall wn j x, nth_error (set_nth (g_ws gs) i wn) j = Some x ->
                (j = i /\ x = wn) \/ (j <> i /\ nth_error (g_ws gs) j = Some x))
      by (intros wn j x; apply nth_error_set_nth_cases).
    destruct (w_run w) as [k|] eqn:Hk.
    - destruct (others_stop (wants k) (g_ws gs) O i); [inversion H; subst; eauto|].
      destruct (sim_dt _ _ _ S i w Hi) as [Dq Dk]. specialize (Dk k Hk).
      destruct (own_dec k) as [Own|NOwn].
      + (* a step of a request of the group *)
        destruct (sim_run _ _ _ S i w k Hi Hk Own) as [-> Hrel].
        destruct (own_exec (hd [] (g_prios gs)) (g_st gs) k cl seq cls Own Hst Hseq Hb Hrel) as (seq' & lp & Hlp & Bs' & Hpost).
        assert (Hreach : seqreach st0 (lin ++ lp) seq').
        { destruct Hlp as [[-> ->]|(r & rep & -> & _ & Hs)]; [rewrite app_nil_r; apply (sim_reach _ _ _ S) | eapply SRS; [apply (sim_reach _ _ _ S) | exact Hs]]. }
        assert (Hlin : Forall (fun r => is_own r = true \/ is_b r = true) (lin ++ lp)).
        { apply Forall_app. split; [apply (sim_lin _ _ _ S)|]. destruct Hlp as [[-> _]|(r & rep & -> & O & _)]; [constructor | constructor; [left; exact O | constructor]]. }
        assert (Hlpo : filter is_own lp = lp).
        { destruct Hlp as [[-> _]|(r & rep & -> & O & _)]; [reflexivity | cbn; rewrite O; reflexivity]. }
        pose proof (sim_order _ _ _ S w Hi) as Hord. unfold pend in Hord. rewrite Hk in Hord. rewrite (pending_own k Own) in Hord.
        destruct (exec cf now true (hd [] (g_prios gs)) (g_st gs) k) as [st' k'|st' rep|] eqn:Hex; inversion H; subst; clear H; [| |discriminate].
        * cbn [post] in Hpost. destruct Hpost as (Bst' & Hpend & Hnext).
          exists (lin ++ lp), seq'. constructor; cbn [g_st g_ws].
          -- exact Hreach.
          -- eexists. split; [rewrite Bst'; exact Bst | rewrite Bs'; exact Bseq].
          -- intros j x k2 Hj Hr Hg. destruct (G _ j x Hj) as [[-> ->]|[Nj Hj']].
             ++ cbn in Hr. inversion Hr; subst k2. split; [reflexivity|]. destruct Hnext as [[_ R]|[E _]]; [exact R | congruence].
             ++ destruct (sim_run _ _ _ S j x k2 Hj' Hr Hg) as [-> _]. congruence.
          -- intros Hidle. rewrite sn_eq in Hidle by exact Hlt. specialize (Hidle _ k' eq_refl eq_refl).
             destruct Hnext as [[E _]|[_ R]]; [congruence | exact R].
          -- intros j x r Hj Hin O. destruct (G _ j x Hj) as [[-> ->]|[Nj Hj']]; [reflexivity | eapply (sim_own _ _ _ S); eauto].
          -- intros j x Hj. destruct (G _ j x Hj) as [[-> ->]|[Nj Hj']]; [|apply (sim_dt _ _ _ S j x Hj')].
             cbn. split; [exact Dq|]. intros k2 E. inversion E; subst. eapply exec_dt_free; eauto.
          -- exact Hlin.
          -- intros x Hx. rewrite sn_eq in Hx by exact Hlt. inversion Hx; subst x. unfold pend. cbn [w_run w_queue].
             rewrite Hord, Hpend, !filter_app, Hlpo, <- !app_assoc.
             destruct Hnext as [[Og _]|[Ng _]]; [rewrite (pending_own k' Og) | rewrite (pending_nil k' Ng)]; reflexivity.
        * cbn [post] in Hpost. destruct Hpost as (Bst' & Hpend & Hgrp).
          exists (lin ++ lp), seq'. constructor; cbn [g_st g_ws].
          -- exact Hreach.
          -- eexists. split; [rewrite Bst'; exact Bst | rewrite Bs'; exact Bseq].
          -- intros j x k2 Hj Hr Hg. destruct (G _ j x Hj) as [[-> ->]|[Nj Hj']]; [cbn in Hr; discriminate|].
             destruct (sim_run _ _ _ S j x k2 Hj' Hr Hg) as [-> _]. congruence.
          -- intros _. exact Hgrp.
          -- intros j x r Hj Hin O. destruct (G _ j x Hj) as [[-> ->]|[Nj Hj']]; [reflexivity | eapply (sim_own _ _ _ S); eauto].
          -- intros j x Hj. destruct (G _ j x Hj) as [[-> ->]|[Nj Hj']]; [|apply (sim_dt _ _ _ S j x Hj')].
             cbn. split; [exact Dq|]. intros k2 E. discriminate.
          -- exact Hlin.
          -- intros x Hx. rewrite sn_eq in Hx by exact Hlt. inversion Hx; subst x. unfold pend. cbn [w_run w_queue].
             rewrite Hord, Hpend, !filter_app, Hlpo. cbn [filter app]. rewrite <- !app_assoc. reflexivity.
      + (* a step of another request *)
        destruct (exec cf now true (hd [] (g_prios gs)) (g_st gs) k) as [st' k'|st' rep|] eqn:Hex; inversion H; subst; clear H; [| |discriminate].
        * (* not finished: never a broker update *)
          assert (Hrs : res_state (exec cf now true (hd [] (g_prios gs)) (g_st gs) k) = Some st') by (rewrite Hex; reflexivity).
          destruct (other_exec _ _ _ _ Hrs NOwn Dk) as [Hg Hbr].
          assert (NB : forall t p cnt off, k <> KBroker c t p cnt off).
          { intros t p cnt off ->. cbn [exec] in Hex. break_match_hyp Hex; discriminate. }
          specialize (Hbr NB).
          assert (NOwn' : cont_group k' <> Some (c, g)).
          { destruct (exec_group cf now true _ _ _ _ _ Hex) as [E|E]; congruence. }
          exists lin, seq. constructor; cbn [g_st g_ws].
          -- apply (sim_reach _ _ _ S).
          -- eexists. split; [rewrite Hbr; exact Bst | exact Bseq].
          -- intros j x k2 Hj Hr Hgk. destruct (G _ j x Hj) as [[-> ->]|[Nj Hj']]; [cbn in Hr; inversion Hr; subst; contradiction|].
             rewrite Hg. apply (sim_run _ _ _ S j x k2 Hj' Hr Hgk).
          -- intros Hidle. rewrite Hg. apply (sim_idle _ _ _ S). intros x k2 Hx Hr.
             destruct (Nat.eq_dec i i0) as [E0|N0]; [subst i|].
             ++ rewrite Hi in Hx. inversion Hx; subst x. rewrite Hk in Hr. inversion Hr; subst. exact NOwn.
             ++ apply (Hidle x k2); [rewrite sn_neq by congruence; exact Hx | exact Hr].
          -- intros j x r Hj Hin O. destruct (G _ j x Hj) as [[-> ->]|[Nj Hj']]; [eapply (sim_own _ _ _ S i w); eauto | eapply (sim_own _ _ _ S); eauto].
          -- intros j x Hj. destruct (G _ j x Hj) as [[-> ->]|[Nj Hj']]; [|apply (sim_dt _ _ _ S j x Hj')].
             cbn. split; [exact Dq|]. intros k2 E. inversion E; subst. eapply exec_dt_free; eauto.
          -- apply (sim_lin _ _ _ S).
          -- intros x Hx. destruct (Nat.eq_dec i i0) as [E0|N0]; [subst i|].
             ++ rewrite sn_eq in Hx by exact Hlt. inversion Hx; subst x. unfold pend. cbn [w_run w_queue].
                pose proof (sim_order _ _ _ S w Hi) as Hord. unfold pend in Hord. rewrite Hk in Hord.
                rewrite (pending_not_own k NOwn) in Hord. rewrite (pending_not_own k' NOwn'). exact Hord.
             ++ rewrite sn_neq in Hx by congruence. apply (sim_order _ _ _ S x Hx).
        * (* finished *)
          assert (Hrs : res_state (exec cf now true (hd [] (g_prios gs)) (g_st gs) k) = Some st') by (rewrite Hex; reflexivity).
          destruct (other_exec _ _ _ _ Hrs NOwn Dk) as [Hg Hbr].
          assert (Hrest : forall lin2 seq2, seqreach st0 lin2 seq2 -> Forall (fun r => is_own r = true \/ is_b r = true) lin2 ->
                    filter is_own lin2 = filter is_own lin ->
                    (exists b2, bro st' = Some b2 /\ bro seq2 = Some b2) -> grp seq2 = grp seq ->
                    sim (mkG st' (set_nth (g_ws gs) i (mkWorker (w_queue w) None (push_reply (w_out w) rep))) false
                             (if consumes_prio k then tl (g_prios gs) else g_prios gs)) lin2 seq2).
          { intros lin2 seq2 R2 F2 O2 B2 G2. constructor; cbn [g_st g_ws].
            - exact R2.
            - exact B2.
            - intros j x k2 Hj Hr Hgk. destruct (G _ j x Hj) as [[-> ->]|[Nj Hj']]; [cbn in Hr; discriminate|].
              rewrite Hg, G2. apply (sim_run _ _ _ S j x k2 Hj' Hr Hgk).
            - intros Hidle. rewrite Hg, G2. apply (sim_idle _ _ _ S). intros x k2 Hx Hr.
              destruct (Nat.eq_dec i i0) as [E0|N0]; [subst i|].
              + rewrite Hi in Hx. inversion Hx; subst x. rewrite Hk in Hr. inversion Hr; subst. exact NOwn.
              + apply (Hidle x k2); [rewrite sn_neq by congruence; exact Hx | exact Hr].
            - intros j x r Hj Hin O. destruct (G _ j x Hj) as [[-> ->]|[Nj Hj']]; [eapply (sim_own _ _ _ S i w); eauto | eapply (sim_own _ _ _ S); eauto].
            - intros j x Hj. destruct (G _ j x Hj) as [[-> ->]|[Nj Hj']]; [|apply (sim_dt _ _ _ S j x Hj')].
              cbn. split; [exact Dq|]. intros k2 E. discriminate.
            - exact F2.
            - intros x Hx. rewrite O2. destruct (Nat.eq_dec i i0) as [E0|N0]; [subst i|].
              + rewrite sn_eq in Hx by exact Hlt. inversion Hx; subst x. unfold pend. cbn [w_run w_queue].
                pose proof (sim_order _ _ _ S w Hi) as Hord. unfold pend in Hord. rewrite Hk in Hord.
                rewrite (pending_not_own k NOwn) in Hord. exact Hord.
              + rewrite sn_neq in Hx by congruence. apply (sim_order _ _ _ S x Hx). }
          destruct k; try (exists lin, seq; apply Hrest;
                           [apply (sim_reach _ _ _ S) | apply (sim_lin _ _ _ S) | reflexivity
                           | eexists; split; [rewrite Hbr; [exact Bst | intros; discriminate] | exact Bseq] | reflexivity]).
          (* KBroker *)
          rename c0 into cb.
          destruct (Z.eq_dec cb c) as [->|Nc].
          -- destruct (broker_exec _ _ _ _ _ _ _ _ cl seq cls Hex Hst Hseq Hb) as (seq' & Hs & B2 & _ & G2).
             exists (lin ++ [SetBrokerOffset c t p cnt off]), seq'. apply Hrest.
             ++ eapply SRS; [apply (sim_reach _ _ _ S) | exact Hs].
             ++ apply Forall_app. split; [apply (sim_lin _ _ _ S)|]. constructor; [|constructor]. right. cbn. apply Z.eqb_refl.
             ++ rewrite filter_app. cbn. rewrite app_nil_r. reflexivity.
             ++ exact B2.
             ++ exact G2.
          -- exists lin, seq. apply Hrest;
               [apply (sim_reach _ _ _ S) | apply (sim_lin _ _ _ S) | reflexivity
               | eexists; split; [rewrite Hbr; [exact Bst | intros; congruence] | exact Bseq] | reflexivity].
    - (* an idle worker starts its next request *)
      destruct (w_queue w) as [|r q] eqn:Hq; [inversion H; subst; eauto|].
      destruct (sim_dt _ _ _ S i w Hi) as [Dq _].
      assert (Dr : is_dt r = false) by (apply Dq; rewrite Hq; left; reflexivity).
      assert (Dq' : forall r0, In r0 q -> is_dt r0 = false) by (intros r0 Hin; apply Dq; rewrite Hq; right; exact Hin).
      destruct (is_own r) eqn:Or.
      + assert (i = i0) by (eapply (sim_own _ _ _ S i w r); [exact Hi | rewrite Hq; left; reflexivity | exact Or]). subst i.
        assert (Heq : grp (g_st gs) = grp seq).
        { apply (sim_idle _ _ _ S). intros x k2 Hx Hr. rewrite Hi in Hx. inversion Hx; subst x. rewrite Hk in Hr. discriminate. }
        pose proof (sim_order _ _ _ S w Hi) as Hord. unfold pend in Hord. rewrite Hk, Hq in Hord. cbn [filter app] in Hord. rewrite Or in Hord.
        destruct (start cf now (g_st gs) r) as [st' k'|st' rep|] eqn:Hstart; inversion H; subst; clear H; [| |discriminate].
        * assert (st' = g_st gs) by (apply (start_state cf now (g_st gs) r); rewrite Hstart; reflexivity). subst st'.
          destruct (start_cont _ _ _ _ Hstart) as [Hcg Hdt]. destruct (start_rel _ _ _ _ (grp seq) Hstart Or) as [Hrel Hpend].
          assert (Own' : cont_group k' = Some (c, g)) by (rewrite Hcg; apply is_own_spec; exact Or).
          exists lin, seq. constructor; cbn [g_st g_ws].
          -- apply (sim_reach _ _ _ S).
          -- eauto.
          -- intros j x k2 Hj Hr Hgk. destruct (G _ j x Hj) as [[-> ->]|[Nj Hj']].
             ++ cbn in Hr. inversion Hr; subst k2. split; [reflexivity|]. rewrite Heq. exact Hrel.
             ++ destruct (sim_run _ _ _ S j x k2 Hj' Hr Hgk) as [-> _]. congruence.
          -- intros _. exact Heq.
          -- intros j x r0 Hj Hin O. destruct (G _ j x Hj) as [[-> ->]|[Nj Hj']]; [reflexivity | eapply (sim_own _ _ _ S); eauto].
          -- intros j x Hj. destruct (G _ j x Hj) as [[-> ->]|[Nj Hj']]; [|apply (sim_dt _ _ _ S j x Hj')].
             cbn. split; [exact Dq'|]. intros k2 E. inversion E; subst. apply Hdt. exact Dr.
          -- apply (sim_lin _ _ _ S).
          -- intros x Hx. rewrite sn_eq in Hx by exact Hlt. inversion Hx; subst x. unfold pend. cbn [w_run w_queue].
             rewrite Hpend. cbn [filter app]. rewrite Or. exact Hord.
        * assert (st' = g_st gs) by (apply (start_state cf now (g_st gs) r); rewrite Hstart; reflexivity). subst st'.
          destruct (start_done_seq _ _ _ _ seq cl cls Hstart Or Hst Hseq) as (rep' & Hs).
          exists (lin ++ [r]), seq. constructor; cbn [g_st g_ws].
          -- eapply SRS; [apply (sim_reach _ _ _ S) | exact Hs].
          -- eauto.
          -- intros j x k2 Hj Hr Hgk. destruct (G _ j x Hj) as [[-> ->]|[Nj Hj']]; [cbn in Hr; discriminate|].
             destruct (sim_run _ _ _ S j x k2 Hj' Hr Hgk) as [-> _]. congruence.
          -- intros _. exact Heq.
          -- intros j x r0 Hj Hin O. destruct (G _ j x Hj) as [[-> ->]|[Nj Hj']]; [reflexivity | eapply (sim_own _ _ _ S); eauto].
          -- intros j x Hj. destruct (G _ j x Hj) as [[-> ->]|[Nj Hj']]; [|apply (sim_dt _ _ _ S j x Hj')].
             cbn. split; [exact Dq'|]. intros k2 E. discriminate.
          -- apply Forall_app. split; [apply (sim_lin _ _ _ S)|]. constructor; [left; exact Or | constructor].
          -- intros x Hx. rewrite sn_eq in Hx by exact Hlt. inversion Hx; subst x. unfold pend. cbn [w_run w_queue filter app].
             rewrite filter_app. cbn [filter]. rewrite Or, <- app_assoc. exact Hord.
      + (* a request that does not concern the group *)
        assert (Hsame : forall wn st', st' = g_st gs -> w_queue wn = q ->
                  (forall k2, w_run wn = Some k2 -> cont_group k2 <> Some (c, g) /\ dt_free k2) ->
                  sim (mkG st' (set_nth (g_ws gs) i wn) false (g_prios gs)) lin seq).
        { intros wn st' -> Hwq Hwr. constructor; cbn [g_st g_ws].
          - apply (sim_reach _ _ _ S).
          - eauto.
          - intros j x k2 Hj Hr Hgk. destruct (G _ j x Hj) as [[-> ->]|[Nj Hj']]; [destruct (Hwr k2 Hr); contradiction|].
            apply (sim_run _ _ _ S j x k2 Hj' Hr Hgk).
          - intros Hidle. apply (sim_idle _ _ _ S). intros x k2 Hx Hr. destruct (Nat.eq_dec i i0) as [E0|N0]; [subst i|].
            + rewrite Hi in Hx. inversion Hx; subst x. rewrite Hk in Hr. discriminate.
            + apply (Hidle x k2); [rewrite sn_neq by congruence; exact Hx | exact Hr].
          - intros j x r0 Hj Hin O. destruct (G _ j x Hj) as [[-> ->]|[Nj Hj']]; [|eapply (sim_own _ _ _ S); eauto].
            eapply (sim_own _ _ _ S i w r0); [exact Hi | rewrite Hq; right; rewrite <- Hwq; exact Hin | exact O].
          - intros j x Hj. destruct (G _ j x Hj) as [[-> ->]|[Nj Hj']]; [|apply (sim_dt _ _ _ S j x Hj')].
            split; [rewrite Hwq; exact Dq' | intros k2 E; apply (Hwr k2 E)].
          - apply (sim_lin _ _ _ S).
          - intros x Hx. destruct (Nat.eq_dec i i0) as [E0|N0]; [subst i|].
            + rewrite sn_eq in Hx by exact Hlt. inversion Hx; subst x.
              pose proof (sim_order _ _ _ S w Hi) as Hord. unfold pend in Hord |- *. rewrite Hk, Hq in Hord. cbn [filter app] in Hord. rewrite Or in Hord.
              rewrite Hwq. destruct (w_run wn) as [k2|] eqn:Ek; [|exact Hord].
              rewrite (pending_not_own k2 (proj1 (Hwr k2 eq_refl))). exact Hord.
            + rewrite sn_neq in Hx by congruence. apply (sim_order _ _ _ S x Hx). }
        destruct (start cf now (g_st gs) r) as [st' k'|st' rep|] eqn:Hstart; inversion H; subst; clear H; [| |discriminate].
        * exists lin, seq. apply Hsame; [apply (start_state cf now (g_st gs) r); rewrite Hstart; reflexivity | reflexivity|].
          intros k2 E. cbn in E. inversion E; subst. destruct (start_cont _ _ _ _ Hstart) as [Hcg Hdt]. split; [|apply Hdt; exact Dr].
          rewrite Hcg. intros Hown. apply is_own_spec in Hown. congruence.
        * exists lin, seq. apply Hsame; [apply (start_state cf now (g_st gs) r); rewrite Hstart; reflexivity | reflexivity|].
          intros k2 E. discriminate.
  Qed.

  Lemma run_snoc st h r : forall st1 reps st2 rep,
    Storage.run cf st h = Some (st1, reps) -> Storage.step cf now st1 r = Done st2 rep ->
    Storage.run cf st (h ++ [(now, r)]) = Some (st2, reps ++ [rep]).
  Proof.
    revert st. induction h as [|[n x] rest IH]; intros st st1 reps st2 rep H1 H2; cbn in *.
    - inversion H1; subst. rewrite H2. reflexivity.
    - destruct (Storage.step cf n st x) as [s' rp|]; [|discriminate].
      destruct (Storage.run cf s' rest) as [[s'' rps]|] eqn:E; [|discriminate]. inversion H1; subst.
      rewrite (IH s' st1 rps st2 rep E H2). reflexivity.
  Qed.

  Lemma seqreach_run lin seq : seqreach st0 lin seq ->
    exists reps, Storage.run cf st0 (map (fun r => (now, r)) lin) = Some (seq, reps).
  Proof.
    induction 1 as [|lin s r s' rep _ IH Hs]; [exists []; reflexivity|]. destruct IH as (reps & IH).
    exists (reps ++ [rep]). rewrite map_app. cbn [map]. eapply run_snoc; eauto.
  Qed.

  Lemma sim_init queues prios cl0 :
    get st0 c = Some cl0 -> nth_error queues i0 = Some q0 ->
    (forall i q r, nth_error queues i = Some q -> In r q -> is_own r = true -> i = i0) ->
    (forall q r, In q queues -> In r q -> is_dt r = false) ->
    sim (init_g st0 queues prios) [] st0.
  Proof.
    intros Hc Hq0 Hown Hdt. unfold init_g.
    assert (G : forall i w, nth_error (map (fun q => mkWorker q None []) queues) i = Some w ->
                exists q, nth_error queues i = Some q /\ w = mkWorker q None []).
    { intros i w H. rewrite nth_error_map in H. destruct (nth_error queues i) as [q|]; [|discriminate]. inversion H. eauto. }
    constructor; cbn [g_st g_ws].
    - constructor.
    - exists (cl_broker cl0). split; apply bro_of; exact Hc.
    - intros i w k Hi Hr. destruct (G i w Hi) as (q & _ & ->). discriminate.
    - reflexivity.
    - intros i w r Hi Hin O. destruct (G i w Hi) as (q & Hq & ->). eapply Hown; eauto.
    - intros i w Hi. destruct (G i w Hi) as (q & Hq & ->). split; [|discriminate].
      intros r Hin. eapply Hdt; [eapply nth_error_In; exact Hq | exact Hin].
    - constructor.
    - intros w Hw. destruct (G i0 w Hw) as (q & Hq & ->). rewrite Hq0 in Hq. inversion Hq; subst. reflexivity.
  Qed.

  (* the final-state theorem *)
  Theorem group_final_state queues prios sched cl0 :
    wf_queues queues ->
    get st0 c = Some cl0 -> nth_error queues i0 = Some q0 ->
    (forall i q r, nth_error queues i = Some q -> In r q -> is_own r = true -> i = i0) ->
    (forall q r, In q queues -> In r q -> is_dt r = false) ->
    let gs := fst (sched_run cf now true (init_g st0 queues prios) sched) in
    exists lin seq reps,
      Storage.run cf st0 (map (fun r => (now, r)) lin) = Some (seq, reps) /\
      Forall (fun r => is_own r = true \/ is_b r = true) lin /\
      bro (g_st gs) = bro seq /\
      (forall w, nth_error (g_ws gs) i0 = Some w ->
         filter is_own q0 = filter is_own lin ++ filter is_own (pend w) ++ filter is_own (w_queue w)) /\
      ((forall w k, nth_error (g_ws gs) i0 = Some w -> w_run w = Some k -> cont_group k <> Some (c, g)) ->
       grp (g_st gs) = grp seq).
  Proof.
    intros Hwf Hc Hq0 Hown Hdt.
    assert (Gen : forall sched gs gs' ts lin seq,
              inv gs -> g_crashed gs = false -> sim gs lin seq ->
              sched_run cf now true gs sched = (gs', ts) -> exists lin' seq', sim gs' lin' seq').
    { induction sched0 as [|i rest IH]; intros gs gs' ts lin seq I Hcr S H; cbn in H; [inversion H; subst; eauto|].
      destruct (sched_step cf now true gs i) as [gs1 t1] eqn:E1. destruct (sched_run cf now true gs1 rest) as [gs2 ts2] eqn:E2.
      inversion H; subst. destruct (inv_step cf now gs i gs1 t1 HN I Hcr E1) as [I1 Hc1].
      destruct (sim_step gs lin seq i gs1 t1 S E1 Hc1) as (lin1 & seq1 & S1). eapply IH; eauto. }
    destruct (sched_run cf now true (init_g st0 queues prios) sched) as [gsf ts] eqn:E. cbn.
    destruct (Gen sched _ _ _ [] st0 (inv_init st0 queues prios Hwf) eq_refl (sim_init queues prios cl0 Hc Hq0 Hown Hdt) E) as (lin & seq & S).
    destruct (seqreach_run lin seq (sim_reach _ _ _ S)) as (reps & Hrun).
    exists lin, seq, reps. split; [exact Hrun|]. split; [apply (sim_lin _ _ _ S)|].
    split; [destruct (sim_bro _ _ _ S) as (b & B1 & B2); congruence|]. split; [apply (sim_order _ _ _ S) | apply (sim_idle _ _ _ S)].
  Qed.
End Lin.
