(* Executable model of InMemoryStorage's request handlers (sequential semantics: one request
   at a time, as one worker executes it).
   Anchors: core/internal/storage/inmemory.go
     addBrokerOffset :274-315      getBrokerOffset :317-343     getConsumerPartition :345-368
     acceptConsumerGroup :370-378  addConsumerOffset :380-445   addConsumerOwner :552-600
     clearConsumerOwners :602-637  deleteTopic :639-660         deleteGroup :662-692
     fetchClusterList :694-704     fetchTopicList :706-724      fetchConsumerList :726-744
     fetchTopic :746-773           getConsumerTopicList :775-814  fetchConsumer :816-887
     fetchConsumersForTopicList :889-916
   Names (cluster, group, topic, owner, client id) are interned integers; 0 is the empty string.
   The clock is an explicit argument (seconds).  Go map iteration order is the order of the
   association lists; every listing is compared as a set. *)
From Coq Require Import ZArith List Bool.
From Burrow Require Import Int64 Eval AMap Ring.
Import ListNotations.
Open Scope Z_scope.

Definition bring := list (option Z).       (* broker offsets of one partition, oldest first, N slots *)

Record cpartition := mkCpartition { pr_ring : option ring; pr_owner : Z; pr_client : Z }.
Record cgroup := mkCgroup { g_topics : amap (list cpartition); g_last : Z }.
Record cluster := mkCluster { cl_broker : amap (list bring); cl_consumer : amap cgroup }.
Definition state := amap cluster.

Record config := mkConfig {
  cf_intervals : nat;          (* >= 1 *)
  cf_expire : Z;               (* expire-group, seconds *)
  cf_min_distance : Z;         (* min-distance, seconds *)
  cf_accept : Z -> bool }.     (* allowlist/denylist verdict for a group name (oracle: real regexp) *)

Inductive req :=
| SetBrokerOffset (c t p cnt off : Z)
| SetConsumerOffset (c g t p off order ts : Z)
| SetConsumerOwner (c g t p owner client : Z)
| ClearConsumerOwners (c g : Z)
| DeleteTopic (c t : Z)
| DeleteGroup (c g t : Z)               (* t = 0: whole group *)
| FetchClusters
| FetchConsumers (c : Z)
| FetchTopics (c : Z)
| FetchConsumer (c g : Z)
| FetchTopic (c t : Z)
| FetchConsumersForTopic (c t : Z).

Inductive reply :=
| RNone                                   (* request type has no reply *)
| RNil                                    (* reply channel closed without a value *)
| RStrings (l : list Z)
| RInts (l : list Z)
| RConsumer (l : list (Z * list cpart)).

Inductive outcome := Done (s : state) (r : reply) | Crashed.

Definition init_state (clusters : list Z) : state := map (fun c => (c, mkCluster [] [])) clusters.

Fixpoint set_nth {A} (l : list A) (i : nat) (x : A) : list A :=
  match l, i with
  | [], _ => []
  | _ :: r, O => x :: r
  | a :: r, S i' => a :: set_nth r i' x
  end.

(* ---- broker side ---- *)
Definition add_broker_offset (cf : config) (st : state) (c t p cnt off : Z) : outcome :=
  match get st c with
  | None => Done st RNone
  | Some cl =>
      let tl0 := match get (cl_broker cl) t with Some l => l | None => [] end in
      let tl1 := if Z.of_nat (length tl0) <=? cnt
                 then tl0 ++ repeat (repeat None (cf_intervals cf)) (Z.to_nat cnt - length tl0)
                 else tl0 in
      if (p <? 0) || (Z.of_nat (length tl1) <=? p) then Crashed      (* topicList[request.Partition] *)
      else
        let i := Z.to_nat p in
        let r := nth i tl1 [] in
        let r' := tl r ++ [Some off] in                               (* Next(); set value *)
        Done (set st c (mkCluster (set (cl_broker cl) t (set_nth tl1 i r')) (cl_consumer cl))) RNone
  end.

(* (offset, partition count); count 0 = "drop" *)
Definition get_broker_offset (cl : cluster) (t p : Z) : Z * Z :=
  match get (cl_broker cl) t with
  | None => (0, 0)
  | Some tl =>
      if p <? 0 then (0, 0)
      else if Z.of_nat (length tl) <=? p then (0, 0)
      else match last (nth (Z.to_nat p) tl []) None with
           | None => (0, 0)
           | Some off => (off, Z.of_nat (length tl))
           end
  end.

(* ---- consumer side ---- *)
Definition empty_group : cgroup := mkCgroup [] 0.
Definition empty_partition : cpartition := mkCpartition None 0 0.

(* getConsumerPartition: returns the updated topic list; the partition is at index p *)
Definition get_consumer_partition (cf : config) (g : cgroup) (t p cnt : Z) : list cpartition :=
  let l0 := match get (g_topics g) t with Some l => l | None => [] end in
  let l1 := if Z.of_nat (length l0) <=? p
            then l0 ++ repeat empty_partition (Z.to_nat cnt - length l0) else l0 in
  let i := Z.to_nat p in
  let pr := nth i l1 empty_partition in
  match pr_ring pr with
  | Some _ => l1
  | None => set_nth l1 i (mkCpartition (Some (new_ring (cf_intervals cf))) (pr_owner pr) (pr_client pr))
  end.

Definition too_old (cf : config) (now ts : Z) : bool := ts <? mul64 (sub64 now (cf_expire cf)) 1000.
Definition expired (cf : config) (now last : Z) : bool := last <? mul64 (sub64 now (cf_expire cf)) 1000.

(* findConsumerOffsetDestination returned a destination (the commit is stored somewhere in the ring) *)
Definition commit_stored (w : ring) (order : Z) : bool :=
  match find_place w order with PDrop => false | _ => true end.

Definition commit_lag (broker_off off : Z) : Z := if off <? broker_off then u64 (sub64 broker_off off) else 0.

Definition add_consumer_offset (cf : config) (now : Z) (st : state) (c g t p off order ts : Z) : outcome :=
  match get st c with
  | None => Done st RNone
  | Some cl =>
      if too_old cf now ts then Done st RNone
      else if negb (cf_accept cf g) then Done st RNone
      else
        let '(boff, cnt) := get_broker_offset cl t p in
        if cnt =? 0 then Done st RNone
        else
          let grp := match get (cl_consumer cl) g with Some x => x | None => empty_group end in
          let parts := get_consumer_partition cf grp t p cnt in
          let i := Z.to_nat p in
          let pr := nth i parts empty_partition in
          let w := match pr_ring pr with Some w => w | None => [] end in
          let '(w', appended) := ring_step (cf_min_distance cf) w (mkCommit off order ts) (commit_lag boff off) in
          let parts' := set_nth parts i (mkCpartition (Some w') (pr_owner pr) (pr_client pr)) in
          let grp' := mkCgroup (set (g_topics grp) t parts') (if commit_stored w order then Z.max ts (g_last grp) else g_last grp) in
          Done (set st c (mkCluster (cl_broker cl) (set (cl_consumer cl) g grp'))) RNone
  end.

Definition add_consumer_owner (cf : config) (st : state) (c g t p owner client : Z) : outcome :=
  match get st c with
  | None => Done st RNone
  | Some cl =>
      if negb (cf_accept cf g) then Done st RNone
      else
        let grp := match get (cl_consumer cl) g with Some x => x | None => empty_group end in
        let '(_, cnt) := get_broker_offset cl t p in
        if cnt =? 0 then
          (* the group entry has already been created *)
          Done (set st c (mkCluster (cl_broker cl) (set (cl_consumer cl) g grp))) RNone
        else
          let parts := get_consumer_partition cf grp t p cnt in
          let i := Z.to_nat p in
          let pr := nth i parts empty_partition in
          let parts' := set_nth parts i (mkCpartition (pr_ring pr) owner client) in
          let grp' := mkCgroup (set (g_topics grp) t parts') (g_last grp) in
          Done (set st c (mkCluster (cl_broker cl) (set (cl_consumer cl) g grp'))) RNone
  end.

Definition clear_owners_group (grp : cgroup) : cgroup :=
  mkCgroup (map_vals (map (fun pr => mkCpartition (pr_ring pr) 0 0)) (g_topics grp)) (g_last grp).

Definition clear_consumer_owners (cf : config) (st : state) (c g : Z) : outcome :=
  match get st c with
  | None => Done st RNone
  | Some cl =>
      if negb (cf_accept cf g) then Done st RNone
      else match get (cl_consumer cl) g with
           | None => Done st RNone
           | Some grp => Done (set st c (mkCluster (cl_broker cl) (set (cl_consumer cl) g (clear_owners_group grp)))) RNone
           end
  end.

Definition delete_topic (st : state) (c t : Z) : outcome :=
  match get st c with
  | None => Done st RNone
  | Some cl =>
      let cons := map_vals (fun grp => mkCgroup (remove (g_topics grp) t) (g_last grp)) (cl_consumer cl) in
      Done (set st c (mkCluster (remove (cl_broker cl) t) cons)) RNone
  end.

Definition delete_group (st : state) (c g t : Z) : outcome :=
  match get st c with
  | None => Done st RNone
  | Some cl =>
      match get (cl_consumer cl) g with
      | Some grp =>
          if t =? 0 then Done (set st c (mkCluster (cl_broker cl) (remove (cl_consumer cl) g))) RNone
          else
            let tops := remove (g_topics grp) t in
            match tops with
            | [] =>
                (* the group goes with its last topic - but only if the named topic was one of its topics *)
                match get (g_topics grp) t with
                | Some _ => Done (set st c (mkCluster (cl_broker cl) (remove (cl_consumer cl) g))) RNone
                | None => Done (set st c (mkCluster (cl_broker cl) (set (cl_consumer cl) g (mkCgroup tops (g_last grp))))) RNone
                end
            | _ => Done (set st c (mkCluster (cl_broker cl) (set (cl_consumer cl) g (mkCgroup tops (g_last grp))))) RNone
            end
      | None => Done st RNone
      end
  end.

(* ---- fetches ---- *)
Definition fetch_topic (st : state) (c t : Z) : outcome :=
  match get st c with
  | None => Done st RNil
  | Some cl =>
      match get (cl_broker cl) t with
      | None => Done st RNil
      | Some tl => Done st (RInts (flat_map (fun r => match last r None with Some o => [o] | None => [] end) tl))
      end
  end.

Definition somes {A} (l : list (option A)) : list A :=
  flat_map (fun o => match o with Some a => [a] | None => [] end) l.

(* getConsumerTopicList for one partition *)
Definition snapshot_partition (pr : cpartition) : cpart :=
  mkCpart (match pr_ring pr with Some w => readout w | None => [] end) [] (pr_owner pr) (pr_client pr) 0.

Definition current_lag (broker_off last_off : Z) : Z :=
  if broker_off <? last_off then 0 else u64 (sub64 broker_off last_off).

(* second half of fetchConsumer for one partition of a topic the broker knows *)
Definition add_lag (r : bring) (cp : cpart) : option cpart :=
  let bo := somes r in
  match cp_offsets cp with
  | [] => Some (mkCpart (cp_offsets cp) bo (cp_owner cp) (cp_client cp) (cp_lag cp))
  | o0 :: orest =>
      match bo with
      | [] => Some (mkCpart (cp_offsets cp) bo (cp_owner cp) (cp_client cp) (cp_lag cp))
                                                         (* no broker offset recorded: no lag (guard added by 54faa50) *)
      | b0 :: brest =>
          let b := last bo b0 in
          match last (cp_offsets cp) None with
          | Some lo => Some (mkCpart (cp_offsets cp) bo (cp_owner cp) (cp_client cp) (current_lag b (co_offset lo)))
          | None => Some (mkCpart (cp_offsets cp) bo (cp_owner cp) (cp_client cp) (cp_lag cp))
          end
      end
  end.

Fixpoint add_lags (tl : list bring) (i : nat) (cps : list cpart) : option (list cpart) :=
  match cps with
  | [] => Some []
  | cp :: rest =>
      match nth_error tl i with
      | None =>                                          (* p >= len(topicMap): partition left as it is (54faa50) *)
          match add_lags tl (S i) rest with
          | Some rest' => Some (cp :: rest')
          | None => None
          end
      | Some r =>
          match add_lag r cp, add_lags tl (S i) rest with
          | Some cp', Some rest' => Some (cp' :: rest')
          | _, _ => None
          end
      end
  end.

Fixpoint fetch_topics_lags (broker : amap (list bring)) (tops : list (Z * list cpart))
  : option (list (Z * list cpart)) :=
  match tops with
  | [] => Some []
  | (t, cps) :: rest =>
      let here := match get broker t with
                  | None => Some cps                     (* topic just deleted: return what we have *)
                  | Some tl => add_lags tl 0 cps
                  end in
      match here, fetch_topics_lags broker rest with
      | Some cps', Some rest' => Some ((t, cps') :: rest')
      | _, _ => None
      end
  end.

Definition fetch_consumer (cf : config) (now : Z) (st : state) (c g : Z) : outcome :=
  match get st c with
  | None => Done st RNil
  | Some cl =>
      match get (cl_consumer cl) g with
      | None => Done st RNil
      | Some grp =>
          if expired cf now (g_last grp)
          then Done (set st c (mkCluster (cl_broker cl) (remove (cl_consumer cl) g))) RNil
          else
            let snap := map (fun tp => (fst tp, map snapshot_partition (snd tp))) (g_topics grp) in
            match fetch_topics_lags (cl_broker cl) snap with
            | Some l => Done st (RConsumer l)
            | None => Crashed
            end
      end
  end.

Definition fetch_consumers_for_topic (st : state) (c t : Z) : outcome :=
  match get st c with
  | None => Done st RNil
  | Some cl =>
      Done st (RStrings (map fst (filter (fun gv => match get (g_topics (snd gv)) t with Some _ => true | None => false end)
                                         (cl_consumer cl))))
  end.

Definition step (cf : config) (now : Z) (st : state) (r : req) : outcome :=
  match r with
  | SetBrokerOffset c t p cnt off => add_broker_offset cf st c t p cnt off
  | SetConsumerOffset c g t p off order ts => add_consumer_offset cf now st c g t p off order ts
  | SetConsumerOwner c g t p owner client => add_consumer_owner cf st c g t p owner client
  | ClearConsumerOwners c g => clear_consumer_owners cf st c g
  | DeleteTopic c t => delete_topic st c t
  | DeleteGroup c g t => delete_group st c g t
  | FetchClusters => Done st (RStrings (keys st))
  | FetchConsumers c => match get st c with None => Done st RNil | Some cl => Done st (RStrings (keys (cl_consumer cl))) end
  | FetchTopics c => match get st c with None => Done st RNil | Some cl => Done st (RStrings (keys (cl_broker cl))) end
  | FetchConsumer c g => fetch_consumer cf now st c g
  | FetchTopic c t => fetch_topic st c t
  | FetchConsumersForTopic c t => fetch_consumers_for_topic st c t
  end.

(* a history: (clock, request) pairs; replies collected in order; a crash ends the run *)
Fixpoint run (cf : config) (st : state) (h : list (Z * req)) : option (state * list reply) :=
  match h with
  | [] => Some (st, [])
  | (now, r) :: rest =>
      match step cf now st r with
      | Crashed => None
      | Done st' rep =>
          match run cf st' rest with
          | Some (st'', reps) => Some (st'', rep :: reps)
          | None => None
          end
      end
  end.
