(* ConfigReadProofs.v -- C18: the read-set checker of ConfigRead.v implies non-interference.

   Main results (all configurations = all trees, all parameter lists, all backends, all renderers, all
   cast oracles):
     noninterference        reads_avoid_passwords tbl = true -> agree_except_passwords cfg cfg' ->
                            respond ... tbl cfg h ps b = respond ... tbl cfg' h ps b
     respond_ignores_passwords   ... respond ... tbl cfg h ps b = respond ... tbl (set_passwords f cfg) h ps b
     respond_of_erased           ... respond ... tbl cfg h ps b = respond ... tbl (erase_passwords cfg) h ps b
     row_ok_sound           what an accepted row can touch (no instance of its pattern is / covers a password path)
   and the non-vacuity / sharpness examples used by props/C18.v. *)
Require Import List ZArith Bool String Ascii Lia Arith.
Import ListNotations.
From Burrow Require Import ConfigRead.
Open Scope Z_scope.

(* ------------------------------------------------------------------------------------------------ *)
(* byte strings, split_dots                                                                          *)
(* ------------------------------------------------------------------------------------------------ *)

Lemma beq_eq : forall a b, beq a b = true -> a = b.
Proof.
  induction a as [|x a IH]; destruct b as [|y b]; simpl; intros H; try discriminate; auto.
  apply andb_prop in H. destruct H as [H1 H2]. apply Z.eqb_eq in H1. subst. f_equal. auto.
Qed.

Lemma beq_refl : forall a, beq a a = true.
Proof. induction a as [|x a IH]; simpl; auto. rewrite Z.eqb_refl. exact IH. Qed.

Lemma lower_app : forall a b, lower (a ++ b) = lower a ++ lower b.
Proof. intros. unfold lower. apply map_app. Qed.

Lemma count_dots_app : forall a b, count_dots (a ++ b) = (count_dots a + count_dots b)%nat.
Proof. intros. unfold count_dots. rewrite filter_app, app_length. reflexivity. Qed.

Lemma count_dots_cons : forall c r,
  count_dots (c :: r) = if c =? dot then S (count_dots r) else count_dots r.
Proof. intros. unfold count_dots. simpl. destruct (c =? dot); reflexivity. Qed.

Lemma split_dots_cons : forall c r,
  split_dots (c :: r) =
  if c =? dot then [] :: split_dots r
  else match split_dots r with h :: t => (c :: h) :: t | [] => [[c]] end.
Proof. reflexivity. Qed.

Lemma split_dots_length : forall s, List.length (split_dots s) = S (count_dots s).
Proof.
  induction s as [|c r IH]; [reflexivity|].
  rewrite split_dots_cons, count_dots_cons. destruct (c =? dot).
  - simpl. rewrite IH. reflexivity.
  - destruct (split_dots r) as [|h t]; simpl in *; [discriminate|exact IH].
Qed.

Lemma split_dots_nonempty : forall s, split_dots s <> [].
Proof. intros s E. pose proof (split_dots_length s) as L. rewrite E in L. discriminate. Qed.

(* a literal tail that contains a dot fixes the last segment *)
Lemma last_split_app : forall a b d, (0 < count_dots b)%nat ->
  last (split_dots (a ++ b)) d = last (split_dots b) d.
Proof.
  induction a as [|c a IH]; intros b d Hb; [reflexivity|].
  change ((c :: a) ++ b) with (c :: (a ++ b)). rewrite split_dots_cons.
  specialize (IH b d Hb).
  pose proof (split_dots_length (a ++ b)) as L. rewrite count_dots_app in L.
  destruct (split_dots (a ++ b)) as [|h t] eqn:E; [discriminate|].
  destruct (c =? dot).
  - exact IH.
  - destruct t as [|t1 t']; [simpl in L; lia|]. exact IH.
Qed.

(* a literal head that contains a dot fixes the first segment *)
Lemma hd_split_app : forall a b d, (0 < count_dots a)%nat ->
  hd d (split_dots (a ++ b)) = hd d (split_dots a).
Proof.
  induction a as [|c a IH]; intros b d Ha; [unfold count_dots in Ha; simpl in Ha; lia|].
  change ((c :: a) ++ b) with (c :: (a ++ b)). rewrite !split_dots_cons.
  rewrite count_dots_cons in Ha.
  destruct (c =? dot); [reflexivity|].
  specialize (IH b [] Ha).
  pose proof (split_dots_nonempty (a ++ b)) as N1. pose proof (split_dots_nonempty a) as N2.
  destruct (split_dots (a ++ b)) as [|h t]; [congruence|].
  destruct (split_dots a) as [|h' t']; [congruence|].
  simpl in *. congruence.
Qed.

(* ------------------------------------------------------------------------------------------------ *)
(* password paths                                                                                    *)
(* ------------------------------------------------------------------------------------------------ *)

Lemma in_pw_section_split : forall a, in_pw_section a = in_deep_section a || in_flat_section a.
Proof. intros a. unfold in_pw_section, pw_sections, in_deep_section, in_flat_section. apply existsb_app. Qed.

Lemma is_pw_unfold : forall p, is_pw p = true ->
  (3 <= List.length p)%nat /\ last p [] = pw_key /\ (in_deep_section (hd [] p) = true \/ (in_flat_section (hd [] p) = true /\ List.length p = 3%nat)).
Proof.
  intros p H. unfold is_pw in H.
  apply andb_prop in H. destruct H as [H H3]. apply andb_prop in H. destruct H as [H1 H2].
  apply Nat.leb_le in H1. apply beq_eq in H2. split; [exact H1|]. split; [exact H2|].
  apply orb_prop in H3. destruct H3 as [H3|H3]; [left; exact H3|right].
  apply andb_prop in H3. destruct H3 as [H3 H4]. apply Nat.eqb_eq in H4. split; assumption.
Qed.

Lemma is_pw_last : forall p, is_pw p = true -> last p [] = pw_key.
Proof. intros p H. apply is_pw_unfold in H. tauto. Qed.

Lemma is_pw_len3 : forall p, is_pw p = true -> (3 <= List.length p)%nat.
Proof. intros p H. apply is_pw_unfold in H. tauto. Qed.

Lemma is_pw_hd : forall p, is_pw p = true -> in_pw_section (hd [] p) = true.
Proof.
  intros p H. apply is_pw_unfold in H. destruct H as (_ & _ & [H|[H _]]); rewrite in_pw_section_split, H;
    [reflexivity|apply orb_true_r].
Qed.

(* outside the sections whose profiles nest, a password path has exactly three segments *)
Lemma is_pw_flat_len : forall p, is_pw p = true -> in_deep_section (hd [] p) = false -> List.length p = 3%nat.
Proof. intros p H D. apply is_pw_unfold in H. destruct H as (_ & _ & [H|[_ H]]); [congruence|exact H]. Qed.

(* no password path is p or lies below p *)
Definition safe_below (p : list bytes) : Prop := forall q, is_pw (p ++ q) = false.

Lemma safe_below_here : forall p, safe_below p -> is_pw p = false.
Proof. intros p S. specialize (S []). rewrite app_nil_r in S. exact S. Qed.

Lemma safe_below_step : forall p s, safe_below p -> safe_below (p ++ [s]).
Proof. intros p s S q. rewrite <- app_assoc. apply S. Qed.

Lemma path_below_ok_safe : forall p, path_below_ok p = true -> safe_below p.
Proof.
  intros p H q. destruct p as [|a r]; [discriminate|]. unfold path_below_ok in H.
  destruct (is_pw ((a :: r) ++ q)) eqn:E; [|reflexivity]. exfalso.
  apply orb_prop in H. destruct H as [H|H].
  - apply is_pw_hd in E. simpl in E. rewrite E in H. discriminate.
  - apply andb_prop in H. destruct H as [H H2]. apply andb_prop in H. destruct H as [H0 H1].
    apply negb_true_iff in H0. apply Nat.leb_le in H1.
    apply is_pw_flat_len in E as L; [|exact H0].
    destruct q as [|x q].
    + rewrite app_nil_r in E. rewrite E in H2. discriminate.
    + rewrite app_length in L. simpl in L, H1. lia.
Qed.

(* ------------------------------------------------------------------------------------------------ *)
(* agreement and lookup                                                                              *)
(* ------------------------------------------------------------------------------------------------ *)

Scheme tree_ind2 := Induction for tree Sort Prop
  with kids_ind2 := Induction for kids Sort Prop.
Combined Scheme tree_kids_ind from tree_ind2, kids_ind2.

Lemma agree_eq_mut :
  (forall t p t', agree p t t' -> safe_below p -> t = t') /\
  (forall ks p ks', agree_kids p ks ks' -> safe_below p -> ks = ks').
Proof.
  apply tree_kids_ind.
  - intros v p t' H S. destruct t' as [v'|ks']; simpl in H; [|contradiction].
    destruct H as [H|H]; [subst; reflexivity|].
    rewrite (safe_below_here p S) in H. discriminate.
  - intros ks IH p t' H S. destruct t' as [v'|ks']; simpl in H; [contradiction|].
    f_equal. eapply IH; eauto.
  - intros p ks' H S. destruct ks'; simpl in H; [reflexivity|contradiction].
  - intros k c IHc r IHr p ks' H S. destruct ks' as [|k' c' r']; simpl in H; [contradiction|].
    destruct H as (E & Hc & Hr). subst k'. f_equal.
    + eapply IHc; [exact Hc|]. apply safe_below_step. exact S.
    + eapply IHr; eauto.
Qed.

Lemma agree_eq : forall t p t', agree p t t' -> safe_below p -> t = t'.
Proof. exact (proj1 agree_eq_mut). Qed.

Lemma agree_refl_mut :
  (forall t p, agree p t t) /\ (forall ks p, agree_kids p ks ks).
Proof.
  apply tree_kids_ind; simpl; intros; auto.
Qed.

Lemma agree_set_pw_mut : forall f,
  (forall t p, agree p t (set_pw f p t)) /\ (forall ks p, agree_kids p ks (set_pw_kids f p ks)).
Proof.
  intro f. apply tree_kids_ind.
  - intros v p. simpl. destruct (is_pw p) eqn:E; simpl; rewrite ?E; auto.
  - intros ks IH p. simpl. apply IH.
  - intros p. exact I.
  - intros k c IHc r IHr p. simpl. auto.
Qed.

Lemma agree_set_passwords : forall f cfg, agree_except_passwords cfg (set_passwords f cfg).
Proof. intros. apply (proj1 (agree_set_pw_mut f)). Qed.

Lemma agree_kid_find : forall ks p ks' seg, agree_kids p ks ks' ->
  match kid_find seg ks, kid_find seg ks' with
  | Some c, Some c' => agree (p ++ [seg]) c c'
  | None, None => True
  | _, _ => False
  end.
Proof.
  induction ks as [|k c r IH]; intros p ks' seg H; destruct ks' as [|k' c' r']; simpl in H; try contradiction.
  - exact I.
  - destruct H as (E & Hc & Hr). subst k'. simpl.
    destruct (beq (lower k) seg) eqn:B.
    + apply beq_eq in B. subst seg. exact Hc.
    + apply IH. exact Hr.
Qed.

Lemma agree_lookup : forall path t t' p, agree p t t' ->
  match lookup t path, lookup t' path with
  | Some c, Some c' => agree (p ++ path) c c'
  | None, None => True
  | _, _ => False
  end.
Proof.
  induction path as [|s rest IH]; intros t t' p H.
  - simpl. rewrite app_nil_r. exact H.
  - destruct t as [v|ks]; destruct t' as [v'|ks']; simpl in H; try contradiction.
    + exact I.
    + simpl. pose proof (agree_kid_find ks p ks' s H) as K.
      destruct (kid_find s ks) as [c|]; destruct (kid_find s ks') as [c'|]; try contradiction.
      * specialize (IH c c' (p ++ [s]) K). rewrite <- app_assoc in IH. exact IH.
      * exact I.
Qed.

Lemma agree_kid_keys : forall ks p ks', agree_kids p ks ks' -> kid_keys ks = kid_keys ks'.
Proof.
  induction ks as [|k c r IH]; intros p ks' H; destruct ks' as [|k' c' r']; simpl in H; try contradiction.
  - reflexivity.
  - destruct H as (E & _ & Hr). subst. simpl. f_equal. eapply IH; eauto.
Qed.

(* ------------------------------------------------------------------------------------------------ *)
(* one read                                                                                          *)
(* ------------------------------------------------------------------------------------------------ *)

(* what the path of a key has to satisfy for a read of kind k not to depend on password values *)
Definition key_safe (k : rkind) (key : bytes) : Prop :=
  match k with
  | KExists | KUnknown => True
  | KKeys | KScalar => is_pw (key_path key) = false
  | KChildren | KSubtree => safe_below (key_path key)
  end.

Lemma key_path_dots : forall key, (0 < count_dots (lower key))%nat -> key_path key = path_of key.
Proof. intros key H. destruct key; [unfold count_dots in H; simpl in H; lia|reflexivity]. Qed.

Section Proofs.
  Variable to_string : value -> bytes.
  Variable leaf_keys : value -> list bytes.
  Variable leaf_kids : value -> list (bytes * option value).

  Lemma read_eq : forall cfg cfg' k key,
    agree_except_passwords cfg cfg' -> key_safe k key ->
    read leaf_keys leaf_kids cfg k key = read leaf_keys leaf_kids cfg' k key.
  Proof.
    intros cfg cfg' k key A S. unfold read.
    pose proof (agree_lookup (key_path key) cfg cfg' [] A) as L. simpl in L.
    destruct (lookup cfg (key_path key)) as [c|]; destruct (lookup cfg' (key_path key)) as [c'|];
      try contradiction; [|reflexivity].
    destruct k; simpl in S; try reflexivity.
    - (* keys *)
      destruct c as [v|ks]; destruct c' as [v'|ks']; simpl in L; try contradiction.
      + destruct L as [L|L]; [subst; reflexivity|congruence].
      + f_equal. eapply agree_kid_keys; eauto.
    - (* scalar *)
      destruct c as [v|ks]; destruct c' as [v'|ks']; simpl in L; try contradiction; [|reflexivity].
      destruct L as [L|L]; [subst; reflexivity|congruence].
    - (* children *)
      rewrite (agree_eq c _ c' L S). reflexivity.
    - (* subtree *)
      rewrite (agree_eq c _ c' L S). reflexivity.
  Qed.

  (* ---------------------------------------------------------------------------------------------- *)
  (* instances of a pattern                                                                          *)
  (* ---------------------------------------------------------------------------------------------- *)

  Lemma inst_cons : forall ps env e r key,
    In key (inst to_string ps env (e :: r)) <->
    exists a b, In a (elem_strings to_string ps env e) /\ In b (inst to_string ps env r) /\ key = a ++ b.
  Proof.
    intros. simpl. rewrite in_flat_map. split.
    - intros (a & Ha & Hk). apply in_map_iff in Hk. destruct Hk as (b & E & Hb). eauto.
    - intros (a & b & Ha & Hb & E). exists a. split; [exact Ha|]. apply in_map_iff. eauto.
  Qed.

  Lemma inst_lead : forall ps env pat key,
    In key (inst to_string ps env pat) -> exists rest, key = lead pat ++ rest.
  Proof.
    induction pat as [|e r IH]; intros key H.
    - exists key. reflexivity.
    - destruct e; try (exists key; reflexivity).
      apply inst_cons in H. destruct H as (a & b & Ha & Hb & E). simpl in Ha.
      destruct Ha as [Ha|[]]. subst a. destruct (IH b Hb) as (rest & Er). exists rest.
      simpl. rewrite <- app_assoc. congruence.
  Qed.

  Lemma inst_all_fixed : forall ps env pat,
    forallb is_fix pat = true -> inst to_string ps env pat = [lead pat].
  Proof.
    induction pat as [|e r IH]; intros H; [reflexivity|].
    simpl in H. apply andb_prop in H. destruct H as [He Hr]. destruct e; try discriminate.
    simpl. rewrite (IH Hr). simpl. reflexivity.
  Qed.

  Lemma inst_suffix : forall ps env pat s key,
    last pat (PUnknown EmptyString) = PFix s -> In key (inst to_string ps env pat) ->
    exists pre, key = pre ++ bytes_of_string s.
  Proof.
    induction pat as [|e r IH]; intros s key L H; [discriminate|].
    apply inst_cons in H. destruct H as (a & b & Ha & Hb & E).
    destruct r as [|e' r'].
    - simpl in L. subst e. simpl in Ha, Hb. destruct Ha as [Ha|[]]. destruct Hb as [Hb|[]]. subst.
      exists []. rewrite app_nil_r. reflexivity.
    - change (last (e :: e' :: r') (PUnknown EmptyString)) with (last (e' :: r') (PUnknown EmptyString)) in L.
      destruct (IH s b L Hb) as (pre & Ep). exists (a ++ pre). rewrite <- app_assoc. congruence.
  Qed.

  Lemma inst_dots : forall ps env pat key,
    In key (inst to_string ps env pat) -> (fixed_dots pat <= count_dots (lower key))%nat.
  Proof.
    induction pat as [|e r IH]; intros key H; [simpl; lia|].
    apply inst_cons in H. destruct H as (a & b & Ha & Hb & E). subst key.
    rewrite lower_app, count_dots_app. specialize (IH b Hb).
    destruct e; simpl; try lia.
    simpl in Ha. destruct Ha as [Ha|[]]. subst a. lia.
  Qed.

  (* ---------------------------------------------------------------------------------------------- *)
  (* the three reasons a pattern is accepted                                                         *)
  (* ---------------------------------------------------------------------------------------------- *)

  (* a literal head with a dot pins the first segment of every instance *)
  Lemma lead_hd : forall ps env pat key q,
    (0 < count_dots (lower (lead pat)))%nat -> In key (inst to_string ps env pat) ->
    key_path key = path_of key /\
    hd [] (path_of key ++ q) = hd [] (split_dots (lower (lead pat))).
  Proof.
    intros ps env pat key q F1 H.
    destruct (inst_lead ps env pat key H) as (rest & E).
    split; [apply key_path_dots; rewrite E, lower_app, count_dots_app; lia|].
    unfold path_of. rewrite E, lower_app.
    pose proof (split_dots_nonempty (lower (lead pat) ++ lower rest)) as N.
    pose proof (hd_split_app (lower (lead pat)) (lower rest) [] F1) as Hh.
    destruct (split_dots (lower (lead pat) ++ lower rest)) as [|h t] eqn:S; [congruence|].
    exact Hh.
  Qed.

  Lemma first_seg_sound : forall ps env pat key,
    first_seg_safe pat = true -> In key (inst to_string ps env pat) -> safe_below (key_path key).
  Proof.
    intros ps env pat key F H q. unfold first_seg_safe in F. cbv zeta in F. apply andb_prop in F. destruct F as [F1 F2].
    apply Nat.ltb_lt in F1.
    destruct (lead_hd ps env pat key q F1 H) as [K Hh]. rewrite K.
    destruct (is_pw (path_of key ++ q)) eqn:P; [|reflexivity]. exfalso.
    apply is_pw_hd in P.
    change (negb (in_pw_section (hd [] (split_dots (lower (lead pat))))) = true) in F2.
    unfold bytes in *. rewrite Hh in P. rewrite P in F2. discriminate.
  Qed.

  Lemma last_seg_sound : forall ps env pat key,
    last_seg_safe pat = true -> In key (inst to_string ps env pat) -> is_pw (key_path key) = false.
  Proof.
    intros ps env pat key F H. unfold last_seg_safe in F.
    destruct (last pat (PUnknown EmptyString)) as [s| | | |] eqn:L; try discriminate.
    apply andb_prop in F. destruct F as [F1 F2]. apply Nat.ltb_lt in F1.
    destruct (inst_suffix ps env pat s key L H) as (pre & E).
    rewrite key_path_dots by (rewrite E, lower_app, count_dots_app; lia).
    destruct (is_pw (path_of key)) eqn:P; [|reflexivity]. exfalso.
    apply is_pw_last in P. unfold path_of in P. rewrite E, lower_app in P.
    rewrite (last_split_app (lower pre) (lower (bytes_of_string s)) [] F1) in P.
    rewrite P, beq_refl in F2. discriminate.
  Qed.

  Lemma last_seg_below_sound : forall ps env pat key,
    last_seg_safe pat = true -> (2 <= fixed_dots pat)%nat -> first_seg_not_deep pat = true ->
    In key (inst to_string ps env pat) -> safe_below (key_path key).
  Proof.
    intros ps env pat key F D N H q.
    destruct q as [|x q]; [rewrite app_nil_r; eapply last_seg_sound; eauto|].
    pose proof (inst_dots ps env pat key H) as ID.
    unfold first_seg_not_deep in N. cbv zeta in N. apply andb_prop in N. destruct N as [N1 N2].
    apply Nat.ltb_lt in N1.
    destruct (lead_hd ps env pat key (x :: q) N1 H) as [K Hh]. rewrite K.
    destruct (is_pw (path_of key ++ x :: q)) eqn:P; [|reflexivity]. exfalso.
    change (negb (in_deep_section (hd [] (split_dots (lower (lead pat))))) = true) in N2.
    apply negb_true_iff in N2.
    apply is_pw_flat_len in P.
    - rewrite app_length in P. unfold path_of in P. rewrite split_dots_length in P. simpl in P. lia.
    - unfold bytes in *. rewrite Hh. exact N2.
  Qed.

  Lemma exact_ok_sound : forall ps env pat key,
    exact_ok pat = true -> In key (inst to_string ps env pat) -> is_pw (key_path key) = false.
  Proof.
    intros ps env pat key O H. unfold exact_ok in O.
    destruct (forallb is_fix pat) eqn:F.
    - rewrite (inst_all_fixed ps env pat F) in H. destruct H as [H|[]]. subst key.
      apply negb_true_iff in O. exact O.
    - apply orb_prop in O. destruct O as [O|O].
      + apply safe_below_here. eapply first_seg_sound; eauto.
      + eapply last_seg_sound; eauto.
  Qed.

  Lemma below_ok_sound : forall ps env pat key,
    below_ok pat = true -> In key (inst to_string ps env pat) -> safe_below (key_path key).
  Proof.
    intros ps env pat key O H. unfold below_ok in O.
    destruct (forallb is_fix pat) eqn:F.
    - rewrite (inst_all_fixed ps env pat F) in H. destruct H as [H|[]]. subst key.
      apply path_below_ok_safe. exact O.
    - apply orb_prop in O. destruct O as [O|O].
      + eapply first_seg_sound; eauto.
      + apply andb_prop in O. destruct O as [O O3]. apply andb_prop in O. destruct O as [O1 O2].
        apply Nat.leb_le in O2. eapply last_seg_below_sound; eauto.
  Qed.

  (* an accepted row never touches a password value, whatever fills its holes *)
  Theorem row_ok_sound : forall r ps env key,
    row_ok r = true -> In key (inst to_string ps env (row_pat r)) -> key_safe (row_kind r) key.
  Proof.
    intros r ps env key O H. unfold row_ok in O. unfold key_safe.
    destruct (row_kind r); try exact I; try discriminate;
      apply andb_prop in O; destruct O as [_ O];
      first [eapply exact_ok_sound; eauto | eapply below_ok_sound; eauto].
  Qed.

  (* ---------------------------------------------------------------------------------------------- *)
  (* non-interference                                                                                *)
  (* ---------------------------------------------------------------------------------------------- *)

  Lemma eval_row_eq : forall cfg cfg' ps env r,
    agree_except_passwords cfg cfg' -> row_ok r = true ->
    eval_row to_string leaf_keys leaf_kids cfg ps env r = eval_row to_string leaf_keys leaf_kids cfg' ps env r.
  Proof.
    intros cfg cfg' ps env r A O. unfold eval_row. apply map_ext_in. intros key H.
    apply read_eq; [exact A|]. eapply row_ok_sound; eauto.
  Qed.

  Lemma eval_rows_eq : forall cfg cfg' ps rows env,
    agree_except_passwords cfg cfg' -> forallb row_ok rows = true ->
    eval_rows to_string leaf_keys leaf_kids cfg ps env rows = eval_rows to_string leaf_keys leaf_kids cfg' ps env rows.
  Proof.
    induction rows as [|r rest IH]; intros env A O; [reflexivity|].
    simpl in O. apply andb_prop in O. destruct O as [Or Orest]. simpl.
    rewrite (eval_row_eq cfg cfg' ps env r A Or). apply IH; assumption.
  Qed.

  Lemma rows_of_ok : forall tbl h, reads_avoid_passwords tbl = true -> forallb row_ok (rows_of tbl h) = true.
  Proof.
    intros tbl h O. unfold reads_avoid_passwords in O. rewrite forallb_forall in *.
    intros r H. unfold rows_of in H. apply filter_In in H. apply O. tauto.
  Qed.

  Theorem observe_eq : forall tbl, reads_avoid_passwords tbl = true ->
    forall cfg cfg' handler ps, agree_except_passwords cfg cfg' ->
    observe to_string leaf_keys leaf_kids tbl cfg handler ps = observe to_string leaf_keys leaf_kids tbl cfg' handler ps.
  Proof.
    intros tbl O cfg cfg' h ps A. unfold observe. apply eval_rows_eq; [exact A|]. apply rows_of_ok. exact O.
  Qed.

  Theorem noninterference : forall tbl, reads_avoid_passwords tbl = true ->
    forall (R : Type) (render : string -> params -> backend -> renv -> R) cfg cfg' route ps b,
    agree_except_passwords cfg cfg' ->
    respond to_string leaf_keys leaf_kids render tbl cfg route ps b
    = respond to_string leaf_keys leaf_kids render tbl cfg' route ps b.
  Proof.
    intros tbl O R render cfg cfg' route ps b A. unfold respond.
    rewrite (observe_eq tbl O cfg cfg' route ps A). reflexivity.
  Qed.

  (* the response is unchanged when every password is replaced by anything else ... *)
  Theorem respond_ignores_passwords : forall tbl, reads_avoid_passwords tbl = true ->
    forall (R : Type) (render : string -> params -> backend -> renv -> R) (f : value -> value) cfg route ps b,
    respond to_string leaf_keys leaf_kids render tbl cfg route ps b
    = respond to_string leaf_keys leaf_kids render tbl (set_passwords f cfg) route ps b.
  Proof.
    intros. apply noninterference; [assumption|]. apply agree_set_passwords.
  Qed.

  (* ... in particular it is computed from the configuration with all passwords erased *)
  Theorem respond_of_erased : forall tbl, reads_avoid_passwords tbl = true ->
    forall (R : Type) (render : string -> params -> backend -> renv -> R) cfg route ps b,
    respond to_string leaf_keys leaf_kids render tbl cfg route ps b
    = respond to_string leaf_keys leaf_kids render tbl (erase_passwords cfg) route ps b.
  Proof. intros. unfold erase_passwords. apply respond_ignores_passwords. assumption. Qed.
End Proofs.

(* ------------------------------------------------------------------------------------------------ *)
(* every registered route has a walked handler                                                       *)
(* ------------------------------------------------------------------------------------------------ *)

Lemma str_in_In : forall s l, str_in s l = true -> In s l.
Proof.
  intros s l H. unfold str_in in H. apply existsb_exists in H. destruct H as (x & Hx & E).
  apply String.eqb_eq in E. subst. exact Hx.
Qed.

Lemma route_handlers_walked_row : forall rt opts walked m p segs h reg,
  route_handlers_walked rt opts walked = true -> In (RtRow m p segs h reg) rt -> In h walked.
Proof.
  intros rt opts walked m p segs h reg H I. unfold route_handlers_walked in H.
  apply andb_prop in H. destruct H as [H _]. rewrite forallb_forall in H.
  specialize (H _ I). simpl in H. apply str_in_In. exact H.
Qed.

Lemma route_handlers_walked_default : forall rt opts walked,
  route_handlers_walked rt opts walked = true -> opts <> [] -> In "ServeHTTP"%string walked.
Proof.
  intros rt opts walked H N. unfold route_handlers_walked in H.
  apply andb_prop in H. destruct H as [_ H]. destruct opts; [congruence|]. apply str_in_In. exact H.
Qed.

Lemma route_handlers_walked_no_unknown : forall rt opts walked pos why,
  route_handlers_walked rt opts walked = true -> ~ In (RtUnknown pos why) rt.
Proof.
  intros rt opts walked pos why H I. unfold route_handlers_walked in H.
  apply andb_prop in H. destruct H as [H _]. rewrite forallb_forall in H.
  specialize (H _ I). discriminate.
Qed.

(* ------------------------------------------------------------------------------------------------ *)
(* non-vacuity and sharpness                                                                         *)
(* ------------------------------------------------------------------------------------------------ *)

Open Scope string_scope.

(* a configuration with a SASL profile and an e-mail notifier, both with passwords, and its twin *)
Definition ex_cfg (pw1 pw2 : string) : tree :=
  Node (KCons (pb "sasl") (Node (KCons (pb "Prof") (Node
           (KCons (pb "username") (Leaf (VStr (pb "kafka")))
           (KCons (pb "password") (Leaf (VStr (pb pw1))) KNil))) KNil))
       (KCons (pb "notifier") (Node (KCons (pb "mail") (Node
           (KCons (pb "class-name") (Leaf (VStr (pb "email")))
           (KCons (pb "Password") (Leaf (VStr (pb pw2)))
           (KCons (pb "extras") (Node (KCons (pb "k") (Leaf (VStr (pb "v"))) KNil)) KNil)))) KNil))
       (KCons (pb "client-profile") (Node (KCons (pb "cp") (Node
           (KCons (pb "sasl") (Leaf (VStr (pb "prof"))) KNil)) KNil))
       KNil))).

Definition ex_a : tree := ex_cfg "hunter2" "swordfish".
Definition ex_b : tree := ex_cfg "correct horse" "battery staple".

Lemma ex_agree : agree_except_passwords ex_a ex_b.
Proof. vm_compute. intuition. Qed.

Lemma ex_differ : ex_a <> ex_b.
Proof. discriminate. Qed.

Definition ex_to_string (v : value) : bytes := match v with VStr s => s | _ => [] end.
Definition ex_no_keys (_ : value) : list bytes := [].
Definition ex_no_kids (_ : value) : list (bytes * option value) := [].
Definition ex_observe := observe ex_to_string ex_no_keys ex_no_kids.

(* the shape of the real table: parameter holes, the client-profile -> sasl indirection, a keys-only map read,
   a children read three segments deep, a package-wide row *)
Definition ex_good_table : list rrow := [
  RRow 1 "h" KKeys [PFix "notifier"] "viper.GetStringMap" "" "";
  RRow 2 "h" KScalar [PFix "client-profile."; PParam "name"; PFix ".sasl"] "viper.GetString" "" "";
  RRow 3 "h" KExists [PFix "sasl."; PValOf 2] "viper.IsSet" "" "";
  RRow 4 "h" KScalar [PFix "sasl."; PValOf 2; PFix ".username"] "viper.GetString" "" "";
  RRow 5 "h" KChildren [PFix "notifier."; PKeyOf 1; PFix ".extras"] "viper.GetStringMapString" "" "";
  RRow 6 "*" KSubtree [PFix "general"] "viper.GetStringMap" "" ""
].

Lemma ex_good_accepted : reads_avoid_passwords ex_good_table = true.
Proof. vm_compute. reflexivity. Qed.

(* the accepted table does observe something of the configuration (the user name behind the indirection and
   the notifier's extras), so equality of the observations is not equality of empty lists *)
Lemma ex_good_observes :
  ex_observe ex_good_table ex_a "h" [(pb "name", pb "CP")]
  = [(1%nat, [ResKeys [pb "mail"]]);
     (2%nat, [ResVal (Some (VStr (pb "prof")))]);
     (3%nat, [ResBool true]);
     (4%nat, [ResVal (Some (VStr (pb "kafka")))]);
     (5%nat, [ResKids [(pb "k", Some (VStr (pb "v")))]]);
     (6%nat, [ResTree None])].
Proof. vm_compute. reflexivity. Qed.

(* sharpness: each of these one-row tables is rejected, and each really leaks -- two configurations that differ
   only in password values are told apart.  So the checker is not vacuous, and the rules about dotted
   parameters, indirections and subtree reads are all needed. *)
Definition ex_leaks (tbl : list rrow) (ps : params) : Prop :=
  reads_avoid_passwords tbl = false /\
  agree_except_passwords ex_a ex_b /\
  ex_observe tbl ex_a "h" ps <> ex_observe tbl ex_b "h" ps.

(* sasl.<param>.password *)
Definition ex_bad_direct : list rrow :=
  [RRow 1 "h" KScalar [PFix "sasl."; PParam "name"; PFix ".password"] "viper.GetString" "" ""].
Lemma ex_bad_direct_refuted : ex_leaks ex_bad_direct [(pb "name", pb "prof")].
Proof. split; [reflexivity|]. split; [exact ex_agree|]. vm_compute. discriminate. Qed.

(* notifier.<param> read as a scalar: harmless for a module name, a leak for the dotted, mixed-case parameter
   "Mail.PASSWORD" *)
Definition ex_bad_dotted : list rrow :=
  [RRow 1 "h" KScalar [PFix "notifier."; PParam "name"] "viper.GetString" "" ""].
Lemma ex_bad_dotted_refuted : ex_leaks ex_bad_dotted [(pb "name", pb "Mail.PASSWORD")].
Proof. split; [reflexivity|]. split; [exact ex_agree|]. vm_compute. discriminate. Qed.

(* the whole profile: viper.GetStringMap("sasl." + name) with the values used *)
Definition ex_bad_subtree : list rrow :=
  [RRow 1 "h" KSubtree [PFix "sasl."; PParam "name"] "viper.GetStringMap" "" ""].
Lemma ex_bad_subtree_refuted : ex_leaks ex_bad_subtree [(pb "name", pb "prof")].
Proof. split; [reflexivity|]. split; [exact ex_agree|]. vm_compute. discriminate. Qed.

(* viper.AllSettings() *)
Definition ex_bad_all : list rrow := [RRow 1 "h" KSubtree [] "viper.AllSettings" "" ""].
Lemma ex_bad_all_refuted : ex_leaks ex_bad_all [].
Proof. split; [reflexivity|]. split; [exact ex_agree|]. vm_compute. discriminate. Qed.

(* one level of values below notifier.<name> (GetStringMapString of the module) *)
Definition ex_bad_children : list rrow :=
  [RRow 1 "h" KChildren [PFix "notifier."; PParam "name"] "viper.GetStringMapString" "" ""].
Lemma ex_bad_children_refuted : ex_leaks ex_bad_children [(pb "name", pb "mail")].
Proof. split; [reflexivity|]. split; [exact ex_agree|]. vm_compute. discriminate. Qed.

(* through an indirection: the key suffix comes out of the configuration *)
Definition ex_bad_indirect : list rrow :=
  [RRow 1 "h" KScalar [PFix "client-profile.cp.sasl"] "viper.GetString" "" "";
   RRow 2 "h" KScalar [PFix "sasl."; PValOf 1; PFix "."; PParam "field"] "viper.GetString" "" ""].
Lemma ex_bad_indirect_refuted : ex_leaks ex_bad_indirect [(pb "field", pb "password")].
Proof. split; [reflexivity|]. split; [exact ex_agree|]. vm_compute. discriminate. Qed.

(* a package-wide ("*") row is seen by every handler *)
Definition ex_bad_package : list rrow :=
  [RRow 1 "*" KScalar [PFix "notifier.mail.password"] "viper.GetString" "" ""].
Lemma ex_bad_package_refuted : ex_leaks ex_bad_package [].
Proof. split; [reflexivity|]. split; [exact ex_agree|]. vm_compute. discriminate. Qed.

(* nested profile names: the SASL profile "prod.east" lives inside the profile "prod"; its password sits at the
   four-segment path sasl.prod.east.password and is a password like any other *)
Definition ex_nest (pw : string) : tree :=
  Node (KCons (pb "sasl") (Node (KCons (pb "prod") (Node
           (KCons (pb "username") (Leaf (VStr (pb "parent")))
           (KCons (pb "password") (Leaf (VStr (pb "same in both")))
           (KCons (pb "east") (Node
              (KCons (pb "username") (Leaf (VStr (pb "child")))
              (KCons (pb "password") (Leaf (VStr (pb pw))) KNil))) KNil)))) KNil))
       KNil).

Lemma ex_nest_agree : agree_except_passwords (ex_nest "tango") (ex_nest "foxtrot") /\ ex_nest "tango" <> ex_nest "foxtrot".
Proof. split; [vm_compute; intuition|discriminate]. Qed.

(* one level of values below sasl.<name>.east: the literal tail ".east" is not "password" and the key has three
   segments, which is enough below notifier.<n>.extras -- but not below "sasl", where it is the child profile *)
Definition ex_bad_nested : list rrow :=
  [RRow 1 "h" KChildren [PFix "sasl."; PParam "name"; PFix ".east"] "viper.GetStringMapString" "" ""].
Lemma ex_bad_nested_refuted :
  reads_avoid_passwords ex_bad_nested = false /\
  ex_observe ex_bad_nested (ex_nest "tango") "h" [(pb "name", pb "prod")]
  <> ex_observe ex_bad_nested (ex_nest "foxtrot") "h" [(pb "name", pb "prod")].
Proof. split; [reflexivity|vm_compute; discriminate]. Qed.

(* the same read below notifier.<n>.extras is accepted *)
Lemma ex_extras_accepted :
  reads_avoid_passwords [RRow 1 "h" KChildren [PFix "notifier."; PParam "name"; PFix ".extras"] "viper.GetStringMapString" "" ""] = true.
Proof. reflexivity. Qed.

(* anything the translator could not analyse is rejected *)
Lemma ex_unknown_rejected :
  reads_avoid_passwords [RRow 1 "h" KScalar [PFix "storage."; PUnknown "call f"; PFix ".x"] "viper.GetString" "" ""] = false
  /\ reads_avoid_passwords [RRow 1 "h" KUnknown [] "viper.Frobnicate" "" ""] = false.
Proof. split; reflexivity. Qed.

(* the theorem applied: for the accepted table the two configurations give the same response, whatever the
   renderer does with the observations *)
Lemma ex_good_noninterference : forall (R : Type) (render : string -> params -> backend -> renv -> R) h ps b,
  respond ex_to_string ex_no_keys ex_no_kids render ex_good_table ex_a h ps b
  = respond ex_to_string ex_no_keys ex_no_kids render ex_good_table ex_b h ps b.
Proof. intros. apply noninterference; [exact ex_good_accepted|exact ex_agree]. Qed.
