(* HttpProofs.v -- theorems of C16 over the model of Http.v: for all routes, all parameter strings (byte
   lists), any typed backend and any configuration. *)
Require Import List ZArith Bool String Ascii Lia.
Import ListNotations.
From Burrow Require Import Http.
Open Scope Z_scope.

(* ------------------------------------------------------------------------------------------------ *)
(* small facts                                                                                       *)
(* ------------------------------------------------------------------------------------------------ *)

Lemma beq_refl : forall a, beq a a = true.
Proof. induction a; simpl; auto. rewrite Z.eqb_refl; auto. Qed.

Lemma beq_eq : forall a b, beq a b = true <-> a = b.
Proof.
  induction a; destruct b; simpl; split; intros; try congruence; auto.
  - apply andb_true_iff in H as [H1 H2]. apply Z.eqb_eq in H1. apply IHa in H2. congruence.
  - inversion H; subst. rewrite Z.eqb_refl. simpl. apply beq_refl.
Qed.

Ltac typed_at H q :=
  let T := fresh "T" in
  pose proof (H q) as T; unfold reply_ok in T; simpl in T.

(* ------------------------------------------------------------------------------------------------ *)
(* handle_total: no handler panics against a typed backend                                           *)
(* ------------------------------------------------------------------------------------------------ *)

Theorem handle_total :
  forall (b : backend), backend_typed b ->
  forall (r : route) (ps : params) (reqbody : Z) (cfg : tree),
    snd (handle r ps reqbody b cfg) <> Crash.
Proof.
  intros b [HS HE] r ps reqbody cfg.
  destruct r; unfold handle, handle_gen, storage_fetch, h_status, h_config_detail, h_notifier_detail; simpl;
    try discriminate;
    try (match goal with |- context [storage_reply b ?q] => typed_at HS q; destruct (storage_reply b q) as [[]|]; simpl in *; try discriminate end);
    try (match goal with |- context [evaluator_reply b ?c ?g ?a] =>
           pose proof (HE c g a) as T; unfold eval_ok in T; destruct (evaluator_reply b c g a) as [st|]; [rewrite T|]; simpl; discriminate end);
    try (destruct (app_ready b); discriminate);
    try (match goal with |- context [module_configured ?c ?k ?n] => destruct (module_configured c k n) end; simpl; try discriminate).
  - destruct (get_str _ _); [destruct (known_notifier_class _)|]; discriminate.
  - destruct (reqbody =? 0); [discriminate|]. destruct (reqbody =? 1); discriminate.
Qed.

(* ------------------------------------------------------------------------------------------------ *)
(* envelope_exists: an existing resource is answered 200 with a JSON object, error=false, a message   *)
(* and the request block                                                                             *)
(* ------------------------------------------------------------------------------------------------ *)

Theorem envelope_exists :
  forall (b : backend), backend_typed b ->
  forall (r : route) (ps : params) (reqbody : Z) (cfg : tree),
    is_v3 r = true ->
    present r ps reqbody b cfg ->
    exists st, snd (handle r ps reqbody b cfg) = Resp 200 true (BJson false true true st).
Proof.
  intros b [HS HE] r ps reqbody cfg Hv3 Hp.
  destruct r; try discriminate Hv3; unfold present in Hp; simpl in Hp;
    unfold handle, handle_gen, storage_fetch, h_status, h_config_detail, h_notifier_detail, ok200; simpl;
    try (eexists; reflexivity);
    try (match goal with |- context [storage_reply b ?q] =>
           typed_at HS q; destruct (storage_reply b q) as [[]|]; simpl in *; try discriminate;
           try (eexists; reflexivity); destruct Hp as [Hp|Hp]; try discriminate; exfalso; apply Hp; reflexivity end);
    try (destruct Hp as [Hm _]; rewrite Hm; eexists; reflexivity).
  - (* status *)
    destruct Hp as [st [Hst Hne]]. unfold status_of in Hst. rewrite Hst.
    pose proof (HE (param ps s_cluster) (param ps s_consumer) false) as T. rewrite Hst in T. simpl in T. rewrite T.
    destruct (gs_status st =? 0) eqn:E; [apply Z.eqb_eq in E; contradiction|]. eexists; reflexivity.
  - (* lag *)
    destruct Hp as [st [Hst Hne]]. unfold status_of in Hst. rewrite Hst.
    pose proof (HE (param ps s_cluster) (param ps s_consumer) true) as T. rewrite Hst in T. simpl in T. rewrite T.
    destruct (gs_status st =? 0) eqn:E; [apply Z.eqb_eq in E; contradiction|]. eexists; reflexivity.
  - (* notifier detail *)
    destruct Hp as [Hm Hc]. rewrite Hm. specialize (Hc eq_refl). unfold notifier_class_known in Hc.
    destruct (get_str _ _); [rewrite Hc|discriminate]. eexists; reflexivity.
  - (* POST loglevel *)
    subst reqbody. simpl. eexists; reflexivity.
Qed.

(* ------------------------------------------------------------------------------------------------ *)
(* envelope_unknown (all routes but the two DELETEs): 404, error=true -- or status NOTFOUND with      *)
(* error=false on the two status routes                                                              *)
(* ------------------------------------------------------------------------------------------------ *)

Theorem envelope_unknown_partial :
  forall (b : backend), backend_typed b ->
  forall (r : route) (ps : params) (reqbody : Z) (cfg : tree),
    unknown r ps b cfg ->
    snd (handle r ps reqbody b cfg) =
      if is_status_route r
      then Resp 404 true (BJson false true true (Some 0))
      else Resp 404 true (BJson true true true None).
Proof.
  intros b [HS HE] r ps reqbody cfg Hu.
  destruct r; unfold unknown in Hu; simpl in Hu; try contradiction;
    unfold handle, handle_gen, storage_fetch, h_status, h_config_detail, h_notifier_detail, err; simpl;
    try (rewrite Hu; reflexivity).
  - destruct Hu as [st [Hst H0]]. unfold status_of in Hst. rewrite Hst.
    pose proof (HE (param ps s_cluster) (param ps s_consumer) false) as T. rewrite Hst in T. simpl in T. rewrite T.
    rewrite H0. reflexivity.
  - destruct Hu as [st [Hst H0]]. unfold status_of in Hst. rewrite Hst.
    pose proof (HE (param ps s_cluster) (param ps s_consumer) true) as T. rewrite Hst in T. simpl in T. rewrite T.
    rewrite H0. reflexivity.
Qed.

(* The DELETE routes answer 200 whatever the names: the property's "unknown consumer group => 404" does not
   hold for them (finding C16:delete-unknown-group; not repairable without editing the pinned test
   TestHttpServer_handleConsumerDelete, which requires the first and only storage request to be
   StorageSetDeleteGroup, left unanswered, and a 200). *)
Theorem envelope_unknown_delete_refuted :
  exists (b : backend) (ps : params) (cfg : tree),
    backend_typed b /\
    (forall q, sq_type q <> StorageFetchClusters -> storage_reply b q = None) /\
    snd (handle RConsumerDelete ps 2 b cfg) = Resp 200 true (BJson false true true None).
Proof.
  exists (world_backend [] 0 true), [(s_cluster, pb "nocluster"); (s_consumer, pb "nogroup")], (Node KNil).
  split; [split|split].
  - intro q. unfold reply_ok, world_backend, world_storage; simpl.
    destruct (sq_type q =? 5) eqn:E5; simpl; auto.
    destruct ((sq_type q =? 6) || (sq_type q =? 7) || (sq_type q =? 11)); auto.
    destruct (sq_type q =? 9); auto. destruct (sq_type q =? 8); auto.
  - intros. reflexivity.
  - intros q Hq. unfold world_backend, world_storage; simpl.
    destruct (sq_type q =? 5) eqn:E5; [apply Z.eqb_eq in E5; contradiction|]. reflexivity.
  - reflexivity.
Qed.

(* ------------------------------------------------------------------------------------------------ *)
(* get_is_readonly_http                                                                              *)
(* ------------------------------------------------------------------------------------------------ *)

Definition issued_readonly (i : issued) : Prop :=
  match i with
  | IStorage q => is_fetch_type (sq_type q) = true
  | IEval _ _ _ => True
  end.

(* every request a route issues is one of the request types listed for it (the list the per-run table
   obligation [request_types_ok] compares with what the translator finds in the Go handler) *)
Lemma issued_within_route_types :
  forall r ps reqbody b cfg i,
    In i (fst (handle r ps reqbody b cfg)) ->
    match i with
    | IStorage q => In (sq_type q) (route_req_types r) /\ request_of r ps = Some q
    | IEval c g a => route_evals r = true /\ c = param ps s_cluster /\ g = param ps s_consumer
    end.
Proof.
  intros r ps reqbody b cfg i Hin.
  destruct r; unfold handle, handle_gen, storage_fetch, h_status, h_config_detail, h_notifier_detail in Hin; simpl in Hin;
    try contradiction; destruct Hin as [Hin|[]]; subst i; simpl; auto.
Qed.

(* A GET handler sends the backend only Fetch-type storage requests and evaluator requests -- never a
   Set/Delete/Clear request.  (HTTP half of "reads never change what later reads return"; that Fetch and
   evaluator requests leave storage unchanged up to expiry is the storage model's half.) *)
Theorem get_is_readonly_http :
  forall (r : route) (ps : params) (reqbody : Z) (b : backend) (cfg : tree),
    is_get r = true ->
    Forall issued_readonly (fst (handle r ps reqbody b cfg)).
Proof.
  intros r ps reqbody b cfg Hg.
  destruct r; try discriminate Hg;
    unfold handle, handle_gen, storage_fetch, h_status, h_config_detail, h_notifier_detail; simpl;
    repeat constructor.
Qed.

(* ... and the same at the level of the source: what [request_types_ok] establishes for the regenerated
   per-handler request-type table *)
Lemma forallb_In : forall {A} (f : A -> bool) l x, forallb f l = true -> In x l -> f x = true.
Proof. intros. eapply forallb_forall; eauto. Qed.

Lemma all_routes_complete : forall r, In r all_routes.
Proof. destruct r; unfold all_routes; simpl; tauto. Qed.

Theorem get_handlers_construct_only_fetch :
  forall hr, request_types_ok hr = true ->
  forall r, is_get r = true ->
    exists tys ev pn, hreq_for (route_handler r) hr = Some (HReq (route_handler r) tys ev pn) /\
                      (forall t, In t tys -> fetch_name t = true) /\
                      (r <> RMetrics -> same_set tys (map req_type_name (route_req_types r)) = true /\ ev = route_evals r).
Proof.
  intros hr H r Hg. unfold request_types_ok in H.
  pose proof (forallb_In _ _ r H (all_routes_complete r)) as Hr. simpl in Hr.
  destruct (hreq_for (route_handler r) hr) as [[n tys ev pn]|] eqn:E; [|discriminate].
  assert (n = route_handler r).
  { unfold hreq_for in E. apply find_some in E as [_ E]. apply String.eqb_eq in E. exact E. }
  subst n. exists tys, ev, pn. split; [reflexivity|].
  apply andb_true_iff in Hr as [H1 H2]. rewrite Hg in H2. simpl in H2.
  split.
  - intros t Ht. eapply forallb_In; eauto.
  - intro Hne. destruct r; try (exfalso; apply Hne; reflexivity);
      apply andb_true_iff in H1 as [Ha Hb]; split; auto; apply eqb_prop in Hb; auto.
Qed.

(* ------------------------------------------------------------------------------------------------ *)
(* route_table_complete                                                                              *)
(* ------------------------------------------------------------------------------------------------ *)

Lemma count_rows_pos : forall f tbl, (count_rows f tbl > 0)%nat -> exists row, In row tbl /\ f row = true.
Proof.
  unfold count_rows. intros f tbl H. destruct (filter f tbl) as [|row l] eqn:E; simpl in H; [lia|].
  exists row. apply filter_In. rewrite E. left; reflexivity.
Qed.

Theorem route_table_complete :
  forall tbl opts, route_table_ok tbl opts = true ->
    (* every documented /v3 pattern is registered, with its method, to the Go handler the model describes *)
    (forall m p, In (m, p) documented_v3 ->
       exists r segs reg, is_v3 r = true /\ route_method r = m /\ route_pattern r = p /\
                          In (RtRow m p segs (route_handler r) reg) tbl) /\
    (* every modelled registration is in the table exactly once *)
    (forall r, count_rows (row_is r) tbl = 1%nat) /\
    (* every row of the table has a model case *)
    (forall row, In row tbl -> exists r, route_of_row row = Some r /\ row_is r row = true) /\
    (* no router option other than NotFound *)
    (forall o, In o opts -> fst o = "NotFound"%string).
Proof.
  intros tbl opts H. unfold route_table_ok in H.
  repeat (apply andb_true_iff in H; destruct H as [H ?]).
  rename H0 into Hopts, H1 into Hall2, H2 into Hdoc, H3 into Hrows, H4 into Hcnt.
  assert (Hone : forall r, count_rows (row_is r) tbl = 1%nat).
  { intro r. pose proof (forallb_In _ _ r Hcnt (all_routes_complete r)) as Hr. cbv beta in Hr.
    apply andb_true_iff in Hr as [Hr _]. apply Nat.eqb_eq in Hr. exact Hr. }
  split; [|split; [|split]].
  - intros m p Hin. pose proof (forallb_In _ _ (m, p) Hdoc Hin) as Hd. cbv beta in Hd.
    apply existsb_exists in Hd as [r [_ Hr]].
    apply andb_true_iff in Hr as [Hr Hp]. apply andb_true_iff in Hr as [Hv Hm].
    apply String.eqb_eq in Hm. apply String.eqb_eq in Hp. cbn [fst snd] in Hm, Hp.
    destruct (count_rows_pos (row_is r) tbl) as [row [Hrow Hris]]; [rewrite Hone; lia|].
    destruct row as [m' p' segs h reg|]; simpl in Hris; [|discriminate].
    apply andb_true_iff in Hris as [Hris Hh]. apply andb_true_iff in Hris as [Hm' Hp'].
    apply String.eqb_eq in Hm'. apply String.eqb_eq in Hp'. apply String.eqb_eq in Hh. subst.
    exists r, segs, reg. repeat split; auto.
  - exact Hone.
  - intros row Hin. pose proof (forallb_In _ _ row Hrows Hin) as Hr. cbv beta in Hr.
    destruct (route_of_row row) as [r|] eqn:E; [|discriminate].
    exists r. split; auto. unfold route_of_row in E. apply find_some in E as [_ E]. exact E.
  - intros o Hin. pose proof (forallb_In _ _ o Hopts Hin) as Ho. cbv beta in Ho. apply String.eqb_eq in Ho. exact Ho.
Qed.

(* ------------------------------------------------------------------------------------------------ *)
(* F9 (repaired in /repo by "fix: config detail endpoints treated dotted names as configured          *)
(* modules"): documentation of the old behaviour                                                     *)
(* ------------------------------------------------------------------------------------------------ *)

Definition f9_cfg : tree :=
  Node (KCons (pb "storage") (Node (KCons (pb "local") (Node (KCons (pb "intervals") (Leaf (VNum 10)) KNil)) KNil)) KNil).

(* before the repair: GET /v3/config/storage/local.intervals was answered 200 although the storage section
   has no module of that name *)
Theorem dotted_module_name_v0_refuted :
  exists (cfg : tree) (name : bytes) (b : backend),
    module_configured cfg s_storage name = false /\
    snd (handle_v0 RCfgStorageDetail [(s_name, name)] 2 b cfg) = Resp 200 true (BJson false true true None).
Proof.
  exists f9_cfg, (pb "local.intervals"), (world_backend [] 0 true).
  split; vm_compute; reflexivity.
Qed.

(* after the repair the same request is a 404 with error=true *)
Example dotted_module_name_now_404 :
  snd (handle RCfgStorageDetail [(s_name, pb "local.intervals")] 2 (world_backend [] 0 true) f9_cfg)
  = Resp 404 true (BJson true true true None).
Proof. vm_compute. reflexivity. Qed.

(* ------------------------------------------------------------------------------------------------ *)
(* the hypotheses are satisfiable: the scripted backend of the correspondence driver is typed         *)
(* ------------------------------------------------------------------------------------------------ *)

Definition world_finite (w : world) : bool :=
  forallb (fun c => forallb (fun g => snd (snd g)) (wc_groups c)) w.

Lemma find_cluster_in : forall w c x, find_cluster w c = Some x -> In x w.
Proof.
  induction w; simpl; intros; [discriminate|]. destruct (beq (wc_name a) c); [inversion H; auto|eauto].
Qed.

Lemma assoc_b_in : forall {A} (l : list (bytes * A)) k v, assoc_b l k = Some v -> exists n, In (n, v) l.
Proof.
  induction l as [|[n x] l]; simpl; intros; [discriminate|].
  destruct (beq n k); [inversion H; subst; eauto|]. destruct (IHl _ _ H) as [m Hm]. eauto.
Qed.

Theorem world_backend_typed :
  forall w ready, world_finite w = true -> backend_typed (world_backend w 0 ready).
Proof.
  intros w ready Hf. split.
  - intro q. unfold reply_ok, world_backend, world_storage; simpl.
    destruct (sq_type q =? 5) eqn:E5; simpl; auto.
    destruct (find_cluster w (sq_cluster q)) as [c|].
    + destruct (sq_type q =? 7) eqn:E7; [apply Z.eqb_eq in E7; rewrite E7; reflexivity|].
      destruct (sq_type q =? 6) eqn:E6; [apply Z.eqb_eq in E6; rewrite E6; reflexivity|].
      destruct (sq_type q =? 9) eqn:E9.
      { apply Z.eqb_eq in E9; rewrite E9; simpl. destruct (assoc_b _ _); reflexivity. }
      destruct (sq_type q =? 11) eqn:E11; [apply Z.eqb_eq in E11; rewrite E11; reflexivity|].
      destruct (sq_type q =? 8) eqn:E8.
      { apply Z.eqb_eq in E8; rewrite E8; simpl. destruct (assoc_b _ _); reflexivity. }
      simpl. reflexivity.
    + destruct ((sq_type q =? 6) || (sq_type q =? 7) || (sq_type q =? 11)); auto.
      destruct (sq_type q =? 9); auto. destruct (sq_type q =? 8); auto.
  - intros c g a. unfold eval_ok, world_backend, world_evaluator; simpl.
    destruct (find_cluster w c) as [cl|] eqn:Ec; [|reflexivity].
    destruct (assoc_b (wc_groups cl) g) as [[s fin]|] eqn:Eg; [|reflexivity]. simpl.
    apply find_cluster_in in Ec. apply assoc_b_in in Eg as [n Hn].
    unfold world_finite in Hf. pose proof (forallb_In _ _ _ Hf Ec) as H1. simpl in H1.
    pose proof (forallb_In _ _ _ H1 Hn) as H2. exact H2.
Qed.

Definition example_world : world :=
  [mk_wcluster (pb "c1") [(pb "orders", [10; 20])] [(pb "billing", (3, true))]].

Example typed_backend_exists : backend_typed (world_backend example_world 0 true).
Proof. apply world_backend_typed. reflexivity. Qed.

(* non-trivial instances of the three envelope theorems on that backend *)
Example envelope_example_exists :
  snd (handle RTopicDetail [(s_cluster, pb "c1"); (s_topic, pb "orders")] 2 (world_backend example_world 0 true) (Node KNil))
  = Resp 200 true (BJson false true true None).
Proof. vm_compute. reflexivity. Qed.

Example envelope_example_unknown_topic :
  snd (handle RTopicDetail [(s_cluster, pb "c1"); (s_topic, pb "nosuch")] 2 (world_backend example_world 0 true) (Node KNil))
  = Resp 404 true (BJson true true true None).
Proof. vm_compute. reflexivity. Qed.

Example envelope_example_status :
  snd (handle RConsumerStatus [(s_cluster, pb "c1"); (s_consumer, pb "billing")] 2 (world_backend example_world 0 true) (Node KNil))
  = Resp 200 true (BJson false true true (Some 3))
  /\ snd (handle RConsumerStatus [(s_cluster, pb "c1"); (s_consumer, pb "nogroup")] 2 (world_backend example_world 0 true) (Node KNil))
  = Resp 404 true (BJson false true true (Some 0)).
Proof. split; vm_compute; reflexivity. Qed.

(* an ill-typed backend does crash the handler: the contract is needed *)
Example untyped_backend_crashes :
  snd (handle RClusterList [] 2 (world_backend example_world 1 true) (Node KNil)) = Crash.
Proof. vm_compute. reflexivity. Qed.
