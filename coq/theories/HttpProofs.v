(* HttpProofs.v -- theorems of C16 over the model of Http.v: for all routes, all parameter strings (byte
   lists), any typed backend and any configuration.

   Layout
     1. small facts
     2. handle_total                      no handler type assertion fails against a typed backend
     3. envelope_exists                   existing resource => 200, JSON, error=false
     4. envelope_unknown_partial / envelope_unknown_delete_refuted
     5. the whole server: serve_total, unrouted_404, serve_envelope (router + handlers, any path bytes)
     6. get_is_readonly_http              GET handlers issue only Fetch / evaluator requests
     7. link to Storage.v: to_storage_req, fetch_step_readonly, fetch_after_drop_same, get_is_readonly,
        storage_backend_typed (the storage half of [backend_typed] discharged from Storage.step)
     8. route_table_complete, every_row_has_envelope, get_handlers_construct_only_fetch (table soundness)
     9. F9 (repaired): documentation of the old behaviour
    10. non-vacuity: the scripted backend of the correspondence driver is typed; concrete instances *)
Require Import List ZArith Bool String Ascii Lia.
Import ListNotations.
From Burrow Require Import Http.
From Burrow Require AMap AMapProofs Eval Storage.
From Burrow Require F32 EvalProofs EvalGroupProofs EvalCompleteProofs RingProofs StorageProofs StorageWindows JsonProofs.
Open Scope Z_scope.

(* ------------------------------------------------------------------------------------------------ *)
(* 1. small facts                                                                                    *)
(* ------------------------------------------------------------------------------------------------ *)

Lemma beq_refl : forall a, beq a a = true.
Proof. induction a; simpl; auto. rewrite Z.eqb_refl; auto. Qed.

Lemma beq_eq : forall a b, beq a b = true <-> a = b.
Proof.
  induction a; destruct b; simpl; split; intros H; try congruence; auto.
  - apply andb_true_iff in H as [H1 H2]. apply Z.eqb_eq in H1. apply IHa in H2. congruence.
  - inversion H; subst. rewrite Z.eqb_refl. simpl. apply beq_refl.
Qed.

Lemma forallb_In : forall {A} (f : A -> bool) l x, forallb f l = true -> In x l -> f x = true.
Proof. intros A f l x H Hin. eapply forallb_forall; eauto. Qed.

Lemma all_routes_complete : forall r, In r all_routes.
Proof. destruct r; unfold all_routes; simpl; tauto. Qed.

Ltac typed_at H q :=
  let T := fresh "T" in
  pose proof (H q) as T; unfold reply_ok in T; simpl in T.

(* ------------------------------------------------------------------------------------------------ *)
(* 2. handle_total: no handler panics against a typed backend                                        *)
(* ------------------------------------------------------------------------------------------------ *)

Theorem handle_total :
  forall (b : backend), backend_typed b ->
  forall (r : route) (ps : params) (reqbody : Z) (cfg : tree),
    snd (handle r ps reqbody b cfg) <> Crash.
Proof.
  intros b [HS HE] r ps reqbody cfg.
  destruct r; unfold handle, handle_gen, storage_fetch, h_status, h_config_detail, h_notifier_detail; simpl;
    try discriminate;
    try (match goal with |- context [storage_reply b ?q] => typed_at HS q; destruct (storage_reply b q) as [[]|]; simpl in *; try discriminate end);
    try (match goal with |- context [evaluator_reply b ?c ?g ?a] =>
           pose proof (HE c g a) as T; unfold eval_ok in T; destruct (evaluator_reply b c g a) as [st|]; [rewrite T|]; simpl; discriminate end);
    try (destruct (app_ready b); discriminate);
    try (match goal with |- context [module_configured ?c ?k ?n] => destruct (module_configured c k n) end; simpl; try discriminate).
  - destruct (get_str_go _ _); [destruct (known_notifier_class _)|]; discriminate.
  - destruct (reqbody =? 0); [discriminate|]. destruct (reqbody =? 1); discriminate.
Qed.

(* ------------------------------------------------------------------------------------------------ *)
(* 3. envelope_exists: an existing resource is answered 200 with a JSON object, error=false, a        *)
(*    message and the request block                                                                  *)
(* ------------------------------------------------------------------------------------------------ *)

Theorem envelope_exists :
  forall (b : backend), backend_typed b ->
  forall (r : route) (ps : params) (reqbody : Z) (cfg : tree),
    is_v3 r = true ->
    present r ps reqbody b cfg ->
    exists st, snd (handle r ps reqbody b cfg) = Resp 200 true (BJson false true true st).
Proof.
  intros b [HS HE] r ps reqbody cfg Hv3 Hp.
  destruct r; try discriminate Hv3; unfold present in Hp; simpl in Hp;
    unfold handle, handle_gen, storage_fetch, h_status, h_config_detail, h_notifier_detail, ok200; simpl;
    try (eexists; reflexivity);
    try (match goal with |- context [storage_reply b ?q] =>
           typed_at HS q; destruct (storage_reply b q) as [[]|]; simpl in *; try discriminate;
           try (eexists; reflexivity); destruct Hp as [Hp|Hp]; try discriminate; exfalso; apply Hp; reflexivity end);
    try (destruct Hp as [Hm ?]; rewrite Hm; eexists; reflexivity).
  - (* status *)
    destruct Hp as [st [Hst Hne]]. unfold status_of in Hst. rewrite Hst.
    pose proof (HE (param ps s_cluster) (param ps s_consumer) false) as T. rewrite Hst in T. simpl in T. rewrite T.
    destruct (gs_status st =? 0) eqn:E; [apply Z.eqb_eq in E; contradiction|]. eexists; reflexivity.
  - (* lag *)
    destruct Hp as [st [Hst Hne]]. unfold status_of in Hst. rewrite Hst.
    pose proof (HE (param ps s_cluster) (param ps s_consumer) true) as T. rewrite Hst in T. simpl in T. rewrite T.
    destruct (gs_status st =? 0) eqn:E; [apply Z.eqb_eq in E; contradiction|]. eexists; reflexivity.
  - (* notifier detail *)
    destruct Hp as [Hm Hc]. rewrite Hm. specialize (Hc eq_refl). unfold notifier_class_known in Hc.
    destruct (get_str_go _ _); [rewrite Hc|discriminate]. eexists; reflexivity.
  - (* POST loglevel *)
    subst reqbody. simpl. eexists; reflexivity.
Qed.

(* ------------------------------------------------------------------------------------------------ *)
(* 4. envelope_unknown                                                                               *)
(* ------------------------------------------------------------------------------------------------ *)

(* The answer the property demands for a request that names something unknown: 404 with error=true -- or,
   on the two status routes, 404 with status NOTFOUND (error=false). *)
Definition unknown_answer (r : route) : outcome :=
  if is_status_route r
  then Resp 404 true (BJson false true true (Some 0))
  else Resp 404 true (BJson true true true None).

(* FULL STATEMENT (false for the code as it is, see envelope_unknown_delete_refuted):

     Theorem envelope_unknown :
       forall b, backend_typed b -> forall r ps reqbody cfg,
         unknown_full r ps b cfg -> snd (handle r ps reqbody b cfg) = unknown_answer r.

   What is proved carries exactly the guard that excludes the recorded finding C16:delete-unknown-group,
   [is_delete_route r = false]: every route except the two DELETE registrations. *)
Theorem envelope_unknown_partial :
  forall (b : backend), backend_typed b ->
  forall (r : route) (ps : params) (reqbody : Z) (cfg : tree),
    is_delete_route r = false ->
    unknown_full r ps b cfg ->
    snd (handle r ps reqbody b cfg) = unknown_answer r.
Proof.
  intros b [HS HE] r ps reqbody cfg Hnd [Hu|[Hd _]]; [|congruence].
  unfold unknown_answer.
  destruct r; unfold unknown in Hu; simpl in Hu; try contradiction;
    unfold handle, handle_gen, storage_fetch, h_status, h_config_detail, h_notifier_detail, err; simpl;
    try (rewrite Hu; reflexivity).
  - destruct Hu as [st [Hst H0]]. unfold status_of in Hst. rewrite Hst.
    pose proof (HE (param ps s_cluster) (param ps s_consumer) false) as T. rewrite Hst in T. simpl in T. rewrite T.
    rewrite H0. reflexivity.
  - destruct Hu as [st [Hst H0]]. unfold status_of in Hst. rewrite Hst.
    pose proof (HE (param ps s_cluster) (param ps s_consumer) true) as T. rewrite Hst in T. simpl in T. rewrite T.
    rewrite H0. reflexivity.
Qed.

(* The DELETE routes answer 200 whatever the names: the property's "unknown consumer group => 404" does not
   hold for them (finding C16:delete-unknown-group; not repairable without editing the pinned test
   TestHttpServer_handleConsumerDelete, which requires the first and only storage request to be
   StorageSetDeleteGroup, left unanswered, and a 200).  Witness: an empty storage. *)
Theorem envelope_unknown_delete_refuted :
  exists (b : backend) (ps : params) (reqbody : Z) (cfg : tree),
    backend_typed b /\
    unknown_full RConsumerDelete ps b cfg /\
    snd (handle RConsumerDelete ps reqbody b cfg) = Resp 200 true (BJson false true true None) /\
    snd (handle RConsumerDelete ps reqbody b cfg) <> unknown_answer RConsumerDelete.
Proof.
  exists (world_backend [] 0 true), [(s_cluster, pb "nocluster"); (s_consumer, pb "nogroup")], 2, (Node KNil).
  split; [split|split; [|split]].
  - intro q. unfold reply_ok, world_backend, world_storage; simpl.
    destruct (sq_type q =? 5) eqn:E5; simpl; auto.
    destruct ((sq_type q =? 6) || (sq_type q =? 7) || (sq_type q =? 11)); auto.
    destruct (sq_type q =? 9); auto. destruct (sq_type q =? 8); auto.
  - intros. reflexivity.
  - right. split; reflexivity.
  - reflexivity.
  - vm_compute. discriminate.
Qed.

(* ------------------------------------------------------------------------------------------------ *)
(* 5. the whole server                                                                               *)
(* ------------------------------------------------------------------------------------------------ *)

Lemma route_table_ok_rows :
  forall tbl opts, route_table_ok tbl opts = true ->
  forall row, In row tbl -> exists r, route_of_row row = Some r /\ row_is r row = true.
Proof.
  intros tbl opts H row Hin. unfold route_table_ok in H.
  repeat (apply andb_true_iff in H; destruct H as [H ?]).
  match goal with Hr : forallb (fun row => match route_of_row row with Some _ => true | None => false end) tbl = true |- _ =>
    pose proof (forallb_In _ _ row Hr Hin) as Hrow end.
  cbv beta in Hrow.
  destruct (route_of_row row) as [r|] eqn:E; [|discriminate].
  exists r. split; auto. unfold route_of_row in E. apply find_some in E as [_ E]. exact E.
Qed.

Lemma compile_table_routes :
  forall tbl opts, route_table_ok tbl opts = true ->
  forall brw, In brw (compile_table tbl) -> exists r, br_route brw = Some r.
Proof.
  intros tbl opts H brw Hin. unfold compile_table in Hin. apply in_flat_map in Hin as [row [Hrow Hb]].
  destruct (route_table_ok_rows _ _ H _ Hrow) as [r [Hr _]].
  destruct row as [m p segs h reg|]; simpl in Hb; [|contradiction].
  destruct Hb as [Hb|[]]. subst brw. simpl. exists r. exact Hr.
Qed.

Lemma dispatch_rows_in :
  forall tbl method segs row ps, dispatch_rows tbl method segs = Some (row, ps) -> In row tbl.
Proof.
  induction tbl as [|x tbl IH]; simpl; intros method segs row ps H; [discriminate|].
  destruct (beq (br_method x) method).
  - destruct (match_segs (br_segs x) segs).
    + inversion H; subst. left; reflexivity.
    + right. eapply IH; eauto.
  - right. eapply IH; eauto.
Qed.

Lemma dispatch_in :
  forall tbl method path row ps, dispatch tbl method path = Some (row, ps) -> In row tbl.
Proof.
  intros tbl method path row ps H. unfold dispatch in H. destruct path as [|c rest]; [discriminate|].
  destruct (c =? slash); [|discriminate]. eapply dispatch_rows_in; eauto.
Qed.

(* For every method and every path (arbitrary byte strings) the server answers without a panic, provided
   the regenerated route table passes [route_table_ok] and the backend keeps its contract. *)
Theorem serve_total :
  forall tbl opts, route_table_ok tbl opts = true ->
  forall (b : backend), backend_typed b ->
  forall (ra : bytes -> bytes -> option Z) (method path : bytes) (reqbody : Z) (cfg : tree),
    snd (serve ra (compile_table tbl) method path reqbody b cfg) <> Crash.
Proof.
  intros tbl opts Htbl b Hb ra method path reqbody cfg. unfold serve.
  destruct (dispatch (compile_table tbl) method path) as [[row ps]|] eqn:E;
    [|destruct (ra method path); simpl; discriminate].
  apply dispatch_in in E. destruct (compile_table_routes _ _ Htbl _ E) as [r Hr]. rewrite Hr.
  apply handle_total; assumption.
Qed.

(* "Unrouted paths get 404", exactly as far as it is true and tied.  [ra] is httprouter's own choice for a request
   that matches no registration (trusted, see Http.v): a request the router hands to NotFound is answered 404 with
   error=true and reaches no backend ... *)
Theorem unrouted_404 :
  forall (ra : bytes -> bytes -> option Z) (tbl : list brow) (method path : bytes) (reqbody : Z) (b : backend) (cfg : tree),
    dispatch tbl method path = None ->
    ra method path = None ->
    serve ra tbl method path reqbody b cfg = ([], Resp 404 false (BJson true true false None)).
Proof. intros ra tbl method path reqbody b cfg H Hr. unfold serve. rewrite H, Hr. reflexivity. Qed.

(* ... and that is the case for every path outside the modelled region [router_level_possible] (the constraint
   [router_answer_sound] on the trusted function is what the differential compares on every unrouted case) *)
Theorem unrouted_404_outside_router_region :
  forall (ra : bytes -> bytes -> option Z) (tbl : list brow), router_answer_sound tbl ra ->
  forall (method path : bytes) (reqbody : Z) (b : backend) (cfg : tree),
    dispatch tbl method path = None ->
    router_level_possible tbl path = false ->
    serve ra tbl method path reqbody b cfg = ([], Resp 404 false (BJson true true false None)).
Proof. intros ra tbl Hs method path reqbody b cfg H Hp. apply unrouted_404; [exact H|]. apply Hs. exact Hp. Qed.

(* the other unrouted requests are answered by the router itself, with whatever code it chooses (observed: 301, 307,
   405, 200): no handler runs and no backend is reached.  The property text's "unrouted paths get 404" is false of them. *)
Theorem unrouted_router_level :
  forall (ra : bytes -> bytes -> option Z) (tbl : list brow) (method path : bytes) (reqbody : Z) (b : backend) (cfg : tree) (code : Z),
    dispatch tbl method path = None ->
    ra method path = Some code ->
    serve ra tbl method path reqbody b cfg = ([], Resp code false BOpaque).
Proof. intros ra tbl method path reqbody b cfg code H Hr. unfold serve. rewrite H, Hr. reflexivity. Qed.

Theorem unrouted_no_backend :
  forall (ra : bytes -> bytes -> option Z) (tbl : list brow) (method path : bytes) (reqbody : Z) (b : backend) (cfg : tree),
    dispatch tbl method path = None -> fst (serve ra tbl method path reqbody b cfg) = [].
Proof.
  intros ra tbl method path reqbody b cfg H. unfold serve. rewrite H.
  destruct (ra method path); reflexivity.
Qed.

(* The envelope rules at the level of the server: whatever bytes the path is made of, if it matches a
   registration then the three handler theorems apply to the parameters httprouter extracted. *)
Theorem serve_envelope :
  forall tbl opts, route_table_ok tbl opts = true ->
  forall (b : backend), backend_typed b ->
  forall (ra : bytes -> bytes -> option Z) (method path : bytes) (reqbody : Z) (cfg : tree),
    match dispatch (compile_table tbl) method path with
    | None => fst (serve ra (compile_table tbl) method path reqbody b cfg) = [] /\
              (ra method path = None ->
               serve ra (compile_table tbl) method path reqbody b cfg = ([], default_handler))
    | Some (row, ps) =>
        exists r, br_route row = Some r /\
          serve ra (compile_table tbl) method path reqbody b cfg = handle r ps reqbody b cfg /\
          snd (handle r ps reqbody b cfg) <> Crash /\
          (is_v3 r = true -> present r ps reqbody b cfg ->
             exists st, snd (handle r ps reqbody b cfg) = Resp 200 true (BJson false true true st)) /\
          (is_delete_route r = false -> unknown_full r ps b cfg ->
             snd (handle r ps reqbody b cfg) = unknown_answer r)
    end.
Proof.
  intros tbl opts Htbl b Hb ra method path reqbody cfg.
  destruct (dispatch (compile_table tbl) method path) as [[row ps]|] eqn:E.
  - pose proof (dispatch_in _ _ _ _ _ E) as Hin. destruct (compile_table_routes _ _ Htbl _ Hin) as [r Hr].
    exists r. split; [exact Hr|]. split; [unfold serve; rewrite E, Hr; reflexivity|].
    split; [apply handle_total; assumption|]. split.
    + intros Hv Hp. eapply envelope_exists; eauto.
    + intros Hd Hu. eapply envelope_unknown_partial; eauto.
  - split; [apply unrouted_no_backend; exact E|]. intro Hr. apply unrouted_404; assumption.
Qed.

(* ------------------------------------------------------------------------------------------------ *)
(* 6. get_is_readonly_http                                                                           *)
(* ------------------------------------------------------------------------------------------------ *)

Definition issued_readonly (i : issued) : Prop :=
  match i with
  | IStorage q => is_fetch_type (sq_type q) = true
  | IEval _ _ _ => True
  end.

(* every request a route issues is one of the request types listed for it (the list the per-run table
   obligation [request_types_ok] compares with what the translator finds in the Go handler) *)
Lemma issued_within_route_types :
  forall r ps reqbody b cfg i,
    In i (fst (handle r ps reqbody b cfg)) ->
    match i with
    | IStorage q => In (sq_type q) (route_req_types r) /\ request_of r ps = Some q
    | IEval c g a => route_evals r = true /\ c = param ps s_cluster /\ g = param ps s_consumer
    end.
Proof.
  intros r ps reqbody b cfg i Hin.
  destruct r; unfold handle, handle_gen, storage_fetch, h_status, h_config_detail, h_notifier_detail in Hin; simpl in Hin;
    try contradiction; destruct Hin as [Hin|[]]; subst i; simpl; auto.
Qed.

(* A GET handler sends the backend only Fetch-type storage requests and evaluator requests -- never a
   Set/Delete/Clear request. *)
Theorem get_is_readonly_http :
  forall (r : route) (ps : params) (reqbody : Z) (b : backend) (cfg : tree),
    is_get r = true ->
    Forall issued_readonly (fst (handle r ps reqbody b cfg)).
Proof.
  intros r ps reqbody b cfg Hg.
  destruct r; try discriminate Hg;
    unfold handle, handle_gen, storage_fetch, h_status, h_config_detail, h_notifier_detail; simpl;
    repeat constructor.
Qed.

(* ------------------------------------------------------------------------------------------------ *)
(* 7. link to the storage model (Storage.v)                                                          *)
(* ------------------------------------------------------------------------------------------------ *)

Definition storage_fetch_req (r : Storage.req) : bool :=
  match r with
  | Storage.FetchClusters | Storage.FetchConsumers _ | Storage.FetchTopics _ | Storage.FetchConsumer _ _
  | Storage.FetchTopic _ _ | Storage.FetchConsumersForTopic _ _ => true
  | _ => false
  end.

(* the only way a Fetch request changes the storage state: FetchConsumer finds the group expired (its last
   commit is older than expire-group at the time of the request), removes it and answers nil *)
Definition drops_expired_group (cf : Storage.config) (now : Z) (st st' : Storage.state) (c g : Z) : Prop :=
  exists cl grp,
    AMap.get st c = Some cl /\ AMap.get (Storage.cl_consumer cl) g = Some grp /\
    Storage.expired cf now (Storage.g_last grp) = true /\
    st' = AMap.set st c (Storage.mkCluster (Storage.cl_broker cl) (AMap.remove (Storage.cl_consumer cl) g)).

(* Storage.step on any Fetch request leaves the state as it is, except for dropping a group that had
   already expired. *)
Theorem fetch_step_readonly :
  forall cf now st r st' rep,
    storage_fetch_req r = true ->
    Storage.step cf now st r = Storage.Done st' rep ->
    st' = st \/ (exists c g, r = Storage.FetchConsumer c g /\ rep = Storage.RNil /\ drops_expired_group cf now st st' c g).
Proof.
  intros cf now st r st' rep Hf Hs.
  destruct r; try discriminate Hf; simpl in Hs.
  - inversion Hs; auto.
  - destruct (AMap.get st c); inversion Hs; auto.
  - destruct (AMap.get st c); inversion Hs; auto.
  - unfold Storage.fetch_consumer in Hs.
    destruct (AMap.get st c) as [cl|] eqn:Ec; [|inversion Hs; auto].
    destruct (AMap.get (Storage.cl_consumer cl) g) as [grp|] eqn:Eg; [|inversion Hs; auto].
    destruct (Storage.expired cf now (Storage.g_last grp)) eqn:Ee.
    + inversion Hs; subst. right. exists c, g. split; [reflexivity|]. split; [reflexivity|].
      exists cl, grp. auto.
    + destruct (Storage.fetch_topics_lags _ _); inversion Hs; auto.
  - unfold Storage.fetch_topic in Hs.
    destruct (AMap.get st c) as [cl|]; [|inversion Hs; auto].
    destruct (AMap.get (Storage.cl_broker cl) t); inversion Hs; auto.
  - unfold Storage.fetch_consumers_for_topic in Hs.
    destruct (AMap.get st c); inversion Hs; auto.
Qed.

(* ... and what later reads return: after group g of cluster c has been dropped, every Fetch request that is
   not a listing of that cluster's groups and not about that group is answered exactly as before (at any
   later time); the cluster list holds the same names. *)
Definition reply_of_step (o : Storage.outcome) : option Storage.reply :=
  match o with Storage.Done _ rep => Some rep | Storage.Crashed => None end.

Definition about_dropped (c g : Z) (r : Storage.req) : bool :=
  match r with
  | Storage.FetchClusters => true                       (* same names, possibly another order: see below *)
  | Storage.FetchConsumers c' => c' =? c
  | Storage.FetchConsumersForTopic c' _ => c' =? c
  | Storage.FetchConsumer c' g' => (c' =? c) && (g' =? g)
  | _ => false
  end.

Lemma get_after_drop :
  forall (st : Storage.state) c cl' c',
    AMap.get (AMap.set st c cl') c' = if c =? c' then Some cl' else AMap.get st c'.
Proof.
  intros st c cl' c'. destruct (c =? c') eqn:E.
  - apply Z.eqb_eq in E; subst. apply AMapProofs.get_set_eq.
  - apply Z.eqb_neq in E. apply AMapProofs.get_set_neq. exact E.
Qed.

Theorem fetch_after_drop_same :
  forall cf now st st' c g,
    drops_expired_group cf now st st' c g ->
    forall r now2,
      storage_fetch_req r = true -> about_dropped c g r = false ->
      reply_of_step (Storage.step cf now2 st' r) = reply_of_step (Storage.step cf now2 st r).
Proof.
  intros cf now st st' c g [cl [grp [Hc [Hg [He Hst']]]]] r now2 Hf Ha. subst st'.
  destruct r; try discriminate Hf; cbn [about_dropped] in Ha; try discriminate Ha; cbn [Storage.step].
  - (* FetchConsumers c0, c0 <> c *)
    rewrite get_after_drop, Z.eqb_sym, Ha. destruct (AMap.get st c0); reflexivity.
  - (* FetchTopics *)
    rewrite get_after_drop. destruct (c =? c0) eqn:E; [|destruct (AMap.get st c0); reflexivity].
    apply Z.eqb_eq in E; subst c0. rewrite Hc. reflexivity.
  - (* FetchConsumer c0 g0, not (c0 = c /\ g0 = g) *)
    unfold Storage.fetch_consumer. rewrite get_after_drop.
    destruct (c =? c0) eqn:E.
    + apply Z.eqb_eq in E; subst c0. rewrite Hc. cbn [Storage.cl_consumer Storage.cl_broker].
      rewrite Z.eqb_refl in Ha. cbn [andb] in Ha. apply Z.eqb_neq in Ha.
      rewrite AMapProofs.get_remove_neq by congruence.
      destruct (AMap.get (Storage.cl_consumer cl) g0) as [grp0|]; [|reflexivity].
      destruct (Storage.expired cf now2 (Storage.g_last grp0)); [reflexivity|].
      destruct (Storage.fetch_topics_lags _ _); reflexivity.
    + destruct (AMap.get st c0) as [cl0|]; [|reflexivity].
      destruct (AMap.get (Storage.cl_consumer cl0) g0) as [grp0|]; [|reflexivity].
      destruct (Storage.expired cf now2 (Storage.g_last grp0)); [reflexivity|].
      destruct (Storage.fetch_topics_lags _ _); reflexivity.
  - (* FetchTopic *)
    unfold Storage.fetch_topic. rewrite get_after_drop.
    destruct (c =? c0) eqn:E.
    + apply Z.eqb_eq in E; subst c0. rewrite Hc. cbn [Storage.cl_broker].
      destruct (AMap.get (Storage.cl_broker cl) t); reflexivity.
    + destruct (AMap.get st c0) as [cl0|]; [|reflexivity].
      destruct (AMap.get (Storage.cl_broker cl0) t); reflexivity.
  - (* FetchConsumersForTopic c0, c0 <> c *)
    unfold Storage.fetch_consumers_for_topic. rewrite get_after_drop, Z.eqb_sym, Ha.
    destruct (AMap.get st c0); reflexivity.
Qed.

Theorem cluster_list_after_drop :
  forall cf now st st' c g,
    drops_expired_group cf now st st' c g ->
    forall x, In x (AMap.keys st') <-> In x (AMap.keys st).
Proof.
  intros cf now st st' c g [cl [grp [Hc [_ [_ Hst']]]]] x. subst st'.
  rewrite <- !AMapProofs.get_in_keys. rewrite get_after_drop.
  destruct (c =? x) eqn:E; [|tauto].
  apply Z.eqb_eq in E; subst x. rewrite Hc. split; discriminate.
Qed.

(* FetchConsumer never panics in the storage model (since /repo 54faa50 guards both index expressions of
   fetchConsumer's lag loop; see design_notes/MODEL_CHANGES.md) *)
Lemma add_lag_some : forall r cp, exists cp', Storage.add_lag r cp = Some cp'.
Proof.
  intros r cp. unfold Storage.add_lag.
  destruct (Eval.cp_offsets cp) as [|o0 orest]; [eexists; reflexivity|].
  destruct (Storage.somes r) as [|b0 brest]; [eexists; reflexivity|].
  destruct (last (o0 :: orest) None); eexists; reflexivity.
Qed.

Lemma add_lags_some : forall tl cps i, exists l, Storage.add_lags tl i cps = Some l.
Proof.
  intros tl cps. induction cps as [|cp rest IH]; intro i; cbn [Storage.add_lags]; [eexists; reflexivity|].
  destruct (IH (S i)) as [rest' Hr]. rewrite Hr.
  destruct (nth_error tl i) as [r|]; [|eexists; reflexivity].
  destruct (add_lag_some r cp) as [cp' Hc]. rewrite Hc. eexists; reflexivity.
Qed.

Lemma fetch_topics_lags_some : forall broker tops, exists l, Storage.fetch_topics_lags broker tops = Some l.
Proof.
  intros broker tops. induction tops as [|[t cps] rest IH]; cbn [Storage.fetch_topics_lags]; [eexists; reflexivity|].
  destruct IH as [rest' Hr]. rewrite Hr.
  destruct (AMap.get broker t) as [tl|]; [|eexists; reflexivity].
  destruct (add_lags_some tl cps 0%nat) as [l Hl]. rewrite Hl. eexists; reflexivity.
Qed.

Theorem fetch_consumer_no_crash :
  forall cf now st c g, Storage.fetch_consumer cf now st c g <> Storage.Crashed.
Proof.
  intros cf now st c g. unfold Storage.fetch_consumer.
  destruct (AMap.get st c) as [cl|]; [|discriminate].
  destruct (AMap.get (Storage.cl_consumer cl) g) as [grp|]; [|discriminate].
  destruct (Storage.expired cf now (Storage.g_last grp)); [discriminate|].
  match goal with |- context [Storage.fetch_topics_lags ?b ?t] => destruct (fetch_topics_lags_some b t) as [l Hl]; rewrite Hl end.
  discriminate.
Qed.

Section StorageLink.
  (* interning of names (the storage model keys its maps by interned names; any function will do) *)
  Variable intern : bytes -> Z.
  Variable name_of : Z -> bytes.

  (* protocol.StorageRequest -> the request of the storage model (inmemory.go requestWorker's switch) *)
  Definition to_storage_req (q : sreq) : option Storage.req :=
    let c := intern (sq_cluster q) in
    let g := intern (sq_group q) in
    let t := intern (sq_topic q) in
    let ty := sq_type q in
    if ty =? 3 then Some (Storage.DeleteTopic c t)
    else if ty =? 4 then Some (Storage.DeleteGroup c g t)
    else if ty =? 5 then Some Storage.FetchClusters
    else if ty =? 6 then Some (Storage.FetchConsumers c)
    else if ty =? 7 then Some (Storage.FetchTopics c)
    else if ty =? 8 then Some (Storage.FetchConsumer c g)
    else if ty =? 9 then Some (Storage.FetchTopic c t)
    else if ty =? 10 then Some (Storage.ClearConsumerOwners c g)
    else if ty =? 11 then Some (Storage.FetchConsumersForTopic c t)
    else None.                      (* the offset / owner updates carry fields the HTTP layer never sets *)

  Lemma fetch_type_to_storage :
    forall q, is_fetch_type (sq_type q) = true ->
      exists sr, to_storage_req q = Some sr /\ storage_fetch_req sr = true.
  Proof.
    intros q H. unfold is_fetch_type in H. unfold to_storage_req.
    repeat (apply orb_true_iff in H; destruct H as [H|H]); apply Z.eqb_eq in H; rewrite H; simpl; eexists; split; reflexivity.
  Qed.

  (* the storage request the evaluator sends for an evaluator request (evaluator/caching.go
     evaluateConsumerStatus: StorageFetchConsumer for the same cluster and group) *)
  Definition eval_storage_req (c g : bytes) : sreq := mk_sreq StorageFetchConsumer c g [].

  Definition step_readonly (sr : Storage.req) : Prop :=
    forall cf now st st' rep,
      Storage.step cf now st sr = Storage.Done st' rep ->
      st' = st \/ (exists c g, sr = Storage.FetchConsumer c g /\ rep = Storage.RNil /\ drops_expired_group cf now st st' c g).

  (* Read requests never change what later reads return, apart from dropping groups that had already
     expired: every request a GET handler sends to the backend -- directly, or through the evaluator --
     is a Fetch request of the storage model, and Storage.step on it leaves the state unchanged or drops one
     group whose last commit was already older than expire-group. *)
  Theorem get_is_readonly :
    forall (r : route) (ps : params) (reqbody : Z) (b : backend) (cfg : tree),
      is_get r = true ->
      Forall (fun i =>
                let q := match i with IStorage q => q | IEval c g _ => eval_storage_req c g end in
                exists sr, to_storage_req q = Some sr /\ storage_fetch_req sr = true /\ step_readonly sr)
             (fst (handle r ps reqbody b cfg)).
  Proof.
    intros r ps reqbody b cfg Hg.
    pose proof (get_is_readonly_http r ps reqbody b cfg Hg) as H.
    eapply Forall_impl; [|exact H].
    intros i Hi. cbv zeta.
    assert (Hq : is_fetch_type (sq_type (match i with IStorage q => q | IEval c g _ => eval_storage_req c g end)) = true).
    { destruct i; [exact Hi|reflexivity]. }
    destruct (fetch_type_to_storage _ Hq) as [sr [H1 H2]].
    exists sr. split; [exact H1|]. split; [exact H2|].
    intros cf now st st' rep Hs. eapply fetch_step_readonly; eauto.
  Qed.

  (* ---- the storage half of [backend_typed], from the reply constructors of Storage.step ---- *)

  Definition reply_of (rep : Storage.reply) : option reply_value :=
    match rep with
    | Storage.RNil => None
    | Storage.RStrings l => Some (RStrings (map name_of l))
    | Storage.RInts l => Some (RInts l)
    | Storage.RConsumer _ => Some (RTopics 0)
    | Storage.RNone => Some ROther          (* no reply is ever sent; no handler waits for one *)
    end.

  (* what arrives on the reply channel of request q when storage is in state st at time now; a request the
     storage worker would panic on (Storage.Crashed: F6(iii), a consumer partition index beyond the broker's
     partition list) is an ill-typed reply here *)
  Definition storage_backend_reply (cf : Storage.config) (now : Z) (st : Storage.state) (q : sreq) : option reply_value :=
    match to_storage_req q with
    | Some sr => match Storage.step cf now st sr with
                 | Storage.Done _ rep => reply_of rep
                 | Storage.Crashed => Some ROther
                 end
    | None => Some ROther
    end.

  Definition storage_backend (cf : Storage.config) (now : Z) (st : Storage.state)
             (ev : bytes -> bytes -> bool -> option gstatus) (ready : bool) : backend :=
    mk_backend (storage_backend_reply cf now st) ev ready.

  (* ASSUMED about storage: FetchConsumer does not panic in this state (C08 / F6(iii) territory);
     ASSUMED about the evaluator: [eval_ok] (a non-nil status whose float32 field is finite).
     Everything else of [backend_typed] follows from the constructors Storage.step answers with. *)
  Theorem storage_backend_typed :
    forall cf now st ev ready,
      (forall c g, Storage.fetch_consumer cf now st c g <> Storage.Crashed) ->
      (forall c g a, eval_ok (ev c g a) = true) ->
      backend_typed (storage_backend cf now st ev ready).
  Proof.
    intros cf now st ev ready Hnc Hev. split; [|exact Hev].
    intros [ty c g t]. unfold storage_backend, storage_backend_reply, to_storage_req, reply_ok. cbn [storage_reply sq_type sq_cluster sq_group sq_topic].
    destruct (ty =? 5) eqn:E5.
    { apply Z.eqb_eq in E5; subst ty. reflexivity. }
    destruct (ty =? 6) eqn:E6.
    { apply Z.eqb_eq in E6; subst ty. simpl. destruct (AMap.get st (intern c)); reflexivity. }
    destruct (ty =? 7) eqn:E7.
    { apply Z.eqb_eq in E7; subst ty. simpl. destruct (AMap.get st (intern c)); reflexivity. }
    destruct (ty =? 11) eqn:E11.
    { apply Z.eqb_eq in E11; subst ty. simpl. unfold Storage.fetch_consumers_for_topic.
      destruct (AMap.get st (intern c)); reflexivity. }
    destruct (ty =? 9) eqn:E9.
    { apply Z.eqb_eq in E9; subst ty. simpl. unfold Storage.fetch_topic.
      destruct (AMap.get st (intern c)) as [cl|]; [|reflexivity].
      destruct (AMap.get (Storage.cl_broker cl) (intern t)); reflexivity. }
    destruct (ty =? 8) eqn:E8.
    { apply Z.eqb_eq in E8; subst ty. simpl. specialize (Hnc (intern c) (intern g)).
      destruct (Storage.fetch_consumer cf now st (intern c) (intern g)) as [s' rep|] eqn:Ef; [|contradiction].
      unfold Storage.fetch_consumer in Ef.
      destruct (AMap.get st (intern c)) as [cl|]; [|inversion Ef; reflexivity].
      destruct (AMap.get (Storage.cl_consumer cl) (intern g)) as [grp|]; [|inversion Ef; reflexivity].
      destruct (Storage.expired cf now (Storage.g_last grp)); [inversion Ef; reflexivity|].
      destruct (Storage.fetch_topics_lags _ _); inversion Ef; reflexivity. }
    simpl. reflexivity.
  Qed.

  (* ... and since FetchConsumer cannot panic in the storage model, only the evaluator half remains assumed *)
  Theorem storage_backend_typed_any_state :
    forall cf now st ev ready,
      (forall c g a, eval_ok (ev c g a) = true) ->
      backend_typed (storage_backend cf now st ev ready).
  Proof.
    intros cf now st ev ready Hev. apply storage_backend_typed; [|exact Hev].
    intros c g. apply fetch_consumer_no_crash.
  Qed.
End StorageLink.

(* ------------------------------------------------------------------------------------------------ *)
(* 7b. the evaluator half of [backend_typed], from Eval.v over the replies of reachable storage states  *)
(* ------------------------------------------------------------------------------------------------ *)

Definition f32_fin (c : F32.f32) : bool := Flocq.IEEE754.Binary.is_finite 24 128 c.

(* encoding/json can encode a *protocol.ConsumerGroupStatus iff its float32 fields are finite: Complete of the group,
   of every listed partition and of Maxlag *)
Definition status_encodable (g : Eval.gstatus) : bool :=
  f32_fin (Eval.gs_complete g)
  && forallb (fun p => f32_fin (Eval.ps_complete p)) (Eval.gs_partitions g)
  && match Eval.gs_maxlag g with Some m => f32_fin (Eval.ps_complete m) | None => true end.

(* The evaluator (evaluator/caching.go getConsumerStatus / evaluateConsumerStatus) over a storage state: it asks
   storage for the group (StorageFetchConsumer); nil => the NOTFOUND status (Complete 1.0, no partitions); otherwise
   Eval.eval_group over the reply, filtered for the problems-only view.  A panic of the storage worker or of the
   evaluation is "no reply" (None).  A status served from the evaluator's cache is the value of this function at an
   earlier time on an earlier -- equally reachable -- state (C05), so the statement below covers it. *)
Definition evaluator_model (cf : Storage.config) (now : Z) (st : Storage.state) (minimum : F32.f32) (allowed enow : Z)
           (c g : Z) (showall : bool) : option gstatus :=
  match Storage.fetch_consumer cf now st c g with
  | Storage.Crashed => None
  | Storage.Done _ (Storage.RConsumer l) =>
      match Eval.eval_group l minimum allowed enow with
      | Eval.Crash => None
      | Eval.Ok gs =>
          let v := if showall then gs else Eval.filter_view gs in
          Some (mk_gstatus (Eval.status_num (Eval.gs_status v)) (status_encodable v))
      end
  | Storage.Done _ _ => Some (mk_gstatus 0 true)
  end.

(* "at most 2^24 partitions per group" *)
Definition group_size (grp : Storage.cgroup) : nat := List.length (flat_map snd (Storage.g_topics grp)).
Definition groups_bounded (st : Storage.state) : Prop :=
  forall c cl g grp, AMap.get st c = Some cl -> AMap.get (Storage.cl_consumer cl) g = Some grp ->
                     Z.of_nat (group_size grp) <= 2 ^ 24.

Lemma add_lags_length : forall tl cps i l, Storage.add_lags tl i cps = Some l -> List.length l = List.length cps.
Proof.
  intros tl cps. induction cps as [|cp rest IH]; intros i l H; cbn [Storage.add_lags] in H.
  - inversion H; reflexivity.
  - destruct (nth_error tl i) as [r|].
    + destruct (Storage.add_lag r cp); [|discriminate].
      destruct (Storage.add_lags tl (S i) rest) as [rest'|] eqn:E; [|discriminate].
      inversion H; subst. cbn [List.length]. f_equal. eapply IH; eauto.
    + destruct (Storage.add_lags tl (S i) rest) as [rest'|] eqn:E; [|discriminate].
      inversion H; subst. cbn [List.length]. f_equal. eapply IH; eauto.
Qed.

Lemma fetch_topics_lags_size :
  forall broker tops l, Storage.fetch_topics_lags broker tops = Some l ->
    List.length (flat_map snd l) = List.length (flat_map snd tops).
Proof.
  intros broker tops. induction tops as [|[t cps] rest IH]; intros l H; cbn [Storage.fetch_topics_lags] in H.
  - inversion H; reflexivity.
  - destruct (Storage.fetch_topics_lags broker rest) as [rest'|] eqn:E.
    + destruct (AMap.get broker t) as [tl|].
      * destruct (Storage.add_lags tl 0 cps) as [cps'|] eqn:El; [|discriminate].
        inversion H; subst. cbn [flat_map snd]. rewrite !app_length, (IH _ eq_refl), (add_lags_length _ _ _ _ El). reflexivity.
      * inversion H; subst. cbn [flat_map snd]. rewrite !app_length, (IH _ eq_refl). reflexivity.
    + destruct (AMap.get broker t) as [tl|]; [destruct (Storage.add_lags tl 0 cps)|]; discriminate.
Qed.

Lemma flat_map_snd_map_length :
  forall {A B C} (f : B -> C) (l : list (A * list B)),
    List.length (flat_map snd (map (fun tp => (fst tp, map f (snd tp))) l)) = List.length (flat_map snd l).
Proof.
  intros A B C f l. induction l as [|[a bs] l IH]; [reflexivity|].
  cbn [map flat_map fst snd]. rewrite !app_length, map_length, IH. reflexivity.
Qed.

(* the reply of FetchConsumer lists exactly the partitions the group holds *)
Lemma fetch_consumer_reply_size :
  forall cf now st c g st' l,
    groups_bounded st ->
    Storage.fetch_consumer cf now st c g = Storage.Done st' (Storage.RConsumer l) ->
    Z.of_nat (List.length (EvalCompleteProofs.all_parts l)) <= 2 ^ 24.
Proof.
  intros cf now st c g st' l Hb H. unfold Storage.fetch_consumer in H.
  destruct (AMap.get st c) as [cl|] eqn:Ec; [|discriminate].
  destruct (AMap.get (Storage.cl_consumer cl) g) as [grp|] eqn:Eg; [|discriminate].
  destruct (Storage.expired cf now (Storage.g_last grp)); [discriminate|].
  match type of H with context [Storage.fetch_topics_lags ?b ?t] => destruct (Storage.fetch_topics_lags b t) as [l'|] eqn:El end;
    [|discriminate].
  inversion H; subst l'. unfold EvalCompleteProofs.all_parts.
  rewrite (fetch_topics_lags_size _ _ _ El), flat_map_snd_map_length.
  exact (Hb c cl g grp Ec Eg).
Qed.

(* every window of the reply has the storage shape and at most cf_intervals slots (StorageWindows, C02) *)
Lemma reply_parts_shaped :
  forall cf cls h st reps now c g st' l,
    (1 <= Storage.cf_intervals cf)%nat -> StorageProofs.wf_hist h ->
    Storage.run cf (Storage.init_state cls) h = Some (st, reps) ->
    Storage.fetch_consumer cf now st c g = Storage.Done st' (Storage.RConsumer l) ->
    Forall (fun cp => (exists b cs, Eval.cp_offsets cp = repeat None b ++ map Some cs) /\
                      (List.length (Eval.cp_offsets cp) <= Storage.cf_intervals cf)%nat)
           (EvalCompleteProofs.all_parts l).
Proof.
  intros cf cls h st reps now c g st' l HN Hwf Hrun Hf.
  apply Forall_forall. intros cp Hin. unfold EvalCompleteProofs.all_parts in Hin.
  apply in_flat_map in Hin as [[t cps] [Hl Hcp]]. cbn [snd] in Hcp.
  apply In_nth_error in Hcp as [i Hi].
  destruct (StorageWindows.storage_reply_windows cf cls h st reps now c g st' l t cps i cp HN Hwf Hrun Hf Hl Hi)
    as [He|[_ (b & cs & Hw & Hlen & _)]].
  - split; [exists 0%nat, []; rewrite He; reflexivity|rewrite He; cbn; lia].
  - unfold RingProofs.window in Hw. split; [exists b, cs; exact Hw|].
    rewrite Hw, app_length, repeat_length, map_length. lia.
Qed.

Lemma eval_parts_no_crash :
  forall ps t idx minimum allowed now,
    Forall (fun cp => exists b cs, Eval.cp_offsets cp = repeat None b ++ map Some cs) ps ->
    exists l, Eval.eval_parts t idx ps minimum allowed now = Eval.Ok l.
Proof.
  induction ps as [|p r IH]; intros t idx minimum allowed now H; cbn [Eval.eval_parts]; [eexists; reflexivity|].
  inversion H as [|? ? (b & cs & Hsh) Hr]; subst.
  destruct (EvalProofs.eval_partition_no_crash b cs p minimum allowed now Hsh) as [[[[s st] en] cpl] Hp]. rewrite Hp.
  destruct (IH t (idx + 1) minimum allowed now Hr) as [l Hl]. rewrite Hl. eexists; reflexivity.
Qed.

Lemma eval_topics_no_crash :
  forall ts minimum allowed now,
    Forall (fun cp => exists b cs, Eval.cp_offsets cp = repeat None b ++ map Some cs) (EvalCompleteProofs.all_parts ts) ->
    exists l, Eval.eval_topics ts minimum allowed now = Eval.Ok l.
Proof.
  induction ts as [|[t ps] r IH]; intros minimum allowed now H; cbn [Eval.eval_topics]; [eexists; reflexivity|].
  unfold EvalCompleteProofs.all_parts in H. cbn [flat_map snd] in H. apply Forall_app in H as [Hp Hr].
  destruct (eval_parts_no_crash ps t 0 minimum allowed now Hp) as [l Hl]. rewrite Hl.
  destruct (IH minimum allowed now Hr) as [l' Hl']. rewrite Hl'. eexists; reflexivity.
Qed.

Lemma eval_group_no_crash :
  forall ts minimum allowed now,
    Forall (fun cp => exists b cs, Eval.cp_offsets cp = repeat None b ++ map Some cs) (EvalCompleteProofs.all_parts ts) ->
    exists g, Eval.eval_group ts minimum allowed now = Eval.Ok g.
Proof.
  intros ts minimum allowed now H. unfold Eval.eval_group.
  destruct (eval_topics_no_crash ts minimum allowed now H) as [parts Hp]. rewrite Hp.
  destruct (fold_left Eval.fold_part parts (Eval.StOK, None, 0, [])) as [[[st mx] nc] lst]. eexists; reflexivity.
Qed.

Lemma forallb_filter_sub : forall {A} (f g : A -> bool) l, forallb f l = true -> forallb f (filter g l) = true.
Proof.
  intros A f g l. induction l as [|a l IH]; cbn [filter forallb]; [reflexivity|].
  intro H. apply andb_true_iff in H as [Ha Hl]. destruct (g a); cbn [forallb]; [rewrite Ha|]; auto.
Qed.

(* The evaluator's reply, for every reachable storage state: a NOTFOUND status or a status all of whose completeness
   values are finite.  Bounds: 1 <= intervals <= 2^24, at most 2^24 partitions per group. *)
Theorem evaluator_backend_typed :
  forall cf cls h st reps,
    (1 <= Storage.cf_intervals cf)%nat -> Z.of_nat (Storage.cf_intervals cf) <= 2 ^ 24 ->
    StorageProofs.wf_hist h ->
    Storage.run cf (Storage.init_state cls) h = Some (st, reps) ->
    groups_bounded st ->
    forall now minimum allowed enow c g a,
      eval_ok (evaluator_model cf now st minimum allowed enow c g a) = true.
Proof.
  intros cf cls h st reps HN HN2 Hwf Hrun Hb now minimum allowed enow c g a.
  unfold evaluator_model.
  pose proof (fetch_consumer_no_crash cf now st c g) as Hnc.
  destruct (Storage.fetch_consumer cf now st c g) as [st' rep|] eqn:Ef; [|contradiction].
  destruct rep as [| |l0|l0|l]; try reflexivity.
  pose proof (reply_parts_shaped cf cls h st reps now c g st' l HN Hwf Hrun Ef) as Hsh.
  pose proof (fetch_consumer_reply_size cf now st c g st' l Hb Ef) as Hsz.
  assert (Hshape : Forall (fun cp => exists b cs, Eval.cp_offsets cp = repeat None b ++ map Some cs) (EvalCompleteProofs.all_parts l)).
  { eapply Forall_impl; [|exact Hsh]. intros cp [H _]. exact H. }
  assert (Hbounded : JsonProofs.bounded l).
  { split; [exact Hsz|]. eapply Forall_impl; [|exact Hsh]. intros cp [_ H]. cbv beta. lia. }
  destruct (eval_group_no_crash l minimum allowed enow Hshape) as [gs Hg]. rewrite Hg.
  destruct (JsonProofs.group_finite l minimum allowed enow gs Hbounded Hg) as [Hc [Hp Hm]].
  assert (Hall : forallb (fun p => f32_fin (Eval.ps_complete p)) (Eval.gs_partitions gs) = true).
  { apply forallb_forall. intros p Hin. rewrite Forall_forall in Hp. exact (Hp p Hin). }
  assert (Hmx : match Eval.gs_maxlag gs with Some m => f32_fin (Eval.ps_complete m) | None => true end = true).
  { destruct (Eval.gs_maxlag gs) as [m|] eqn:Em; [exact (Hm m eq_refl)|reflexivity]. }
  cbv zeta. unfold eval_ok. cbn [gs_finite]. unfold status_encodable.
  destruct a.
  - change (f32_fin (Eval.gs_complete gs)) with (TmplProofs.f32_finite (Eval.gs_complete gs)). rewrite Hc, Hall, Hmx. reflexivity.
  - unfold Eval.filter_view. cbn [Eval.gs_complete Eval.gs_partitions Eval.gs_maxlag].
    change (f32_fin (Eval.gs_complete gs)) with (TmplProofs.f32_finite (Eval.gs_complete gs)).
    rewrite Hc, (forallb_filter_sub _ _ _ Hall), Hmx. reflexivity.
Qed.

Section Composed.
  Variable intern : bytes -> Z.
  Variable name_of : Z -> bytes.

  (* the backend the HTTP layer really talks to: the storage model answering the storage requests, the evaluator model
     (over the same storage) answering the evaluator requests *)
  Definition composed_backend (cf : Storage.config) (now : Z) (st : Storage.state) (minimum : F32.f32) (allowed enow : Z)
             (ready : bool) : backend :=
    storage_backend intern name_of cf now st
                    (fun c g a => evaluator_model cf now st minimum allowed enow (intern c) (intern g) a) ready.

  (* [backend_typed] with NO assumption beyond the natural bounds: for every storage state reached by a run of a
     well-formed history, 1 <= intervals <= 2^24, at most 2^24 partitions per group *)
  Theorem backend_typed_reachable :
    forall cf cls h st reps,
      (1 <= Storage.cf_intervals cf)%nat -> Z.of_nat (Storage.cf_intervals cf) <= 2 ^ 24 ->
      StorageProofs.wf_hist h ->
      Storage.run cf (Storage.init_state cls) h = Some (st, reps) ->
      groups_bounded st ->
      forall now minimum allowed enow ready,
        backend_typed (composed_backend cf now st minimum allowed enow ready).
  Proof.
    intros cf cls h st reps HN HN2 Hwf Hrun Hb now minimum allowed enow ready.
    unfold composed_backend. apply storage_backend_typed_any_state.
    intros c g a. eapply evaluator_backend_typed; eauto.
  Qed.

  Theorem handle_total_reachable :
    forall cf cls h st reps,
      (1 <= Storage.cf_intervals cf)%nat -> Z.of_nat (Storage.cf_intervals cf) <= 2 ^ 24 ->
      StorageProofs.wf_hist h ->
      Storage.run cf (Storage.init_state cls) h = Some (st, reps) ->
      groups_bounded st ->
      forall now minimum allowed enow ready (r : route) (ps : params) (reqbody : Z) (cfg : tree),
        snd (handle r ps reqbody (composed_backend cf now st minimum allowed enow ready) cfg) <> Crash.
  Proof.
    intros cf cls h st reps HN HN2 Hwf Hrun Hb now minimum allowed enow ready r ps reqbody cfg.
    apply handle_total. eapply backend_typed_reachable; eauto.
  Qed.

  Theorem serve_total_reachable :
    forall tbl opts, route_table_ok tbl opts = true ->
    forall cf cls h st reps,
      (1 <= Storage.cf_intervals cf)%nat -> Z.of_nat (Storage.cf_intervals cf) <= 2 ^ 24 ->
      StorageProofs.wf_hist h ->
      Storage.run cf (Storage.init_state cls) h = Some (st, reps) ->
      groups_bounded st ->
      forall now minimum allowed enow ready (ra : bytes -> bytes -> option Z) (method path : bytes) (reqbody : Z) (cfg : tree),
        snd (serve ra (compile_table tbl) method path reqbody (composed_backend cf now st minimum allowed enow ready) cfg) <> Crash.
  Proof.
    intros tbl opts Htbl cf cls h st reps HN HN2 Hwf Hrun Hb now minimum allowed enow ready ra method path reqbody cfg.
    eapply serve_total; [exact Htbl|]. eapply backend_typed_reachable; eauto.
  Qed.
End Composed.

(* a decidable form of [groups_bounded], for concrete states *)
Definition groups_bounded_b (st : Storage.state) : bool :=
  forallb (fun ccl => forallb (fun ggrp => Z.of_nat (group_size (snd ggrp)) <=? 2 ^ 24) (Storage.cl_consumer (snd ccl))) st.

Lemma amap_get_in : forall {V} (m : AMap.amap V) k v, AMap.get m k = Some v -> In (k, v) m.
Proof.
  intros V m k v. induction m as [|[k' v'] m IH]; cbn [AMap.get]; [discriminate|].
  destruct (k' =? k) eqn:E; intro H.
  - apply Z.eqb_eq in E. inversion H; subst. left; reflexivity.
  - right. apply IH. exact H.
Qed.

Lemma groups_bounded_b_sound : forall st, groups_bounded_b st = true -> groups_bounded st.
Proof.
  intros st H c cl g grp Hc Hg. unfold groups_bounded_b in H.
  pose proof (forallb_In _ _ _ H (amap_get_in _ _ _ Hc)) as H1. cbn [snd] in H1.
  pose proof (forallb_In _ _ _ H1 (amap_get_in _ _ _ Hg)) as H2. cbn [snd] in H2.
  apply Z.leb_le in H2. exact H2.
Qed.

(* non-vacuity: a history (two broker offsets, three commits of group 7 on partition 0 of topic 5 of cluster 1 with a
   window of two slots) whose run reaches a state with a live group; the evaluator model answers a real status for it *)
Definition reach_cf : Storage.config := Storage.mkConfig 2%nat 604800 0 (fun _ => true).
Definition reach_hist : list (Z * Storage.req) :=
  [(1000, Storage.SetBrokerOffset 1 5 0 1 50); (1001, Storage.SetBrokerOffset 1 5 0 1 80);
   (1002, Storage.SetConsumerOffset 1 7 5 0 10 1 1002000); (1003, Storage.SetConsumerOffset 1 7 5 0 20 2 1003000);
   (1004, Storage.SetConsumerOffset 1 7 5 0 30 3 1004000)].
Definition reach_state : Storage.state :=
  match Storage.run reach_cf (Storage.init_state [1]) reach_hist with Some (st, _) => st | None => [] end.

Example reachable_state_example :
  (exists reps, Storage.run reach_cf (Storage.init_state [1]) reach_hist = Some (reach_state, reps)) /\
  StorageProofs.wf_hist reach_hist /\ groups_bounded reach_state /\
  (exists l, Storage.fetch_consumer reach_cf 1005 reach_state 1 7 = Storage.Done reach_state (Storage.RConsumer l) /\ l <> []) /\
  evaluator_model reach_cf 1005 reach_state F32.f32_zero 0 1005 1 7 true = Some (mk_gstatus 1 true) /\
  evaluator_model reach_cf 1005 reach_state F32.f32_zero 0 1005 1 8 true = Some (mk_gstatus 0 true).
Proof.
  split; [|split; [|split; [|split; [|split]]]].
  - eexists. vm_compute. reflexivity.
  - repeat constructor; cbn; unfold Int64.in_i64; lia.
  - apply groups_bounded_b_sound. vm_compute. reflexivity.
  - eexists. split; [vm_compute; reflexivity|discriminate].
  - vm_compute. reflexivity.
  - vm_compute. reflexivity.
Qed.

(* ------------------------------------------------------------------------------------------------ *)
(* 8. the regenerated tables                                                                         *)
(* ------------------------------------------------------------------------------------------------ *)

Lemma count_rows_pos : forall f tbl, (count_rows f tbl > 0)%nat -> exists row, In row tbl /\ f row = true.
Proof.
  unfold count_rows. intros f tbl H. destruct (filter f tbl) as [|row l] eqn:E; simpl in H; [lia|].
  exists row. apply filter_In. rewrite E. left; reflexivity.
Qed.

Theorem route_table_complete :
  forall tbl opts, route_table_ok tbl opts = true ->
    (* every documented /v3 pattern is registered, with its method, to the Go handler the model describes *)
    (forall m p, In (m, p) documented_v3 ->
       exists r segs h reg, is_v3 r = true /\ route_method r = m /\ route_pattern r = p /\
                          In (RtRow m p segs h reg) tbl) /\
    (* every modelled registration is in the table exactly once, and nothing else claims its method+pattern *)
    (forall r, count_rows (row_is r) tbl = 1%nat /\ count_rows (row_same_path r) tbl = 1%nat) /\
    (* every row of the table has a model case *)
    (forall row, In row tbl -> exists r, route_of_row row = Some r /\ row_is r row = true) /\
    (* NotFound is assigned; no router field outside the allowed ones is *)
    (forall o, In o opts -> In (fst o) allowed_router_opts) /\ (exists o, In o opts /\ fst o = "NotFound"%string).
Proof.
  intros tbl opts H. pose proof (route_table_ok_rows _ _ H) as Hrows'. unfold route_table_ok in H.
  repeat (apply andb_true_iff in H; destruct H as [H ?]).
  rename H0 into Hnf, H1 into Hopts, H2 into Hall2, H3 into Hdoc, H4 into Hrows, H5 into Hcnt.
  assert (Hone : forall r, count_rows (row_is r) tbl = 1%nat /\ count_rows (row_same_path r) tbl = 1%nat).
  { intro r. pose proof (forallb_In _ _ r Hcnt (all_routes_complete r)) as Hr. cbv beta in Hr.
    apply andb_true_iff in Hr as [Hr1 Hr2]. apply Nat.eqb_eq in Hr1. apply Nat.eqb_eq in Hr2. auto. }
  split; [|split; [|split]].
  - intros m p Hin. pose proof (forallb_In _ _ (m, p) Hdoc Hin) as Hd. cbv beta in Hd.
    apply existsb_exists in Hd as [r [_ Hr]].
    apply andb_true_iff in Hr as [Hr Hp]. apply andb_true_iff in Hr as [Hv Hm].
    apply String.eqb_eq in Hm. apply String.eqb_eq in Hp. cbn [fst snd] in Hm, Hp.
    destruct (count_rows_pos (row_is r) tbl) as [row [Hrow Hris]]; [destruct (Hone r) as [Ho _]; rewrite Ho; lia|].
    destruct row as [m' p' segs h reg|]; simpl in Hris; [|discriminate].
    apply andb_true_iff in Hris as [Hm' Hp'].
    apply String.eqb_eq in Hm'. apply String.eqb_eq in Hp'. subst.
    exists r, segs, h, reg. repeat split; auto.
  - exact Hone.
  - exact Hrows'.
  - split.
    + intros o Hin. pose proof (forallb_In _ _ o Hopts Hin) as Ho. cbv beta in Ho.
      apply existsb_exists in Ho as [x [Hx He]]. apply String.eqb_eq in He. rewrite He. exact Hx.
    + apply existsb_exists in Hnf as [o [Ho He]]. apply String.eqb_eq in He. exists o. auto.
Qed.

(* every row of a table that passes the check is served by a handler for which the envelope lemmas hold *)
Theorem every_row_has_envelope :
  forall tbl opts, route_table_ok tbl opts = true ->
  forall row, In row tbl ->
    exists r, route_of_row row = Some r /\
      forall (b : backend), backend_typed b -> forall (ps : params) (reqbody : Z) (cfg : tree),
        snd (handle r ps reqbody b cfg) <> Crash /\
        (is_v3 r = true -> present r ps reqbody b cfg ->
           exists st, snd (handle r ps reqbody b cfg) = Resp 200 true (BJson false true true st)) /\
        (is_delete_route r = false -> unknown_full r ps b cfg ->
           snd (handle r ps reqbody b cfg) = unknown_answer r).
Proof.
  intros tbl opts H row Hin. destruct (route_table_ok_rows _ _ H _ Hin) as [r [Hr _]].
  exists r. split; [exact Hr|]. intros b Hb ps reqbody cfg. split; [apply handle_total; assumption|]. split.
  - intros Hv Hp. eapply envelope_exists; eauto.
  - intros Hd Hu. eapply envelope_unknown_partial; eauto.
Qed.

(* what [request_types_ok] establishes for the regenerated tables: the Go function the table registers for a GET route
   constructs only StorageFetch* request types, and (except /metrics, which belongs to C17) exactly the types the model
   issues *)
Theorem get_handlers_construct_only_fetch :
  forall tbl hr, request_types_ok tbl hr = true ->
  forall r, is_get r = true ->
    exists h tys ev pn, row_handler_of r tbl = Some h /\ hreq_for h hr = Some (HReq h tys ev pn) /\
                        (forall t, In t tys -> fetch_name t = true) /\
                        (r <> RMetrics -> same_set tys (map req_type_name (route_req_types r)) = true /\ ev = route_evals r).
Proof.
  intros tbl hr H r Hg. unfold request_types_ok in H.
  pose proof (forallb_In _ _ r H (all_routes_complete r)) as Hr. cbv beta in Hr.
  destruct (row_handler_of r tbl) as [h|] eqn:Eh; [|discriminate].
  destruct (hreq_for h hr) as [[n tys ev pn]|] eqn:E; [|discriminate].
  assert (n = h).
  { unfold hreq_for in E. apply find_some in E as [_ E]. apply String.eqb_eq in E. exact E. }
  subst n. exists h, tys, ev, pn. split; [reflexivity|]. split; [exact E|].
  apply andb_true_iff in Hr as [H1 H2]. rewrite Hg in H2. simpl in H2.
  split.
  - intros t Ht. eapply forallb_In; eauto.
  - intro Hne. destruct r; try (exfalso; apply Hne; reflexivity);
      apply andb_true_iff in H1 as [Ha Hb]; split; auto; apply eqb_prop in Hb; auto.
Qed.

(* ------------------------------------------------------------------------------------------------ *)
(* 9. F9 (repaired in /repo by commit cc4f2f8, config detail endpoints treated dotted names as        *)
(*    configured modules): documentation of the old behaviour                                        *)
(* ------------------------------------------------------------------------------------------------ *)

Definition f9_cfg : tree :=
  Node (KCons (pb "storage") (Node (KCons (pb "local") (Node (KCons (pb "intervals") (Leaf (VNum 10)) KNil)) KNil)) KNil).

(* before the repair: GET /v3/config/storage/local.intervals was answered 200 although the storage section
   has no module of that name *)
Theorem dotted_module_name_v0_refuted :
  exists (cfg : tree) (name : bytes) (b : backend),
    module_configured cfg s_storage name = false /\
    snd (handle_v0 RCfgStorageDetail [(s_name, name)] 2 b cfg) = Resp 200 true (BJson false true true None).
Proof.
  exists f9_cfg, (pb "local.intervals"), (world_backend [] 0 true).
  split; vm_compute; reflexivity.
Qed.

(* after the repair the same request is a 404 with error=true *)
Example dotted_module_name_now_404 :
  snd (handle RCfgStorageDetail [(s_name, pb "local.intervals")] 2 (world_backend [] 0 true) f9_cfg)
  = Resp 404 true (BJson true true true None).
Proof. vm_compute. reflexivity. Qed.

(* ------------------------------------------------------------------------------------------------ *)
(* 10. the hypotheses are satisfiable                                                                *)
(* ------------------------------------------------------------------------------------------------ *)

Definition world_finite (w : world) : bool :=
  forallb (fun c => forallb (fun g => snd (snd g)) (wc_groups c)) w.

Lemma find_cluster_in : forall w c x, find_cluster w c = Some x -> In x w.
Proof.
  induction w as [|a w IH]; simpl; intros c x H; [discriminate|].
  destruct (beq (wc_name a) c); [inversion H; auto|eauto].
Qed.

Lemma assoc_b_in : forall {A} (l : list (bytes * A)) k v, assoc_b l k = Some v -> exists n, In (n, v) l.
Proof.
  induction l as [|[n x] l IH]; simpl; intros k v H; [discriminate|].
  destruct (beq n k); [inversion H; subst; eauto|]. destruct (IH _ _ H) as [m Hm]. eauto.
Qed.

Theorem world_backend_typed :
  forall w ready, world_finite w = true -> backend_typed (world_backend w 0 ready).
Proof.
  intros w ready Hf. split.
  - intros [ty c g t]. unfold reply_ok, world_backend, world_storage. cbn [storage_reply sq_type sq_cluster sq_group sq_topic].
    replace (0 =? 1) with false by reflexivity. replace (0 =? 2) with false by reflexivity. cbn [andb].
    destruct (ty =? 5) eqn:E5; [reflexivity|].
    destruct (find_cluster w c) as [cl|].
    + destruct (ty =? 7) eqn:E7; [apply Z.eqb_eq in E7; subst ty; reflexivity|].
      destruct (ty =? 6) eqn:E6; [apply Z.eqb_eq in E6; subst ty; reflexivity|].
      destruct (ty =? 9) eqn:E9.
      { apply Z.eqb_eq in E9; subst ty; simpl. destruct (assoc_b _ _); reflexivity. }
      destruct (ty =? 11) eqn:E11; [apply Z.eqb_eq in E11; subst ty; reflexivity|].
      destruct (ty =? 8) eqn:E8.
      { apply Z.eqb_eq in E8; subst ty; simpl. destruct (assoc_b _ _); reflexivity. }
      simpl. reflexivity.
    + destruct ((ty =? 6) || (ty =? 7) || (ty =? 11)); auto.
      destruct (ty =? 9); auto. destruct (ty =? 8); auto.
  - intros c g a. unfold eval_ok, world_backend, world_evaluator; simpl.
    destruct (find_cluster w c) as [cl|] eqn:Ec; [|reflexivity].
    destruct (assoc_b (wc_groups cl) g) as [[s fin]|] eqn:Eg; [|reflexivity]. simpl.
    apply find_cluster_in in Ec. apply assoc_b_in in Eg as [n Hn].
    unfold world_finite in Hf. pose proof (forallb_In _ _ _ Hf Ec) as H1. simpl in H1.
    pose proof (forallb_In _ _ _ H1 Hn) as H2. exact H2.
Qed.

Definition example_world : world :=
  [mk_wcluster (pb "c1") [(pb "orders", [10; 20])] [(pb "billing", (3, true))]].
Definition example_backend : backend := world_backend example_world 0 true.

Example typed_backend_exists : backend_typed example_backend.
Proof. apply world_backend_typed. reflexivity. Qed.

(* non-trivial instances of the envelope theorems on that backend *)
Example envelope_example_exists :
  present RTopicDetail [(s_cluster, pb "c1"); (s_topic, pb "orders")] 2 example_backend (Node KNil) /\
  snd (handle RTopicDetail [(s_cluster, pb "c1"); (s_topic, pb "orders")] 2 example_backend (Node KNil))
  = Resp 200 true (BJson false true true None).
Proof. split; [vm_compute; right; discriminate|vm_compute; reflexivity]. Qed.

Example envelope_example_unknown_topic :
  unknown_full RTopicDetail [(s_cluster, pb "c1"); (s_topic, pb "nosuch")] example_backend (Node KNil) /\
  snd (handle RTopicDetail [(s_cluster, pb "c1"); (s_topic, pb "nosuch")] 2 example_backend (Node KNil))
  = Resp 404 true (BJson true true true None).
Proof. split; [left; vm_compute; reflexivity|vm_compute; reflexivity]. Qed.

Example envelope_example_status :
  snd (handle RConsumerStatus [(s_cluster, pb "c1"); (s_consumer, pb "billing")] 2 example_backend (Node KNil))
  = Resp 200 true (BJson false true true (Some 3))
  /\ snd (handle RConsumerStatus [(s_cluster, pb "c1"); (s_consumer, pb "nogroup")] 2 example_backend (Node KNil))
  = Resp 404 true (BJson false true true (Some 0)).
Proof. split; vm_compute; reflexivity. Qed.

Example envelope_example_module :
  present RCfgStorageDetail [(s_name, pb "LOCAL")] 2 example_backend f9_cfg /\
  unknown_full RCfgStorageDetail [(s_name, pb "local.intervals")] example_backend f9_cfg.
Proof. split; [vm_compute; split; [reflexivity|discriminate]|left; vm_compute; reflexivity]. Qed.

(* viper's case-insensitivity is Go's Unicode lower-casing: U+212A KELVIN SIGN + "afka" names the module "kafka" *)
Definition kelvin_cfg : tree :=
  Node (KCons (pb "consumer") (Node (KCons (pb "kafka") (Node (KCons (pb "class-name") (Leaf (VStr (pb "kafka"))) KNil)) KNil)) KNil).
Definition kelvin_afka : bytes := [226; 132; 170] ++ pb "afka".
Definition kelvin_truncated : bytes := [226; 132] ++ pb "afka".

Example kelvin_sign_names_module :
  present RCfgConsumerDetail [(s_name, kelvin_afka)] 2 example_backend kelvin_cfg /\
  snd (handle RCfgConsumerDetail [(s_name, kelvin_afka)] 2 example_backend kelvin_cfg) = Resp 200 true (BJson false true true None) /\
  unknown_full RCfgConsumerDetail [(s_name, kelvin_truncated)] example_backend kelvin_cfg.
Proof. split; [vm_compute; split; [reflexivity|discriminate]|split; [vm_compute; reflexivity|left; vm_compute; reflexivity]]. Qed.

(* a small compiled table: GET /v3/kafka and GET /v3/kafka/:cluster, DELETE /v3/kafka/:cluster/consumer/:consumer *)
Definition mini_table : list brow :=
  [mk_brow (pb "GET") [BLit (pb "v3"); BLit (pb "kafka")] (Some RClusterList);
   mk_brow (pb "GET") [BLit (pb "v3"); BLit (pb "kafka"); BParam (pb "cluster")] (Some RClusterDetail);
   mk_brow (pb "DELETE") [BLit (pb "v3"); BLit (pb "kafka"); BParam (pb "cluster"); BLit (pb "consumer"); BParam (pb "consumer")]
           (Some RConsumerDelete)].

(* unrouted requests on that table: outside the region where the router may answer by itself (=> NotFound, 404, for
   every sound [ra]); inside it (trailing slash, case / "//" / "." variants, another method, the root) *)
Example unrouted_region_example :
  dispatch mini_table (pb "GET") (pb "/v3/no/such/uri") = None /\
  router_level_possible mini_table (pb "/v3/no/such/uri") = false /\
  router_level_possible mini_table (pb "/v3/kafka/c1/extra") = false /\
  dispatch mini_table (pb "GET") (pb "/v3/kafka/") = None /\
  router_level_possible mini_table (pb "/v3/kafka/") = true /\
  router_level_possible mini_table (pb "/V3//Kafka/./c1") = true /\
  dispatch mini_table (pb "PUT") (pb "/v3/kafka") = None /\
  router_level_possible mini_table (pb "/v3/kafka") = true /\
  router_level_possible mini_table (pb "/./.") = true.
Proof. repeat split; vm_compute; reflexivity. Qed.

(* an ill-typed backend does crash the handler: the contract is needed *)
Example untyped_backend_crashes :
  snd (handle RClusterList [] 2 (world_backend example_world 1 true) (Node KNil)) = Crash.
Proof. vm_compute. reflexivity. Qed.

(* a storage state on which the storage-backed backend is typed and a Fetch drops an expired group *)
Definition example_cf : Storage.config := Storage.mkConfig 2%nat 10 1 (fun _ => true).
Definition example_state : Storage.state :=
  [(1, Storage.mkCluster [] [(7, Storage.mkCgroup [] 1000)])].

Example fetch_drops_expired_example :
  Storage.step example_cf 100 example_state (Storage.FetchConsumer 1 7)
  = Storage.Done [(1, Storage.mkCluster [] [])] Storage.RNil /\
  drops_expired_group example_cf 100 example_state [(1, Storage.mkCluster [] [])] 1 7.
Proof.
  split; [vm_compute; reflexivity|].
  exists (Storage.mkCluster [] [(7, Storage.mkCgroup [] 1000)]), (Storage.mkCgroup [] 1000).
  repeat split; vm_compute; reflexivity.
Qed.

Example storage_backend_typed_example :
  backend_typed (storage_backend (fun _ => 1) (fun _ => []) example_cf 0 example_state
                                 (fun _ _ _ => Some (mk_gstatus 1 true)) true).
Proof.
  apply storage_backend_typed; [|intros; reflexivity].
  intros c g. unfold Storage.fetch_consumer, example_state. cbn [AMap.get].
  destruct (1 =? c); [|discriminate]. cbn [Storage.cl_consumer AMap.get].
  destruct (7 =? g); [|discriminate].
  destruct (Storage.expired _ _ _); [discriminate|]. cbn. discriminate.
Qed.
