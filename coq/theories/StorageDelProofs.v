(* C09 (deletion and expiry remove exactly what they name) and the storage half of C10
   (allow/deny lists on every ingestion path), proved over the executable model Burrow.Storage.

   Layout
     1. vocabulary used by the statements ([after], [obs], [names], [wf_state], [mentions_*], [creates_*])
     2. association-list lemmas not in AMapProofs
     3. well-formedness is an invariant of [step] (hence holds in every reachable state)
     4. the deletion handlers at the level of [get]
     5. fetch replies through [get]
     6. C09 one-step theorems: removal and frame for DeleteGroup (whole), DeleteGroup (one topic), DeleteTopic
     7. C09 expiry: lazy purge, not-expired converse, too-old commits, the int64 guards
     8. C09 lifted to histories
     9. C10 storage half
    10. concrete states used by the non-vacuity Examples of props/C09.v and props/C10.v

   All statements about maps go through [get]; listings (Go map iteration order) are compared as sets, and
   [NoDup] of every listing is proved separately so that set equality is multiset equality. *)
From Coq Require Import ZArith List Bool Lia ZifyBool.
From Burrow Require Import Int64 Int64Proofs Eval AMap AMapProofs Ring Storage.
Import ListNotations.
Open Scope Z_scope.

(* ------------------------------------------------------------------------------------------ *)
(* 1. Vocabulary                                                                               *)
(* ------------------------------------------------------------------------------------------ *)

(* the state after a request (a crashed request leaves no state; deletions never crash, see [deletion_total]) *)
Definition after (cf : config) (now : Z) (s : state) (r : req) : state :=
  match step cf now s r with Done s' _ => s' | Crashed => s end.

(* what a request answers *)
Definition obs (cf : config) (now : Z) (s : state) (r : req) : option reply :=
  match step cf now s r with Done _ rep => Some rep | Crashed => None end.

(* the names a reply lists: group names (FetchConsumers, FetchConsumersForTopic), topic names (FetchTopics, and the
   topics of a FetchConsumer detail), cluster names (FetchClusters) *)
Definition names (o : option reply) : list Z :=
  match o with
  | Some (RStrings l) => l
  | Some (RConsumer l) => map fst l
  | _ => []
  end.

Definition is_fetch (r : req) : bool :=
  match r with
  | FetchClusters | FetchConsumers _ | FetchTopics _ | FetchConsumer _ _ | FetchTopic _ _ | FetchConsumersForTopic _ _ => true
  | _ => false
  end.

Definition req_cluster (r : req) : option Z :=
  match r with
  | SetBrokerOffset c _ _ _ _ | SetConsumerOffset c _ _ _ _ _ _ | SetConsumerOwner c _ _ _ _ _ | ClearConsumerOwners c _
  | DeleteTopic c _ | DeleteGroup c _ _ | FetchConsumers c | FetchTopics c | FetchConsumer c _ | FetchTopic c _
  | FetchConsumersForTopic c _ => Some c
  | FetchClusters => None
  end.

(* the group an ingestion request is about (the three handlers that consult the allow/deny lists) *)
Definition ingest_group (r : req) : option Z :=
  match r with
  | SetConsumerOffset _ g _ _ _ _ _ | SetConsumerOwner _ g _ _ _ _ | ClearConsumerOwners _ g => Some g
  | _ => None
  end.

(* no duplicate keys, at every level that can be reached through [get] *)
Definition wf_cluster (cl : cluster) : Prop :=
  NoDup (keys (cl_broker cl)) /\ NoDup (keys (cl_consumer cl)) /\
  forall g grp, get (cl_consumer cl) g = Some grp -> NoDup (keys (g_topics grp)).
Definition wf_state (s : state) : Prop :=
  NoDup (keys s) /\ forall c cl, get s c = Some cl -> wf_cluster cl.

(* a reply "mentions" group g of cluster c / topic t of group g of cluster c / topic t of cluster c *)
Definition mentions_group (c g : Z) (r : req) (rep : reply) : Prop :=
  match r, rep with
  | FetchConsumers c', RStrings l => c' = c /\ In g l
  | FetchConsumersForTopic c' _, RStrings l => c' = c /\ In g l
  | FetchConsumer c' g', RConsumer _ => c' = c /\ g' = g
  | _, _ => False
  end.

Definition mentions_group_topic (c g t : Z) (r : req) (rep : reply) : Prop :=
  match r, rep with
  | FetchConsumer c' g', RConsumer l => c' = c /\ g' = g /\ In t (map fst l)
  | FetchConsumersForTopic c' t', RStrings l => c' = c /\ t' = t /\ In g l
  | _, _ => False
  end.

Definition mentions_topic (c t : Z) (r : req) (rep : reply) : Prop :=
  match r, rep with
  | FetchTopics c', RStrings l => c' = c /\ In t l
  | FetchTopic c' t', RInts _ => c' = c /\ t' = t
  | FetchConsumersForTopic c' t', RStrings l => c' = c /\ t' = t /\ l <> []
  | FetchConsumer c' _, RConsumer l => c' = c /\ In t (map fst l)
  | _, _ => False
  end.

(* the only requests that can (re-)create the item *)
Definition creates_group (c g : Z) (r : req) : Prop :=
  match r with
  | SetConsumerOffset c' g' _ _ _ _ _ | SetConsumerOwner c' g' _ _ _ _ => c' = c /\ g' = g
  | _ => False
  end.
Definition creates_group_topic (c g t : Z) (r : req) : Prop :=
  match r with
  | SetConsumerOffset c' g' t' _ _ _ _ | SetConsumerOwner c' g' t' _ _ _ => c' = c /\ g' = g /\ t' = t
  | _ => False
  end.
Definition creates_topic (c t : Z) (r : req) : Prop :=
  match r with
  | SetBrokerOffset c' t' _ _ _ => c' = c /\ t' = t
  | _ => False
  end.

(* state-level absence *)
Definition absent_group (s : state) (c g : Z) : Prop :=
  forall cl, get s c = Some cl -> get (cl_consumer cl) g = None.
Definition absent_group_topic (s : state) (c g t : Z) : Prop :=
  forall cl grp, get s c = Some cl -> get (cl_consumer cl) g = Some grp -> get (g_topics grp) t = None.
Definition absent_topic (s : state) (c t : Z) : Prop :=
  forall cl, get s c = Some cl ->
    get (cl_broker cl) t = None /\ forall g grp, In (g, grp) (cl_consumer cl) -> get (g_topics grp) t = None.

(* group g of cluster c consumes some topic other than t *)
Definition has_other_topic (s : state) (c g t : Z) : Prop :=
  exists cl grp t', get s c = Some cl /\ get (cl_consumer cl) g = Some grp /\ t' <> t /\ get (g_topics grp) t' <> None.

(* ------------------------------------------------------------------------------------------ *)
(* 2. Association lists                                                                        *)
(* ------------------------------------------------------------------------------------------ *)

Lemma get_some_in {V} (m : amap V) k v : get m k = Some v -> In (k, v) m.
Proof.
  induction m as [|[k' v'] r IH]; cbn; [discriminate|].
  destruct (k' =? k) eqn:E.
  - apply Z.eqb_eq in E. intros H. injection H as ->. subst. left. reflexivity.
  - intros H. right. exact (IH H).
Qed.

Lemma in_keys {V} (m : amap V) k v : In (k, v) m -> In k (keys m).
Proof. intros H. unfold keys. change k with (fst (k, v)). apply in_map. exact H. Qed.

Lemma in_get_nodup {V} (m : amap V) k v : NoDup (keys m) -> In (k, v) m -> get m k = Some v.
Proof.
  induction m as [|[k' v'] r IH]; cbn; [tauto|].
  intros Hnd [Heq|Hin].
  - injection Heq as -> ->. rewrite Z.eqb_refl. reflexivity.
  - inversion Hnd as [|? ? Hni Hnd']; subst.
    destruct (k' =? k) eqn:E.
    + apply Z.eqb_eq in E. subst. exfalso. apply Hni. exact (in_keys _ _ _ Hin).
    + exact (IH Hnd' Hin).
Qed.

Lemma get_none_not_in {V} (m : amap V) k : get m k = None <-> ~ In k (keys m).
Proof.
  rewrite <- get_in_keys. destruct (get m k) as [v|]; split; intros H; try tauto; try discriminate.
Qed.

Lemma nodup_remove {V} (m : amap V) k : NoDup (keys m) -> NoDup (keys (remove m k)).
Proof.
  unfold keys, remove. induction m as [|[k' v] r IH]; cbn; [auto|].
  intros Hnd. inversion Hnd as [|? ? Hni Hnd']; subst.
  destruct (k' =? k); cbn; [apply IH; exact Hnd'|].
  constructor; [|apply IH; exact Hnd'].
  intros Hin. apply Hni. apply (keys_remove r k k'). exact Hin.
Qed.

Lemma nodup_set {V} (m : amap V) k v : NoDup (keys m) -> NoDup (keys (set m k v)).
Proof.
  intros Hnd. unfold set. change (keys ((k, v) :: remove m k)) with (k :: keys (remove m k)).
  constructor; [|apply nodup_remove; exact Hnd].
  intros Hin. apply keys_remove in Hin. tauto.
Qed.

Lemma nodup_map_vals {V W} (f : V -> W) (m : amap V) : NoDup (keys m) -> NoDup (keys (map_vals f m)).
Proof. rewrite keys_map_vals. auto. Qed.

Lemma keys_set {V} (m : amap V) k v x : In x (keys (set m k v)) <-> x = k \/ (In x (keys m) /\ x <> k).
Proof.
  unfold set. change (keys ((k, v) :: remove m k)) with (k :: keys (remove m k)). cbn [In].
  rewrite keys_remove. intuition congruence.
Qed.

Lemma get_set {V} (m : amap V) k k' v : get (set m k v) k' = if k =? k' then Some v else get m k'.
Proof.
  destruct (k =? k') eqn:E.
  - apply Z.eqb_eq in E. subst. apply get_set_eq.
  - apply Z.eqb_neq in E. apply get_set_neq. exact E.
Qed.

Lemma get_remove {V} (m : amap V) k k' : get (remove m k) k' = if k =? k' then None else get m k'.
Proof.
  destruct (k =? k') eqn:E.
  - apply Z.eqb_eq in E. subst. apply get_remove_eq.
  - apply Z.eqb_neq in E. apply get_remove_neq. exact E.
Qed.

Lemma remove_nil_get {V} (m : amap V) k k' : remove m k = [] -> k' <> k -> get m k' = None.
Proof.
  intros Hnil Hne. rewrite <- (get_remove_neq m k k') by auto. rewrite Hnil. reflexivity.
Qed.

Lemma remove_not_nil_other {V} (m : amap V) k : remove m k <> [] -> exists k', k' <> k /\ get m k' <> None.
Proof.
  intros Hne. destruct (remove m k) as [|[k' v] r] eqn:E; [contradiction|].
  exists k'. assert (Hin : In k' (keys (remove m k))) by (rewrite E; left; reflexivity).
  apply keys_remove in Hin. destruct Hin as [Hin Hk]. split; [exact Hk|]. apply get_in_keys. exact Hin.
Qed.

(* listing the keys whose value satisfies a test, through [get] *)
Lemma in_filter_keys {V} (m : amap V) (f : V -> bool) x :
  NoDup (keys m) ->
  (In x (map fst (filter (fun kv => f (snd kv)) m)) <-> exists v, get m x = Some v /\ f v = true).
Proof.
  intros Hnd. split.
  - intros Hin. apply in_map_iff in Hin. destruct Hin as [[k v] [Hk Hin]]. cbn in Hk. subst k.
    apply filter_In in Hin. destruct Hin as [Hin Hf]. cbn in Hf.
    exists v. split; [apply in_get_nodup; assumption|exact Hf].
  - intros [v [Hg Hf]]. apply in_map_iff. exists (x, v). split; [reflexivity|].
    apply filter_In. split; [apply get_some_in; exact Hg|exact Hf].
Qed.

Lemma nodup_filter_keys {V} (m : amap V) (f : Z * V -> bool) : NoDup (keys m) -> NoDup (map fst (filter f m)).
Proof.
  unfold keys. induction m as [|[k v] r IH]; cbn; [auto|].
  intros Hnd. inversion Hnd as [|? ? Hni Hnd']; subst.
  destruct (f (k, v)); cbn; [|apply IH; exact Hnd'].
  constructor; [|apply IH; exact Hnd'].
  intros Hin. apply Hni. apply in_map_iff in Hin. destruct Hin as [[k' v'] [Hk Hin]]. cbn in Hk. subst k'.
  apply filter_In in Hin. destruct Hin as [Hin _]. change k with (fst (k, v')). apply in_map. exact Hin.
Qed.

Lemma in_filter_keys_weak {V} (m : amap V) (f : Z * V -> bool) x :
  In x (map fst (filter f m)) -> In x (keys m).
Proof.
  intros Hin. apply in_map_iff in Hin. destruct Hin as [[k v] [Hk Hin]]. cbn in Hk. subst k.
  apply filter_In in Hin. destruct Hin as [Hin _]. exact (in_keys _ _ _ Hin).
Qed.

(* ------------------------------------------------------------------------------------------ *)
(* 3. Shapes of the handlers; well-formedness is an invariant                                  *)
(* ------------------------------------------------------------------------------------------ *)

Definition grp_or_empty (cl : cluster) (g : Z) : cgroup :=
  match get (cl_consumer cl) g with Some x => x | None => empty_group end.

Lemma get_broker_offset_none cl t p : get (cl_broker cl) t = None -> get_broker_offset cl t p = (0, 0).
Proof. intros H. unfold get_broker_offset. rewrite H. reflexivity. Qed.

Lemma get_broker_offset_cnt cl t p b cnt :
  get_broker_offset cl t p = (b, cnt) -> cnt <> 0 -> get (cl_broker cl) t <> None.
Proof.
  intros H Hc Hn. rewrite (get_broker_offset_none _ _ _ Hn) in H. injection H as _ <-. apply Hc. reflexivity.
Qed.

Lemma add_broker_offset_shape cf st c t p cnt off :
  add_broker_offset cf st c t p cnt off = Done st RNone \/
  add_broker_offset cf st c t p cnt off = Crashed \/
  exists cl tl, get st c = Some cl /\
    add_broker_offset cf st c t p cnt off = Done (set st c (mkCluster (set (cl_broker cl) t tl) (cl_consumer cl))) RNone.
Proof.
  unfold add_broker_offset. destruct (get st c) as [cl|] eqn:Hc; [|left; reflexivity].
  cbv zeta.
  match goal with |- context [if ?b then Crashed else _] => destruct b end; [right; left; reflexivity|].
  right. right. eexists cl, _. split; [reflexivity|reflexivity].
Qed.

Lemma add_consumer_offset_shape cf now st c g t p off order ts :
  add_consumer_offset cf now st c g t p off order ts = Done st RNone \/
  exists cl parts last, get st c = Some cl /\ cf_accept cf g = true /\ too_old cf now ts = false /\
    get (cl_broker cl) t <> None /\
    add_consumer_offset cf now st c g t p off order ts =
      Done (set st c (mkCluster (cl_broker cl)
                        (set (cl_consumer cl) g (mkCgroup (set (g_topics (grp_or_empty cl g)) t parts) last)))) RNone.
Proof.
  unfold add_consumer_offset, grp_or_empty.
  destruct (get st c) as [cl|] eqn:Hc; [|left; reflexivity].
  destruct (too_old cf now ts) eqn:Hold; [left; reflexivity|].
  destruct (cf_accept cf g) eqn:Ha; cbn [negb]; [|left; reflexivity].
  destruct (get_broker_offset cl t p) as [boff cnt] eqn:Hb.
  destruct (cnt =? 0) eqn:Hz; [left; reflexivity|].
  right. cbv zeta.
  match goal with |- context [ring_step ?a ?b ?x ?d] => destruct (ring_step a b x d) as [w' app] end.
  eexists cl, _, _. split; [reflexivity|]. split; [reflexivity|]. split; [reflexivity|].
  split; [|reflexivity].
  apply (get_broker_offset_cnt _ _ _ _ _ Hb). apply Z.eqb_neq. exact Hz.
Qed.

Lemma add_consumer_owner_shape cf st c g t p owner client :
  add_consumer_owner cf st c g t p owner client = Done st RNone \/
  exists cl, get st c = Some cl /\ cf_accept cf g = true /\
    (add_consumer_owner cf st c g t p owner client =
       Done (set st c (mkCluster (cl_broker cl) (set (cl_consumer cl) g (grp_or_empty cl g)))) RNone \/
     exists parts, get (cl_broker cl) t <> None /\
       add_consumer_owner cf st c g t p owner client =
         Done (set st c (mkCluster (cl_broker cl)
                 (set (cl_consumer cl) g (mkCgroup (set (g_topics (grp_or_empty cl g)) t parts)
                                                   (g_last (grp_or_empty cl g)))))) RNone).
Proof.
  unfold add_consumer_owner, grp_or_empty.
  destruct (get st c) as [cl|] eqn:Hc; [|left; reflexivity].
  destruct (cf_accept cf g) eqn:Ha; cbn [negb]; [|left; reflexivity].
  right. exists cl. split; [reflexivity|]. split; [reflexivity|].
  cbv zeta.
  destruct (get_broker_offset cl t p) as [boff cnt] eqn:Hb.
  destruct (cnt =? 0) eqn:Hz; [left; reflexivity|].
  right. eexists. split; [|reflexivity].
  apply (get_broker_offset_cnt _ _ _ _ _ Hb). apply Z.eqb_neq. exact Hz.
Qed.

Lemma clear_consumer_owners_shape cf st c g :
  clear_consumer_owners cf st c g = Done st RNone \/
  exists cl grp, get st c = Some cl /\ cf_accept cf g = true /\ get (cl_consumer cl) g = Some grp /\
    clear_consumer_owners cf st c g =
      Done (set st c (mkCluster (cl_broker cl) (set (cl_consumer cl) g (clear_owners_group grp)))) RNone.
Proof.
  unfold clear_consumer_owners.
  destruct (get st c) as [cl|] eqn:Hc; [|left; reflexivity].
  destruct (cf_accept cf g) eqn:Ha; cbn [negb]; [|left; reflexivity].
  destruct (get (cl_consumer cl) g) as [grp|] eqn:Hg; [|left; reflexivity].
  right. exists cl, grp. split; [reflexivity|]. split; [reflexivity|]. split; [exact Hg|reflexivity].
Qed.

(* the deletion handlers as one expression *)
Definition dg_cons (cons : amap cgroup) (g t : Z) : amap cgroup :=
  match get cons g with
  | None => cons
  | Some grp =>
      if t =? 0 then remove cons g
      else match remove (g_topics grp) t with
           | [] => remove cons g
           | tops => set cons g (mkCgroup tops (g_last grp))
           end
  end.

Definition dt_group (t : Z) (grp : cgroup) : cgroup := mkCgroup (remove (g_topics grp) t) (g_last grp).
Definition dt_cluster (cl : cluster) (t : Z) : cluster :=
  mkCluster (remove (cl_broker cl) t) (map_vals (dt_group t) (cl_consumer cl)).

Lemma delete_group_eq st c g t :
  delete_group st c g t =
  Done (match get st c with
        | None => st
        | Some cl => match get (cl_consumer cl) g with
                     | None => st
                     | Some _ => set st c (mkCluster (cl_broker cl) (dg_cons (cl_consumer cl) g t))
                     end
        end) RNone.
Proof.
  unfold delete_group, dg_cons. destruct (get st c) as [cl|]; [|reflexivity].
  destruct (get (cl_consumer cl) g) as [grp|]; [|reflexivity].
  destruct (t =? 0); [reflexivity|]. destruct (remove (g_topics grp) t); reflexivity.
Qed.

Lemma delete_topic_eq st c t :
  delete_topic st c t =
  Done (match get st c with None => st | Some cl => set st c (dt_cluster cl t) end) RNone.
Proof. unfold delete_topic, dt_cluster, dt_group. destruct (get st c); reflexivity. Qed.

(* well-formedness *)
Lemma wf_state_set s c cl' : wf_state s -> wf_cluster cl' -> wf_state (set s c cl').
Proof.
  intros [Hnd Hall] Hcl. split; [apply nodup_set; exact Hnd|].
  intros c0 cl0. rewrite get_set. destruct (c =? c0); [|apply Hall].
  intros H. injection H as <-. exact Hcl.
Qed.

Lemma wf_cluster_set_group cl g grp' b :
  wf_cluster cl -> NoDup (keys b) -> NoDup (keys (g_topics grp')) ->
  wf_cluster (mkCluster b (set (cl_consumer cl) g grp')).
Proof.
  intros [_ [Hc Hg]] Hb Hg'. split; [exact Hb|]. split; [apply nodup_set; exact Hc|].
  cbn [cl_consumer]. intros g0 grp0. rewrite get_set. destruct (g =? g0); [|apply Hg].
  intros H. injection H as <-. exact Hg'.
Qed.

Lemma wf_cluster_remove_group cl g b :
  wf_cluster cl -> NoDup (keys b) -> wf_cluster (mkCluster b (remove (cl_consumer cl) g)).
Proof.
  intros [_ [Hc Hg]] Hb. split; [exact Hb|]. split; [apply nodup_remove; exact Hc|].
  cbn [cl_consumer]. intros g0 grp0. rewrite get_remove. destruct (g =? g0); [discriminate|apply Hg].
Qed.

Lemma wf_grp_or_empty cl g : wf_cluster cl -> NoDup (keys (g_topics (grp_or_empty cl g))).
Proof.
  intros [_ [_ Hg]]. unfold grp_or_empty. destruct (get (cl_consumer cl) g) as [grp|] eqn:E.
  - exact (Hg _ _ E).
  - constructor.
Qed.

Lemma wf_dg_cons cl g t : wf_cluster cl -> wf_cluster (mkCluster (cl_broker cl) (dg_cons (cl_consumer cl) g t)).
Proof.
  intros Hwf. pose proof Hwf as [Hb [Hc Hg]]. unfold dg_cons.
  destruct (get (cl_consumer cl) g) as [grp|] eqn:E.
  - destruct (t =? 0); [apply wf_cluster_remove_group; assumption|].
    destruct (remove (g_topics grp) t) as [|kv r] eqn:Er; [apply wf_cluster_remove_group; assumption|].
    apply wf_cluster_set_group; [assumption|assumption|]. cbn [g_topics]. rewrite <- Er.
    apply nodup_remove. exact (Hg _ _ E).
  - split; [exact Hb|]. split; [exact Hc|exact Hg].
Qed.

Lemma wf_dt_cluster cl t : wf_cluster cl -> wf_cluster (dt_cluster cl t).
Proof.
  intros [Hb [Hc Hg]]. unfold dt_cluster. split; [apply nodup_remove; exact Hb|].
  split; [apply nodup_map_vals; exact Hc|]. cbn [cl_consumer].
  intros g grp. rewrite get_map_vals. destruct (get (cl_consumer cl) g) as [grp0|] eqn:E; [|discriminate].
  cbn [option_map]. intros H. injection H as <-. cbn [dt_group g_topics]. apply nodup_remove. exact (Hg _ _ E).
Qed.

Lemma fetch_consumer_state cf now st c g st' rep :
  fetch_consumer cf now st c g = Done st' rep ->
  st' = st \/
  exists cl grp, get st c = Some cl /\ get (cl_consumer cl) g = Some grp /\ expired cf now (g_last grp) = true /\
    rep = RNil /\ st' = set st c (mkCluster (cl_broker cl) (remove (cl_consumer cl) g)).
Proof.
  unfold fetch_consumer. destruct (get st c) as [cl|] eqn:Hc; [|intros H; injection H as <- _; left; reflexivity].
  destruct (get (cl_consumer cl) g) as [grp|] eqn:Hg; [|intros H; injection H as <- _; left; reflexivity].
  destruct (expired cf now (g_last grp)) eqn:He.
  - intros H. injection H as <- <-. right. exists cl, grp.
    split; [reflexivity|]. split; [exact Hg|]. split; [exact He|]. split; reflexivity.
  - cbv zeta. match goal with |- context [fetch_topics_lags ?a ?b] => destruct (fetch_topics_lags a b) end;
      [|discriminate]. intros H. injection H as <- _. left. reflexivity.
Qed.

Theorem step_wf cf now s r s' rep : wf_state s -> step cf now s r = Done s' rep -> wf_state s'.
Proof.
  intros Hwf. pose proof Hwf as [Hnd Hall]. destruct r; cbn [step].
  - (* SetBrokerOffset *)
    destruct (add_broker_offset_shape cf s c t p cnt off) as [E|[E|[cl [tl [Hc E]]]]]; rewrite E; intros H;
      [injection H as <- _; exact Hwf|discriminate|injection H as <- _].
    apply wf_state_set; [exact Hwf|]. destruct (Hall _ _ Hc) as [Hb [Hcn Hg]].
    split; [apply nodup_set; exact Hb|]. split; [exact Hcn|exact Hg].
  - (* SetConsumerOffset *)
    destruct (add_consumer_offset_shape cf now s c g t p off order ts) as [E|[cl [parts [lst [Hc [_ [_ [_ E]]]]]]]];
      rewrite E; intros H; injection H as <- _; [exact Hwf|].
    apply wf_state_set; [exact Hwf|]. pose proof (Hall _ _ Hc) as Hcl.
    apply wf_cluster_set_group; [exact Hcl|apply Hcl|]. cbn [g_topics]. apply nodup_set.
    apply wf_grp_or_empty. exact Hcl.
  - (* SetConsumerOwner *)
    destruct (add_consumer_owner_shape cf s c g t p owner client) as [E|[cl [Hc [_ [E|[parts [_ E]]]]]]];
      rewrite E; intros H; injection H as <- _; [exact Hwf| |].
    + apply wf_state_set; [exact Hwf|]. pose proof (Hall _ _ Hc) as Hcl.
      apply wf_cluster_set_group; [exact Hcl|apply Hcl|]. apply wf_grp_or_empty. exact Hcl.
    + apply wf_state_set; [exact Hwf|]. pose proof (Hall _ _ Hc) as Hcl.
      apply wf_cluster_set_group; [exact Hcl|apply Hcl|]. cbn [g_topics]. apply nodup_set.
      apply wf_grp_or_empty. exact Hcl.
  - (* ClearConsumerOwners *)
    destruct (clear_consumer_owners_shape cf s c g) as [E|[cl [grp [Hc [_ [Hg E]]]]]];
      rewrite E; intros H; injection H as <- _; [exact Hwf|].
    apply wf_state_set; [exact Hwf|]. pose proof (Hall _ _ Hc) as Hcl.
    apply wf_cluster_set_group; [exact Hcl|apply Hcl|]. unfold clear_owners_group. cbn [g_topics].
    apply nodup_map_vals. destruct Hcl as [_ [_ Hgs]]. exact (Hgs _ _ Hg).
  - (* DeleteTopic *)
    rewrite delete_topic_eq. intros H. injection H as <- _.
    destruct (get s c) as [cl|] eqn:Hc; [|exact Hwf].
    apply wf_state_set; [exact Hwf|]. apply wf_dt_cluster. exact (Hall _ _ Hc).
  - (* DeleteGroup *)
    rewrite delete_group_eq. intros H. injection H as <- _.
    destruct (get s c) as [cl|] eqn:Hc; [|exact Hwf].
    destruct (get (cl_consumer cl) g); [|exact Hwf].
    apply wf_state_set; [exact Hwf|]. apply wf_dg_cons. exact (Hall _ _ Hc).
  - intros H. injection H as <- _. exact Hwf.
  - destruct (get s c); intros H; injection H as <- _; exact Hwf.
  - destruct (get s c); intros H; injection H as <- _; exact Hwf.
  - (* FetchConsumer *)
    intros H. apply fetch_consumer_state in H. destruct H as [->|[cl [grp [Hc [Hg [_ [_ ->]]]]]]]; [exact Hwf|].
    apply wf_state_set; [exact Hwf|]. apply wf_cluster_remove_group; [exact (Hall _ _ Hc)|apply (Hall _ _ Hc)].
  - unfold fetch_topic. destruct (get s c) as [cl|]; [destruct (get (cl_broker cl) t)|]; intros H; injection H as <- _; exact Hwf.
  - unfold fetch_consumers_for_topic. destruct (get s c); intros H; injection H as <- _; exact Hwf.
Qed.

Lemma wf_init_state cls : NoDup cls -> wf_state (init_state cls).
Proof.
  intros Hnd. unfold init_state. split.
  - unfold keys. rewrite map_map. cbn [fst]. rewrite map_id. exact Hnd.
  - intros c cl Hg. apply get_some_in in Hg. apply in_map_iff in Hg. destruct Hg as [x [Hx _]].
    injection Hx as _ <-. split; [constructor|]. split; [constructor|]. cbn. discriminate.
Qed.

Theorem run_wf cf h : forall s s' reps, wf_state s -> run cf s h = Some (s', reps) -> wf_state s'.
Proof.
  induction h as [|[now r] rest IH]; intros s s' reps Hwf; cbn [run].
  - intros H. injection H as <- _. exact Hwf.
  - destruct (step cf now s r) as [s1 rep|] eqn:Es; [|discriminate].
    destruct (run cf s1 rest) as [[s2 reps2]|] eqn:Er; [|discriminate].
    intros H. injection H as <- _. exact (IH _ _ _ (step_wf _ _ _ _ _ _ Hwf Es) Er).
Qed.

Theorem reachable_wf cf cls h s reps : NoDup cls -> run cf (init_state cls) h = Some (s, reps) -> wf_state s.
Proof. intros Hnd. apply run_wf. apply wf_init_state. exact Hnd. Qed.

(* ------------------------------------------------------------------------------------------ *)
(* 4. The deletion handlers at the level of [get]                                              *)
(* ------------------------------------------------------------------------------------------ *)

Definition is_nil {A} (l : list A) : bool := match l with [] => true | _ => false end.

Lemma cluster_eta cl : mkCluster (cl_broker cl) (cl_consumer cl) = cl.
Proof. destruct cl; reflexivity. Qed.

(* deletions always succeed and have no reply *)
Theorem deletion_total cf now s :
  (forall c g t, step cf now s (DeleteGroup c g t) = Done (after cf now s (DeleteGroup c g t)) RNone) /\
  (forall c t, step cf now s (DeleteTopic c t) = Done (after cf now s (DeleteTopic c t)) RNone).
Proof.
  split; intros; unfold after; cbn [step]; [rewrite delete_group_eq|rewrite delete_topic_eq]; reflexivity.
Qed.

Lemma get_after_delete_group cf now s c g t c' :
  get (after cf now s (DeleteGroup c g t)) c' =
  if c =? c' then option_map (fun cl => mkCluster (cl_broker cl) (dg_cons (cl_consumer cl) g t)) (get s c')
  else get s c'.
Proof.
  unfold after. cbn [step]. rewrite delete_group_eq.
  destruct (c =? c') eqn:E.
  - apply Z.eqb_eq in E. subst c'. destruct (get s c) as [cl|] eqn:Hc; [|rewrite Hc; reflexivity].
    destruct (get (cl_consumer cl) g) as [grp|] eqn:Hg.
    + rewrite get_set_eq. reflexivity.
    + rewrite Hc. cbn [option_map]. unfold dg_cons. rewrite Hg. rewrite cluster_eta. reflexivity.
  - apply Z.eqb_neq in E. destruct (get s c) as [cl|]; [|reflexivity].
    destruct (get (cl_consumer cl) g); [|reflexivity]. apply get_set_neq. exact E.
Qed.

Lemma get_after_delete_topic cf now s c t c' :
  get (after cf now s (DeleteTopic c t)) c' =
  if c =? c' then option_map (fun cl => dt_cluster cl t) (get s c') else get s c'.
Proof.
  unfold after. cbn [step]. rewrite delete_topic_eq.
  destruct (c =? c') eqn:E.
  - apply Z.eqb_eq in E. subst c'. destruct (get s c) as [cl|] eqn:Hc; [|rewrite Hc; reflexivity].
    rewrite get_set_eq. reflexivity.
  - apply Z.eqb_neq in E. destruct (get s c) as [cl|]; [|reflexivity]. apply get_set_neq. exact E.
Qed.

Lemma keys_set_present {V} (m : amap V) k v x : get m k <> None -> (In x (keys (set m k v)) <-> In x (keys m)).
Proof.
  intros Hk. apply get_in_keys in Hk. rewrite keys_set. split.
  - intros [->|[H _]]; assumption.
  - intros H. destruct (Z.eq_dec x k); [left; assumption|right; split; assumption].
Qed.

Lemma keys_after_delete_group cf now s c g t x :
  In x (keys (after cf now s (DeleteGroup c g t))) <-> In x (keys s).
Proof.
  unfold after. cbn [step]. rewrite delete_group_eq.
  destruct (get s c) as [cl|] eqn:Hc; [|tauto]. destruct (get (cl_consumer cl) g); [|tauto].
  apply keys_set_present. rewrite Hc. discriminate.
Qed.

Lemma keys_after_delete_topic cf now s c t x :
  In x (keys (after cf now s (DeleteTopic c t))) <-> In x (keys s).
Proof.
  unfold after. cbn [step]. rewrite delete_topic_eq.
  destruct (get s c) as [cl|] eqn:Hc; [|tauto]. apply keys_set_present. rewrite Hc. discriminate.
Qed.

Lemma get_dg_cons_other cons g t g' : g' <> g -> get (dg_cons cons g t) g' = get cons g'.
Proof.
  intros Hne. unfold dg_cons. destruct (get cons g) as [grp|]; [|reflexivity].
  destruct (t =? 0); [apply get_remove_neq; auto|].
  destruct (remove (g_topics grp) t); [apply get_remove_neq; auto|apply get_set_neq; auto].
Qed.

Lemma get_dg_cons_whole cons g : get (dg_cons cons g 0) g = None.
Proof. unfold dg_cons. destruct (get cons g) as [grp|] eqn:E; [|exact E]. cbn. apply get_remove_eq. Qed.

Lemma get_dg_cons_topic cons g t : t <> 0 ->
  get (dg_cons cons g t) g =
  match get cons g with
  | None => None
  | Some grp => if is_nil (remove (g_topics grp) t) then None
                else Some (mkCgroup (remove (g_topics grp) t) (g_last grp))
  end.
Proof.
  intros Ht. unfold dg_cons. destruct (get cons g) as [grp|] eqn:E; [|exact E].
  apply Z.eqb_neq in Ht. rewrite Ht.
  destruct (remove (g_topics grp) t); cbn [is_nil]; [apply get_remove_eq|apply get_set_eq].
Qed.

Lemma is_nil_false_other {V} (m : amap V) k : is_nil (remove m k) = false <-> exists k', k' <> k /\ get m k' <> None.
Proof.
  split.
  - intros H. apply remove_not_nil_other. intros E. rewrite E in H. discriminate.
  - intros [k' [Hne Hg]]. destruct (remove m k) eqn:E; [|reflexivity].
    exfalso. apply Hg. exact (remove_nil_get _ _ _ E Hne).
Qed.

Lemma is_nil_remove {V} (m : amap V) k : is_nil (remove m k) = forallb (fun x => x =? k) (keys m).
Proof.
  unfold remove, keys. induction m as [|[k' v] r IH]; cbn; [reflexivity|].
  destruct (k' =? k); cbn; [exact IH|reflexivity].
Qed.

(* ------------------------------------------------------------------------------------------ *)
(* 5. Fetch replies through [get]                                                              *)
(* ------------------------------------------------------------------------------------------ *)

Definition snap_of (grp : cgroup) : list (Z * list cpart) :=
  map (fun tp => (fst tp, map snapshot_partition (snd tp))) (g_topics grp).
Definition has_topic (t : Z) (gv : Z * cgroup) : bool :=
  match get (g_topics (snd gv)) t with Some _ => true | None => false end.
Definition topic_offsets (tl : list bring) : list Z :=
  flat_map (fun r => match last r None with Some o => [o] | None => [] end) tl.

(* the reply of a per-cluster fetch request as a function of that cluster's entry alone *)
Definition cluster_reply (cf : config) (now : Z) (ocl : option cluster) (r : req) : option reply :=
  match ocl with
  | None => Some RNil
  | Some cl =>
      match r with
      | FetchConsumers _ => Some (RStrings (keys (cl_consumer cl)))
      | FetchTopics _ => Some (RStrings (keys (cl_broker cl)))
      | FetchConsumer _ g =>
          match get (cl_consumer cl) g with
          | None => Some RNil
          | Some grp => if expired cf now (g_last grp) then Some RNil
                        else option_map RConsumer (fetch_topics_lags (cl_broker cl) (snap_of grp))
          end
      | FetchTopic _ t =>
          match get (cl_broker cl) t with None => Some RNil | Some tl => Some (RInts (topic_offsets tl)) end
      | FetchConsumersForTopic _ t => Some (RStrings (map fst (filter (has_topic t) (cl_consumer cl))))
      | _ => None
      end
  end.

Lemma obs_cluster cf now s r c :
  req_cluster r = Some c -> is_fetch r = true -> obs cf now s r = cluster_reply cf now (get s c) r.
Proof.
  destruct r; cbn [req_cluster is_fetch]; intros H1 H2; try discriminate H2; try discriminate H1;
    injection H1 as <-; unfold obs; cbn [step].
  - destruct (get s c0); reflexivity.
  - destruct (get s c0); reflexivity.
  - unfold fetch_consumer, cluster_reply, snap_of. destruct (get s c0) as [cl|]; [|reflexivity].
    destruct (get (cl_consumer cl) g) as [grp|]; [|reflexivity].
    destruct (expired cf now (g_last grp)); [reflexivity|]. cbv zeta.
    match goal with |- context [fetch_topics_lags ?a ?b] => destruct (fetch_topics_lags a b) end; reflexivity.
  - unfold fetch_topic, cluster_reply, topic_offsets. destruct (get s c0) as [cl|]; [|reflexivity].
    destruct (get (cl_broker cl) t); reflexivity.
  - unfold fetch_consumers_for_topic, cluster_reply, has_topic. destruct (get s c0); reflexivity.
Qed.

Lemma obs_clusters cf now s : obs cf now s FetchClusters = Some (RStrings (keys s)).
Proof. reflexivity. Qed.

(* a per-cluster fetch only looks at its own cluster *)
Lemma obs_ext cf now s1 s2 r c :
  req_cluster r = Some c -> is_fetch r = true -> get s1 c = get s2 c -> obs cf now s1 r = obs cf now s2 r.
Proof. intros Hc Hf Hg. rewrite (obs_cluster _ _ s1 r c Hc Hf), (obs_cluster _ _ s2 r c Hc Hf), Hg. reflexivity. Qed.

Definition consumes (cons : amap cgroup) (x t : Z) : Prop :=
  exists v, get cons x = Some v /\ get (g_topics v) t <> None.

Lemma in_for_topic cons t x :
  NoDup (keys cons) -> (In x (map fst (filter (has_topic t) cons)) <-> consumes cons x t).
Proof.
  intros Hnd. unfold consumes.
  change (filter (has_topic t) cons)
    with (filter (fun kv => (fun v => match get (g_topics v) t with Some _ => true | None => false end) (snd kv)) cons).
  rewrite in_filter_keys by exact Hnd. split; intros [v [Hg Hf]]; exists v; (split; [exact Hg|]).
  - destruct (get (g_topics v) t); [discriminate|discriminate Hf].
  - destruct (get (g_topics v) t); [reflexivity|contradiction].
Qed.

(* fetch_topics_lags is compositional in the topic list: removing a consumer topic removes its entry *)
Lemma fetch_topics_lags_keys b snap l : fetch_topics_lags b snap = Some l -> map fst l = map fst snap.
Proof.
  revert l. induction snap as [|[t cps] rest IH]; cbn [fetch_topics_lags]; intros l H.
  - injection H as <-. reflexivity.
  - destruct (match get b t with None => Some cps | Some tl => add_lags tl 0 cps end) as [cps'|]; [|discriminate].
    destruct (fetch_topics_lags b rest) as [rest'|]; [|discriminate].
    injection H as <-. cbn. f_equal. apply IH. reflexivity.
Qed.

Lemma fetch_topics_lags_remove b snap l t :
  fetch_topics_lags b snap = Some l -> fetch_topics_lags b (remove snap t) = Some (remove l t).
Proof.
  revert l. induction snap as [|[t0 cps] rest IH]; cbn [fetch_topics_lags]; intros l H.
  - injection H as <-. reflexivity.
  - destruct (match get b t0 with None => Some cps | Some tl => add_lags tl 0 cps end) as [cps'|] eqn:Eh; [|discriminate].
    destruct (fetch_topics_lags b rest) as [rest'|]; [|discriminate].
    injection H as <-. unfold remove at 1 2. cbn [filter fst].
    destruct (t0 =? t); cbn [negb].
    + apply IH. reflexivity.
    + cbn [fetch_topics_lags]. rewrite Eh. fold (remove rest t). rewrite (IH rest' eq_refl). reflexivity.
Qed.

(* ... and the broker side may forget a topic that the consumer side does not mention *)
Lemma fetch_topics_lags_broker_ext b b' snap :
  (forall t, In t (map fst snap) -> get b' t = get b t) -> fetch_topics_lags b' snap = fetch_topics_lags b snap.
Proof.
  induction snap as [|[t cps] rest IH]; cbn [fetch_topics_lags]; intros H; [reflexivity|].
  rewrite (H t) by (left; reflexivity). rewrite IH; [reflexivity|]. intros t' Hin. apply H. right. exact Hin.
Qed.

Lemma snap_of_remove tops last t : snap_of (mkCgroup (remove tops t) last) = remove (snap_of (mkCgroup tops last)) t.
Proof.
  unfold snap_of, remove. cbn [g_topics]. induction tops as [|[t0 ps] r IH]; cbn; [reflexivity|].
  destruct (t0 =? t); cbn; [exact IH|]. f_equal. exact IH.
Qed.

Lemma keys_snap_of grp : map fst (snap_of grp) = keys (g_topics grp).
Proof. unfold snap_of, keys. rewrite map_map. reflexivity. Qed.
