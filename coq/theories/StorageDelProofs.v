(* C09 (deletion and expiry remove exactly what they name) and the storage half of C10
   (allow/deny lists on every ingestion path), proved over the executable model Burrow.Storage.

   Layout
     1. vocabulary used by the statements ([after], [obs], [names], [wf_state], [mentions_*], [creates_*])
     2. association-list lemmas not in AMapProofs
     3. well-formedness is an invariant of [step] (hence holds in every reachable state)
     4. the deletion handlers at the level of [get]
     5. fetch replies through [get]
     6. C09 one-step theorems: removal and frame for DeleteGroup (whole), DeleteGroup (one topic), DeleteTopic
     7. C09 expiry: lazy purge, not-expired converse, too-old commits, the int64 guards
     8. C09 lifted to histories
     9. C10 storage half
    10. concrete states used by the non-vacuity Examples of props/C09.v and props/C10.v

   All statements about maps go through [get]; listings (Go map iteration order) are compared as sets, and
   [NoDup] of every listing is proved separately so that set equality is multiset equality. *)
From Coq Require Import ZArith List Bool Lia ZifyBool.
From Burrow Require Import Int64 Int64Proofs Eval AMap AMapProofs Ring Storage.
Import ListNotations.
Open Scope Z_scope.

(* ------------------------------------------------------------------------------------------ *)
(* 1. Vocabulary                                                                               *)
(* ------------------------------------------------------------------------------------------ *)

(* the state after a request (a crashed request leaves no state; deletions never crash, see [deletion_total]) *)
Definition after (cf : config) (now : Z) (s : state) (r : req) : state :=
  match step cf now s r with Done s' _ => s' | Crashed => s end.

(* what a request answers *)
Definition obs (cf : config) (now : Z) (s : state) (r : req) : option reply :=
  match step cf now s r with Done _ rep => Some rep | Crashed => None end.

(* the names a reply lists: group names (FetchConsumers, FetchConsumersForTopic), topic names (FetchTopics, and the
   topics of a FetchConsumer detail), cluster names (FetchClusters) *)
Definition names (o : option reply) : list Z :=
  match o with
  | Some (RStrings l) => l
  | Some (RConsumer l) => map fst l
  | _ => []
  end.

Definition is_fetch (r : req) : bool :=
  match r with
  | FetchClusters | FetchConsumers _ | FetchTopics _ | FetchConsumer _ _ | FetchTopic _ _ | FetchConsumersForTopic _ _ => true
  | _ => false
  end.

Definition req_cluster (r : req) : option Z :=
  match r with
  | SetBrokerOffset c _ _ _ _ | SetConsumerOffset c _ _ _ _ _ _ | SetConsumerOwner c _ _ _ _ _ | ClearConsumerOwners c _
  | DeleteTopic c _ | DeleteGroup c _ _ | FetchConsumers c | FetchTopics c | FetchConsumer c _ | FetchTopic c _
  | FetchConsumersForTopic c _ => Some c
  | FetchClusters => None
  end.

(* the group an ingestion request is about (the three handlers that consult the allow/deny lists) *)
Definition ingest_group (r : req) : option Z :=
  match r with
  | SetConsumerOffset _ g _ _ _ _ _ | SetConsumerOwner _ g _ _ _ _ | ClearConsumerOwners _ g => Some g
  | _ => None
  end.

(* no duplicate keys, at every level that can be reached through [get] *)
Definition wf_cluster (cl : cluster) : Prop :=
  NoDup (keys (cl_broker cl)) /\ NoDup (keys (cl_consumer cl)) /\
  forall g grp, get (cl_consumer cl) g = Some grp -> NoDup (keys (g_topics grp)).
Definition wf_state (s : state) : Prop :=
  NoDup (keys s) /\ forall c cl, get s c = Some cl -> wf_cluster cl.

(* a reply "mentions" group g of cluster c / topic t of group g of cluster c / topic t of cluster c *)
Definition mentions_group (c g : Z) (r : req) (rep : reply) : Prop :=
  match r, rep with
  | FetchConsumers c', RStrings l => c' = c /\ In g l
  | FetchConsumersForTopic c' _, RStrings l => c' = c /\ In g l
  | FetchConsumer c' g', RConsumer _ => c' = c /\ g' = g
  | _, _ => False
  end.

Definition mentions_group_topic (c g t : Z) (r : req) (rep : reply) : Prop :=
  match r, rep with
  | FetchConsumer c' g', RConsumer l => c' = c /\ g' = g /\ In t (map fst l)
  | FetchConsumersForTopic c' t', RStrings l => c' = c /\ t' = t /\ In g l
  | _, _ => False
  end.

Definition mentions_topic (c t : Z) (r : req) (rep : reply) : Prop :=
  match r, rep with
  | FetchTopics c', RStrings l => c' = c /\ In t l
  | FetchTopic c' t', RInts _ => c' = c /\ t' = t
  | FetchConsumersForTopic c' t', RStrings l => c' = c /\ t' = t /\ l <> []
  | FetchConsumer c' _, RConsumer l => c' = c /\ In t (map fst l)
  | _, _ => False
  end.

(* the only requests that can (re-)create the item *)
Definition creates_group (c g : Z) (r : req) : Prop :=
  match r with
  | SetConsumerOffset c' g' _ _ _ _ _ | SetConsumerOwner c' g' _ _ _ _ => c' = c /\ g' = g
  | _ => False
  end.
Definition creates_group_topic (c g t : Z) (r : req) : Prop :=
  match r with
  | SetConsumerOffset c' g' t' _ _ _ _ | SetConsumerOwner c' g' t' _ _ _ => c' = c /\ g' = g /\ t' = t
  | _ => False
  end.
Definition creates_topic (c t : Z) (r : req) : Prop :=
  match r with
  | SetBrokerOffset c' t' _ _ _ => c' = c /\ t' = t
  | _ => False
  end.

(* state-level absence *)
Definition absent_group (s : state) (c g : Z) : Prop :=
  forall cl, get s c = Some cl -> get (cl_consumer cl) g = None.
Definition absent_group_topic (s : state) (c g t : Z) : Prop :=
  forall cl grp, get s c = Some cl -> get (cl_consumer cl) g = Some grp -> get (g_topics grp) t = None.
Definition absent_topic (s : state) (c t : Z) : Prop :=
  forall cl, get s c = Some cl ->
    get (cl_broker cl) t = None /\ forall g grp, In (g, grp) (cl_consumer cl) -> get (g_topics grp) t = None.

(* group g of cluster c consumes some topic other than t *)
Definition has_other_topic (s : state) (c g t : Z) : Prop :=
  exists cl grp t', get s c = Some cl /\ get (cl_consumer cl) g = Some grp /\ t' <> t /\ get (g_topics grp) t' <> None.

(* ------------------------------------------------------------------------------------------ *)
(* 2. Association lists                                                                        *)
(* ------------------------------------------------------------------------------------------ *)

Lemma get_some_in {V} (m : amap V) k v : get m k = Some v -> In (k, v) m.
Proof.
  induction m as [|[k' v'] r IH]; cbn; [discriminate|].
  destruct (k' =? k) eqn:E.
  - apply Z.eqb_eq in E. intros H. injection H as ->. subst. left. reflexivity.
  - intros H. right. exact (IH H).
Qed.

Lemma in_keys {V} (m : amap V) k v : In (k, v) m -> In k (keys m).
Proof. intros H. unfold keys. change k with (fst (k, v)). apply in_map. exact H. Qed.

Lemma in_get_nodup {V} (m : amap V) k v : NoDup (keys m) -> In (k, v) m -> get m k = Some v.
Proof.
  induction m as [|[k' v'] r IH]; cbn; [tauto|].
  intros Hnd [Heq|Hin].
  - injection Heq as -> ->. rewrite Z.eqb_refl. reflexivity.
  - inversion Hnd as [|? ? Hni Hnd']; subst.
    destruct (k' =? k) eqn:E.
    + apply Z.eqb_eq in E. subst. exfalso. apply Hni. exact (in_keys _ _ _ Hin).
    + exact (IH Hnd' Hin).
Qed.

Lemma get_none_not_in {V} (m : amap V) k : get m k = None <-> ~ In k (keys m).
Proof.
  rewrite <- get_in_keys. destruct (get m k) as [v|]; split.
  - discriminate.
  - intros H. exfalso. apply H. discriminate.
  - intros _ H. apply H. reflexivity.
  - reflexivity.
Qed.

Lemma nodup_remove {V} (m : amap V) k : NoDup (keys m) -> NoDup (keys (remove m k)).
Proof.
  unfold keys, remove. induction m as [|[k' v] r IH]; cbn; [auto|].
  intros Hnd. inversion Hnd as [|? ? Hni Hnd']; subst.
  destruct (k' =? k); cbn; [apply IH; exact Hnd'|].
  constructor; [|apply IH; exact Hnd'].
  intros Hin. apply Hni. apply (keys_remove r k k'). exact Hin.
Qed.

Lemma nodup_set {V} (m : amap V) k v : NoDup (keys m) -> NoDup (keys (set m k v)).
Proof.
  intros Hnd. unfold set. change (keys ((k, v) :: remove m k)) with (k :: keys (remove m k)).
  constructor; [|apply nodup_remove; exact Hnd].
  intros Hin. apply keys_remove in Hin. tauto.
Qed.

Lemma nodup_map_vals {V W} (f : V -> W) (m : amap V) : NoDup (keys m) -> NoDup (keys (map_vals f m)).
Proof. rewrite keys_map_vals. auto. Qed.

Lemma keys_set {V} (m : amap V) k v x : In x (keys (set m k v)) <-> x = k \/ (In x (keys m) /\ x <> k).
Proof.
  unfold set. change (keys ((k, v) :: remove m k)) with (k :: keys (remove m k)). cbn [In].
  rewrite keys_remove. intuition congruence.
Qed.

Lemma get_set {V} (m : amap V) k k' v : get (set m k v) k' = if k =? k' then Some v else get m k'.
Proof.
  destruct (k =? k') eqn:E.
  - apply Z.eqb_eq in E. subst. apply get_set_eq.
  - apply Z.eqb_neq in E. apply get_set_neq. exact E.
Qed.

Lemma get_remove {V} (m : amap V) k k' : get (remove m k) k' = if k =? k' then None else get m k'.
Proof.
  destruct (k =? k') eqn:E.
  - apply Z.eqb_eq in E. subst. apply get_remove_eq.
  - apply Z.eqb_neq in E. apply get_remove_neq. exact E.
Qed.

Lemma remove_nil_get {V} (m : amap V) k k' : remove m k = [] -> k' <> k -> get m k' = None.
Proof.
  intros Hnil Hne. rewrite <- (get_remove_neq m k k') by auto. rewrite Hnil. reflexivity.
Qed.

Lemma remove_not_nil_other {V} (m : amap V) k : remove m k <> [] -> exists k', k' <> k /\ get m k' <> None.
Proof.
  intros Hne. destruct (remove m k) as [|[k' v] r] eqn:E; [contradiction|].
  exists k'. assert (Hin : In k' (keys (remove m k))) by (rewrite E; left; reflexivity).
  apply keys_remove in Hin. destruct Hin as [Hin Hk]. split; [exact Hk|]. apply get_in_keys. exact Hin.
Qed.

(* listing the keys whose value satisfies a test, through [get] *)
Lemma in_filter_keys {V} (m : amap V) (f : V -> bool) x :
  NoDup (keys m) ->
  (In x (map fst (filter (fun kv => f (snd kv)) m)) <-> exists v, get m x = Some v /\ f v = true).
Proof.
  intros Hnd. split.
  - intros Hin. apply in_map_iff in Hin. destruct Hin as [[k v] [Hk Hin]]. cbn in Hk. subst k.
    apply filter_In in Hin. destruct Hin as [Hin Hf]. cbn in Hf.
    exists v. split; [apply in_get_nodup; assumption|exact Hf].
  - intros [v [Hg Hf]]. apply in_map_iff. exists (x, v). split; [reflexivity|].
    apply filter_In. split; [apply get_some_in; exact Hg|exact Hf].
Qed.

Lemma nodup_filter_keys {V} (m : amap V) (f : Z * V -> bool) : NoDup (keys m) -> NoDup (map fst (filter f m)).
Proof.
  unfold keys. induction m as [|[k v] r IH]; cbn; [auto|].
  intros Hnd. inversion Hnd as [|? ? Hni Hnd']; subst.
  destruct (f (k, v)); cbn; [|apply IH; exact Hnd'].
  constructor; [|apply IH; exact Hnd'].
  intros Hin. apply Hni. apply in_map_iff in Hin. destruct Hin as [[k' v'] [Hk Hin]]. cbn in Hk. subst k'.
  apply filter_In in Hin. destruct Hin as [Hin _]. change k with (fst (k, v')). apply in_map. exact Hin.
Qed.

Lemma in_filter_keys_weak {V} (m : amap V) (f : Z * V -> bool) x :
  In x (map fst (filter f m)) -> In x (keys m).
Proof.
  intros Hin. apply in_map_iff in Hin. destruct Hin as [[k v] [Hk Hin]]. cbn in Hk. subst k.
  apply filter_In in Hin. destruct Hin as [Hin _]. exact (in_keys _ _ _ Hin).
Qed.

(* ------------------------------------------------------------------------------------------ *)
(* 3. Shapes of the handlers; well-formedness is an invariant                                  *)
(* ------------------------------------------------------------------------------------------ *)

Definition grp_or_empty (cl : cluster) (g : Z) : cgroup :=
  match get (cl_consumer cl) g with Some x => x | None => empty_group end.

Lemma get_broker_offset_none cl t p : get (cl_broker cl) t = None -> get_broker_offset cl t p = (0, 0).
Proof. intros H. unfold get_broker_offset. rewrite H. reflexivity. Qed.

Lemma get_broker_offset_cnt cl t p b cnt :
  get_broker_offset cl t p = (b, cnt) -> cnt <> 0 -> get (cl_broker cl) t <> None.
Proof.
  intros H Hc Hn. rewrite (get_broker_offset_none _ _ _ Hn) in H. injection H as _ <-. apply Hc. reflexivity.
Qed.

Lemma add_broker_offset_shape cf st c t p cnt off :
  add_broker_offset cf st c t p cnt off = Done st RNone \/
  add_broker_offset cf st c t p cnt off = Crashed \/
  exists cl tl, get st c = Some cl /\
    add_broker_offset cf st c t p cnt off = Done (set st c (mkCluster (set (cl_broker cl) t tl) (cl_consumer cl))) RNone.
Proof.
  unfold add_broker_offset. destruct (get st c) as [cl|] eqn:Hc; [|left; reflexivity].
  cbv zeta.
  match goal with |- context [if ?b then Crashed else _] => destruct b end; [right; left; reflexivity|].
  right. right. eexists cl, _. split; [reflexivity|reflexivity].
Qed.

Lemma add_consumer_offset_shape cf now st c g t p off order ts :
  add_consumer_offset cf now st c g t p off order ts = Done st RNone \/
  exists cl parts last, get st c = Some cl /\ cf_accept cf g = true /\ too_old cf now ts = false /\
    get (cl_broker cl) t <> None /\ (last = Z.max ts (g_last (grp_or_empty cl g)) \/ last = g_last (grp_or_empty cl g)) /\
    add_consumer_offset cf now st c g t p off order ts =
      Done (set st c (mkCluster (cl_broker cl)
                        (set (cl_consumer cl) g (mkCgroup (set (g_topics (grp_or_empty cl g)) t parts) last)))) RNone.
Proof.
  unfold add_consumer_offset, grp_or_empty.
  destruct (get st c) as [cl|] eqn:Hc; [|left; reflexivity].
  destruct (too_old cf now ts) eqn:Hold; [left; reflexivity|].
  destruct (cf_accept cf g) eqn:Ha; cbn [negb]; [|left; reflexivity].
  destruct (get_broker_offset cl t p) as [boff cnt] eqn:Hb.
  destruct (cnt =? 0) eqn:Hz; [left; reflexivity|].
  right. cbv zeta.
  match goal with |- context [ring_step ?a ?b ?x ?d] => destruct (ring_step a b x d) as [w' app] end.
  eexists cl, _, _. split; [reflexivity|]. split; [reflexivity|]. split; [reflexivity|].
  split; [apply (get_broker_offset_cnt _ _ _ _ _ Hb); apply Z.eqb_neq; exact Hz|].
  split; [|reflexivity]. match goal with |- context [commit_stored ?a ?b] => destruct (commit_stored a b) end; [left|right]; reflexivity.
Qed.

Lemma add_consumer_owner_shape cf st c g t p owner client :
  add_consumer_owner cf st c g t p owner client = Done st RNone \/
  exists cl, get st c = Some cl /\ cf_accept cf g = true /\
    (add_consumer_owner cf st c g t p owner client =
       Done (set st c (mkCluster (cl_broker cl) (set (cl_consumer cl) g (grp_or_empty cl g)))) RNone \/
     exists parts, get (cl_broker cl) t <> None /\
       add_consumer_owner cf st c g t p owner client =
         Done (set st c (mkCluster (cl_broker cl)
                 (set (cl_consumer cl) g (mkCgroup (set (g_topics (grp_or_empty cl g)) t parts)
                                                   (g_last (grp_or_empty cl g)))))) RNone).
Proof.
  unfold add_consumer_owner, grp_or_empty.
  destruct (get st c) as [cl|] eqn:Hc; [|left; reflexivity].
  destruct (cf_accept cf g) eqn:Ha; cbn [negb]; [|left; reflexivity].
  right. exists cl. split; [reflexivity|]. split; [reflexivity|].
  cbv zeta.
  destruct (get_broker_offset cl t p) as [boff cnt] eqn:Hb.
  destruct (cnt =? 0) eqn:Hz; [left; reflexivity|].
  right. eexists. split; [|reflexivity].
  apply (get_broker_offset_cnt _ _ _ _ _ Hb). apply Z.eqb_neq. exact Hz.
Qed.

Lemma clear_consumer_owners_shape cf st c g :
  clear_consumer_owners cf st c g = Done st RNone \/
  exists cl grp, get st c = Some cl /\ cf_accept cf g = true /\ get (cl_consumer cl) g = Some grp /\
    clear_consumer_owners cf st c g =
      Done (set st c (mkCluster (cl_broker cl) (set (cl_consumer cl) g (clear_owners_group grp)))) RNone.
Proof.
  unfold clear_consumer_owners.
  destruct (get st c) as [cl|] eqn:Hc; [|left; reflexivity].
  destruct (cf_accept cf g) eqn:Ha; cbn [negb]; [|left; reflexivity].
  destruct (get (cl_consumer cl) g) as [grp|] eqn:Hg; [|left; reflexivity].
  right. exists cl, grp. split; [reflexivity|]. split; [reflexivity|]. split; [exact Hg|reflexivity].
Qed.

Definition is_nil {A} (l : list A) : bool := match l with [] => true | _ => false end.

(* deleting topic t from a group with these topics takes the group with it: t is one of its topics, and the only one *)
Definition drops {V} (tops : amap V) (t : Z) : bool :=
  is_nil (remove tops t) && match get tops t with Some _ => true | None => false end.

(* the deletion handlers as one expression *)
Definition dg_cons (cons : amap cgroup) (g t : Z) : amap cgroup :=
  match get cons g with
  | None => cons
  | Some grp =>
      if t =? 0 then remove cons g
      else if drops (g_topics grp) t then remove cons g
           else set cons g (mkCgroup (remove (g_topics grp) t) (g_last grp))
  end.

Definition dt_group (t : Z) (grp : cgroup) : cgroup := mkCgroup (remove (g_topics grp) t) (g_last grp).
Definition dt_cluster (cl : cluster) (t : Z) : cluster :=
  mkCluster (remove (cl_broker cl) t) (map_vals (dt_group t) (cl_consumer cl)).

Lemma delete_group_eq st c g t :
  delete_group st c g t =
  Done (match get st c with
        | None => st
        | Some cl => match get (cl_consumer cl) g with
                     | None => st
                     | Some _ => set st c (mkCluster (cl_broker cl) (dg_cons (cl_consumer cl) g t))
                     end
        end) RNone.
Proof.
  unfold delete_group, dg_cons. destruct (get st c) as [cl|]; [|reflexivity].
  destruct (get (cl_consumer cl) g) as [grp|]; [|reflexivity].
  destruct (t =? 0); [reflexivity|]. unfold drops.
  destruct (remove (g_topics grp) t); cbn [is_nil andb]; [destruct (get (g_topics grp) t)|]; reflexivity.
Qed.

Lemma delete_topic_eq st c t :
  delete_topic st c t =
  Done (match get st c with None => st | Some cl => set st c (dt_cluster cl t) end) RNone.
Proof. unfold delete_topic, dt_cluster, dt_group. destruct (get st c); reflexivity. Qed.

(* well-formedness *)
Lemma wf_state_set s c cl' : wf_state s -> wf_cluster cl' -> wf_state (set s c cl').
Proof.
  intros [Hnd Hall] Hcl. split; [apply nodup_set; exact Hnd|].
  intros c0 cl0. rewrite get_set. destruct (c =? c0); [|apply Hall].
  intros H. injection H as <-. exact Hcl.
Qed.

Lemma wf_cluster_set_group cl g grp' b :
  wf_cluster cl -> NoDup (keys b) -> NoDup (keys (g_topics grp')) ->
  wf_cluster (mkCluster b (set (cl_consumer cl) g grp')).
Proof.
  intros [_ [Hc Hg]] Hb Hg'. split; [exact Hb|]. split; [apply nodup_set; exact Hc|].
  cbn [cl_consumer]. intros g0 grp0. rewrite get_set. destruct (g =? g0); [|apply Hg].
  intros H. injection H as <-. exact Hg'.
Qed.

Lemma wf_cluster_remove_group cl g b :
  wf_cluster cl -> NoDup (keys b) -> wf_cluster (mkCluster b (remove (cl_consumer cl) g)).
Proof.
  intros [_ [Hc Hg]] Hb. split; [exact Hb|]. split; [apply nodup_remove; exact Hc|].
  cbn [cl_consumer]. intros g0 grp0. rewrite get_remove. destruct (g =? g0); [discriminate|apply Hg].
Qed.

Lemma wf_grp_or_empty cl g : wf_cluster cl -> NoDup (keys (g_topics (grp_or_empty cl g))).
Proof.
  intros [_ [_ Hg]]. unfold grp_or_empty. destruct (get (cl_consumer cl) g) as [grp|] eqn:E.
  - exact (Hg _ _ E).
  - constructor.
Qed.

Lemma wf_dg_cons cl g t : wf_cluster cl -> wf_cluster (mkCluster (cl_broker cl) (dg_cons (cl_consumer cl) g t)).
Proof.
  intros Hwf. pose proof Hwf as [Hb [Hc Hg]]. unfold dg_cons.
  destruct (get (cl_consumer cl) g) as [grp|] eqn:E.
  - destruct (t =? 0); [apply wf_cluster_remove_group; assumption|].
    destruct (drops (g_topics grp) t); [apply wf_cluster_remove_group; assumption|].
    apply wf_cluster_set_group; [assumption|assumption|]. cbn [g_topics].
    apply nodup_remove. exact (Hg _ _ E).
  - split; [exact Hb|]. split; [exact Hc|exact Hg].
Qed.

Lemma wf_dt_cluster cl t : wf_cluster cl -> wf_cluster (dt_cluster cl t).
Proof.
  intros [Hb [Hc Hg]]. unfold dt_cluster. split; [apply nodup_remove; exact Hb|].
  split; [apply nodup_map_vals; exact Hc|]. cbn [cl_consumer].
  intros g grp. rewrite get_map_vals. destruct (get (cl_consumer cl) g) as [grp0|] eqn:E; [|discriminate].
  cbn [option_map]. intros H. injection H as <-. cbn [dt_group g_topics]. apply nodup_remove. exact (Hg _ _ E).
Qed.

Lemma fetch_consumer_state cf now st c g st' rep :
  fetch_consumer cf now st c g = Done st' rep ->
  st' = st \/
  exists cl grp, get st c = Some cl /\ get (cl_consumer cl) g = Some grp /\ expired cf now (g_last grp) = true /\
    rep = RNil /\ st' = set st c (mkCluster (cl_broker cl) (remove (cl_consumer cl) g)).
Proof.
  unfold fetch_consumer. destruct (get st c) as [cl|] eqn:Hc; [|intros H; injection H as <- _; left; reflexivity].
  destruct (get (cl_consumer cl) g) as [grp|] eqn:Hg; [|intros H; injection H as <- _; left; reflexivity].
  destruct (expired cf now (g_last grp)) eqn:He.
  - intros H. injection H as <- <-. right. exists cl, grp.
    split; [reflexivity|]. split; [exact Hg|]. split; [exact He|]. split; reflexivity.
  - cbv zeta. match goal with |- context [fetch_topics_lags ?a ?b] => destruct (fetch_topics_lags a b) end;
      [|discriminate]. intros H. injection H as <- _. left. reflexivity.
Qed.

Theorem step_wf cf now s r s' rep : wf_state s -> step cf now s r = Done s' rep -> wf_state s'.
Proof.
  intros Hwf. pose proof Hwf as [Hnd Hall]. destruct r; cbn [step].
  - (* SetBrokerOffset *)
    destruct (add_broker_offset_shape cf s c t p cnt off) as [E|[E|[cl [tl [Hc E]]]]]; rewrite E; intros H;
      [injection H as <- _; exact Hwf|discriminate|injection H as <- _].
    apply wf_state_set; [exact Hwf|]. destruct (Hall _ _ Hc) as [Hb [Hcn Hg]].
    split; [apply nodup_set; exact Hb|]. split; [exact Hcn|exact Hg].
  - (* SetConsumerOffset *)
    destruct (add_consumer_offset_shape cf now s c g t p off order ts) as [E|[cl [parts [lst [Hc [_ [_ [_ [_ E]]]]]]]]];
      rewrite E; intros H; injection H as <- _; [exact Hwf|].
    apply wf_state_set; [exact Hwf|]. pose proof (Hall _ _ Hc) as Hcl.
    apply wf_cluster_set_group; [exact Hcl|apply Hcl|]. cbn [g_topics]. apply nodup_set.
    apply wf_grp_or_empty. exact Hcl.
  - (* SetConsumerOwner *)
    destruct (add_consumer_owner_shape cf s c g t p owner client) as [E|[cl [Hc [_ [E|[parts [_ E]]]]]]];
      rewrite E; intros H; injection H as <- _; [exact Hwf| |].
    + apply wf_state_set; [exact Hwf|]. pose proof (Hall _ _ Hc) as Hcl.
      apply wf_cluster_set_group; [exact Hcl|apply Hcl|]. apply wf_grp_or_empty. exact Hcl.
    + apply wf_state_set; [exact Hwf|]. pose proof (Hall _ _ Hc) as Hcl.
      apply wf_cluster_set_group; [exact Hcl|apply Hcl|]. cbn [g_topics]. apply nodup_set.
      apply wf_grp_or_empty. exact Hcl.
  - (* ClearConsumerOwners *)
    destruct (clear_consumer_owners_shape cf s c g) as [E|[cl [grp [Hc [_ [Hg E]]]]]];
      rewrite E; intros H; injection H as <- _; [exact Hwf|].
    apply wf_state_set; [exact Hwf|]. pose proof (Hall _ _ Hc) as Hcl.
    apply wf_cluster_set_group; [exact Hcl|apply Hcl|]. unfold clear_owners_group. cbn [g_topics].
    apply nodup_map_vals. destruct Hcl as [_ [_ Hgs]]. exact (Hgs _ _ Hg).
  - (* DeleteTopic *)
    rewrite delete_topic_eq. intros H. injection H as <- _.
    destruct (get s c) as [cl|] eqn:Hc; [|exact Hwf].
    apply wf_state_set; [exact Hwf|]. apply wf_dt_cluster. exact (Hall _ _ Hc).
  - (* DeleteGroup *)
    rewrite delete_group_eq. intros H. injection H as <- _.
    destruct (get s c) as [cl|] eqn:Hc; [|exact Hwf].
    destruct (get (cl_consumer cl) g); [|exact Hwf].
    apply wf_state_set; [exact Hwf|]. apply wf_dg_cons. exact (Hall _ _ Hc).
  - intros H. injection H as <- _. exact Hwf.
  - destruct (get s c); intros H; injection H as <- _; exact Hwf.
  - destruct (get s c); intros H; injection H as <- _; exact Hwf.
  - (* FetchConsumer *)
    intros H. apply fetch_consumer_state in H. destruct H as [->|[cl [grp [Hc [Hg [_ [_ ->]]]]]]]; [exact Hwf|].
    apply wf_state_set; [exact Hwf|]. apply wf_cluster_remove_group; [exact (Hall _ _ Hc)|apply (Hall _ _ Hc)].
  - unfold fetch_topic. destruct (get s c) as [cl|]; [destruct (get (cl_broker cl) t)|]; intros H; injection H as <- _; exact Hwf.
  - unfold fetch_consumers_for_topic. destruct (get s c); intros H; injection H as <- _; exact Hwf.
Qed.

Lemma wf_init_state cls : NoDup cls -> wf_state (init_state cls).
Proof.
  intros Hnd. unfold init_state. split.
  - unfold keys. rewrite map_map. cbn [fst]. rewrite map_id. exact Hnd.
  - intros c cl Hg. apply get_some_in in Hg. apply in_map_iff in Hg. destruct Hg as [x [Hx _]].
    injection Hx as _ <-. split; [constructor|]. split; [constructor|]. cbn. discriminate.
Qed.

Theorem run_wf cf h : forall s s' reps, wf_state s -> run cf s h = Some (s', reps) -> wf_state s'.
Proof.
  induction h as [|[now r] rest IH]; intros s s' reps Hwf; cbn [run].
  - intros H. injection H as <- _. exact Hwf.
  - destruct (step cf now s r) as [s1 rep|] eqn:Es; [|discriminate].
    destruct (run cf s1 rest) as [[s2 reps2]|] eqn:Er; [|discriminate].
    intros H. injection H as <- _. exact (IH _ _ _ (step_wf _ _ _ _ _ _ Hwf Es) Er).
Qed.

Theorem reachable_wf cf cls h s reps : NoDup cls -> run cf (init_state cls) h = Some (s, reps) -> wf_state s.
Proof. intros Hnd. apply run_wf. apply wf_init_state. exact Hnd. Qed.

(* ------------------------------------------------------------------------------------------ *)
(* 4. The deletion handlers at the level of [get]                                              *)
(* ------------------------------------------------------------------------------------------ *)


Lemma cluster_eta cl : mkCluster (cl_broker cl) (cl_consumer cl) = cl.
Proof. destruct cl; reflexivity. Qed.

(* deletions always succeed and have no reply *)
Theorem deletion_total cf now s :
  (forall c g t, step cf now s (DeleteGroup c g t) = Done (after cf now s (DeleteGroup c g t)) RNone) /\
  (forall c t, step cf now s (DeleteTopic c t) = Done (after cf now s (DeleteTopic c t)) RNone).
Proof.
  split; intros; unfold after; cbn [step]; [rewrite delete_group_eq|rewrite delete_topic_eq]; reflexivity.
Qed.

Lemma get_after_delete_group cf now s c g t c' :
  get (after cf now s (DeleteGroup c g t)) c' =
  if c =? c' then option_map (fun cl => mkCluster (cl_broker cl) (dg_cons (cl_consumer cl) g t)) (get s c')
  else get s c'.
Proof.
  unfold after. cbn [step]. rewrite delete_group_eq.
  destruct (c =? c') eqn:E.
  - apply Z.eqb_eq in E. subst c'. destruct (get s c) as [cl|] eqn:Hc; [|rewrite Hc; reflexivity].
    destruct (get (cl_consumer cl) g) as [grp|] eqn:Hg.
    + rewrite get_set_eq. reflexivity.
    + rewrite Hc. cbn [option_map]. unfold dg_cons. rewrite Hg. rewrite cluster_eta. reflexivity.
  - apply Z.eqb_neq in E. destruct (get s c) as [cl|]; [|reflexivity].
    destruct (get (cl_consumer cl) g); [|reflexivity]. apply get_set_neq. exact E.
Qed.

Lemma get_after_delete_topic cf now s c t c' :
  get (after cf now s (DeleteTopic c t)) c' =
  if c =? c' then option_map (fun cl => dt_cluster cl t) (get s c') else get s c'.
Proof.
  unfold after. cbn [step]. rewrite delete_topic_eq.
  destruct (c =? c') eqn:E.
  - apply Z.eqb_eq in E. subst c'. destruct (get s c) as [cl|] eqn:Hc; [|rewrite Hc; reflexivity].
    rewrite get_set_eq. reflexivity.
  - apply Z.eqb_neq in E. destruct (get s c) as [cl|]; [|reflexivity]. apply get_set_neq. exact E.
Qed.

Lemma keys_set_present {V} (m : amap V) k v x : get m k <> None -> (In x (keys (set m k v)) <-> In x (keys m)).
Proof.
  intros Hk. apply get_in_keys in Hk. rewrite keys_set. split.
  - intros [->|[H _]]; assumption.
  - intros H. destruct (Z.eq_dec x k); [left; assumption|right; split; assumption].
Qed.

Lemma keys_after_delete_group cf now s c g t x :
  In x (keys (after cf now s (DeleteGroup c g t))) <-> In x (keys s).
Proof.
  unfold after. cbn [step]. rewrite delete_group_eq.
  destruct (get s c) as [cl|] eqn:Hc; [|tauto]. destruct (get (cl_consumer cl) g); [|tauto].
  apply keys_set_present. rewrite Hc. discriminate.
Qed.

Lemma keys_after_delete_topic cf now s c t x :
  In x (keys (after cf now s (DeleteTopic c t))) <-> In x (keys s).
Proof.
  unfold after. cbn [step]. rewrite delete_topic_eq.
  destruct (get s c) as [cl|] eqn:Hc; [|tauto]. apply keys_set_present. rewrite Hc. discriminate.
Qed.

Lemma get_dg_cons_other cons g t g' : g' <> g -> get (dg_cons cons g t) g' = get cons g'.
Proof.
  intros Hne. unfold dg_cons. destruct (get cons g) as [grp|]; [|reflexivity].
  destruct (t =? 0); [apply get_remove_neq; auto|].
  destruct (drops (g_topics grp) t); [apply get_remove_neq; auto|apply get_set_neq; auto].
Qed.

Lemma get_dg_cons_whole cons g : get (dg_cons cons g 0) g = None.
Proof. unfold dg_cons. destruct (get cons g) as [grp|] eqn:E; [|exact E]. cbn. apply get_remove_eq. Qed.

Lemma get_dg_cons_topic cons g t : t <> 0 ->
  get (dg_cons cons g t) g =
  match get cons g with
  | None => None
  | Some grp => if drops (g_topics grp) t then None
                else Some (mkCgroup (remove (g_topics grp) t) (g_last grp))
  end.
Proof.
  intros Ht. unfold dg_cons. destruct (get cons g) as [grp|] eqn:E; [|exact E].
  apply Z.eqb_neq in Ht. rewrite Ht.
  destruct (drops (g_topics grp) t); [apply get_remove_eq|apply get_set_eq].
Qed.

Lemma is_nil_false_other {V} (m : amap V) k : is_nil (remove m k) = false <-> exists k', k' <> k /\ get m k' <> None.
Proof.
  split.
  - intros H. apply remove_not_nil_other. intros E. rewrite E in H. discriminate.
  - intros [k' [Hne Hg]]. destruct (remove m k) eqn:E; [|reflexivity].
    exfalso. apply Hg. exact (remove_nil_get _ _ _ E Hne).
Qed.

Lemma drops_false {V} (m : amap V) k :
  drops m k = false <-> (exists k', k' <> k /\ get m k' <> None) \/ get m k = None.
Proof.
  unfold drops. rewrite andb_false_iff, is_nil_false_other. destruct (get m k); split; intros [H|H]; auto; discriminate.
Qed.

Lemma drops_true {V} (m : amap V) k :
  drops m k = true -> get m k <> None /\ forall k', k' <> k -> get m k' = None.
Proof.
  unfold drops. intros H. apply andb_true_iff in H. destruct H as [Hn Hg]. split; [destruct (get m k); [discriminate|discriminate Hg]|].
  intros k' Hne. destruct (remove m k) eqn:E; [|discriminate Hn]. exact (remove_nil_get _ _ _ E Hne).
Qed.

Lemma is_nil_remove {V} (m : amap V) k : is_nil (remove m k) = forallb (fun x => x =? k) (keys m).
Proof.
  unfold remove, keys. induction m as [|[k' v] r IH]; cbn; [reflexivity|].
  destruct (k' =? k); cbn; [exact IH|reflexivity].
Qed.

(* ------------------------------------------------------------------------------------------ *)
(* 5. Fetch replies through [get]                                                              *)
(* ------------------------------------------------------------------------------------------ *)

Definition snap_of (grp : cgroup) : list (Z * list cpart) :=
  map (fun tp => (fst tp, map snapshot_partition (snd tp))) (g_topics grp).
Definition has_topic (t : Z) (gv : Z * cgroup) : bool :=
  match get (g_topics (snd gv)) t with Some _ => true | None => false end.
Definition topic_offsets (tl : list bring) : list Z :=
  flat_map (fun r => match last r None with Some o => [o] | None => [] end) tl.

(* the reply of a per-cluster fetch request as a function of that cluster's entry alone *)
Definition cluster_reply (cf : config) (now : Z) (ocl : option cluster) (r : req) : option reply :=
  match ocl with
  | None => Some RNil
  | Some cl =>
      match r with
      | FetchConsumers _ => Some (RStrings (keys (cl_consumer cl)))
      | FetchTopics _ => Some (RStrings (keys (cl_broker cl)))
      | FetchConsumer _ g =>
          match get (cl_consumer cl) g with
          | None => Some RNil
          | Some grp => if expired cf now (g_last grp) then Some RNil
                        else option_map RConsumer (fetch_topics_lags (cl_broker cl) (snap_of grp))
          end
      | FetchTopic _ t =>
          match get (cl_broker cl) t with None => Some RNil | Some tl => Some (RInts (topic_offsets tl)) end
      | FetchConsumersForTopic _ t => Some (RStrings (map fst (filter (has_topic t) (cl_consumer cl))))
      | _ => None
      end
  end.

Lemma obs_cluster cf now s r c :
  req_cluster r = Some c -> is_fetch r = true -> obs cf now s r = cluster_reply cf now (get s c) r.
Proof.
  destruct r; cbn [req_cluster is_fetch]; intros H1 H2; try discriminate H2; try discriminate H1;
    injection H1 as <-; unfold obs; cbn [step].
  - destruct (get s c0); reflexivity.
  - destruct (get s c0); reflexivity.
  - unfold fetch_consumer, cluster_reply, snap_of. destruct (get s c0) as [cl|]; [|reflexivity].
    destruct (get (cl_consumer cl) g) as [grp|]; [|reflexivity].
    destruct (expired cf now (g_last grp)); [reflexivity|]. cbv zeta.
    match goal with |- context [fetch_topics_lags ?a ?b] => destruct (fetch_topics_lags a b) end; reflexivity.
  - unfold fetch_topic, cluster_reply, topic_offsets. destruct (get s c0) as [cl|]; [|reflexivity].
    destruct (get (cl_broker cl) t); reflexivity.
  - unfold fetch_consumers_for_topic, cluster_reply, has_topic. destruct (get s c0); reflexivity.
Qed.

Lemma obs_clusters cf now s : obs cf now s FetchClusters = Some (RStrings (keys s)).
Proof. reflexivity. Qed.

(* a per-cluster fetch only looks at its own cluster *)
Lemma obs_ext cf now s1 s2 r c :
  req_cluster r = Some c -> is_fetch r = true -> get s1 c = get s2 c -> obs cf now s1 r = obs cf now s2 r.
Proof. intros Hc Hf Hg. rewrite (obs_cluster _ _ s1 r c Hc Hf), (obs_cluster _ _ s2 r c Hc Hf), Hg. reflexivity. Qed.

Definition consumes (cons : amap cgroup) (x t : Z) : Prop :=
  exists v, get cons x = Some v /\ get (g_topics v) t <> None.

Lemma in_for_topic cons t x :
  NoDup (keys cons) -> (In x (map fst (filter (has_topic t) cons)) <-> consumes cons x t).
Proof.
  intros Hnd. unfold consumes.
  change (filter (has_topic t) cons)
    with (filter (fun kv => (fun v => match get (g_topics v) t with Some _ => true | None => false end) (snd kv)) cons).
  rewrite in_filter_keys by exact Hnd. split; intros [v [Hg Hf]]; exists v; (split; [exact Hg|]).
  - destruct (get (g_topics v) t); [discriminate|discriminate Hf].
  - destruct (get (g_topics v) t); [reflexivity|contradiction].
Qed.

(* fetch_topics_lags is compositional in the topic list: removing a consumer topic removes its entry *)
Lemma fetch_topics_lags_keys b snap l : fetch_topics_lags b snap = Some l -> map fst l = map fst snap.
Proof.
  revert l. induction snap as [|[t cps] rest IH]; cbn [fetch_topics_lags]; intros l H.
  - injection H as <-. reflexivity.
  - destruct (match get b t with None => Some cps | Some tl => add_lags tl 0 cps end) as [cps'|]; [|discriminate].
    destruct (fetch_topics_lags b rest) as [rest'|]; [|discriminate].
    injection H as <-. cbn. f_equal. apply IH. reflexivity.
Qed.

Lemma fetch_topics_lags_remove b snap l t :
  fetch_topics_lags b snap = Some l -> fetch_topics_lags b (remove snap t) = Some (remove l t).
Proof.
  revert l. induction snap as [|[t0 cps] rest IH]; cbn [fetch_topics_lags]; intros l H.
  - injection H as <-. reflexivity.
  - destruct (match get b t0 with None => Some cps | Some tl => add_lags tl 0 cps end) as [cps'|] eqn:Eh; [|discriminate].
    destruct (fetch_topics_lags b rest) as [rest'|]; [|discriminate].
    injection H as <-. unfold remove at 1 2. cbn [filter fst].
    destruct (t0 =? t); cbn [negb].
    + apply IH. reflexivity.
    + cbn [fetch_topics_lags]. rewrite Eh. fold (remove rest t). rewrite (IH rest' eq_refl). reflexivity.
Qed.

(* ... and the broker side may forget a topic that the consumer side does not mention *)
Lemma fetch_topics_lags_broker_ext b b' snap :
  (forall t, In t (map fst snap) -> get b' t = get b t) -> fetch_topics_lags b' snap = fetch_topics_lags b snap.
Proof.
  induction snap as [|[t cps] rest IH]; cbn [fetch_topics_lags]; intros H; [reflexivity|].
  rewrite (H t) by (left; reflexivity). rewrite IH; [reflexivity|]. intros t' Hin. apply H. right. exact Hin.
Qed.

Lemma snap_of_remove tops last t : snap_of (mkCgroup (remove tops t) last) = remove (snap_of (mkCgroup tops last)) t.
Proof.
  unfold snap_of, remove. cbn [g_topics]. induction tops as [|[t0 ps] r IH]; cbn; [reflexivity|].
  destruct (t0 =? t); cbn; [exact IH|]. f_equal. exact IH.
Qed.

Lemma keys_snap_of grp : map fst (snap_of grp) = keys (g_topics grp).
Proof. unfold snap_of, keys. rewrite map_map. reflexivity. Qed.

(* every listing of a well-formed state is duplicate-free: equality as sets is equality as multisets *)
Theorem listings_nodup cf now s r : wf_state s -> is_fetch r = true -> NoDup (names (obs cf now s r)).
Proof.
  intros [Hnd Hall] Hf. destruct r; try discriminate Hf.
  - rewrite obs_clusters. exact Hnd.
  - rewrite (obs_cluster _ _ s (FetchConsumers c) c eq_refl eq_refl). destruct (get s c) as [cl|] eqn:Hc; [|constructor].
    cbn. apply (Hall _ _ Hc).
  - rewrite (obs_cluster _ _ s (FetchTopics c) c eq_refl eq_refl). destruct (get s c) as [cl|] eqn:Hc; [|constructor].
    cbn. apply (Hall _ _ Hc).
  - rewrite (obs_cluster _ _ s (FetchConsumer c g) c eq_refl eq_refl). destruct (get s c) as [cl|] eqn:Hc; [|constructor].
    cbn [cluster_reply]. destruct (get (cl_consumer cl) g) as [grp|] eqn:Hg; [|constructor].
    destruct (expired cf now (g_last grp)); [constructor|].
    destruct (fetch_topics_lags (cl_broker cl) (snap_of grp)) as [l|] eqn:El; [|constructor].
    cbn [option_map names]. rewrite (fetch_topics_lags_keys _ _ _ El), keys_snap_of.
    destruct (Hall _ _ Hc) as [_ [_ Hg']]. exact (Hg' _ _ Hg).
  - rewrite (obs_cluster _ _ s (FetchTopic c t) c eq_refl eq_refl). destruct (get s c) as [cl|] eqn:Hc; [|constructor].
    cbn [cluster_reply]. destruct (get (cl_broker cl) t); constructor.
  - rewrite (obs_cluster _ _ s (FetchConsumersForTopic c t) c eq_refl eq_refl). destruct (get s c) as [cl|] eqn:Hc; [|constructor].
    cbn. apply nodup_filter_keys. apply (Hall _ _ Hc).
Qed.

(* ------------------------------------------------------------------------------------------ *)
(* 6. C09 one-step theorems                                                                    *)
(* ------------------------------------------------------------------------------------------ *)

Lemma obs_after_dg cf now now' s c g t r :
  req_cluster r = Some c -> is_fetch r = true ->
  obs cf now' (after cf now s (DeleteGroup c g t)) r =
  cluster_reply cf now' (option_map (fun cl => mkCluster (cl_broker cl) (dg_cons (cl_consumer cl) g t)) (get s c)) r.
Proof.
  intros Hc Hf. rewrite (obs_cluster _ _ _ r c Hc Hf). rewrite get_after_delete_group, Z.eqb_refl. reflexivity.
Qed.

Lemma obs_after_dt cf now now' s c t r :
  req_cluster r = Some c -> is_fetch r = true ->
  obs cf now' (after cf now s (DeleteTopic c t)) r =
  cluster_reply cf now' (option_map (fun cl => dt_cluster cl t) (get s c)) r.
Proof.
  intros Hc Hf. rewrite (obs_cluster _ _ _ r c Hc Hf). rewrite get_after_delete_topic, Z.eqb_refl. reflexivity.
Qed.

(* 6.1 DeleteGroup, whole group (topic = "") ------------------------------------------------- *)

Theorem delete_group_removed cf now now' s c g :
  let s' := after cf now s (DeleteGroup c g 0) in
  obs cf now' s' (FetchConsumer c g) = Some RNil /\
  ~ In g (names (obs cf now' s' (FetchConsumers c))) /\
  (forall t, ~ In g (names (obs cf now' s' (FetchConsumersForTopic c t)))).
Proof.
  intros s'. unfold s'.
  rewrite (obs_after_dg _ _ _ _ _ _ _ (FetchConsumer c g) eq_refl eq_refl).
  rewrite (obs_after_dg _ _ _ _ _ _ _ (FetchConsumers c) eq_refl eq_refl).
  destruct (get s c) as [cl|] eqn:Hc; cbn [option_map cluster_reply cl_consumer cl_broker names].
  - rewrite get_dg_cons_whole. split; [reflexivity|]. split.
    + apply get_none_not_in. apply get_dg_cons_whole.
    + intros t. rewrite (obs_after_dg _ _ _ _ _ _ _ (FetchConsumersForTopic c t) eq_refl eq_refl), Hc.
      cbn [option_map cluster_reply cl_consumer names]. intros Hin. apply in_filter_keys_weak in Hin.
      revert Hin. apply get_none_not_in. apply get_dg_cons_whole.
  - split; [reflexivity|]. split; [intros []|]. intros t.
    rewrite (obs_after_dg _ _ _ _ _ _ _ (FetchConsumersForTopic c t) eq_refl eq_refl), Hc. intros [].
Qed.

(* the part of the frame that DeleteGroup has for every topic argument *)
Theorem delete_group_frame cf now now' s c g t :
  let s' := after cf now s (DeleteGroup c g t) in
  (forall r c', req_cluster r = Some c' -> c' <> c -> is_fetch r = true -> obs cf now' s' r = obs cf now' s r) /\
  (forall x, In x (names (obs cf now' s' FetchClusters)) <-> In x (names (obs cf now' s FetchClusters))) /\
  (forall g', g' <> g -> obs cf now' s' (FetchConsumer c g') = obs cf now' s (FetchConsumer c g')) /\
  obs cf now' s' (FetchTopics c) = obs cf now' s (FetchTopics c) /\
  (forall t', obs cf now' s' (FetchTopic c t') = obs cf now' s (FetchTopic c t')).
Proof.
  intros s'. unfold s'. split; [|split; [|split; [|split]]].
  - intros r c' Hr Hne Hf. apply (obs_ext _ _ _ _ r c' Hr Hf). rewrite get_after_delete_group.
    destruct (c =? c') eqn:E; [apply Z.eqb_eq in E; congruence|reflexivity].
  - intros x. rewrite !obs_clusters. cbn [names]. apply keys_after_delete_group.
  - intros g' Hne. rewrite obs_after_dg by reflexivity. rewrite (obs_cluster _ _ s (FetchConsumer c g') c eq_refl eq_refl).
    destruct (get s c) as [cl|]; [|reflexivity]. cbn [option_map cluster_reply cl_consumer cl_broker].
    rewrite get_dg_cons_other by exact Hne. reflexivity.
  - rewrite obs_after_dg by reflexivity. rewrite (obs_cluster _ _ s (FetchTopics c) c eq_refl eq_refl).
    destruct (get s c) as [cl|]; reflexivity.
  - intros t'. rewrite obs_after_dg by reflexivity. rewrite (obs_cluster _ _ s (FetchTopic c t') c eq_refl eq_refl).
    destruct (get s c) as [cl|]; reflexivity.
Qed.

Lemma consumes_dg_whole cons g x t : consumes (dg_cons cons g 0) x t <-> consumes cons x t /\ x <> g.
Proof.
  unfold consumes. destruct (Z.eq_dec x g) as [->|Hne].
  - rewrite get_dg_cons_whole. split; [intros [v [H _]]; discriminate|intros [_ H]; contradiction].
  - rewrite get_dg_cons_other by exact Hne. tauto.
Qed.

Theorem delete_group_listing cf now now' s c g :
  wf_state s ->
  let s' := after cf now s (DeleteGroup c g 0) in
  (obs cf now' s' (FetchConsumers c) = Some RNil <-> obs cf now' s (FetchConsumers c) = Some RNil) /\
  (forall x, In x (names (obs cf now' s' (FetchConsumers c))) <->
             In x (names (obs cf now' s (FetchConsumers c))) /\ x <> g) /\
  (forall t,
     (obs cf now' s' (FetchConsumersForTopic c t) = Some RNil <-> obs cf now' s (FetchConsumersForTopic c t) = Some RNil) /\
     (forall x, In x (names (obs cf now' s' (FetchConsumersForTopic c t))) <->
                In x (names (obs cf now' s (FetchConsumersForTopic c t))) /\ x <> g)).
Proof.
  intros [_ Hall] s'. unfold s'.
  rewrite (obs_after_dg _ _ _ _ _ _ _ (FetchConsumers c) eq_refl eq_refl).
  rewrite (obs_cluster _ _ s (FetchConsumers c) c eq_refl eq_refl).
  destruct (get s c) as [cl|] eqn:Hc; cbn [option_map cluster_reply cl_consumer cl_broker names].
  - split; [split; discriminate|]. split.
    + intros x. rewrite <- !get_in_keys. destruct (Z.eq_dec x g) as [->|Hne].
      * rewrite get_dg_cons_whole. split; [contradiction|intros [_ H]; contradiction].
      * rewrite get_dg_cons_other by exact Hne. tauto.
    + intros t. rewrite (obs_after_dg _ _ _ _ _ _ _ (FetchConsumersForTopic c t) eq_refl eq_refl).
      rewrite (obs_cluster _ _ s (FetchConsumersForTopic c t) c eq_refl eq_refl). rewrite Hc.
      cbn [option_map cluster_reply cl_consumer cl_broker names]. split; [split; discriminate|].
      intros x. pose proof (Hall _ _ Hc) as Hcl. pose proof (wf_dg_cons cl g 0 Hcl) as [_ [Hnd' _]].
      cbn [cl_consumer] in Hnd'. destruct Hcl as [_ [Hnd _]].
      rewrite (in_for_topic _ _ _ Hnd'), (in_for_topic _ _ _ Hnd). apply consumes_dg_whole.
  - split; [tauto|]. split; [cbn; tauto|]. intros t.
    rewrite (obs_after_dg _ _ _ _ _ _ _ (FetchConsumersForTopic c t) eq_refl eq_refl).
    rewrite (obs_cluster _ _ s (FetchConsumersForTopic c t) c eq_refl eq_refl). rewrite Hc.
    cbn. tauto.
Qed.

(* 6.2 DeleteGroup, one topic of the group ---------------------------------------------------- *)

Theorem delete_group_topic_removed cf now now' s c g t :
  wf_state s -> t <> 0 ->
  let s' := after cf now s (DeleteGroup c g t) in
  ~ In t (names (obs cf now' s' (FetchConsumer c g))) /\
  ~ In g (names (obs cf now' s' (FetchConsumersForTopic c t))).
Proof.
  intros [_ Hall] Ht s'. unfold s'.
  rewrite (obs_after_dg _ _ _ _ _ _ _ (FetchConsumer c g) eq_refl eq_refl).
  rewrite (obs_after_dg _ _ _ _ _ _ _ (FetchConsumersForTopic c t) eq_refl eq_refl).
  destruct (get s c) as [cl|] eqn:Hc; cbn [option_map cluster_reply cl_consumer cl_broker]; [|cbn; tauto].
  split.
  - rewrite get_dg_cons_topic by exact Ht. destruct (get (cl_consumer cl) g) as [grp|]; [|cbn; tauto].
    destruct (drops (g_topics grp) t); [cbn; tauto|]. cbn [g_last].
    destruct (expired cf now' (g_last grp)); [cbn; tauto|].
    match goal with |- context [fetch_topics_lags ?a ?b] => destruct (fetch_topics_lags a b) as [l|] eqn:El end;
      cbn [option_map names]; [|tauto].
    rewrite (fetch_topics_lags_keys _ _ _ El), keys_snap_of. cbn [g_topics]. intros Hin.
    apply keys_remove in Hin. tauto.
  - cbn [names]. pose proof (wf_dg_cons cl g t (Hall _ _ Hc)) as [_ [Hnd' _]]. cbn [cl_consumer] in Hnd'.
    rewrite (in_for_topic _ _ _ Hnd'). unfold consumes. rewrite get_dg_cons_topic by exact Ht.
    destruct (get (cl_consumer cl) g) as [grp|]; [|intros [v [H _]]; discriminate].
    destruct (drops (g_topics grp) t); [intros [v [H _]]; discriminate|].
    intros [v [H Hv]]. injection H as <-. cbn [g_topics] in Hv. apply Hv. apply get_remove_eq.
Qed.

Lemma consumes_dg_topic cons g t x t' :
  t <> 0 -> (consumes (dg_cons cons g t) x t' <-> consumes cons x t' /\ (x = g -> t' <> t)).
Proof.
  intros Ht. unfold consumes. destruct (Z.eq_dec x g) as [->|Hne].
  - rewrite get_dg_cons_topic by exact Ht. destruct (get cons g) as [grp|] eqn:Eg.
    + destruct (drops (g_topics grp) t) eqn:En.
      * split; [intros [v [H _]]; discriminate|].
        intros [[v [Hv Hg]] Hne]. injection Hv as <-. exfalso.
        destruct (drops_true _ _ En) as [_ Hno]. apply Hg. apply Hno. apply Hne. reflexivity.
      * split.
        -- intros [v [Hv Hg]]. injection Hv as <-. cbn [g_topics] in Hg. rewrite get_remove in Hg.
           destruct (t =? t') eqn:E; [contradiction Hg; reflexivity|]. apply Z.eqb_neq in E.
           split; [exists grp; split; [reflexivity|exact Hg]|intros _ H; apply E; symmetry; exact H].
        -- intros [[v [Hv Hg]] Hne]. injection Hv as <-. eexists. split; [reflexivity|]. cbn [g_topics].
           rewrite get_remove_neq; [exact Hg|]. intros H. apply (Hne eq_refl). symmetry. exact H.
    + split; [intros [v [H _]]; discriminate|intros [[v [H _]] _]; discriminate].
  - rewrite get_dg_cons_other by exact Hne. split; [intros H; split; [exact H|intros; contradiction]|tauto].
Qed.

Theorem delete_group_topic_listing cf now now' s c g t :
  wf_state s -> t <> 0 ->
  let s' := after cf now s (DeleteGroup c g t) in
  (obs cf now' s' (FetchConsumers c) = Some RNil <-> obs cf now' s (FetchConsumers c) = Some RNil) /\
  (forall x, In x (names (obs cf now' s' (FetchConsumers c))) <->
             In x (names (obs cf now' s (FetchConsumers c))) /\
             (x = g -> has_other_topic s c g t \/ absent_group_topic s c g t)) /\
  (forall t',
     (obs cf now' s' (FetchConsumersForTopic c t') = Some RNil <-> obs cf now' s (FetchConsumersForTopic c t') = Some RNil) /\
     (forall x, In x (names (obs cf now' s' (FetchConsumersForTopic c t'))) <->
                In x (names (obs cf now' s (FetchConsumersForTopic c t'))) /\ (x = g -> t' <> t))).
Proof.
  intros [_ Hall] Ht s'. unfold s'.
  rewrite (obs_after_dg _ _ _ _ _ _ _ (FetchConsumers c) eq_refl eq_refl).
  rewrite (obs_cluster _ _ s (FetchConsumers c) c eq_refl eq_refl).
  destruct (get s c) as [cl|] eqn:Hc; cbn [option_map cluster_reply cl_consumer cl_broker names].
  - split; [split; discriminate|]. split.
    + intros x. rewrite <- !get_in_keys. destruct (Z.eq_dec x g) as [->|Hne].
      * rewrite get_dg_cons_topic by exact Ht. destruct (get (cl_consumer cl) g) as [grp|] eqn:Eg.
        -- destruct (drops (g_topics grp) t) eqn:En.
           ++ split; [contradiction|]. intros [_ H]. exfalso. destruct (drops_true _ _ En) as [Hhas Hno].
              destruct (H eq_refl) as [[cl0 [grp0 [t' [Hc0 [Hg0 [Hne Ht']]]]]]|Habs].
              ** rewrite Hc in Hc0. injection Hc0 as <-. rewrite Eg in Hg0. injection Hg0 as <-.
                 apply Ht'. apply Hno. exact Hne.
              ** apply Hhas. exact (Habs _ _ Hc Eg).
           ++ split; [|discriminate]. intros _. split; [discriminate|]. intros _.
              apply drops_false in En. destruct En as [[t' [Hne Ht']]|Hnone].
              ** left. exists cl, grp, t'. repeat split; assumption.
              ** right. intros cl0 grp0 Hc0 Hg0. rewrite Hc in Hc0. injection Hc0 as <-. rewrite Eg in Hg0.
                 injection Hg0 as <-. exact Hnone.
        -- split; [contradiction|intros [H _]; contradiction].
      * rewrite get_dg_cons_other by exact Hne. split; [intros H; split; [exact H|intros; contradiction]|tauto].
    + intros t'. rewrite (obs_after_dg _ _ _ _ _ _ _ (FetchConsumersForTopic c t') eq_refl eq_refl).
      rewrite (obs_cluster _ _ s (FetchConsumersForTopic c t') c eq_refl eq_refl). rewrite Hc.
      cbn [option_map cluster_reply cl_consumer cl_broker names]. split; [split; discriminate|].
      intros x. pose proof (Hall _ _ Hc) as Hcl. pose proof (wf_dg_cons cl g t Hcl) as [_ [Hnd' _]].
      cbn [cl_consumer] in Hnd'. destruct Hcl as [_ [Hnd _]].
      rewrite (in_for_topic _ _ _ Hnd'), (in_for_topic _ _ _ Hnd). apply consumes_dg_topic. exact Ht.
  - split; [tauto|]. split; [cbn; tauto|]. intros t'.
    rewrite (obs_after_dg _ _ _ _ _ _ _ (FetchConsumersForTopic c t') eq_refl eq_refl).
    rewrite (obs_cluster _ _ s (FetchConsumersForTopic c t') c eq_refl eq_refl). rewrite Hc.
    cbn. tauto.
Qed.

Lemma existsb_keys {V} (m : amap V) t :
  existsb (fun k => k =? t) (keys m) = match get m t with Some _ => true | None => false end.
Proof.
  unfold keys. induction m as [|[k v] r IH]; cbn; [reflexivity|]. destruct (k =? t); [reflexivity|exact IH].
Qed.

Lemma drops_keys {V W} (m : amap V) (m' : amap W) k : keys m = keys m' -> drops m k = drops m' k.
Proof. intros H. unfold drops. rewrite !is_nil_remove, <- !existsb_keys, H. reflexivity. Qed.

(* the group's remaining topics, partitions included, are reported exactly as before *)
Theorem delete_group_topic_detail cf now now' s c g t :
  t <> 0 ->
  let s' := after cf now s (DeleteGroup c g t) in
  (forall l, obs cf now' s (FetchConsumer c g) = Some (RConsumer l) ->
     obs cf now' s' (FetchConsumer c g) = if drops l t then Some RNil else Some (RConsumer (remove l t))) /\
  (obs cf now' s (FetchConsumer c g) = Some RNil -> obs cf now' s' (FetchConsumer c g) = Some RNil).
Proof.
  intros Ht s'. unfold s'.
  rewrite (obs_after_dg _ _ _ _ _ _ _ (FetchConsumer c g) eq_refl eq_refl).
  rewrite (obs_cluster _ _ s (FetchConsumer c g) c eq_refl eq_refl).
  destruct (get s c) as [cl|] eqn:Hc; cbn [option_map cluster_reply cl_consumer cl_broker];
    [|split; [intros; discriminate|auto]].
  rewrite get_dg_cons_topic by exact Ht.
  destruct (get (cl_consumer cl) g) as [[tops lst]|]; [|split; [intros; discriminate|auto]].
  cbn [g_topics g_last]. split.
  - intros l. destruct (expired cf now' lst) eqn:He; [discriminate|].
    destruct (fetch_topics_lags (cl_broker cl) (snap_of (mkCgroup tops lst))) as [l0|] eqn:El; cbn [option_map];
      [|discriminate].
    intros H. injection H as <-.
    assert (Hn : drops l0 t = drops tops t).
    { apply drops_keys. unfold keys at 1. rewrite (fetch_topics_lags_keys _ _ _ El). apply keys_snap_of. }
    rewrite Hn. destruct (drops tops t); [reflexivity|]. cbn [g_last g_topics]. rewrite He.
    rewrite snap_of_remove.
    rewrite (fetch_topics_lags_remove _ _ _ t El). reflexivity.
  - destruct (expired cf now' lst) eqn:He.
    + intros _. destruct (drops tops t); [reflexivity|]. cbn [g_last g_topics]. rewrite He. reflexivity.
    + destruct (fetch_topics_lags (cl_broker cl) (snap_of (mkCgroup tops lst))); cbn [option_map]; discriminate.
Qed.

(* 6.3 DeleteTopic ---------------------------------------------------------------------------- *)

Lemma filter_has_topic_dt cons t : filter (has_topic t) (map_vals (dt_group t) cons) = [].
Proof.
  unfold map_vals. induction cons as [|[k v] r IH]; cbn [map filter]; [reflexivity|].
  unfold has_topic at 1. cbn [fst snd dt_group g_topics]. rewrite get_remove_eq. exact IH.
Qed.

Lemma filter_has_topic_dt_other cons t t' :
  t' <> t -> map fst (filter (has_topic t') (map_vals (dt_group t) cons)) = map fst (filter (has_topic t') cons).
Proof.
  intros Hne. unfold map_vals. induction cons as [|[k v] r IH]; cbn [map filter]; [reflexivity|].
  assert (Hh : has_topic t' (k, dt_group t v) = has_topic t' (k, v)).
  { unfold has_topic. cbn [snd dt_group g_topics]. rewrite get_remove_neq by auto. reflexivity. }
  cbn [fst snd]. rewrite Hh. destruct (has_topic t' (k, v)); cbn [map fst]; [f_equal|]; exact IH.
Qed.

Theorem delete_topic_removed cf now now' s c t :
  let s' := after cf now s (DeleteTopic c t) in
  ~ In t (names (obs cf now' s' (FetchTopics c))) /\
  obs cf now' s' (FetchTopic c t) = Some RNil /\
  names (obs cf now' s' (FetchConsumersForTopic c t)) = [] /\
  (forall g, ~ In t (names (obs cf now' s' (FetchConsumer c g)))).
Proof.
  intros s'. unfold s'.
  rewrite (obs_after_dt _ _ _ _ _ _ (FetchTopics c) eq_refl eq_refl).
  rewrite (obs_after_dt _ _ _ _ _ _ (FetchTopic c t) eq_refl eq_refl).
  rewrite (obs_after_dt _ _ _ _ _ _ (FetchConsumersForTopic c t) eq_refl eq_refl).
  destruct (get s c) as [cl|] eqn:Hc; cbn [option_map cluster_reply dt_cluster cl_consumer cl_broker names].
  - split; [intros Hin; apply keys_remove in Hin; tauto|].
    split; [rewrite get_remove_eq; reflexivity|].
    split; [rewrite filter_has_topic_dt; reflexivity|].
    intros g. rewrite (obs_after_dt _ _ _ _ _ _ (FetchConsumer c g) eq_refl eq_refl), Hc.
    cbn [option_map cluster_reply dt_cluster cl_consumer cl_broker]. rewrite get_map_vals.
    destruct (get (cl_consumer cl) g) as [grp|]; cbn [option_map]; [|cbn; tauto].
    cbn [dt_group g_last]. destruct (expired cf now' (g_last grp)); [cbn; tauto|].
    match goal with |- context [fetch_topics_lags ?a ?b] => destruct (fetch_topics_lags a b) as [l|] eqn:El end;
      cbn [option_map names]; [|tauto].
    rewrite (fetch_topics_lags_keys _ _ _ El), keys_snap_of. cbn [g_topics]. intros Hin.
    apply keys_remove in Hin. tauto.
  - split; [intros []|]. split; [reflexivity|]. split; [reflexivity|]. intros g.
    rewrite (obs_after_dt _ _ _ _ _ _ (FetchConsumer c g) eq_refl eq_refl), Hc. intros [].
Qed.

Theorem delete_topic_frame cf now now' s c t :
  let s' := after cf now s (DeleteTopic c t) in
  (forall r c', req_cluster r = Some c' -> c' <> c -> is_fetch r = true -> obs cf now' s' r = obs cf now' s r) /\
  (forall x, In x (names (obs cf now' s' FetchClusters)) <-> In x (names (obs cf now' s FetchClusters))) /\
  obs cf now' s' (FetchConsumers c) = obs cf now' s (FetchConsumers c) /\
  (obs cf now' s' (FetchTopics c) = Some RNil <-> obs cf now' s (FetchTopics c) = Some RNil) /\
  (forall x, In x (names (obs cf now' s' (FetchTopics c))) <-> In x (names (obs cf now' s (FetchTopics c))) /\ x <> t) /\
  (forall t', t' <> t -> obs cf now' s' (FetchTopic c t') = obs cf now' s (FetchTopic c t')) /\
  (forall t', t' <> t -> obs cf now' s' (FetchConsumersForTopic c t') = obs cf now' s (FetchConsumersForTopic c t')) /\
  (forall g l, obs cf now' s (FetchConsumer c g) = Some (RConsumer l) ->
               obs cf now' s' (FetchConsumer c g) = Some (RConsumer (remove l t))) /\
  (forall g, obs cf now' s (FetchConsumer c g) = Some RNil -> obs cf now' s' (FetchConsumer c g) = Some RNil).
Proof.
  intros s'. unfold s'. split; [|split].
  - intros r c' Hr Hne Hf. apply (obs_ext _ _ _ _ r c' Hr Hf). rewrite get_after_delete_topic.
    destruct (c =? c') eqn:E; [apply Z.eqb_eq in E; congruence|reflexivity].
  - intros x. rewrite !obs_clusters. cbn [names]. apply keys_after_delete_topic.
  - rewrite (obs_after_dt _ _ _ _ _ _ (FetchConsumers c) eq_refl eq_refl).
    rewrite (obs_after_dt _ _ _ _ _ _ (FetchTopics c) eq_refl eq_refl).
    rewrite (obs_cluster _ _ s (FetchConsumers c) c eq_refl eq_refl).
    rewrite (obs_cluster _ _ s (FetchTopics c) c eq_refl eq_refl).
    destruct (get s c) as [cl|] eqn:Hc; cbn [option_map cluster_reply dt_cluster cl_consumer cl_broker names].
    + split; [rewrite keys_map_vals; reflexivity|]. split; [split; discriminate|].
      split; [intros x; apply keys_remove|]. split; [|split; [|split]].
      * intros t' Hne. rewrite (obs_after_dt _ _ _ _ _ _ (FetchTopic c t') eq_refl eq_refl).
        rewrite (obs_cluster _ _ s (FetchTopic c t') c eq_refl eq_refl). rewrite Hc.
        cbn [option_map cluster_reply dt_cluster cl_consumer cl_broker]. rewrite get_remove_neq by auto. reflexivity.
      * intros t' Hne. rewrite (obs_after_dt _ _ _ _ _ _ (FetchConsumersForTopic c t') eq_refl eq_refl).
        rewrite (obs_cluster _ _ s (FetchConsumersForTopic c t') c eq_refl eq_refl). rewrite Hc.
        cbn [option_map cluster_reply dt_cluster cl_consumer cl_broker]. rewrite filter_has_topic_dt_other by exact Hne.
        reflexivity.
      * intros g l. rewrite (obs_after_dt _ _ _ _ _ _ (FetchConsumer c g) eq_refl eq_refl).
        rewrite (obs_cluster _ _ s (FetchConsumer c g) c eq_refl eq_refl). rewrite Hc.
        cbn [option_map cluster_reply dt_cluster cl_consumer cl_broker]. rewrite get_map_vals.
        destruct (get (cl_consumer cl) g) as [[tops lst]|]; cbn [option_map]; [|discriminate].
        unfold dt_group; cbn [g_last g_topics]. destruct (expired cf now' lst); [discriminate|].
        destruct (fetch_topics_lags (cl_broker cl) (snap_of (mkCgroup tops lst))) as [l0|] eqn:El; cbn [option_map];
          [|discriminate].
        intros H. injection H as <-. rewrite snap_of_remove.
        rewrite (fetch_topics_lags_broker_ext (cl_broker cl)).
        -- rewrite (fetch_topics_lags_remove _ _ _ t El). reflexivity.
        -- intros t' Hin. change (map fst (remove (snap_of (mkCgroup tops lst)) t)) with
             (keys (remove (snap_of (mkCgroup tops lst)) t)) in Hin.
           apply keys_remove in Hin. apply get_remove_neq. intros E. apply (proj2 Hin). symmetry. exact E.
      * intros g. rewrite (obs_after_dt _ _ _ _ _ _ (FetchConsumer c g) eq_refl eq_refl).
        rewrite (obs_cluster _ _ s (FetchConsumer c g) c eq_refl eq_refl). rewrite Hc.
        cbn [option_map cluster_reply dt_cluster cl_consumer cl_broker]. rewrite get_map_vals.
        destruct (get (cl_consumer cl) g) as [[tops lst]|]; cbn [option_map]; [|auto].
        unfold dt_group; cbn [g_last g_topics]. destruct (expired cf now' lst); [auto|].
        destruct (fetch_topics_lags (cl_broker cl) (snap_of (mkCgroup tops lst))); cbn [option_map]; discriminate.
    + split; [reflexivity|]. split; [tauto|]. split; [cbn; tauto|]. split; [|split; [|split]].
      * intros t' _. rewrite (obs_after_dt _ _ _ _ _ _ (FetchTopic c t') eq_refl eq_refl).
        rewrite (obs_cluster _ _ s (FetchTopic c t') c eq_refl eq_refl). rewrite Hc. reflexivity.
      * intros t' _. rewrite (obs_after_dt _ _ _ _ _ _ (FetchConsumersForTopic c t') eq_refl eq_refl).
        rewrite (obs_cluster _ _ s (FetchConsumersForTopic c t') c eq_refl eq_refl). rewrite Hc. reflexivity.
      * intros g l. rewrite (obs_cluster _ _ s (FetchConsumer c g) c eq_refl eq_refl). rewrite Hc. discriminate.
      * intros g _. rewrite (obs_after_dt _ _ _ _ _ _ (FetchConsumer c g) eq_refl eq_refl). rewrite Hc. reflexivity.
Qed.

(* ------------------------------------------------------------------------------------------ *)
(* 7. C09 expiry: lazy purge, its converse, too-old commits, the int64 guards                  *)
(* ------------------------------------------------------------------------------------------ *)

(* (now - expire) * 1000 is computed in int64; inside the guard it is the mathematical value *)
Lemma expiry_threshold_exact cf now :
  in_i64 ((now - cf_expire cf) * 1000) -> mul64 (sub64 now (cf_expire cf)) 1000 = (now - cf_expire cf) * 1000.
Proof.
  intros H. assert (H1 : in_i64 (now - cf_expire cf)) by (unfold in_i64, two63 in *; lia).
  unfold sub64, mul64. rewrite (wrap64_id _ H1). apply wrap64_id. exact H.
Qed.

Theorem expired_spec cf now last :
  in_i64 ((now - cf_expire cf) * 1000) -> (expired cf now last = true <-> last < (now - cf_expire cf) * 1000).
Proof. intros H. unfold expired. rewrite (expiry_threshold_exact _ _ H). apply Z.ltb_lt. Qed.

Theorem too_old_spec cf now ts :
  in_i64 ((now - cf_expire cf) * 1000) -> (too_old cf now ts = true <-> ts < (now - cf_expire cf) * 1000).
Proof. intros H. unfold too_old. rewrite (expiry_threshold_exact _ _ H). apply Z.ltb_lt. Qed.

(* the purge performed by an expired FetchConsumer is exactly a whole-group deletion *)
Theorem purge_is_delete_group cf now s c g cl grp :
  get s c = Some cl -> get (cl_consumer cl) g = Some grp -> expired cf now (g_last grp) = true ->
  step cf now s (FetchConsumer c g) = Done (after cf now s (DeleteGroup c g 0)) RNil.
Proof.
  intros Hc Hg He. unfold after. cbn [step]. rewrite delete_group_eq. unfold fetch_consumer.
  rewrite Hc, Hg, He. unfold dg_cons. rewrite Hg. reflexivity.
Qed.

Theorem expired_notfound_then_unlisted cf now s c g cl grp :
  get s c = Some cl -> get (cl_consumer cl) g = Some grp -> expired cf now (g_last grp) = true ->
  exists s', step cf now s (FetchConsumer c g) = Done s' RNil /\
    s' = after cf now s (DeleteGroup c g 0) /\
    forall now', obs cf now' s' (FetchConsumer c g) = Some RNil /\
                 ~ In g (names (obs cf now' s' (FetchConsumers c))) /\
                 (forall t, ~ In g (names (obs cf now' s' (FetchConsumersForTopic c t)))).
Proof.
  intros Hc Hg He. eexists. split; [exact (purge_is_delete_group _ _ _ _ _ _ _ Hc Hg He)|].
  split; [reflexivity|]. intros now'. apply delete_group_removed.
Qed.

Theorem not_expired_unchanged cf now s c g cl grp :
  get s c = Some cl -> get (cl_consumer cl) g = Some grp -> expired cf now (g_last grp) = false ->
  after cf now s (FetchConsumer c g) = s /\ obs cf now s (FetchConsumer c g) <> Some RNil.
Proof.
  intros Hc Hg He. unfold after, obs. cbn [step]. unfold fetch_consumer. rewrite Hc, Hg, He. cbv zeta.
  match goal with |- context [fetch_topics_lags ?a ?b] => destruct (fetch_topics_lags a b) end;
    split; try reflexivity; discriminate.
Qed.

(* the only fetch that changes the state is the purge *)
Theorem fetch_changes_state_only_by_purge cf now s r s' rep :
  is_fetch r = true -> step cf now s r = Done s' rep ->
  s' = s \/
  exists c g cl grp, r = FetchConsumer c g /\ get s c = Some cl /\ get (cl_consumer cl) g = Some grp /\
    expired cf now (g_last grp) = true /\ rep = RNil /\ s' = after cf now s (DeleteGroup c g 0).
Proof.
  intros Hf. destruct r; try discriminate Hf; cbn [step].
  - intros H. injection H as <- _. left. reflexivity.
  - destruct (get s c); intros H; injection H as <- _; left; reflexivity.
  - destruct (get s c); intros H; injection H as <- _; left; reflexivity.
  - intros H. pose proof H as H0. apply fetch_consumer_state in H.
    destruct H as [->|[cl [grp [Hc [Hg [He [-> _]]]]]]]; [left; reflexivity|].
    right. exists c, g, cl, grp. repeat split; try assumption.
    pose proof (purge_is_delete_group _ _ _ _ _ _ _ Hc Hg He) as Hp. cbn [step] in Hp. rewrite Hp in H0.
    injection H0 as <-. reflexivity.
  - unfold fetch_topic. destruct (get s c) as [cl|]; [destruct (get (cl_broker cl) t)|]; intros H; injection H as <- _;
      left; reflexivity.
  - unfold fetch_consumers_for_topic. destruct (get s c); intros H; injection H as <- _; left; reflexivity.
Qed.

Theorem old_commit_ignored cf now s c g t p off order ts :
  too_old cf now ts = true -> step cf now s (SetConsumerOffset c g t p off order ts) = Done s RNone.
Proof.
  intros H. cbn [step]. unfold add_consumer_offset. destruct (get s c); [|reflexivity]. rewrite H. reflexivity.
Qed.

(* ------------------------------------------------------------------------------------------ *)
(* 8. C09 lifted to histories                                                                  *)
(* ------------------------------------------------------------------------------------------ *)

Lemma run_app cf h1 : forall s h2,
  run cf s (h1 ++ h2) =
  match run cf s h1 with
  | None => None
  | Some (s1, r1) => match run cf s1 h2 with None => None | Some (s2, r2) => Some (s2, r1 ++ r2) end
  end.
Proof.
  induction h1 as [|[now r] rest IH]; intros s h2; cbn [run app].
  - destruct (run cf s h2) as [[s2 r2]|]; reflexivity.
  - destruct (step cf now s r) as [s1 rep|]; [|reflexivity]. rewrite IH.
    destruct (run cf s1 rest) as [[s2 r2]|]; [|reflexivity].
    destruct (run cf s2 h2) as [[s3 r3]|]; reflexivity.
Qed.

Lemma run_length cf h : forall s s' reps, run cf s h = Some (s', reps) -> length reps = length h.
Proof.
  induction h as [|[now r] rest IH]; intros s s' reps; cbn [run].
  - intros H. injection H as _ <-. reflexivity.
  - destruct (step cf now s r) as [s1 rep|]; [|discriminate].
    destruct (run cf s1 rest) as [[s2 r2]|] eqn:E; [|discriminate].
    intros H. injection H as _ <-. cbn. f_equal. exact (IH _ _ _ E).
Qed.

Lemma step_obs cf now s r s' rep : step cf now s r = Done s' rep -> obs cf now s r = Some rep.
Proof. intros H. unfold obs. rewrite H. reflexivity. Qed.

Lemma in_remove {V} (m : amap V) k kv : In kv (remove m k) -> In kv m.
Proof. unfold remove. intros H. apply filter_In in H. tauto. Qed.

(* 8.1 groups -------------------------------------------------------------------------------- *)

Lemma absent_group_set s c0 cl cl' c g :
  absent_group s c g -> get s c0 = Some cl ->
  (c0 = c -> get (cl_consumer cl) g = None -> get (cl_consumer cl') g = None) ->
  absent_group (set s c0 cl') c g.
Proof.
  intros H Hc Hn cl0. rewrite get_set. destruct (c0 =? c) eqn:E; [|apply H].
  apply Z.eqb_eq in E. subst c0. intros X. injection X as <-. apply Hn; [reflexivity|]. exact (H _ Hc).
Qed.

Lemma get_dg_cons_none cons g0 t g : get cons g = None -> get (dg_cons cons g0 t) g = None.
Proof.
  intros H. destruct (Z.eq_dec g g0) as [->|Hne].
  - unfold dg_cons. rewrite H. exact H.
  - rewrite get_dg_cons_other by exact Hne. exact H.
Qed.

Lemma step_absent_group cf now s r s' rep c g :
  absent_group s c g -> ~ creates_group c g r -> step cf now s r = Done s' rep -> absent_group s' c g.
Proof.
  intros Ha Hcr. destruct r; cbn [step].
  - destruct (add_broker_offset_shape cf s c0 t p cnt off) as [E|[E|[cl [tl [Hc E]]]]]; rewrite E; intros H;
      [injection H as <- _; exact Ha|discriminate|injection H as <- _].
    apply (absent_group_set _ _ _ _ _ _ Ha Hc). intros _ Hn. exact Hn.
  - destruct (add_consumer_offset_shape cf now s c0 g0 t p off order ts) as [E|[cl [parts [lst [Hc [_ [_ [_ [_ E]]]]]]]]];
      rewrite E; intros H; injection H as <- _; [exact Ha|].
    apply (absent_group_set _ _ _ _ _ _ Ha Hc). intros -> Hn. cbn [cl_consumer]. rewrite get_set.
    destruct (g0 =? g) eqn:Eg; [|exact Hn]. apply Z.eqb_eq in Eg. subst g0. exfalso. apply Hcr. cbn. auto.
  - destruct (add_consumer_owner_shape cf s c0 g0 t p owner client) as [E|[cl [Hc [_ [E|[parts [_ E]]]]]]];
      rewrite E; intros H; injection H as <- _; [exact Ha| |];
      (apply (absent_group_set _ _ _ _ _ _ Ha Hc); intros -> Hn; cbn [cl_consumer]; rewrite get_set;
       destruct (g0 =? g) eqn:Eg; [|exact Hn]; apply Z.eqb_eq in Eg; subst g0; exfalso; apply Hcr; cbn; auto).
  - destruct (clear_consumer_owners_shape cf s c0 g0) as [E|[cl [grp [Hc [_ [Hg E]]]]]];
      rewrite E; intros H; injection H as <- _; [exact Ha|].
    apply (absent_group_set _ _ _ _ _ _ Ha Hc). intros -> Hn. cbn [cl_consumer]. rewrite get_set.
    destruct (g0 =? g) eqn:Eg; [|exact Hn]. apply Z.eqb_eq in Eg. subst g0. congruence.
  - rewrite delete_topic_eq. intros H. injection H as <- _. destruct (get s c0) as [cl|] eqn:Hc; [|exact Ha].
    apply (absent_group_set _ _ _ _ _ _ Ha Hc). intros _ Hn. unfold dt_cluster. cbn [cl_consumer].
    rewrite get_map_vals, Hn. reflexivity.
  - rewrite delete_group_eq. intros H. injection H as <- _. destruct (get s c0) as [cl|] eqn:Hc; [|exact Ha].
    destruct (get (cl_consumer cl) g0); [|exact Ha].
    apply (absent_group_set _ _ _ _ _ _ Ha Hc). intros _ Hn. cbn [cl_consumer]. apply get_dg_cons_none. exact Hn.
  - intros H. injection H as <- _. exact Ha.
  - destruct (get s c0); intros H; injection H as <- _; exact Ha.
  - destruct (get s c0); intros H; injection H as <- _; exact Ha.
  - intros H. apply fetch_consumer_state in H. destruct H as [->|[cl [grp [Hc [Hg [_ [_ ->]]]]]]]; [exact Ha|].
    apply (absent_group_set _ _ _ _ _ _ Ha Hc). intros _ Hn. cbn [cl_consumer]. rewrite get_remove.
    destruct (g0 =? g); [reflexivity|exact Hn].
  - unfold fetch_topic. destruct (get s c0) as [cl|]; [destruct (get (cl_broker cl) t)|]; intros H; injection H as <- _; exact Ha.
  - unfold fetch_consumers_for_topic. destruct (get s c0); intros H; injection H as <- _; exact Ha.
Qed.

Lemma absent_group_not_mentioned cf now s r s' rep c g :
  absent_group s c g -> step cf now s r = Done s' rep -> ~ mentions_group c g r rep.
Proof.
  intros Ha Hs Hm. apply step_obs in Hs. destruct r; cbn [mentions_group] in Hm; try contradiction.
  - destruct rep; try contradiction. destruct Hm as [-> Hin].
    rewrite (obs_cluster _ _ s (FetchConsumers c) c eq_refl eq_refl) in Hs.
    destruct (get s c) as [cl|] eqn:Hc; cbn [cluster_reply] in Hs; [|discriminate].
    injection Hs as <-. apply get_in_keys in Hin. apply Hin. exact (Ha _ Hc).
  - destruct rep; try contradiction. destruct Hm as [-> ->].
    rewrite (obs_cluster _ _ s (FetchConsumer c g) c eq_refl eq_refl) in Hs.
    destruct (get s c) as [cl|] eqn:Hc; cbn [cluster_reply] in Hs; [|discriminate].
    rewrite (Ha _ Hc) in Hs. discriminate.
  - destruct rep; try contradiction. destruct Hm as [-> Hin].
    rewrite (obs_cluster _ _ s (FetchConsumersForTopic c t) c eq_refl eq_refl) in Hs.
    destruct (get s c) as [cl|] eqn:Hc; cbn [cluster_reply] in Hs; [|discriminate].
    injection Hs as <-. apply in_filter_keys_weak in Hin. apply get_in_keys in Hin. apply Hin. exact (Ha _ Hc).
Qed.

Theorem absent_group_stays cf c g h : forall s s' reps,
  absent_group s c g -> Forall (fun nr => ~ creates_group c g (snd nr)) h -> run cf s h = Some (s', reps) ->
  absent_group s' c g /\ Forall2 (fun nr rep => ~ mentions_group c g (snd nr) rep) h reps.
Proof.
  induction h as [|[now r] rest IH]; intros s s' reps Ha Hf; cbn [run].
  - intros H. injection H as <- <-. split; [exact Ha|constructor].
  - destruct (step cf now s r) as [s1 rep|] eqn:Es; [|discriminate].
    destruct (run cf s1 rest) as [[s2 reps2]|] eqn:Er; [|discriminate].
    intros H. injection H as <- <-. inversion Hf as [|? ? Hr Hrest]; subst. cbn [snd] in Hr.
    destruct (IH _ _ _ (step_absent_group _ _ _ _ _ _ _ _ Ha Hr Es) Hrest Er) as [Ha' Hm].
    split; [exact Ha'|]. constructor; [|exact Hm]. cbn [snd]. exact (absent_group_not_mentioned _ _ _ _ _ _ _ _ Ha Es).
Qed.

Lemma absent_after_delete_group cf now s c g : absent_group (after cf now s (DeleteGroup c g 0)) c g.
Proof.
  intros cl. rewrite get_after_delete_group, Z.eqb_refl. destruct (get s c) as [cl0|]; [|discriminate].
  cbn [option_map]. intros H. injection H as <-. cbn [cl_consumer]. apply get_dg_cons_whole.
Qed.

Lemma run_split cf s h1 now r h2 s' reps :
  run cf s (h1 ++ (now, r) :: h2) = Some (s', reps) ->
  exists s1 reps1 s2 rep reps2,
    run cf s h1 = Some (s1, reps1) /\ step cf now s1 r = Done s2 rep /\ run cf s2 h2 = Some (s', reps2) /\
    reps = reps1 ++ rep :: reps2 /\ length reps1 = length h1.
Proof.
  rewrite run_app. destruct (run cf s h1) as [[s1 reps1]|] eqn:E1; [|discriminate]. cbn [run].
  destruct (step cf now s1 r) as [s2 rep|] eqn:Es; [|discriminate].
  destruct (run cf s2 h2) as [[s3 reps2]|] eqn:E2; [|discriminate].
  intros H. injection H as <- <-. exists s1, reps1, s2, rep, reps2. repeat split; try reflexivity; try assumption.
  exact (run_length _ _ _ _ _ E1).
Qed.

(* after a whole-group deletion, and until an offset commit or owner update names the group again, no reply
   of any continuation mentions it *)
Theorem deleted_group_stays_gone cf s0 h1 now c g h2 s reps :
  run cf s0 (h1 ++ (now, DeleteGroup c g 0) :: h2) = Some (s, reps) ->
  Forall (fun nr => ~ creates_group c g (snd nr)) h2 ->
  exists reps1 reps2, reps = reps1 ++ RNone :: reps2 /\ length reps1 = length h1 /\
    Forall2 (fun nr rep => ~ mentions_group c g (snd nr) rep) h2 reps2.
Proof.
  intros Hr Hf. apply run_split in Hr. destruct Hr as [s1 [reps1 [s2 [rep [reps2 [_ [Es [E2 [-> Hl]]]]]]]]].
  destruct (deletion_total cf now s1) as [Hd _]. rewrite Hd in Es. injection Es as <- <-.
  exists reps1, reps2. split; [reflexivity|]. split; [exact Hl|].
  exact (proj2 (absent_group_stays _ _ _ _ _ _ _ (absent_after_delete_group _ _ _ _ _) Hf E2)).
Qed.

(* a group reported as not found (unknown, deleted or just purged as expired) is absent from every later listing
   until it is ingested again *)
Theorem notfound_group_stays_unlisted cf s0 h1 now c g h2 s reps :
  run cf s0 (h1 ++ (now, FetchConsumer c g) :: h2) = Some (s, reps) ->
  Forall (fun nr => ~ creates_group c g (snd nr)) h2 ->
  exists reps1 rep reps2, reps = reps1 ++ rep :: reps2 /\ length reps1 = length h1 /\
    (rep = RNil -> Forall2 (fun nr rep => ~ mentions_group c g (snd nr) rep) h2 reps2).
Proof.
  intros Hr Hf. apply run_split in Hr. destruct Hr as [s1 [reps1 [s2 [rep [reps2 [_ [Es [E2 [-> Hl]]]]]]]]].
  exists reps1, rep, reps2. split; [reflexivity|]. split; [exact Hl|]. intros ->.
  refine (proj2 (absent_group_stays _ _ _ _ _ _ _ _ Hf E2)).
  cbn [step] in Es. unfold fetch_consumer in Es. intros cl2 Hc2.
  destruct (get s1 c) as [cl|] eqn:Hc.
  - destruct (get (cl_consumer cl) g) as [grp|] eqn:Hg.
    + destruct (expired cf now (g_last grp)).
      * injection Es as <-. rewrite get_set_eq in Hc2. injection Hc2 as <-. cbn [cl_consumer]. apply get_remove_eq.
      * cbv zeta in Es.
        match type of Es with context [fetch_topics_lags ?a ?b] => destruct (fetch_topics_lags a b) end; discriminate.
    + injection Es as <-. rewrite Hc in Hc2. injection Hc2 as <-. exact Hg.
  - injection Es as <-. rewrite Hc in Hc2. discriminate.
Qed.

(* 8.2 one topic of a group ------------------------------------------------------------------- *)

Lemma absent_gt_set s c0 cl cl' c g t :
  absent_group_topic s c g t -> get s c0 = Some cl ->
  (c0 = c -> forall grp', get (cl_consumer cl') g = Some grp' ->
     (forall grp, get (cl_consumer cl) g = Some grp -> get (g_topics grp) t = None) -> get (g_topics grp') t = None) ->
  absent_group_topic (set s c0 cl') c g t.
Proof.
  intros H Hc Hn cl0 grp0. rewrite get_set. destruct (c0 =? c) eqn:E; [|apply H].
  apply Z.eqb_eq in E. subst c0. intros X. injection X as <-. intros Hg. apply (Hn eq_refl _ Hg).
  intros grp Hgrp. exact (H _ _ Hc Hgrp).
Qed.

Lemma grp_or_empty_none cl g t :
  (forall grp, get (cl_consumer cl) g = Some grp -> get (g_topics grp) t = None) ->
  get (g_topics (grp_or_empty cl g)) t = None.
Proof. intros H. unfold grp_or_empty. destruct (get (cl_consumer cl) g) as [grp|]; [apply H; reflexivity|reflexivity]. Qed.

Lemma step_absent_group_topic cf now s r s' rep c g t :
  absent_group_topic s c g t -> ~ creates_group_topic c g t r -> step cf now s r = Done s' rep ->
  absent_group_topic s' c g t.
Proof.
  intros Ha Hcr. destruct r; cbn [step].
  - destruct (add_broker_offset_shape cf s c0 t0 p cnt off) as [E|[E|[cl [tl [Hc E]]]]]; rewrite E; intros H;
      [injection H as <- _; exact Ha|discriminate|injection H as <- _].
    apply (absent_gt_set _ _ _ _ _ _ _ Ha Hc). intros _ grp' Hg Hold. exact (Hold _ Hg).
  - destruct (add_consumer_offset_shape cf now s c0 g0 t0 p off order ts) as [E|[cl [parts [lst [Hc [_ [_ [_ [_ E]]]]]]]]];
      rewrite E; intros H; injection H as <- _; [exact Ha|].
    apply (absent_gt_set _ _ _ _ _ _ _ Ha Hc). intros -> grp' Hg Hold. cbn [cl_consumer] in Hg. rewrite get_set in Hg.
    destruct (g0 =? g) eqn:Eg; [|exact (Hold _ Hg)]. apply Z.eqb_eq in Eg. subst g0. injection Hg as <-.
    cbn [g_topics]. rewrite get_set. destruct (t0 =? t) eqn:Et; [|apply grp_or_empty_none; exact Hold].
    apply Z.eqb_eq in Et. exfalso. apply Hcr. cbn. auto.
  - destruct (add_consumer_owner_shape cf s c0 g0 t0 p owner client) as [E|[cl [Hc [_ [E|[parts [_ E]]]]]]];
      rewrite E; intros H; injection H as <- _; [exact Ha| |].
    + apply (absent_gt_set _ _ _ _ _ _ _ Ha Hc). intros -> grp' Hg Hold. cbn [cl_consumer] in Hg. rewrite get_set in Hg.
      destruct (g0 =? g) eqn:Eg; [|exact (Hold _ Hg)]. apply Z.eqb_eq in Eg. subst g0. injection Hg as <-.
      apply grp_or_empty_none. exact Hold.
    + apply (absent_gt_set _ _ _ _ _ _ _ Ha Hc). intros -> grp' Hg Hold. cbn [cl_consumer] in Hg. rewrite get_set in Hg.
      destruct (g0 =? g) eqn:Eg; [|exact (Hold _ Hg)]. apply Z.eqb_eq in Eg. subst g0. injection Hg as <-.
      cbn [g_topics]. rewrite get_set. destruct (t0 =? t) eqn:Et; [|apply grp_or_empty_none; exact Hold].
      apply Z.eqb_eq in Et. exfalso. apply Hcr. cbn. auto.
  - destruct (clear_consumer_owners_shape cf s c0 g0) as [E|[cl [grp [Hc [_ [Hg0 E]]]]]];
      rewrite E; intros H; injection H as <- _; [exact Ha|].
    apply (absent_gt_set _ _ _ _ _ _ _ Ha Hc). intros -> grp' Hg Hold. cbn [cl_consumer] in Hg. rewrite get_set in Hg.
    destruct (g0 =? g) eqn:Eg; [|exact (Hold _ Hg)]. apply Z.eqb_eq in Eg. subst g0. injection Hg as <-.
    unfold clear_owners_group. cbn [g_topics]. rewrite get_map_vals, (Hold _ Hg0). reflexivity.
  - rewrite delete_topic_eq. intros H. injection H as <- _. destruct (get s c0) as [cl|] eqn:Hc; [|exact Ha].
    apply (absent_gt_set _ _ _ _ _ _ _ Ha Hc). intros -> grp' Hg Hold. unfold dt_cluster in Hg. cbn [cl_consumer] in Hg.
    rewrite get_map_vals in Hg. destruct (get (cl_consumer cl) g) as [grp|] eqn:Eg; [|discriminate].
    cbn [option_map] in Hg. injection Hg as <-. cbn [dt_group g_topics]. rewrite get_remove.
    destruct (t0 =? t); [reflexivity|]. exact (Hold _ eq_refl).
  - rewrite delete_group_eq. intros H. injection H as <- _. destruct (get s c0) as [cl|] eqn:Hc; [|exact Ha].
    destruct (get (cl_consumer cl) g0) eqn:Eg0; [|exact Ha].
    apply (absent_gt_set _ _ _ _ _ _ _ Ha Hc). intros -> grp' Hg Hold. cbn [cl_consumer] in Hg.
    destruct (Z.eq_dec g g0) as [->|Hne]; [|rewrite get_dg_cons_other in Hg by exact Hne; exact (Hold _ Hg)].
    destruct (Z.eq_dec t0 0) as [->|Ht0]; [rewrite get_dg_cons_whole in Hg; discriminate|].
    rewrite get_dg_cons_topic in Hg by exact Ht0. rewrite Eg0 in Hg.
    destruct (drops (g_topics c1) t0); [discriminate|]. injection Hg as <-. cbn [g_topics].
    rewrite get_remove. destruct (t0 =? t); [reflexivity|]. exact (Hold _ Eg0).
  - intros H. injection H as <- _. exact Ha.
  - destruct (get s c0); intros H; injection H as <- _; exact Ha.
  - destruct (get s c0); intros H; injection H as <- _; exact Ha.
  - intros H. apply fetch_consumer_state in H. destruct H as [->|[cl [grp [Hc [Hg0 [_ [_ ->]]]]]]]; [exact Ha|].
    apply (absent_gt_set _ _ _ _ _ _ _ Ha Hc). intros -> grp' Hg Hold. cbn [cl_consumer] in Hg. rewrite get_remove in Hg.
    destruct (g0 =? g); [discriminate|]. exact (Hold _ Hg).
  - unfold fetch_topic. destruct (get s c0) as [cl|]; [destruct (get (cl_broker cl) t0)|]; intros H; injection H as <- _; exact Ha.
  - unfold fetch_consumers_for_topic. destruct (get s c0); intros H; injection H as <- _; exact Ha.
Qed.

Lemma absent_gt_not_mentioned cf now s r s' rep c g t :
  wf_state s -> absent_group_topic s c g t -> step cf now s r = Done s' rep -> ~ mentions_group_topic c g t r rep.
Proof.
  intros [_ Hall] Ha Hs Hm. apply step_obs in Hs. destruct r; cbn [mentions_group_topic] in Hm; try contradiction.
  - destruct rep; try contradiction. destruct Hm as [-> [-> Hin]].
    rewrite (obs_cluster _ _ s (FetchConsumer c g) c eq_refl eq_refl) in Hs.
    destruct (get s c) as [cl|] eqn:Hc; cbn [cluster_reply] in Hs; [|discriminate].
    destruct (get (cl_consumer cl) g) as [grp|] eqn:Hg; [|discriminate].
    destruct (expired cf now (g_last grp)); [discriminate|].
    destruct (fetch_topics_lags (cl_broker cl) (snap_of grp)) as [l0|] eqn:El; [|discriminate].
    cbn [option_map] in Hs. injection Hs as <-. rewrite (fetch_topics_lags_keys _ _ _ El), keys_snap_of in Hin.
    apply get_in_keys in Hin. apply Hin. exact (Ha _ _ Hc Hg).
  - destruct rep; try contradiction. destruct Hm as [-> [-> Hin]].
    rewrite (obs_cluster _ _ s (FetchConsumersForTopic c t) c eq_refl eq_refl) in Hs.
    destruct (get s c) as [cl|] eqn:Hc; cbn [cluster_reply] in Hs; [|discriminate].
    injection Hs as <-. destruct (Hall _ _ Hc) as [_ [Hnd _]]. apply (in_for_topic _ _ _ Hnd) in Hin.
    destruct Hin as [v [Hv Hne]]. apply Hne. exact (Ha _ _ Hc Hv).
Qed.

Theorem absent_group_topic_stays cf c g t h : forall s s' reps,
  wf_state s -> absent_group_topic s c g t -> Forall (fun nr => ~ creates_group_topic c g t (snd nr)) h ->
  run cf s h = Some (s', reps) ->
  absent_group_topic s' c g t /\ Forall2 (fun nr rep => ~ mentions_group_topic c g t (snd nr) rep) h reps.
Proof.
  induction h as [|[now r] rest IH]; intros s s' reps Hwf Ha Hf; cbn [run].
  - intros H. injection H as <- <-. split; [exact Ha|constructor].
  - destruct (step cf now s r) as [s1 rep|] eqn:Es; [|discriminate].
    destruct (run cf s1 rest) as [[s2 reps2]|] eqn:Er; [|discriminate].
    intros H. injection H as <- <-. inversion Hf as [|? ? Hr Hrest]; subst. cbn [snd] in Hr.
    destruct (IH _ _ _ (step_wf _ _ _ _ _ _ Hwf Es) (step_absent_group_topic _ _ _ _ _ _ _ _ _ Ha Hr Es) Hrest Er) as [Ha' Hm].
    split; [exact Ha'|]. constructor; [|exact Hm]. cbn [snd].
    exact (absent_gt_not_mentioned _ _ _ _ _ _ _ _ _ Hwf Ha Es).
Qed.

Lemma absent_after_delete_group_topic cf now s c g t :
  t <> 0 -> absent_group_topic (after cf now s (DeleteGroup c g t)) c g t.
Proof.
  intros Ht cl grp. rewrite get_after_delete_group, Z.eqb_refl. destruct (get s c) as [cl0|]; [|discriminate].
  cbn [option_map]. intros H. injection H as <-. cbn [cl_consumer]. rewrite get_dg_cons_topic by exact Ht.
  destruct (get (cl_consumer cl0) g) as [grp0|]; [|discriminate].
  destruct (drops (g_topics grp0) t); [discriminate|]. intros H. injection H as <-. cbn [g_topics].
  apply get_remove_eq.
Qed.

Theorem deleted_group_topic_stays_gone cf s0 h1 now c g t h2 s reps :
  wf_state s0 -> t <> 0 ->
  run cf s0 (h1 ++ (now, DeleteGroup c g t) :: h2) = Some (s, reps) ->
  Forall (fun nr => ~ creates_group_topic c g t (snd nr)) h2 ->
  exists reps1 reps2, reps = reps1 ++ RNone :: reps2 /\ length reps1 = length h1 /\
    Forall2 (fun nr rep => ~ mentions_group_topic c g t (snd nr) rep) h2 reps2.
Proof.
  intros Hwf Ht Hr Hf. apply run_split in Hr. destruct Hr as [s1 [reps1 [s2 [rep [reps2 [E1 [Es [E2 [-> Hl]]]]]]]]].
  pose proof (run_wf _ _ _ _ _ Hwf E1) as Hwf1. pose proof (step_wf _ _ _ _ _ _ Hwf1 Es) as Hwf2.
  destruct (deletion_total cf now s1) as [Hd _]. rewrite Hd in Es. injection Es as <- <-.
  exists reps1, reps2. split; [reflexivity|]. split; [exact Hl|].
  exact (proj2 (absent_group_topic_stays _ _ _ _ _ _ _ _ Hwf2 (absent_after_delete_group_topic _ _ _ _ _ _ Ht) Hf E2)).
Qed.

(* 8.3 topics --------------------------------------------------------------------------------- *)

Lemma absent_topic_set s c0 cl cl' c t :
  absent_topic s c t -> get s c0 = Some cl ->
  (c0 = c -> get (cl_broker cl) t = None ->
     (forall g grp, In (g, grp) (cl_consumer cl) -> get (g_topics grp) t = None) ->
     get (cl_broker cl') t = None /\ forall g grp, In (g, grp) (cl_consumer cl') -> get (g_topics grp) t = None) ->
  absent_topic (set s c0 cl') c t.
Proof.
  intros H Hc Hn cl0. rewrite get_set. destruct (c0 =? c) eqn:E; [|apply H].
  apply Z.eqb_eq in E. subst c0. intros X. injection X as <-. destruct (H _ Hc) as [Hb Hcons].
  exact (Hn eq_refl Hb Hcons).
Qed.

Lemma in_set_cases {V} (m : amap V) k v kv : In kv (set m k v) -> kv = (k, v) \/ In kv m.
Proof. unfold set. intros [H|H]; [left; symmetry; exact H|right; exact (in_remove _ _ _ H)]. Qed.

Lemma in_dg_cons cons g0 t0 g grp' :
  In (g, grp') (dg_cons cons g0 t0) ->
  In (g, grp') cons \/ exists grp, get cons g0 = Some grp /\ grp' = mkCgroup (remove (g_topics grp) t0) (g_last grp).
Proof.
  unfold dg_cons. destruct (get cons g0) as [grp|] eqn:E; [|auto].
  destruct (t0 =? 0); [intros H; left; exact (in_remove _ _ _ H)|].
  destruct (drops (g_topics grp) t0); [intros H; left; exact (in_remove _ _ _ H)|].
  intros H. apply in_set_cases in H. destruct H as [H|H]; [|left; exact H].
  right. injection H as _ ->. exists grp. split; reflexivity.
Qed.

Lemma grp_or_empty_none_in cl g0 t :
  (forall g grp, In (g, grp) (cl_consumer cl) -> get (g_topics grp) t = None) ->
  get (g_topics (grp_or_empty cl g0)) t = None.
Proof.
  intros H. unfold grp_or_empty. destruct (get (cl_consumer cl) g0) as [grp|] eqn:E; [|reflexivity].
  exact (H _ _ (get_some_in _ _ _ E)).
Qed.

Lemma filter_has_topic_none cons t :
  (forall g grp, In (g, grp) cons -> get (g_topics grp) t = None) -> filter (has_topic t) cons = [].
Proof.
  induction cons as [|[k v] r IH]; intros H; cbn [filter]; [reflexivity|].
  unfold has_topic at 1. cbn [snd]. rewrite (H k v) by (left; reflexivity). apply IH.
  intros g grp Hin. apply (H g grp). right. exact Hin.
Qed.

Lemma step_absent_topic cf now s r s' rep c t :
  absent_topic s c t -> ~ creates_topic c t r -> step cf now s r = Done s' rep -> absent_topic s' c t.
Proof.
  intros Ha Hcr. destruct r; cbn [step].
  - destruct (add_broker_offset_shape cf s c0 t0 p cnt off) as [E|[E|[cl [tl [Hc E]]]]]; rewrite E; intros H;
      [injection H as <- _; exact Ha|discriminate|injection H as <- _].
    apply (absent_topic_set _ _ _ _ _ _ Ha Hc). intros -> Hb Hcons. cbn [cl_broker cl_consumer]. split; [|exact Hcons].
    rewrite get_set. destruct (t0 =? t) eqn:Et; [|exact Hb]. apply Z.eqb_eq in Et. exfalso. apply Hcr. cbn. auto.
  - destruct (add_consumer_offset_shape cf now s c0 g t0 p off order ts) as [E|[cl [parts [lst [Hc [_ [_ [Hbt [_ E]]]]]]]]];
      rewrite E; intros H; injection H as <- _; [exact Ha|].
    apply (absent_topic_set _ _ _ _ _ _ Ha Hc). intros -> Hb Hcons. cbn [cl_broker cl_consumer]. split; [exact Hb|].
    intros g1 grp Hin. apply in_set_cases in Hin. destruct Hin as [Hin|Hin]; [|exact (Hcons _ _ Hin)].
    injection Hin as _ ->. cbn [g_topics]. rewrite get_set. destruct (t0 =? t) eqn:Et.
    + apply Z.eqb_eq in Et. subst t0. contradiction.
    + apply grp_or_empty_none_in. exact Hcons.
  - destruct (add_consumer_owner_shape cf s c0 g t0 p owner client) as [E|[cl [Hc [_ [E|[parts [Hbt E]]]]]]];
      rewrite E; intros H; injection H as <- _; [exact Ha| |].
    + apply (absent_topic_set _ _ _ _ _ _ Ha Hc). intros -> Hb Hcons. cbn [cl_broker cl_consumer]. split; [exact Hb|].
      intros g1 grp Hin. apply in_set_cases in Hin. destruct Hin as [Hin|Hin]; [|exact (Hcons _ _ Hin)].
      injection Hin as _ ->. apply grp_or_empty_none_in. exact Hcons.
    + apply (absent_topic_set _ _ _ _ _ _ Ha Hc). intros -> Hb Hcons. cbn [cl_broker cl_consumer]. split; [exact Hb|].
      intros g1 grp Hin. apply in_set_cases in Hin. destruct Hin as [Hin|Hin]; [|exact (Hcons _ _ Hin)].
      injection Hin as _ ->. cbn [g_topics]. rewrite get_set. destruct (t0 =? t) eqn:Et.
      * apply Z.eqb_eq in Et. subst t0. contradiction.
      * apply grp_or_empty_none_in. exact Hcons.
  - destruct (clear_consumer_owners_shape cf s c0 g) as [E|[cl [grp0 [Hc [_ [Hg0 E]]]]]];
      rewrite E; intros H; injection H as <- _; [exact Ha|].
    apply (absent_topic_set _ _ _ _ _ _ Ha Hc). intros -> Hb Hcons. cbn [cl_broker cl_consumer]. split; [exact Hb|].
    intros g1 grp Hin. apply in_set_cases in Hin. destruct Hin as [Hin|Hin]; [|exact (Hcons _ _ Hin)].
    injection Hin as _ ->. unfold clear_owners_group. cbn [g_topics]. rewrite get_map_vals.
    rewrite (Hcons _ _ (get_some_in _ _ _ Hg0)). reflexivity.
  - rewrite delete_topic_eq. intros H. injection H as <- _. destruct (get s c0) as [cl|] eqn:Hc; [|exact Ha].
    apply (absent_topic_set _ _ _ _ _ _ Ha Hc). intros -> Hb Hcons. unfold dt_cluster. cbn [cl_broker cl_consumer]. split.
    + rewrite get_remove. destruct (t0 =? t); [reflexivity|exact Hb].
    + intros g1 grp Hin. unfold map_vals in Hin. apply in_map_iff in Hin. destruct Hin as [[g2 grp2] [Heq Hin]].
      cbn [fst snd] in Heq. injection Heq as _ <-. cbn [dt_group g_topics]. rewrite get_remove.
      destruct (t0 =? t); [reflexivity|exact (Hcons _ _ Hin)].
  - rewrite delete_group_eq. intros H. injection H as <- _. destruct (get s c0) as [cl|] eqn:Hc; [|exact Ha].
    destruct (get (cl_consumer cl) g); [|exact Ha].
    apply (absent_topic_set _ _ _ _ _ _ Ha Hc). intros -> Hb Hcons. cbn [cl_broker cl_consumer]. split; [exact Hb|].
    intros g1 grp Hin. apply in_dg_cons in Hin. destruct Hin as [Hin|[grp0 [Hg0 ->]]]; [exact (Hcons _ _ Hin)|].
    cbn [g_topics]. rewrite get_remove. destruct (t0 =? t); [reflexivity|].
    exact (Hcons _ _ (get_some_in _ _ _ Hg0)).
  - intros H. injection H as <- _. exact Ha.
  - destruct (get s c0); intros H; injection H as <- _; exact Ha.
  - destruct (get s c0); intros H; injection H as <- _; exact Ha.
  - intros H. apply fetch_consumer_state in H. destruct H as [->|[cl [grp [Hc [Hg0 [_ [_ ->]]]]]]]; [exact Ha|].
    apply (absent_topic_set _ _ _ _ _ _ Ha Hc). intros -> Hb Hcons. cbn [cl_broker cl_consumer]. split; [exact Hb|].
    intros g1 grp1 Hin. exact (Hcons _ _ (in_remove _ _ _ Hin)).
  - unfold fetch_topic. destruct (get s c0) as [cl|]; [destruct (get (cl_broker cl) t0)|]; intros H; injection H as <- _; exact Ha.
  - unfold fetch_consumers_for_topic. destruct (get s c0); intros H; injection H as <- _; exact Ha.
Qed.

Lemma absent_topic_not_mentioned cf now s r s' rep c t :
  absent_topic s c t -> step cf now s r = Done s' rep -> ~ mentions_topic c t r rep.
Proof.
  intros Ha Hs Hm. apply step_obs in Hs. destruct r; cbn [mentions_topic] in Hm; try contradiction.
  - destruct rep; try contradiction. destruct Hm as [-> Hin].
    rewrite (obs_cluster _ _ s (FetchTopics c) c eq_refl eq_refl) in Hs.
    destruct (get s c) as [cl|] eqn:Hc; cbn [cluster_reply] in Hs; [|discriminate].
    injection Hs as <-. apply get_in_keys in Hin. apply Hin. exact (proj1 (Ha _ Hc)).
  - destruct rep; try contradiction. destruct Hm as [-> Hin].
    rewrite (obs_cluster _ _ s (FetchConsumer c g) c eq_refl eq_refl) in Hs.
    destruct (get s c) as [cl|] eqn:Hc; cbn [cluster_reply] in Hs; [|discriminate].
    destruct (get (cl_consumer cl) g) as [grp|] eqn:Hg; [|discriminate].
    destruct (expired cf now (g_last grp)); [discriminate|].
    destruct (fetch_topics_lags (cl_broker cl) (snap_of grp)) as [l0|] eqn:El; [|discriminate].
    cbn [option_map] in Hs. injection Hs as <-. rewrite (fetch_topics_lags_keys _ _ _ El), keys_snap_of in Hin.
    apply get_in_keys in Hin. apply Hin. exact (proj2 (Ha _ Hc) _ _ (get_some_in _ _ _ Hg)).
  - destruct rep; try contradiction. destruct Hm as [-> ->].
    rewrite (obs_cluster _ _ s (FetchTopic c t) c eq_refl eq_refl) in Hs.
    destruct (get s c) as [cl|] eqn:Hc; cbn [cluster_reply] in Hs; [|discriminate].
    rewrite (proj1 (Ha _ Hc)) in Hs. discriminate.
  - destruct rep; try contradiction. destruct Hm as [-> [-> Hne]].
    rewrite (obs_cluster _ _ s (FetchConsumersForTopic c t) c eq_refl eq_refl) in Hs.
    destruct (get s c) as [cl|] eqn:Hc; cbn [cluster_reply] in Hs; [|discriminate].
    injection Hs as <-. apply Hne. rewrite (filter_has_topic_none _ _ (proj2 (Ha _ Hc))). reflexivity.
Qed.

Theorem absent_topic_stays cf c t h : forall s s' reps,
  absent_topic s c t -> Forall (fun nr => ~ creates_topic c t (snd nr)) h -> run cf s h = Some (s', reps) ->
  absent_topic s' c t /\ Forall2 (fun nr rep => ~ mentions_topic c t (snd nr) rep) h reps.
Proof.
  induction h as [|[now r] rest IH]; intros s s' reps Ha Hf; cbn [run].
  - intros H. injection H as <- <-. split; [exact Ha|constructor].
  - destruct (step cf now s r) as [s1 rep|] eqn:Es; [|discriminate].
    destruct (run cf s1 rest) as [[s2 reps2]|] eqn:Er; [|discriminate].
    intros H. injection H as <- <-. inversion Hf as [|? ? Hr Hrest]; subst. cbn [snd] in Hr.
    destruct (IH _ _ _ (step_absent_topic _ _ _ _ _ _ _ _ Ha Hr Es) Hrest Er) as [Ha' Hm].
    split; [exact Ha'|]. constructor; [|exact Hm]. cbn [snd]. exact (absent_topic_not_mentioned _ _ _ _ _ _ _ _ Ha Es).
Qed.

Lemma absent_after_delete_topic cf now s c t : absent_topic (after cf now s (DeleteTopic c t)) c t.
Proof.
  intros cl. rewrite get_after_delete_topic, Z.eqb_refl. destruct (get s c) as [cl0|]; [|discriminate].
  cbn [option_map]. intros H. injection H as <-. unfold dt_cluster. cbn [cl_broker cl_consumer]. split; [apply get_remove_eq|].
  intros g grp Hin. unfold map_vals in Hin. apply in_map_iff in Hin. destruct Hin as [[g2 grp2] [Heq _]].
  cbn [fst snd] in Heq. injection Heq as _ <-. cbn [dt_group g_topics]. apply get_remove_eq.
Qed.

Theorem deleted_topic_stays_gone cf s0 h1 now c t h2 s reps :
  run cf s0 (h1 ++ (now, DeleteTopic c t) :: h2) = Some (s, reps) ->
  Forall (fun nr => ~ creates_topic c t (snd nr)) h2 ->
  exists reps1 reps2, reps = reps1 ++ RNone :: reps2 /\ length reps1 = length h1 /\
    Forall2 (fun nr rep => ~ mentions_topic c t (snd nr) rep) h2 reps2.
Proof.
  intros Hr Hf. apply run_split in Hr. destruct Hr as [s1 [reps1 [s2 [rep [reps2 [_ [Es [E2 [-> Hl]]]]]]]]].
  destruct (deletion_total cf now s1) as [_ Hd]. rewrite Hd in Es. injection Es as <- <-.
  exists reps1, reps2. split; [reflexivity|]. split; [exact Hl|].
  exact (proj2 (absent_topic_stays _ _ _ _ _ _ _ (absent_after_delete_topic _ _ _ _ _) Hf E2)).
Qed.

(* ------------------------------------------------------------------------------------------ *)
(* 9. C10, storage half                                                                        *)
(* ------------------------------------------------------------------------------------------ *)

(* the three ingestion handlers consult the lists before touching anything *)
Theorem storage_rejected_noop cf now s g :
  cf_accept cf g = false ->
  (forall c t p off order ts, step cf now s (SetConsumerOffset c g t p off order ts) = Done s RNone) /\
  (forall c t p owner client, step cf now s (SetConsumerOwner c g t p owner client) = Done s RNone) /\
  (forall c, step cf now s (ClearConsumerOwners c g) = Done s RNone).
Proof.
  intros Ha. split; [|split]; intros; cbn [step].
  - unfold add_consumer_offset. destruct (get s c); [|reflexivity]. rewrite Ha. cbn [negb].
    destruct (too_old cf now ts); reflexivity.
  - unfold add_consumer_owner. destruct (get s c); [|reflexivity]. rewrite Ha. reflexivity.
  - unfold clear_consumer_owners. destruct (get s c); [|reflexivity]. rewrite Ha. reflexivity.
Qed.

Definition rejected (cf : config) (r : req) : bool :=
  match ingest_group r with Some g => negb (cf_accept cf g) | None => false end.

Lemma rejected_noop cf now s r : rejected cf r = true -> step cf now s r = Done s RNone.
Proof.
  unfold rejected. destruct r; cbn [ingest_group]; try discriminate; intros H; apply negb_true_iff in H;
    apply (storage_rejected_noop cf now s g H).
Qed.

Lemma step_absent_group_rejected cf now s r s' rep c g :
  cf_accept cf g = false -> absent_group s c g -> step cf now s r = Done s' rep -> absent_group s' c g.
Proof.
  intros Hrej Ha Hs.
  assert (Hdec : creates_group c g r \/ ~ creates_group c g r).
  { destruct r; cbn [creates_group]; try (right; tauto);
      (destruct (Z.eq_dec c0 c) as [->|]; [destruct (Z.eq_dec g0 g) as [->|]; [left; auto|right; tauto]|right; tauto]). }
  destruct Hdec as [Hc|Hc]; [|exact (step_absent_group _ _ _ _ _ _ _ _ Ha Hc Hs)].
  assert (Hn : step cf now s r = Done s RNone).
  { apply rejected_noop. unfold rejected. destruct r; cbn [creates_group] in Hc; try contradiction;
      destruct Hc as [_ ->]; cbn [ingest_group]; rewrite Hrej; reflexivity. }
  rewrite Hn in Hs. injection Hs as <- _. exact Ha.
Qed.

Theorem rejected_group_stays_out cf g h : forall s s' reps,
  cf_accept cf g = false -> (forall c, absent_group s c g) -> run cf s h = Some (s', reps) ->
  (forall c, absent_group s' c g) /\ Forall2 (fun nr rep => forall c, ~ mentions_group c g (snd nr) rep) h reps.
Proof.
  induction h as [|[now r] rest IH]; intros s s' reps Hrej Ha; cbn [run].
  - intros H. injection H as <- <-. split; [exact Ha|constructor].
  - destruct (step cf now s r) as [s1 rep|] eqn:Es; [|discriminate].
    destruct (run cf s1 rest) as [[s2 reps2]|] eqn:Er; [|discriminate].
    intros H. injection H as <- <-.
    destruct (IH _ _ _ Hrej (fun c => step_absent_group_rejected _ _ _ _ _ _ c _ Hrej (Ha c) Es) Er) as [Ha' Hm].
    split; [exact Ha'|]. constructor; [|exact Hm]. cbn [snd]. intros c.
    exact (absent_group_not_mentioned _ _ _ _ _ _ _ _ (Ha c) Es).
Qed.

Lemma absent_init cls c g : absent_group (init_state cls) c g.
Proof.
  intros cl Hg. apply get_some_in in Hg. unfold init_state in Hg. apply in_map_iff in Hg.
  destruct Hg as [x [Hx _]]. injection Hx as _ <-. reflexivity.
Qed.

(* a group that the lists reject never enters storage, whichever of the three paths it arrives on, and no listing or
   detail query ever shows it *)
Theorem storage_rejected_never_enters cf cls g h s reps :
  cf_accept cf g = false -> run cf (init_state cls) h = Some (s, reps) ->
  (forall c cl, get s c = Some cl -> get (cl_consumer cl) g = None) /\
  Forall2 (fun nr rep => forall c, ~ mentions_group c g (snd nr) rep) h reps.
Proof.
  intros Hrej Hr. destruct (rejected_group_stays_out _ _ _ _ _ _ Hrej (fun c => absent_init cls c g) Hr) as [Ha Hm].
  split; [intros c cl; exact (Ha c cl)|exact Hm].
Qed.

(* positive half: with the lists switched off *)
Definition no_lists (cf : config) : config :=
  mkConfig (cf_intervals cf) (cf_expire cf) (cf_min_distance cf) (fun _ => true).

Theorem storage_accepted_as_if_no_lists cf now s r :
  rejected cf r = false -> step cf now s r = step (no_lists cf) now s r.
Proof.
  unfold rejected. destruct r; cbn [ingest_group step]; intros H; try reflexivity.
  - apply negb_false_iff in H. unfold add_consumer_offset, too_old, get_consumer_partition, no_lists.
    cbn [cf_intervals cf_expire cf_min_distance cf_accept]. rewrite H. reflexivity.
  - apply negb_false_iff in H. unfold add_consumer_owner, get_consumer_partition, no_lists.
    cbn [cf_intervals cf_expire cf_min_distance cf_accept]. rewrite H. reflexivity.
  - apply negb_false_iff in H. unfold clear_consumer_owners, no_lists.
    cbn [cf_intervals cf_expire cf_min_distance cf_accept]. rewrite H. reflexivity.
Qed.

Definition visible (reps : list reply) : list reply :=
  filter (fun rep => match rep with RNone => false | _ => true end) reps.
Definition keep (cf : config) (nr : Z * req) : bool := negb (rejected cf (snd nr)).
Definition view (x : state * list reply) : state * list reply := (fst x, visible (snd x)).

(* the lists do nothing but drop the ingestion requests of rejected groups: final state and all replies equal those of
   the same storage without lists run on the history with those requests removed *)
Theorem storage_lists_only_filter cf h : forall s,
  option_map view (run cf s h) = option_map view (run (no_lists cf) s (filter (keep cf) h)).
Proof.
  induction h as [|[now r] rest IH]; intros s; [reflexivity|].
  cbn [filter]. unfold keep at 1. cbn [snd]. destruct (rejected cf r) eqn:Erej; cbn [negb].
  - cbn [run]. rewrite (rejected_noop _ now s _ Erej). rewrite <- IH.
    destruct (run cf s rest) as [[s2 reps2]|]; reflexivity.
  - cbn [run]. rewrite <- (storage_accepted_as_if_no_lists cf now s r Erej).
    destruct (step cf now s r) as [s1 rep|]; [|reflexivity]. specialize (IH s1).
    destruct (run cf s1 rest) as [[s2 reps2]|]; destruct (run (no_lists cf) s1 (filter (keep cf) rest)) as [[s3 reps3]|];
      cbn [option_map] in IH |- *; try discriminate IH; [|reflexivity].
    unfold view in IH |- *. cbn [fst snd] in IH |- *. injection IH as -> Hv. unfold visible in Hv |- *. cbn [filter].
    rewrite Hv. reflexivity.
Qed.

(* ------------------------------------------------------------------------------------------ *)
(* 10. Concrete states for the non-vacuity Examples                                            *)
(* ------------------------------------------------------------------------------------------ *)

(* two clusters (1, 2) sharing group names (1, 2) and topic names (1, 2); in cluster 1 group 1 consumes topics 1 and 2,
   group 2 consumes topic 1 only (its last topic, shared with group 1); group 5 is rejected by the lists and arrives on
   all three ingestion paths *)
Definition ex_cf : config := mkConfig 3 1000 0 (fun g => negb (g =? 5)).
Definition ex_now : Z := 1600000000.
Definition ex_ts : Z := 1600000000000.
Definition ex_hist : list (Z * req) :=
  [ (ex_now, SetBrokerOffset 1 1 0 1 100); (ex_now, SetBrokerOffset 1 2 0 1 200);
    (ex_now, SetBrokerOffset 2 1 0 1 100); (ex_now, SetBrokerOffset 2 2 0 1 200);
    (ex_now, SetConsumerOffset 1 1 1 0 90 1 ex_ts); (ex_now, SetConsumerOffset 1 1 2 0 190 1 ex_ts);
    (ex_now, SetConsumerOffset 1 2 1 0 95 1 ex_ts);
    (ex_now, SetConsumerOffset 2 1 1 0 80 1 ex_ts); (ex_now, SetConsumerOffset 2 2 1 0 85 1 ex_ts);
    (ex_now, SetConsumerOffset 1 5 1 0 50 1 ex_ts); (ex_now, SetConsumerOwner 1 5 1 0 1 1);
    (ex_now, ClearConsumerOwners 1 5) ].
Definition ex_state : state :=
  match run ex_cf (init_state [1; 2]) ex_hist with Some (s, _) => s | None => [] end.

Lemma ex_state_reachable : run ex_cf (init_state [1; 2]) ex_hist = Some (ex_state, repeat RNone 12).
Proof. vm_compute. reflexivity. Qed.

Lemma ex_state_wf : wf_state ex_state.
Proof.
  apply (reachable_wf ex_cf [1; 2] ex_hist ex_state (repeat RNone 12)); [|exact ex_state_reachable].
  repeat constructor; cbn; intuition discriminate.
Qed.

Definition ex_names (now : Z) (s : state) (r : req) : list Z := names (obs ex_cf now s r).

Lemma ex_shared_names :
  wf_state ex_state /\
  ex_names ex_now ex_state FetchClusters = [2; 1] /\
  ex_names ex_now ex_state (FetchConsumers 1) = [2; 1] /\ ex_names ex_now ex_state (FetchConsumers 2) = [2; 1] /\
  ex_names ex_now ex_state (FetchTopics 1) = [2; 1] /\ ex_names ex_now ex_state (FetchTopics 2) = [2; 1] /\
  ex_names ex_now ex_state (FetchConsumersForTopic 1 1) = [2; 1] /\
  ex_names ex_now ex_state (FetchConsumer 1 1) = [2; 1] /\ ex_names ex_now ex_state (FetchConsumer 1 2) = [1].
Proof. split; [exact ex_state_wf|]. vm_compute. repeat split; reflexivity. Qed.

Lemma ex_delete_group :
  let s' := after ex_cf ex_now ex_state (DeleteGroup 1 1 0) in
  ex_names ex_now s' (FetchConsumers 1) = [2] /\ ex_names ex_now s' (FetchConsumers 2) = [2; 1] /\
  obs ex_cf ex_now s' (FetchConsumer 1 1) = Some RNil /\
  obs ex_cf ex_now s' (FetchConsumer 2 1) = obs ex_cf ex_now ex_state (FetchConsumer 2 1) /\
  ex_names ex_now s' (FetchConsumer 2 1) = [1] /\
  ex_names ex_now s' (FetchConsumersForTopic 1 1) = [2] /\ ex_names ex_now s' (FetchConsumer 1 2) = [1].
Proof. vm_compute. repeat split; reflexivity. Qed.

Lemma ex_delete_last_topic :
  let s' := after ex_cf ex_now ex_state (DeleteGroup 1 2 1) in
  ex_names ex_now s' (FetchConsumers 1) = [1] /\ obs ex_cf ex_now s' (FetchConsumer 1 2) = Some RNil /\
  ex_names ex_now s' (FetchConsumersForTopic 1 1) = [1] /\ ex_names ex_now s' (FetchConsumer 1 1) = [2; 1] /\
  ex_names ex_now s' (FetchConsumers 2) = [2; 1] /\ ex_names ex_now s' (FetchConsumer 2 2) = [1].
Proof. vm_compute. repeat split; reflexivity. Qed.

Lemma ex_delete_one_of_several :
  let s' := after ex_cf ex_now ex_state (DeleteGroup 1 1 2) in
  has_other_topic ex_state 1 1 2 /\
  ex_names ex_now s' (FetchConsumers 1) = [1; 2] /\ ex_names ex_now s' (FetchConsumer 1 1) = [1] /\
  ex_names ex_now s' (FetchConsumersForTopic 1 2) = [] /\ ex_names ex_now s' (FetchConsumersForTopic 1 1) = [1; 2].
Proof.
  split; [|vm_compute; repeat split; reflexivity].
  unfold has_other_topic. vm_compute. do 2 eexists. exists 1. split; [reflexivity|]. split; [reflexivity|].
  split; discriminate.
Qed.

Lemma ex_delete_topic :
  let s' := after ex_cf ex_now ex_state (DeleteTopic 1 1) in
  ex_names ex_now s' (FetchTopics 1) = [2] /\ ex_names ex_now s' (FetchTopics 2) = [2; 1] /\
  ex_names ex_now s' (FetchConsumers 1) = [2; 1] /\ obs ex_cf ex_now s' (FetchConsumer 1 2) = Some (RConsumer []) /\
  ex_names ex_now s' (FetchConsumer 1 1) = [2] /\ ex_names ex_now s' (FetchConsumersForTopic 1 1) = [] /\
  obs ex_cf ex_now s' (FetchTopic 1 1) = Some RNil /\ ex_names ex_now s' (FetchConsumer 2 1) = [1].
Proof. vm_compute. repeat split; reflexivity. Qed.

Lemma ex_expiry :
  in_i64 ((ex_now + 1001 - cf_expire ex_cf) * 1000) /\
  expired ex_cf (ex_now + 1001) ex_ts = true /\ expired ex_cf (ex_now + 1000) ex_ts = false /\
  too_old ex_cf (ex_now + 1001) ex_ts = true /\ too_old ex_cf (ex_now + 1000) ex_ts = false /\
  obs ex_cf (ex_now + 1001) ex_state (FetchConsumer 1 1) = Some RNil /\
  ex_names (ex_now + 1001) (after ex_cf (ex_now + 1001) ex_state (FetchConsumer 1 1)) (FetchConsumers 1) = [2] /\
  ex_names (ex_now + 1000) ex_state (FetchConsumer 1 1) = [2; 1] /\
  after ex_cf (ex_now + 1000) ex_state (FetchConsumer 1 1) = ex_state.
Proof. split; [unfold in_i64; vm_compute; split; [discriminate|reflexivity]|]. vm_compute. repeat split; reflexivity. Qed.

(* outside the guard of expired_spec / too_old_spec the int64 product wraps: a commit at time 0 counts as expired at clock 0
   when expire-group is 9223372036854776 s although 0 is not below the (negative) mathematical threshold *)
Lemma expiry_guard_needed :
  exists cf now last, expired cf now last = true /\ too_old cf now last = true /\ ~ last < (now - cf_expire cf) * 1000.
Proof.
  exists (mkConfig 1 9223372036854776 0 (fun _ => true)), 0, 0. split; [vm_compute; reflexivity|].
  split; [vm_compute; reflexivity|]. vm_compute. discriminate.
Qed.

Lemma ex_rejected :
  cf_accept ex_cf 5 = false /\ cf_accept ex_cf 1 = true /\
  In (ex_now, SetConsumerOffset 1 5 1 0 50 1 ex_ts) ex_hist /\ In (ex_now, SetConsumerOwner 1 5 1 0 1 1) ex_hist /\
  In (ex_now, ClearConsumerOwners 1 5) ex_hist /\
  obs ex_cf ex_now ex_state (FetchConsumer 1 5) = Some RNil /\ ~ In 5 (ex_names ex_now ex_state (FetchConsumers 1)) /\
  length (filter (keep ex_cf) ex_hist) = 9%nat /\
  option_map fst (run (no_lists ex_cf) (init_state [1; 2]) (filter (keep ex_cf) ex_hist)) = Some ex_state /\
  In 5 (names (obs (no_lists ex_cf) ex_now
                   (match run (no_lists ex_cf) (init_state [1; 2]) ex_hist with Some (s, _) => s | None => [] end)
                   (FetchConsumers 1))).
Proof.
  vm_compute. repeat split; try reflexivity; try tauto.
  intros [H|[H|[]]]; discriminate.
Qed.

(* ------------------------------------------------------------------------------------------ *)
(* 11. Exactness of expiry and of delete-group-topic (after the two repairs), and the accept predicate *)
(* ------------------------------------------------------------------------------------------ *)

(* 11.1 lastCommit is the newest timestamp among the commits the group has stored; it never moves backwards ------------- *)

(* the timestamps of all commits the group currently stores *)
Definition ring_ts (w : ring) : list Z := map co_ts (somes w).
Definition part_ts (pr : cpartition) : list Z := match pr_ring pr with Some w => ring_ts w | None => [] end.
Definition stored_ts (grp : cgroup) : list Z :=
  flat_map (fun tp => flat_map part_ts (snd tp)) (g_topics grp).

(* what a commit does to g_last: raised to the commit's timestamp when the ring stores the commit, else unchanged *)
Theorem g_last_after_commit cf now s c g t p off order ts s' rep cl' grp' :
  step cf now s (SetConsumerOffset c g t p off order ts) = Done s' rep ->
  get s' c = Some cl' -> get (cl_consumer cl') g = Some grp' ->
  exists cl, get s c = Some cl /\
    (g_last grp' = Z.max ts (g_last (grp_or_empty cl g)) \/ g_last grp' = g_last (grp_or_empty cl g)).
Proof.
  cbn [step].
  destruct (add_consumer_offset_shape cf now s c g t p off order ts) as [E|[cl [parts [lst [Hc [_ [_ [_ [Hl E]]]]]]]]];
    rewrite E; intros H; injection H as <- _.
  - intros Hc' Hg'. exists cl'. split; [exact Hc'|]. right. unfold grp_or_empty. rewrite Hg'. reflexivity.
  - rewrite get_set_eq. intros H. injection H as <-. cbn [cl_consumer]. rewrite get_set_eq. intros H. injection H as <-.
    cbn [g_last]. exists cl. split; [exact Hc|]. exact Hl.
Qed.

(* the ring a commit for (g, t, p) is handed to *)
Definition commit_ring (cf : config) (cl : cluster) (g t p : Z) : ring :=
  match pr_ring (nth (Z.to_nat p) (get_consumer_partition cf (grp_or_empty cl g) t p (snd (get_broker_offset cl t p)))
                     empty_partition) with
  | Some w => w
  | None => []
  end.

(* a commit that reaches the ring and is stored by it raises g_last to max(ts, g_last) with ts the ARRIVED commit's own
   timestamp - also when min-distance merges it into the previous slot (the slot keeps the previous timestamp, lastCommit
   does not): so g_last >= ts afterwards *)
Theorem stored_commit_raises_last cf now s c g t p off order ts cl :
  get s c = Some cl -> too_old cf now ts = false -> cf_accept cf g = true -> snd (get_broker_offset cl t p) <> 0 ->
  commit_stored (commit_ring cf cl g t p) order = true ->
  exists parts,
    step cf now s (SetConsumerOffset c g t p off order ts) =
    Done (set s c (mkCluster (cl_broker cl)
                    (set (cl_consumer cl) g (mkCgroup parts (Z.max ts (g_last (grp_or_empty cl g))))))) RNone /\
    ts <= Z.max ts (g_last (grp_or_empty cl g)).
Proof.
  intros Hc Hold Ha Hcnt Hst. cbn [step]. unfold add_consumer_offset. rewrite Hc, Hold, Ha. cbn [negb].
  unfold commit_ring, grp_or_empty in Hst |- *.
  destruct (get_broker_offset cl t p) as [boff cnt] eqn:Hb. cbn [snd] in Hcnt, Hst.
  apply Z.eqb_neq in Hcnt. rewrite Hcnt. cbv zeta.
  match goal with |- context [ring_step ?a ?b ?x ?d] => destruct (ring_step a b x d) as [w' app] end.
  rewrite Hst. eexists. split; [reflexivity|]. apply Z.le_max_l.
Qed.

(* ... for instance with min-distance 5 s: the second commit arrives 0.7 s after the first and is merged into its slot (the ring
   keeps timestamp 1 599 999 300), yet g_last is the second commit's own 1 600 000 000; exactly expire-group later the group is
   still reported, one second later it is purged *)
Definition mg_cf : config := mkConfig 3 1000 5 (fun _ => true).
Definition mg_hist : list (Z * req) :=
  [ (1600000, SetBrokerOffset 1 1 0 1 100);
    (1600000, SetConsumerOffset 1 1 1 0 90 1 1599999300); (1600000, SetConsumerOffset 1 1 1 0 95 2 1600000000) ].
Definition mg_state : state := match run mg_cf (init_state [1]) mg_hist with Some (s, _) => s | None => [] end.

Lemma merged_commit_example :
  (exists cl grp, get mg_state 1 = Some cl /\ get (cl_consumer cl) 1 = Some grp /\
     stored_ts grp = [1599999300] /\ g_last grp = 1600000000) /\
  names (obs mg_cf 1601000 mg_state (FetchConsumer 1 1)) = [1] /\
  obs mg_cf 1601001 mg_state (FetchConsumer 1 1) = Some RNil.
Proof.
  split.
  - destruct (get mg_state 1) as [cl|] eqn:Hc; [|vm_compute in Hc; discriminate].
    destruct (get (cl_consumer cl) 1) as [grp|] eqn:Hg; [|vm_compute in Hc; injection Hc as <-; vm_compute in Hg; discriminate].
    exists cl, grp. split; [reflexivity|]. split; [first [reflexivity|exact Hg]|].
    vm_compute in Hc. injection Hc as <-. vm_compute in Hg. injection Hg as <-. split; reflexivity.
  - split; vm_compute; reflexivity.
Qed.

(* inside the int64 guard a group is answered not-found exactly when g_last is older than the cut-off *)
Theorem purged_iff_last_expired cf now s c g cl grp :
  in_i64 ((now - cf_expire cf) * 1000) ->
  get s c = Some cl -> get (cl_consumer cl) g = Some grp ->
  (obs cf now s (FetchConsumer c g) = Some RNil <-> g_last grp < (now - cf_expire cf) * 1000).
Proof.
  intros Hg Hc Hgr. rewrite <- (expired_spec _ _ _ Hg).
  rewrite (obs_cluster _ _ s (FetchConsumer c g) c eq_refl eq_refl), Hc. cbn [cluster_reply]. rewrite Hgr.
  destruct (expired cf now (g_last grp)); [tauto|]. split; [|discriminate].
  destruct (fetch_topics_lags (cl_broker cl) (snap_of grp)); cbn [option_map]; discriminate.
Qed.

(* g_last never decreases while the group exists, whatever the request *)
Theorem g_last_monotone cf now s r s' rep c g cl grp cl' grp' :
  step cf now s r = Done s' rep ->
  get s c = Some cl -> get (cl_consumer cl) g = Some grp ->
  get s' c = Some cl' -> get (cl_consumer cl') g = Some grp' ->
  g_last grp <= g_last grp'.
Proof.
  intros Hs Hc Hg.
  assert (Hsame : forall cl1, get (set s c cl1) c = Some cl' -> cl' = cl1) by (intros cl1 H; rewrite get_set_eq in H; congruence).
  assert (Hkeep : forall s1, s1 = s -> get s1 c = Some cl' -> get (cl_consumer cl') g = Some grp' -> g_last grp <= g_last grp').
  { intros s1 -> H1 H2. rewrite Hc in H1. injection H1 as <-. rewrite Hg in H2. injection H2 as <-. lia. }
  assert (Hoth : forall s1 c0 cl1, c0 <> c -> s1 = set s c0 cl1 -> get s1 c = Some cl' -> get (cl_consumer cl') g = Some grp' ->
                 g_last grp <= g_last grp').
  { intros s1 c0 cl1 Hne -> H1 H2. rewrite get_set_neq in H1 by exact Hne. rewrite Hc in H1. injection H1 as <-.
    rewrite Hg in H2. injection H2 as <-. lia. }
  assert (Hgoe : forall g0, g0 = g -> g_last (grp_or_empty cl g0) = g_last grp).
  { intros g0 ->. unfold grp_or_empty. rewrite Hg. reflexivity. }
  destruct r; cbn [step] in Hs.
  - destruct (add_broker_offset_shape cf s c0 t p cnt off) as [E|[E|[cl0 [tl [Hc0 E]]]]]; rewrite E in Hs;
      [injection Hs as <- _; apply (Hkeep _ eq_refl)|discriminate|injection Hs as <- _].
    destruct (Z.eq_dec c0 c) as [->|Hne]; [|eapply (Hoth _ _ _ Hne eq_refl)].
    rewrite Hc in Hc0. injection Hc0 as <-. rewrite get_set_eq. intros H. injection H as <-. cbn [cl_consumer].
    rewrite Hg. intros H. injection H as <-. lia.
  - destruct (add_consumer_offset_shape cf now s c0 g0 t p off order ts) as [E|[cl0 [parts [lst [Hc0 [_ [_ [_ [Hl E]]]]]]]]];
      rewrite E in Hs; injection Hs as <- _; [apply (Hkeep _ eq_refl)|].
    destruct (Z.eq_dec c0 c) as [->|Hne]; [|eapply (Hoth _ _ _ Hne eq_refl)].
    rewrite Hc in Hc0. injection Hc0 as <-. rewrite get_set_eq. intros H. injection H as <-. cbn [cl_consumer].
    rewrite get_set. destruct (g0 =? g) eqn:Eg; [|rewrite Hg; intros H; injection H as <-; lia].
    apply Z.eqb_eq in Eg. intros H. injection H as <-. cbn [g_last]. rewrite (Hgoe _ Eg) in Hl. lia.
  - destruct (add_consumer_owner_shape cf s c0 g0 t p owner client) as [E|[cl0 [Hc0 [_ [E|[parts [_ E]]]]]]];
      rewrite E in Hs; injection Hs as <- _; [apply (Hkeep _ eq_refl)| |];
      (destruct (Z.eq_dec c0 c) as [->|Hne]; [|eapply (Hoth _ _ _ Hne eq_refl)]);
      rewrite Hc in Hc0; injection Hc0 as <-; rewrite get_set_eq; intros H; injection H as <-; cbn [cl_consumer];
      rewrite get_set; (destruct (g0 =? g) eqn:Eg; [|rewrite Hg; intros H; injection H as <-; lia]);
      apply Z.eqb_eq in Eg; intros H; injection H as <-; cbn [g_last]; rewrite (Hgoe _ Eg); lia.
  - destruct (clear_consumer_owners_shape cf s c0 g0) as [E|[cl0 [grp0 [Hc0 [_ [Hg0 E]]]]]];
      rewrite E in Hs; injection Hs as <- _; [apply (Hkeep _ eq_refl)|].
    destruct (Z.eq_dec c0 c) as [->|Hne]; [|eapply (Hoth _ _ _ Hne eq_refl)].
    rewrite Hc in Hc0. injection Hc0 as <-. rewrite get_set_eq. intros H. injection H as <-. cbn [cl_consumer].
    rewrite get_set. destruct (g0 =? g) eqn:Eg; [|rewrite Hg; intros H; injection H as <-; lia].
    apply Z.eqb_eq in Eg. subst g0. rewrite Hg in Hg0. injection Hg0 as <-. intros H. injection H as <-. cbn. lia.
  - rewrite delete_topic_eq in Hs. injection Hs as <- _. destruct (Z.eq_dec c0 c) as [->|Hne].
    + rewrite Hc, get_set_eq. intros H. injection H as <-. unfold dt_cluster. cbn [cl_consumer]. rewrite get_map_vals, Hg.
      cbn [option_map]. intros H. injection H as <-. cbn. lia.
    + destruct (get s c0) as [cl0|]; [eapply (Hoth _ _ _ Hne eq_refl)|apply (Hkeep _ eq_refl)].
  - rewrite delete_group_eq in Hs. injection Hs as <- _. destruct (Z.eq_dec c0 c) as [->|Hne].
    + rewrite Hc. destruct (get (cl_consumer cl) g0) eqn:Eg0; [|apply (Hkeep _ eq_refl)].
      rewrite get_set_eq. intros H. injection H as <-. cbn [cl_consumer].
      destruct (Z.eq_dec g g0) as [->|Hng]; [|rewrite get_dg_cons_other by exact Hng; rewrite Hg; intros H; injection H as <-; lia].
      destruct (Z.eq_dec t 0) as [->|Ht0]; [rewrite get_dg_cons_whole; discriminate|].
      rewrite get_dg_cons_topic by exact Ht0. rewrite Hg. destruct (drops (g_topics grp) t); [discriminate|].
      intros H. injection H as <-. cbn. lia.
    + destruct (get s c0) as [cl0|]; [destruct (get (cl_consumer cl0) g0); [eapply (Hoth _ _ _ Hne eq_refl)|apply (Hkeep _ eq_refl)]|apply (Hkeep _ eq_refl)].
  - injection Hs as <- _. apply (Hkeep _ eq_refl).
  - destruct (get s c0); injection Hs as <- _; apply (Hkeep _ eq_refl).
  - destruct (get s c0); injection Hs as <- _; apply (Hkeep _ eq_refl).
  - apply fetch_consumer_state in Hs. destruct Hs as [->|[cl0 [grp0 [Hc0 [Hg0 [_ [_ ->]]]]]]]; [apply (Hkeep _ eq_refl)|].
    destruct (Z.eq_dec c0 c) as [->|Hne]; [|eapply (Hoth _ _ _ Hne eq_refl)].
    rewrite Hc in Hc0. injection Hc0 as <-. rewrite get_set_eq. intros H. injection H as <-. cbn [cl_consumer].
    rewrite get_remove. destruct (g0 =? g); [discriminate|]. rewrite Hg. intros H. injection H as <-. lia.
  - unfold fetch_topic in Hs. destruct (get s c0) as [cl0|]; [destruct (get (cl_broker cl0) t)|]; injection Hs as <- _; apply (Hkeep _ eq_refl).
  - unfold fetch_consumers_for_topic in Hs. destruct (get s c0); injection Hs as <- _; apply (Hkeep _ eq_refl).
Qed.

(* before the repair (documentation; replayed on the real code then, findings/C09.json): lastCommit was overwritten by every
   APPENDED commit, so the first commit of partition 1 (timestamp 1 100 000) after partition 0's (1 900 000) moved it back and
   the group was purged at 2200 s (expire-group 1000 s, cut-off 1 200 000) with a 300 s old commit stored.  The repaired rule
   keeps 1 900 000 and the group is reported. *)
Definition last_commit_before_fix (appended : bool) (ts last : Z) : Z := if appended then ts else last.
Definition lc_cf : config := mkConfig 3 1000 0 (fun _ => true).
Definition lc_hist : list (Z * req) :=
  [ (2000, SetBrokerOffset 1 1 0 2 100); (2000, SetBrokerOffset 1 1 1 2 100);
    (2000, SetConsumerOffset 1 1 1 0 90 1 1900000); (2000, SetConsumerOffset 1 1 1 1 90 1 1100000) ].
Definition lc_state : state := match run lc_cf (init_state [1]) lc_hist with Some (s, _) => s | None => [] end.

Theorem not_expired_but_purged_before_fix :
  expired lc_cf 2200 (last_commit_before_fix true 1100000 (last_commit_before_fix true 1900000 0)) = true /\
  in_i64 ((2200 - cf_expire lc_cf) * 1000) /\
  run lc_cf (init_state [1]) lc_hist = Some (lc_state, repeat RNone 4) /\
  (exists cl grp, get lc_state 1 = Some cl /\ get (cl_consumer cl) 1 = Some grp /\
     In 1900000 (stored_ts grp) /\ ~ 1900000 < (2200 - cf_expire lc_cf) * 1000 /\ g_last grp = 1900000) /\
  names (obs lc_cf 2200 lc_state (FetchConsumer 1 1)) = [1] /\
  In 1 (names (obs lc_cf 2200 (after lc_cf 2200 lc_state (FetchConsumer 1 1)) (FetchConsumers 1))).
Proof.
  split; [vm_compute; reflexivity|]. split; [unfold in_i64; vm_compute; split; [discriminate|reflexivity]|].
  split; [vm_compute; reflexivity|]. split.
  - destruct (get lc_state 1) as [cl|] eqn:Hc; [|vm_compute in Hc; discriminate].
    destruct (get (cl_consumer cl) 1) as [grp|] eqn:Hg; [|vm_compute in Hc; injection Hc as <-; vm_compute in Hg; discriminate].
    exists cl, grp. split; [reflexivity|]. split; [first [reflexivity|exact Hg]|].
    vm_compute in Hc. injection Hc as <-. vm_compute in Hg. injection Hg as <-.
    split; [vm_compute; tauto|]. split; [vm_compute; discriminate|reflexivity].
  - split; [vm_compute; reflexivity|]. vm_compute. tauto.
Qed.

(* 11.2 delete-group-topic for a topic the group does not consume changes nothing ---------------------------------------- *)

Lemma remove_absent {V} (m : amap V) k : get m k = None -> remove m k = m.
Proof.
  unfold remove. induction m as [|[k' v] r IH]; cbn; [reflexivity|]. destruct (k' =? k); [discriminate|].
  intros H. cbn. f_equal. exact (IH H).
Qed.

Theorem delete_foreign_topic_changes_nothing cf now now' s c g t :
  wf_state s -> t <> 0 -> absent_group_topic s c g t ->
  let s' := after cf now s (DeleteGroup c g t) in
  (forall x, In x (names (obs cf now' s' (FetchConsumers c))) <-> In x (names (obs cf now' s (FetchConsumers c)))) /\
  obs cf now' s' (FetchConsumer c g) = obs cf now' s (FetchConsumer c g) /\
  (forall t' x, In x (names (obs cf now' s' (FetchConsumersForTopic c t'))) <->
                In x (names (obs cf now' s (FetchConsumersForTopic c t')))).
Proof.
  intros Hwf Ht Habs s'. destruct (delete_group_topic_listing cf now now' s c g t Hwf Ht) as [_ [Hl Hu]]. fold s' in Hl, Hu.
  split; [|split].
  - intros x. rewrite Hl. split; [tauto|]. intros H. split; [exact H|]. intros _. right. exact Habs.
  - unfold s'. rewrite (obs_after_dg _ _ _ _ _ _ _ (FetchConsumer c g) eq_refl eq_refl).
    rewrite (obs_cluster _ _ s (FetchConsumer c g) c eq_refl eq_refl).
    destruct (get s c) as [cl|] eqn:Hc; [|reflexivity]. cbn [option_map cluster_reply cl_consumer cl_broker].
    rewrite get_dg_cons_topic by exact Ht. destruct (get (cl_consumer cl) g) as [grp|] eqn:Hg; [|reflexivity].
    pose proof (Habs _ _ Hc Hg) as Hnone. unfold drops. rewrite Hnone, andb_false_r, (remove_absent _ _ Hnone).
    destruct grp; reflexivity.
  - intros t' x. destruct (Hu t') as [_ Hx]. rewrite Hx. split; [tauto|]. intros H. split; [exact H|]. intros -> ->.
    rewrite (obs_cluster _ _ s (FetchConsumersForTopic c t) c eq_refl eq_refl) in H.
    destruct (get s c) as [cl|] eqn:Hc; [|contradiction]. cbn [cluster_reply names] in H.
    destruct Hwf as [_ Hall]. destruct (Hall _ _ Hc) as [_ [Hnd _]]. apply (in_for_topic _ _ _ Hnd) in H.
    destruct H as [v [Hv Hne]]. apply Hne. exact (Habs _ _ Hc Hv).
Qed.

(* before the repair (documentation): deleteGroup dropped the group whenever no topic was left after the delete, also when the
   named topic was not one of its topics - an owner-only group without topics was unlisted by deleting a topic it never had *)
Definition delete_group_before_fix (st : state) (c g t : Z) : outcome :=
  match get st c with
  | None => Done st RNone
  | Some cl =>
      match get (cl_consumer cl) g with
      | Some grp =>
          if t =? 0 then Done (set st c (mkCluster (cl_broker cl) (remove (cl_consumer cl) g))) RNone
          else match remove (g_topics grp) t with
               | [] => Done (set st c (mkCluster (cl_broker cl) (remove (cl_consumer cl) g))) RNone
               | tops => Done (set st c (mkCluster (cl_broker cl) (set (cl_consumer cl) g (mkCgroup tops (g_last grp))))) RNone
               end
      | None => Done st RNone
      end
  end.
Definition fg_cf : config := mkConfig 3 1000 0 (fun _ => true).
Definition fg_state : state :=
  match run fg_cf (init_state [1]) [(1600000000, SetConsumerOwner 1 1 7 0 1 1)] with Some (s, _) => s | None => [] end.

Theorem delete_foreign_topic_unlists_group_before_fix :
  run fg_cf (init_state [1]) [(1600000000, SetConsumerOwner 1 1 7 0 1 1)] = Some (fg_state, [RNone]) /\
  absent_group_topic fg_state 1 1 5 /\
  names (obs fg_cf 1600000000 fg_state (FetchConsumers 1)) = [1] /\
  (exists st', delete_group_before_fix fg_state 1 1 5 = Done st' RNone /\
               names (obs fg_cf 1600000000 st' (FetchConsumers 1)) = []) /\
  names (obs fg_cf 1600000000 (after fg_cf 1600000000 fg_state (DeleteGroup 1 1 5)) (FetchConsumers 1)) = [1].
Proof.
  split; [vm_compute; reflexivity|]. split.
  - intros cl grp Hc Hg. vm_compute in Hc. injection Hc as <-. vm_compute in Hg. injection Hg as <-. reflexivity.
  - split; [vm_compute; reflexivity|]. split; [eexists; split; vm_compute; reflexivity|vm_compute; reflexivity].
Qed.

(* 11.3 storage's acceptConsumerGroup as a function of the four booleans (list set?, pattern matches?) ----------------------- *)

(* inmemory.go acceptConsumerGroup, statement by statement *)
Definition storage_accept (a_set a_m d_set d_m : bool) : bool :=
  if a_set && negb a_m then false
  else if d_set && d_m then false
  else true.

Lemma storage_accept_formula a_set a_m d_set d_m :
  storage_accept a_set a_m d_set d_m = (negb a_set || a_m) && negb (d_set && d_m).
Proof. destruct a_set, a_m, d_set, d_m; reflexivity. Qed.

(* all 16 combinations: tracked exactly when it matches the allowlist (if one is set) and not the denylist (if one is set) *)
Theorem storage_accept_spec : forall a_set a_m d_set d_m,
  storage_accept a_set a_m d_set d_m = true <->
  (a_set = true -> a_m = true) /\ (d_set = true -> d_m = false).
Proof. intros [] [] [] []; unfold storage_accept; cbn; intuition congruence. Qed.

(* the storage module whose lists are two patterns: cf_accept is storage_accept of the patterns' verdicts *)
Definition with_lists (cf : config) (a_set : bool) (allow : Z -> bool) (d_set : bool) (deny : Z -> bool) : config :=
  mkConfig (cf_intervals cf) (cf_expire cf) (cf_min_distance cf) (fun g => storage_accept a_set (allow g) d_set (deny g)).

(* for arbitrary match functions of the two patterns: a group that fails the allowlist (when set) or matches the denylist
   (when set) never enters storage and is never shown, on any ingestion path, in any history *)
Theorem storage_lists_enforced cf a_set allow d_set deny cls g h s reps :
  (a_set = true /\ allow g = false) \/ (d_set = true /\ deny g = true) ->
  run (with_lists cf a_set allow d_set deny) (init_state cls) h = Some (s, reps) ->
  (forall c cl, get s c = Some cl -> get (cl_consumer cl) g = None) /\
  Forall2 (fun nr rep => forall c, ~ mentions_group c g (snd nr) rep) h reps.
Proof.
  intros Hrej. apply storage_rejected_never_enters. cbn [with_lists cf_accept].
  destruct (storage_accept a_set (allow g) d_set (deny g)) eqn:E; [|reflexivity].
  apply storage_accept_spec in E. destruct E as [Ea Ed]. destruct Hrej as [[Hs Hm]|[Hs Hm]].
  - rewrite (Ea Hs) in Hm. discriminate.
  - rewrite (Ed Hs) in Hm. discriminate.
Qed.

(* and every other group is processed as if no lists were configured *)
Theorem storage_lists_accepted_unfiltered cf a_set allow d_set deny now s r :
  (forall g, ingest_group r = Some g -> (a_set = true -> allow g = true) /\ (d_set = true -> deny g = false)) ->
  step (with_lists cf a_set allow d_set deny) now s r = step (no_lists cf) now s r.
Proof.
  intros H. rewrite storage_accepted_as_if_no_lists.
  - reflexivity.
  - unfold rejected. destruct (ingest_group r) as [g|]; [|reflexivity]. cbn [with_lists cf_accept].
    apply negb_false_iff. apply storage_accept_spec. apply H. reflexivity.
Qed.

(* ------------------------------------------------------------------------------------------ *)
(* 12. Every stored commit's timestamp is <= g_last: an invariant of step                      *)
(* ------------------------------------------------------------------------------------------ *)

(* 12.1 ring level: a slot of the new ring carries the arriving commit's timestamp or the timestamp of an old slot ---------- *)

Definition pl_ok (r : ring) (p : place) : Prop :=
  match p with
  | PReplace a x b => r = a ++ x :: b
  | PShift a pv b => r = a ++ Some pv :: b
  | PDrop | PAppend => True
  end.

Lemma pl_push y r p : pl_ok r p -> pl_ok (y :: r) (push y p).
Proof. destruct p; cbn; intros H; try exact I; rewrite H; reflexivity. Qed.

Lemma pl_scan r order : pl_ok r (scan r order).
Proof.
  induction r as [|[pv|] below IH]; cbn [scan]; [exact I| |reflexivity].
  destruct (co_order pv <? order); [reflexivity|].
  destruct (co_order pv =? order); [exact I|].
  destruct below as [|y below']; [reflexivity|].
  apply pl_push. exact IH.
Qed.

Lemma pl_find r order : pl_ok r (find_place r order).
Proof.
  unfold find_place. destruct r as [|[nw|] r']; try exact I.
  destruct (last (Some nw :: r') None) as [ol|].
  - destruct (order <=? co_order ol); [exact I|]. destruct (order <=? co_order nw); [apply pl_scan|exact I].
  - destruct (order <=? co_order nw); [apply pl_scan|exact I].
Qed.

Lemma in_tl {A} (x : A) l : In x (tl l) -> In x l.
Proof. destruct l; cbn; auto. Qed.

Lemma in_removelast {A} (x : A) l : In x (removelast l) -> In x l.
Proof.
  induction l as [|a l IH]; cbn; [auto|]. destruct l as [|b l']; [intros []|].
  intros [H|H]; [left; exact H|right; apply IH; exact H].
Qed.

Lemma hd_in {A} (l : list (option A)) x : hd None l = Some x -> In (Some x) l.
Proof. destruct l; cbn; [discriminate|]. intros ->. left. reflexivity. Qed.

Definition ts_from (r : ring) (c : commit) (e : coff) : Prop :=
  co_ts e = cm_ts c \/ exists pv, In (Some pv) r /\ co_ts e = co_ts pv.

Lemma ts_from_old r c e : In (Some e) r -> ts_from r c e.
Proof. intros H. right. exists e. split; [exact H|reflexivity]. Qed.

Lemma store_ts md r p c lag e : pl_ok r p -> In (Some e) (store md r p c lag) -> ts_from r c e.
Proof.
  intros Hok Hin. destruct p as [| |a x b|a pv b]; cbn [store pl_ok] in *.
  - apply ts_from_old. exact Hin.
  - destruct (hd None r) as [pv|] eqn:Eh.
    + destruct (merges md pv c).
      * destruct Hin as [H|H]; [injection H as <-; right; exists pv; split; [apply hd_in; exact Eh|reflexivity]|].
        apply ts_from_old. apply in_tl. exact H.
      * destruct Hin as [H|H]; [injection H as <-; left; reflexivity|]. apply ts_from_old. apply in_removelast. exact H.
    + destruct Hin as [H|H]; [injection H as <-; left; reflexivity|]. apply ts_from_old. apply in_removelast. exact H.
  - subst r. destruct b as [|[pv|] b'].
    + destruct (hd None (a ++ [x])) as [pv|] eqn:Eh.
      * destruct (merges md pv c).
        -- destruct Hin as [H|H]; [injection H as <-; right; exists pv; split; [apply hd_in; exact Eh|reflexivity]|].
           apply ts_from_old. apply in_tl. exact H.
        -- apply in_app_or in Hin. destruct Hin as [H|[H|[]]]; [apply ts_from_old; apply in_or_app; left; exact H|].
           injection H as <-. left. reflexivity.
      * apply in_app_or in Hin. destruct Hin as [H|[H|[]]]; [apply ts_from_old; apply in_or_app; left; exact H|].
        injection H as <-. left. reflexivity.
    + destruct (merges md pv c).
      * apply in_app_or in Hin. destruct Hin as [H|[H|[H|H]]].
        -- apply ts_from_old. apply in_or_app. left. exact H.
        -- apply ts_from_old. apply in_or_app. right. left. exact H.
        -- injection H as <-. right. exists pv. split; [apply in_or_app; right; right; left; reflexivity|reflexivity].
        -- apply ts_from_old. apply in_or_app. right. right. right. exact H.
      * apply in_app_or in Hin. destruct Hin as [H|[H|H]].
        -- apply ts_from_old. apply in_or_app. left. exact H.
        -- injection H as <-. left. reflexivity.
        -- apply ts_from_old. apply in_or_app. right. right. exact H.
    + apply in_app_or in Hin. destruct Hin as [H|[H|H]].
      * apply ts_from_old. apply in_or_app. left. exact H.
      * injection H as <-. left. reflexivity.
      * apply ts_from_old. apply in_or_app. right. right. exact H.
  - subst r. destruct (merges md pv c).
    + apply in_app_or in Hin. destruct Hin as [H|[H|H]].
      * apply ts_from_old. apply in_or_app. left. exact H.
      * injection H as <-. right. exists pv. split; [apply in_or_app; right; left; reflexivity|reflexivity].
      * apply ts_from_old. apply in_or_app. right. right. exact H.
    + apply in_app_or in Hin. destruct Hin as [H|[H|H]].
      * apply ts_from_old. apply in_or_app. left. exact H.
      * injection H as <-. left. reflexivity.
      * apply ts_from_old. apply in_or_app. right. apply in_removelast in H. exact H.
Qed.

Lemma ring_step_ts md w c lag w' app :
  ring_step md w c lag = (w', app) ->
  (commit_stored w (cm_order c) = false -> w' = w) /\
  (forall e, In (Some e) w' -> ts_from w c e).
Proof.
  unfold ring_step, commit_stored. pose proof (pl_find w (cm_order c)) as Hok.
  destruct (find_place w (cm_order c)) as [| |a x b|a pv b] eqn:Ef; intros H; injection H as <- _;
    (split; [intros Hs; try discriminate Hs; reflexivity|]); intros e Hin.
  - apply ts_from_old. exact Hin.
  - exact (store_ts md w PAppend c (Some lag) e Hok Hin).
  - exact (store_ts md w (PReplace a x b) c None e Hok Hin).
  - exact (store_ts md w (PShift a pv b) c None e Hok Hin).
Qed.

(* 12.2 storage level -------------------------------------------------------------------------------------------------------- *)

(* x is the timestamp of a commit stored in some partition of some topic of this topic map *)
Definition tents (tops : amap (list cpartition)) (x : Z) : Prop :=
  exists t parts pr, In (t, parts) tops /\ In pr parts /\ In x (part_ts pr).

Lemma stored_ts_tents grp x : In x (stored_ts grp) <-> tents (g_topics grp) x.
Proof.
  unfold stored_ts, tents. rewrite in_flat_map. split.
  - intros [[t parts] [Hin Hx]]. cbn [snd] in Hx. apply in_flat_map in Hx. destruct Hx as [pr [Hp Hx]]. eauto 6.
  - intros [t [parts [pr [Hin [Hp Hx]]]]]. exists (t, parts). split; [exact Hin|]. cbn [snd]. apply in_flat_map. eauto.
Qed.

Definition grp_ok (grp : cgroup) : Prop := forall x, tents (g_topics grp) x -> x <= g_last grp.
Definition ts_inv (s : state) : Prop :=
  forall c cl g grp, get s c = Some cl -> get (cl_consumer cl) g = Some grp -> grp_ok grp.

Lemma tents_remove tops t x : tents (remove tops t) x -> tents tops x.
Proof. intros [t0 [parts [pr [Hin H]]]]. exists t0, parts, pr. split; [exact (in_remove _ _ _ Hin)|exact H]. Qed.

Lemma tents_set tops t parts' x :
  tents (set tops t parts') x -> (exists pr, In pr parts' /\ In x (part_ts pr)) \/ tents tops x.
Proof.
  intros [t0 [parts [pr [Hin [Hp Hx]]]]]. apply in_set_cases in Hin. destruct Hin as [Heq|Hin].
  - injection Heq as _ ->. left. eauto.
  - right. exists t0, parts, pr. auto.
Qed.

Lemma in_set_nth {A} (l : list A) i v y : In y (set_nth l i v) -> y = v \/ In y l.
Proof.
  revert i. induction l as [|a l IH]; intros i; cbn; [tauto|]. destruct i as [|i]; cbn.
  - intros [H|H]; [left; symmetry; exact H|right; right; exact H].
  - intros [H|H]; [right; left; exact H|]. destruct (IH i H) as [H'|H']; [left; exact H'|right; right; exact H'].
Qed.

Lemma somes_repeat_none {A} n : @somes A (repeat None n) = [].
Proof. unfold somes. induction n; cbn; [reflexivity|exact IHn]. Qed.

Lemma nth_in_or_default_cp (l : list cpartition) i d : In (nth i l d) l \/ nth i l d = d.
Proof. destruct (nth_in_or_default i l d) as [H|H]; [left; exact H|right; exact H]. Qed.

Lemma in_ring_ts w x : In x (ring_ts w) -> exists e, In (Some e) w /\ co_ts e = x.
Proof.
  unfold ring_ts, somes. intros H. apply in_map_iff in H. destruct H as [e [He Hin]]. exists e. split; [|exact He].
  apply in_flat_map in Hin. destruct Hin as [[e'|] [Hw He']]; [|destruct He']. destruct He' as [->|[]]. exact Hw.
Qed.

Lemma ring_ts_in w e : In (Some e) w -> In (co_ts e) (ring_ts w).
Proof.
  intros H. unfold ring_ts, somes. apply in_map. apply in_flat_map. exists (Some e). split; [exact H|left; reflexivity].
Qed.

(* the partitions getConsumerPartition returns are old ones or carry no commit *)
Lemma gcp_parts cf grp t p cnt pr :
  In pr (get_consumer_partition cf grp t p cnt) ->
  part_ts pr = [] \/ exists l0, get (g_topics grp) t = Some l0 /\ In pr l0.
Proof.
  unfold get_consumer_partition. cbv zeta.
  set (l0 := match get (g_topics grp) t with Some l => l | None => [] end).
  set (l1 := if Z.of_nat (length l0) <=? p then l0 ++ repeat empty_partition (Z.to_nat cnt - length l0) else l0).
  assert (H1 : forall q, In q l1 -> part_ts q = [] \/ exists l, get (g_topics grp) t = Some l /\ In q l).
  { intros q Hq. assert (Hq0 : In q l0 \/ q = empty_partition).
    { unfold l1 in Hq. destruct (Z.of_nat (length l0) <=? p); [|left; exact Hq].
      apply in_app_or in Hq. destruct Hq as [Hq|Hq]; [left; exact Hq|right; exact (repeat_spec _ _ _ Hq)]. }
    destruct Hq0 as [Hq0| ->]; [|left; reflexivity].
    unfold l0 in Hq0. destruct (get (g_topics grp) t) as [l|]; [right; exists l; auto|destruct Hq0]. }
  destruct (pr_ring (nth (Z.to_nat p) l1 empty_partition)); [apply H1|].
  intros Hin. apply in_set_nth in Hin. destruct Hin as [->|Hin]; [|apply H1; exact Hin].
  left. unfold part_ts, ring_ts, new_ring. cbn [pr_ring]. rewrite somes_repeat_none. reflexivity.
Qed.

Lemma grp_ok_empty : grp_ok empty_group.
Proof. intros x [t [parts [pr [[] _]]]]. Qed.

Lemma grp_or_empty_ok cl g : (forall g0 grp, get (cl_consumer cl) g0 = Some grp -> grp_ok grp) -> grp_ok (grp_or_empty cl g).
Proof. intros H. unfold grp_or_empty. destruct (get (cl_consumer cl) g) eqn:E; [exact (H _ _ E)|exact grp_ok_empty]. Qed.

Lemma gcp_old_le cf grp t p cnt pr x :
  grp_ok grp -> In pr (get_consumer_partition cf grp t p cnt) -> In x (part_ts pr) -> x <= g_last grp.
Proof.
  intros Hok Hin Hx. destruct (gcp_parts _ _ _ _ _ _ Hin) as [He|[l0 [Hg Hl]]]; [rewrite He in Hx; destruct Hx|].
  apply Hok. exists t, l0, pr. split; [exact (get_some_in _ _ _ Hg)|]. split; assumption.
Qed.

Lemma ts_inv_set s c0 cl' :
  ts_inv s -> (forall g grp, get (cl_consumer cl') g = Some grp -> grp_ok grp) -> ts_inv (set s c0 cl').
Proof.
  intros Hinv Hcl c cl g grp. rewrite get_set. destruct (c0 =? c); [|apply Hinv].
  intros H. injection H as <-. apply Hcl.
Qed.

Lemma cons_set_ok (cons : amap cgroup) g grp' :
  (forall g0 grp, get cons g0 = Some grp -> grp_ok grp) -> grp_ok grp' ->
  forall g0 grp, get (set cons g grp') g0 = Some grp -> grp_ok grp.
Proof.
  intros H Hn g0 grp. rewrite get_set. destruct (g =? g0); [intros E; injection E as <-; exact Hn|apply H].
Qed.

Lemma commit_keeps_ts_inv cf now s c g t p off order ts s' rep :
  ts_inv s -> add_consumer_offset cf now s c g t p off order ts = Done s' rep -> ts_inv s'.
Proof.
  intros Hinv. unfold add_consumer_offset.
  destruct (get s c) as [cl|] eqn:Hc; [|intros H; injection H as <- _; exact Hinv].
  destruct (too_old cf now ts); [intros H; injection H as <- _; exact Hinv|].
  destruct (negb (cf_accept cf g)); [intros H; injection H as <- _; exact Hinv|].
  destruct (get_broker_offset cl t p) as [boff cnt].
  destruct (cnt =? 0); [intros H; injection H as <- _; exact Hinv|].
  cbv zeta.
  assert (Hcl : forall g0 grp, get (cl_consumer cl) g0 = Some grp -> grp_ok grp) by (intros g0 grp; apply (Hinv _ _ _ _ Hc)).
  fold (grp_or_empty cl g). pose proof (grp_or_empty_ok cl g Hcl) as Hgrp.
  set (grp := grp_or_empty cl g) in *.
  set (parts := get_consumer_partition cf grp t p cnt).
  set (pr := nth (Z.to_nat p) parts empty_partition).
  set (w := match pr_ring pr with Some w => w | None => [] end).
  destruct (ring_step (cf_min_distance cf) w (mkCommit off order ts) (commit_lag boff off)) as [w' app] eqn:Ers.
  intros H. injection H as <- _. apply ts_inv_set; [exact Hinv|]. cbn [cl_consumer]. apply cons_set_ok; [exact Hcl|].
  destruct (ring_step_ts _ _ _ _ _ _ Ers) as [Hsame Hfrom]. cbn [cm_order cm_ts] in Hsame, Hfrom.
  assert (Hw : forall y, In y (ring_ts w) -> y <= g_last grp).
  { intros y Hy. unfold w in Hy. destruct (pr_ring pr) as [w0|] eqn:Epr; [|destruct Hy].
    assert (Hyp : In y (part_ts pr)) by (unfold part_ts; rewrite Epr; exact Hy).
    destruct (nth_in_or_default_cp parts (Z.to_nat p) empty_partition) as [Hin|Heq].
    - exact (gcp_old_le cf grp t p cnt pr y Hgrp Hin Hyp).
    - fold pr in Heq. rewrite Heq in Epr. discriminate. }
  assert (Hlast : g_last grp <= (if commit_stored w order then Z.max ts (g_last grp) else g_last grp))
    by (destruct (commit_stored w order); lia).
  intros x Hx. cbn [g_topics g_last] in *. apply tents_set in Hx. destruct Hx as [[pr1 [Hin Hx]]|Hold].
  - apply in_set_nth in Hin. destruct Hin as [->|Hin].
    + unfold part_ts in Hx. cbn [pr_ring] in Hx. apply in_ring_ts in Hx. destruct Hx as [e [He <-]].
      destruct (commit_stored w order) eqn:Est.
      * destruct (Hfrom e He) as [Hts|[pv [Hpv Hts]]]; cbn [cm_ts] in Hts; rewrite Hts; [lia|].
        pose proof (Hw _ (ring_ts_in _ _ Hpv)). lia.
      * rewrite (Hsame eq_refl) in He. exact (Hw _ (ring_ts_in _ _ He)).
    + pose proof (gcp_old_le cf grp t p cnt pr1 x Hgrp Hin Hx). lia.
  - pose proof (Hgrp x Hold). lia.
Qed.

Lemma owner_keeps_ts_inv cf s c g t p owner client s' rep :
  ts_inv s -> add_consumer_owner cf s c g t p owner client = Done s' rep -> ts_inv s'.
Proof.
  intros Hinv. unfold add_consumer_owner.
  destruct (get s c) as [cl|] eqn:Hc; [|intros H; injection H as <- _; exact Hinv].
  destruct (negb (cf_accept cf g)); [intros H; injection H as <- _; exact Hinv|].
  assert (Hcl : forall g0 grp, get (cl_consumer cl) g0 = Some grp -> grp_ok grp) by (intros g0 grp; apply (Hinv _ _ _ _ Hc)).
  cbv zeta. fold (grp_or_empty cl g). pose proof (grp_or_empty_ok cl g Hcl) as Hgrp.
  set (grp := grp_or_empty cl g) in *.
  destruct (get_broker_offset cl t p) as [boff cnt]. destruct (cnt =? 0).
  - intros H. injection H as <- _. apply ts_inv_set; [exact Hinv|]. cbn [cl_consumer]. apply cons_set_ok; assumption.
  - intros H. injection H as <- _. apply ts_inv_set; [exact Hinv|]. cbn [cl_consumer]. apply cons_set_ok; [exact Hcl|].
    set (parts := get_consumer_partition cf grp t p cnt).
    intros x Hx. cbn [g_topics g_last] in *. apply tents_set in Hx. destruct Hx as [[pr1 [Hin Hx]]|Hold]; [|exact (Hgrp x Hold)].
    apply in_set_nth in Hin. destruct Hin as [->|Hin]; [|exact (gcp_old_le cf grp t p cnt pr1 x Hgrp Hin Hx)].
    unfold part_ts in Hx. cbn [pr_ring] in Hx.
    destruct (nth_in_or_default_cp parts (Z.to_nat p) empty_partition) as [Hin|Heq].
    + exact (gcp_old_le cf grp t p cnt _ x Hgrp Hin Hx).
    + rewrite Heq in Hx. destruct Hx.
Qed.

Theorem step_ts_inv cf now s r s' rep : ts_inv s -> step cf now s r = Done s' rep -> ts_inv s'.
Proof.
  intros Hinv. destruct r; cbn [step].
  - destruct (add_broker_offset_shape cf s c t p cnt off) as [E|[E|[cl [tl [Hc E]]]]]; rewrite E; intros H;
      [injection H as <- _; exact Hinv|discriminate|injection H as <- _].
    apply ts_inv_set; [exact Hinv|]. cbn [cl_consumer]. intros g grp. apply (Hinv _ _ _ _ Hc).
  - apply commit_keeps_ts_inv. exact Hinv.
  - apply owner_keeps_ts_inv. exact Hinv.
  - destruct (clear_consumer_owners_shape cf s c g) as [E|[cl [grp0 [Hc [_ [Hg0 E]]]]]];
      rewrite E; intros H; injection H as <- _; [exact Hinv|].
    apply ts_inv_set; [exact Hinv|]. cbn [cl_consumer]. apply cons_set_ok; [intros g0 grp; apply (Hinv _ _ _ _ Hc)|].
    pose proof (Hinv _ _ _ _ Hc Hg0) as Hok. intros x [t [parts [pr [Hin [Hp Hx]]]]].
    unfold clear_owners_group in Hin. cbn [g_topics g_last] in *. unfold map_vals in Hin. apply in_map_iff in Hin.
    destruct Hin as [[t0 parts0] [Heq Hin]]. cbn [fst snd] in Heq. injection Heq as _ <-.
    apply in_map_iff in Hp. destruct Hp as [pr0 [<- Hp0]]. apply Hok. exists t0, parts0, pr0. auto.
  - rewrite delete_topic_eq. intros H. injection H as <- _. destruct (get s c) as [cl|] eqn:Hc; [|exact Hinv].
    apply ts_inv_set; [exact Hinv|]. unfold dt_cluster. cbn [cl_consumer]. intros g grp. rewrite get_map_vals.
    destruct (get (cl_consumer cl) g) as [grp0|] eqn:Hg; [|discriminate]. cbn [option_map]. intros H. injection H as <-.
    intros x Hx. cbn [dt_group g_topics g_last] in *. apply (Hinv _ _ _ _ Hc Hg). exact (tents_remove _ _ _ Hx).
  - rewrite delete_group_eq. intros H. injection H as <- _. destruct (get s c) as [cl|] eqn:Hc; [|exact Hinv].
    destruct (get (cl_consumer cl) g) as [grp0|] eqn:Hg0; [|exact Hinv].
    apply ts_inv_set; [exact Hinv|]. cbn [cl_consumer]. intros g1 grp Hg1.
    destruct (Z.eq_dec g1 g) as [->|Hne]; [|rewrite get_dg_cons_other in Hg1 by exact Hne; exact (Hinv _ _ _ _ Hc Hg1)].
    destruct (Z.eq_dec t 0) as [->|Ht]; [rewrite get_dg_cons_whole in Hg1; discriminate|].
    rewrite get_dg_cons_topic in Hg1 by exact Ht. rewrite Hg0 in Hg1.
    destruct (drops (g_topics grp0) t); [discriminate|]. injection Hg1 as <-.
    intros x Hx. cbn [g_topics g_last] in *. apply (Hinv _ _ _ _ Hc Hg0). exact (tents_remove _ _ _ Hx).
  - intros H. injection H as <- _. exact Hinv.
  - destruct (get s c); intros H; injection H as <- _; exact Hinv.
  - destruct (get s c); intros H; injection H as <- _; exact Hinv.
  - intros H. apply fetch_consumer_state in H. destruct H as [->|[cl [grp [Hc [Hg [_ [_ ->]]]]]]]; [exact Hinv|].
    apply ts_inv_set; [exact Hinv|]. cbn [cl_consumer]. intros g0 grp0. rewrite get_remove.
    destruct (g =? g0); [discriminate|]. apply (Hinv _ _ _ _ Hc).
  - unfold fetch_topic. destruct (get s c) as [cl|]; [destruct (get (cl_broker cl) t)|]; intros H; injection H as <- _; exact Hinv.
  - unfold fetch_consumers_for_topic. destruct (get s c); intros H; injection H as <- _; exact Hinv.
Qed.

Lemma ts_inv_init cls : ts_inv (init_state cls).
Proof.
  intros c cl g grp Hc Hg. apply get_some_in in Hc. unfold init_state in Hc. apply in_map_iff in Hc.
  destruct Hc as [x [Hx _]]. injection Hx as _ <-. discriminate Hg.
Qed.

Theorem run_ts_inv cf h : forall s s' reps, ts_inv s -> run cf s h = Some (s', reps) -> ts_inv s'.
Proof.
  induction h as [|[now r] rest IH]; intros s s' reps Hinv; cbn [run].
  - intros H. injection H as <- _. exact Hinv.
  - destruct (step cf now s r) as [s1 rep|] eqn:Es; [|discriminate].
    destruct (run cf s1 rest) as [[s2 reps2]|] eqn:Er; [|discriminate].
    intros H. injection H as <- _. exact (IH _ _ _ (step_ts_inv _ _ _ _ _ _ Hinv Es) Er).
Qed.

(* in every reachable state every commit a group stores has a timestamp <= the group's g_last *)
Theorem stored_timestamps_below_last cf cls h s reps c cl g grp x :
  run cf (init_state cls) h = Some (s, reps) ->
  get s c = Some cl -> get (cl_consumer cl) g = Some grp -> In x (stored_ts grp) -> x <= g_last grp.
Proof.
  intros Hr Hc Hg Hx. apply (run_ts_inv cf h _ _ _ (ts_inv_init cls) Hr c cl g grp Hc Hg). apply stored_ts_tents. exact Hx.
Qed.

(* a group reported as not found by a fetch stores only commits older than the cut-off: a group with ANY stored commit inside
   the expiry time is never purged *)
Theorem purged_only_if_all_stored_expired cf cls h s reps now c g cl grp :
  run cf (init_state cls) h = Some (s, reps) -> in_i64 ((now - cf_expire cf) * 1000) ->
  get s c = Some cl -> get (cl_consumer cl) g = Some grp ->
  obs cf now s (FetchConsumer c g) = Some RNil ->
  forall x, In x (stored_ts grp) -> x < (now - cf_expire cf) * 1000.
Proof.
  intros Hr Hguard Hc Hg Hnil x Hx.
  pose proof (stored_timestamps_below_last _ _ _ _ _ _ _ _ _ _ Hr Hc Hg Hx) as Hle.
  apply (purged_iff_last_expired cf now s c g cl grp Hguard Hc Hg) in Hnil. lia.
Qed.

(* the converse is false, by design: a commit merged by min-distance keeps its predecessor's timestamp in the ring while the
   group's newest commit time is its own (mg_state: the ring stores only 1 599 999 300, g_last = 1 600 000 000); at clock
   1 601 000 s every STORED timestamp is older than the cut-off 1 600 000 000, yet the group is - rightly - still reported *)
Theorem all_stored_expired_yet_reported :
  exists cf cls h s reps now c g cl grp,
    run cf (init_state cls) h = Some (s, reps) /\ in_i64 ((now - cf_expire cf) * 1000) /\
    get s c = Some cl /\ get (cl_consumer cl) g = Some grp /\
    (forall x, In x (stored_ts grp) -> x < (now - cf_expire cf) * 1000) /\
    obs cf now s (FetchConsumer c g) <> Some RNil.
Proof.
  exists mg_cf, [1], mg_hist, mg_state, (repeat RNone 3), 1601000, 1, 1.
  destruct (get mg_state 1) as [cl|] eqn:Hc; [|vm_compute in Hc; discriminate].
  destruct (get (cl_consumer cl) 1) as [grp|] eqn:Hg; [|vm_compute in Hc; injection Hc as <-; vm_compute in Hg; discriminate].
  exists cl, grp. split; [vm_compute; reflexivity|]. split; [unfold in_i64; vm_compute; split; [discriminate|reflexivity]|].
  split; [reflexivity|]. split; [first [reflexivity|exact Hg]|].
  vm_compute in Hc. injection Hc as <-. vm_compute in Hg. injection Hg as <-.
  split; [|vm_compute; discriminate]. intros x Hx. vm_compute in Hx. destruct Hx as [<-|[]]. vm_compute. reflexivity.
Qed.
