(* C09 (deletion and expiry remove exactly what they name) and the storage half of C10
   (allow/deny lists on every ingestion path), proved over the executable model Burrow.Storage.

   Layout
     1. vocabulary used by the statements ([after], [obs], [names], [wf_state], [mentions_*], [creates_*])
     2. association-list lemmas not in AMapProofs
     3. well-formedness is an invariant of [step] (hence holds in every reachable state)
     4. the deletion handlers at the level of [get]
     5. fetch replies through [get]
     6. C09 one-step theorems: removal and frame for DeleteGroup (whole), DeleteGroup (one topic), DeleteTopic
     7. C09 expiry: lazy purge, not-expired converse, too-old commits, the int64 guards
     8. C09 lifted to histories
     9. C10 storage half
    10. concrete states used by the non-vacuity Examples of props/C09.v and props/C10.v

   All statements about maps go through [get]; listings (Go map iteration order) are compared as sets, and
   [NoDup] of every listing is proved separately so that set equality is multiset equality. *)
From Coq Require Import ZArith List Bool Lia ZifyBool.
From Burrow Require Import Int64 Int64Proofs Eval AMap AMapProofs Ring Storage.
Import ListNotations.
Open Scope Z_scope.

(* ------------------------------------------------------------------------------------------ *)
(* 1. Vocabulary                                                                               *)
(* ------------------------------------------------------------------------------------------ *)

(* the state after a request (a crashed request leaves no state; deletions never crash, see [deletion_total]) *)
Definition after (cf : config) (now : Z) (s : state) (r : req) : state :=
  match step cf now s r with Done s' _ => s' | Crashed => s end.

(* what a request answers *)
Definition obs (cf : config) (now : Z) (s : state) (r : req) : option reply :=
  match step cf now s r with Done _ rep => Some rep | Crashed => None end.

(* the names a reply lists: group names (FetchConsumers, FetchConsumersForTopic), topic names (FetchTopics, and the
   topics of a FetchConsumer detail), cluster names (FetchClusters) *)
Definition names (o : option reply) : list Z :=
  match o with
  | Some (RStrings l) => l
  | Some (RConsumer l) => map fst l
  | _ => []
  end.

Definition is_fetch (r : req) : bool :=
  match r with
  | FetchClusters | FetchConsumers _ | FetchTopics _ | FetchConsumer _ _ | FetchTopic _ _ | FetchConsumersForTopic _ _ => true
  | _ => false
  end.

Definition req_cluster (r : req) : option Z :=
  match r with
  | SetBrokerOffset c _ _ _ _ | SetConsumerOffset c _ _ _ _ _ _ | SetConsumerOwner c _ _ _ _ _ | ClearConsumerOwners c _
  | DeleteTopic c _ | DeleteGroup c _ _ | FetchConsumers c | FetchTopics c | FetchConsumer c _ | FetchTopic c _
  | FetchConsumersForTopic c _ => Some c
  | FetchClusters => None
  end.

(* the group an ingestion request is about (the three handlers that consult the allow/deny lists) *)
Definition ingest_group (r : req) : option Z :=
  match r with
  | SetConsumerOffset _ g _ _ _ _ _ | SetConsumerOwner _ g _ _ _ _ | ClearConsumerOwners _ g => Some g
  | _ => None
  end.

(* no duplicate keys, at every level that can be reached through [get] *)
Definition wf_cluster (cl : cluster) : Prop :=
  NoDup (keys (cl_broker cl)) /\ NoDup (keys (cl_consumer cl)) /\
  forall g grp, get (cl_consumer cl) g = Some grp -> NoDup (keys (g_topics grp)).
Definition wf_state (s : state) : Prop :=
  NoDup (keys s) /\ forall c cl, get s c = Some cl -> wf_cluster cl.

(* a reply "mentions" group g of cluster c / topic t of group g of cluster c / topic t of cluster c *)
Definition mentions_group (c g : Z) (r : req) (rep : reply) : Prop :=
  match r, rep with
  | FetchConsumers c', RStrings l => c' = c /\ In g l
  | FetchConsumersForTopic c' _, RStrings l => c' = c /\ In g l
  | FetchConsumer c' g', RConsumer _ => c' = c /\ g' = g
  | _, _ => False
  end.

Definition mentions_group_topic (c g t : Z) (r : req) (rep : reply) : Prop :=
  match r, rep with
  | FetchConsumer c' g', RConsumer l => c' = c /\ g' = g /\ In t (map fst l)
  | FetchConsumersForTopic c' t', RStrings l => c' = c /\ t' = t /\ In g l
  | _, _ => False
  end.

Definition mentions_topic (c t : Z) (r : req) (rep : reply) : Prop :=
  match r, rep with
  | FetchTopics c', RStrings l => c' = c /\ In t l
  | FetchTopic c' t', RInts _ => c' = c /\ t' = t
  | FetchConsumersForTopic c' t', RStrings l => c' = c /\ t' = t /\ l <> []
  | FetchConsumer c' _, RConsumer l => c' = c /\ In t (map fst l)
  | _, _ => False
  end.

(* the only requests that can (re-)create the item *)
Definition creates_group (c g : Z) (r : req) : Prop :=
  match r with
  | SetConsumerOffset c' g' _ _ _ _ _ | SetConsumerOwner c' g' _ _ _ _ => c' = c /\ g' = g
  | _ => False
  end.
Definition creates_group_topic (c g t : Z) (r : req) : Prop :=
  match r with
  | SetConsumerOffset c' g' t' _ _ _ _ | SetConsumerOwner c' g' t' _ _ _ => c' = c /\ g' = g /\ t' = t
  | _ => False
  end.
Definition creates_topic (c t : Z) (r : req) : Prop :=
  match r with
  | SetBrokerOffset c' t' _ _ _ => c' = c /\ t' = t
  | _ => False
  end.

(* state-level absence *)
Definition absent_group (s : state) (c g : Z) : Prop :=
  forall cl, get s c = Some cl -> get (cl_consumer cl) g = None.
Definition absent_group_topic (s : state) (c g t : Z) : Prop :=
  forall cl grp, get s c = Some cl -> get (cl_consumer cl) g = Some grp -> get (g_topics grp) t = None.
Definition absent_topic (s : state) (c t : Z) : Prop :=
  forall cl, get s c = Some cl ->
    get (cl_broker cl) t = None /\ forall g grp, In (g, grp) (cl_consumer cl) -> get (g_topics grp) t = None.

(* group g of cluster c consumes some topic other than t *)
Definition has_other_topic (s : state) (c g t : Z) : Prop :=
  exists cl grp t', get s c = Some cl /\ get (cl_consumer cl) g = Some grp /\ t' <> t /\ get (g_topics grp) t' <> None.

(* ------------------------------------------------------------------------------------------ *)
(* 2. Association lists                                                                        *)
(* ------------------------------------------------------------------------------------------ *)

Lemma get_some_in {V} (m : amap V) k v : get m k = Some v -> In (k, v) m.
Proof.
  induction m as [|[k' v'] r IH]; cbn; [discriminate|].
  destruct (k' =? k) eqn:E.
  - apply Z.eqb_eq in E. intros H. injection H as ->. subst. left. reflexivity.
  - intros H. right. exact (IH H).
Qed.

Lemma in_keys {V} (m : amap V) k v : In (k, v) m -> In k (keys m).
Proof. intros H. unfold keys. change k with (fst (k, v)). apply in_map. exact H. Qed.

Lemma in_get_nodup {V} (m : amap V) k v : NoDup (keys m) -> In (k, v) m -> get m k = Some v.
Proof.
  induction m as [|[k' v'] r IH]; cbn; [tauto|].
  intros Hnd [Heq|Hin].
  - injection Heq as -> ->. rewrite Z.eqb_refl. reflexivity.
  - inversion Hnd as [|? ? Hni Hnd']; subst.
    destruct (k' =? k) eqn:E.
    + apply Z.eqb_eq in E. subst. exfalso. apply Hni. exact (in_keys _ _ _ Hin).
    + exact (IH Hnd' Hin).
Qed.

Lemma get_none_not_in {V} (m : amap V) k : get m k = None <-> ~ In k (keys m).
Proof.
  rewrite <- get_in_keys. destruct (get m k) as [v|]; split; intros H; try tauto; try discriminate.
Qed.

Lemma nodup_remove {V} (m : amap V) k : NoDup (keys m) -> NoDup (keys (remove m k)).
Proof.
  unfold keys, remove. induction m as [|[k' v] r IH]; cbn; [auto|].
  intros Hnd. inversion Hnd as [|? ? Hni Hnd']; subst.
  destruct (k' =? k); cbn; [apply IH; exact Hnd'|].
  constructor; [|apply IH; exact Hnd'].
  intros Hin. apply Hni. apply (keys_remove r k k'). exact Hin.
Qed.

Lemma nodup_set {V} (m : amap V) k v : NoDup (keys m) -> NoDup (keys (set m k v)).
Proof.
  intros Hnd. unfold set. change (keys ((k, v) :: remove m k)) with (k :: keys (remove m k)).
  constructor; [|apply nodup_remove; exact Hnd].
  intros Hin. apply keys_remove in Hin. tauto.
Qed.

Lemma nodup_map_vals {V W} (f : V -> W) (m : amap V) : NoDup (keys m) -> NoDup (keys (map_vals f m)).
Proof. rewrite keys_map_vals. auto. Qed.

Lemma keys_set {V} (m : amap V) k v x : In x (keys (set m k v)) <-> x = k \/ (In x (keys m) /\ x <> k).
Proof.
  unfold set. change (keys ((k, v) :: remove m k)) with (k :: keys (remove m k)). cbn [In].
  rewrite keys_remove. intuition congruence.
Qed.

Lemma get_set {V} (m : amap V) k k' v : get (set m k v) k' = if k =? k' then Some v else get m k'.
Proof.
  destruct (k =? k') eqn:E.
  - apply Z.eqb_eq in E. subst. apply get_set_eq.
  - apply Z.eqb_neq in E. apply get_set_neq. exact E.
Qed.

Lemma get_remove {V} (m : amap V) k k' : get (remove m k) k' = if k =? k' then None else get m k'.
Proof.
  destruct (k =? k') eqn:E.
  - apply Z.eqb_eq in E. subst. apply get_remove_eq.
  - apply Z.eqb_neq in E. apply get_remove_neq. exact E.
Qed.

Lemma remove_nil_get {V} (m : amap V) k k' : remove m k = [] -> k' <> k -> get m k' = None.
Proof.
  intros Hnil Hne. rewrite <- (get_remove_neq m k k') by auto. rewrite Hnil. reflexivity.
Qed.

Lemma remove_not_nil_other {V} (m : amap V) k : remove m k <> [] -> exists k', k' <> k /\ get m k' <> None.
Proof.
  intros Hne. destruct (remove m k) as [|[k' v] r] eqn:E; [contradiction|].
  exists k'. assert (Hin : In k' (keys (remove m k))) by (rewrite E; left; reflexivity).
  apply keys_remove in Hin. destruct Hin as [Hin Hk]. split; [exact Hk|]. apply get_in_keys. exact Hin.
Qed.

(* listing the keys whose value satisfies a test, through [get] *)
Lemma in_filter_keys {V} (m : amap V) (f : V -> bool) x :
  NoDup (keys m) ->
  (In x (map fst (filter (fun kv => f (snd kv)) m)) <-> exists v, get m x = Some v /\ f v = true).
Proof.
  intros Hnd. split.
  - intros Hin. apply in_map_iff in Hin. destruct Hin as [[k v] [Hk Hin]]. cbn in Hk. subst k.
    apply filter_In in Hin. destruct Hin as [Hin Hf]. cbn in Hf.
    exists v. split; [apply in_get_nodup; assumption|exact Hf].
  - intros [v [Hg Hf]]. apply in_map_iff. exists (x, v). split; [reflexivity|].
    apply filter_In. split; [apply get_some_in; exact Hg|exact Hf].
Qed.

Lemma nodup_filter_keys {V} (m : amap V) (f : Z * V -> bool) : NoDup (keys m) -> NoDup (map fst (filter f m)).
Proof.
  unfold keys. induction m as [|[k v] r IH]; cbn; [auto|].
  intros Hnd. inversion Hnd as [|? ? Hni Hnd']; subst.
  destruct (f (k, v)); cbn; [|apply IH; exact Hnd'].
  constructor; [|apply IH; exact Hnd'].
  intros Hin. apply Hni. apply in_map_iff in Hin. destruct Hin as [[k' v'] [Hk Hin]]. cbn in Hk. subst k'.
  apply filter_In in Hin. destruct Hin as [Hin _]. change k with (fst (k, v')). apply in_map. exact Hin.
Qed.

Lemma in_filter_keys_weak {V} (m : amap V) (f : Z * V -> bool) x :
  In x (map fst (filter f m)) -> In x (keys m).
Proof.
  intros Hin. apply in_map_iff in Hin. destruct Hin as [[k v] [Hk Hin]]. cbn in Hk. subst k.
  apply filter_In in Hin. destruct Hin as [Hin _]. exact (in_keys _ _ _ Hin).
Qed.
