(* Second half of the proofs about the offsets-topic decoder model (continues WireProofs.v).
   C07: metadata_roundtrip, metadata_other_protocol, metadata_tombstone, owner_updates_any_map_order, in_range
   C06: commit_at_most_one, commit_update_wellformed, commit_malformed_skipped *)
From Coq Require Import ZArith List Bool Lia Permutation.
From Burrow Require Import Int64 Int64Proofs Wire WireEnc WireProofs.
Import ListNotations.
Open Scope Z_scope.

(* ------------------------------------------------------------------------------------------ *)
(* C07: group metadata                                                                         *)
(* ------------------------------------------------------------------------------------------ *)

(* what the member decoder makes of a well-formed member *)
Definition conv_member (m : wmember) : member :=
  mkMember (str_val (wm_client_id m)) (str_val (wm_host m)) (amap_of (wm_assignment m)).

Lemma flat_map_map {A B C} (f : B -> list C) (g : A -> B) l :
  flat_map f (map g l) = flat_map (fun x => f (g x)) l.
Proof. induction l; cbn [map flat_map]; [reflexivity|]. rewrite IHl. reflexivity. Qed.

Lemma member_requests_conv g m : member_requests g (conv_member m) = owner_requests g m.
Proof.
  unfold member_requests, owner_requests, conv_member. cbn [m_assignment m_client_host m_client_id].
  destruct (wm_assignment m) as [| |a]; cbn [amap_of asg_topics]; try reflexivity.
  rewrite flat_map_map. reflexivity.
Qed.

Lemma enc_member_nonempty vv m : (1 <= length (enc_member vv m))%nat.
Proof. unfold enc_member. rewrite app_length. pose proof (enc_string_nonempty (wm_id m)). lia. Qed.

Lemma members_loop_enc vv g : forall ms fuel r, (length ms <= fuel)%nat -> Forall member_ok ms ->
  exists al, members_loop true vv g fuel (blen ms) (flat_map (enc_member vv) ms ++ r)
             = Done (flat_map (owner_requests g) ms) al.
Proof.
  induction ms as [|m ms IH]; intros fuel r Hf Hm.
  - destruct fuel; cbn; eauto.
  - destruct fuel; [cbn [length] in Hf; lia|]. cbn [members_loop].
    pose proof (blen_nonneg ms).
    replace (blen (m :: ms) <=? 0) with false by (symmetry; apply Z.leb_gt; rewrite blen_cons; lia).
    inversion Hm as [|? ? Hm1 Hm2]; subst.
    cbn [flat_map]. rewrite <- app_assoc.
    destruct (decode_member_enc vv m (flat_map (enc_member vv) ms ++ r) Hm1) as (al1 & ->).
    replace (blen (m :: ms) - 1) with (blen ms) by (rewrite blen_cons; lia).
    destruct (IH fuel r) as (al2 & ->); auto. { cbn [length] in Hf. lia. }
    change (mkMember (str_val (wm_client_id m)) (str_val (wm_host m)) (amap_of (wm_assignment m)))
      with (conv_member m).
    rewrite member_requests_conv. eauto.
Qed.

Lemma decode_meta_header_enc vv pt gen pr ld sts r :
  str_ok pt -> in_i32 gen -> str_ok pr -> str_ok ld -> in_i64 sts ->
  exists al, decode_meta_header true vv
               (enc_string pt ++ enc_i32 gen ++ enc_string pr ++ enc_string ld
                ++ (if vv >=? 2 then enc_i64 sts else []) ++ r)
             = DOk (str_val pt) r al.
Proof.
  intros Hpt Hgen Hpr Hld Hsts. unfold decode_meta_header.
  step ltac:(apply read_string_enc; auto).
  step ltac:(apply d_i32_enc; auto).
  step ltac:(apply read_string_enc; auto).
  step ltac:(apply read_string_enc; auto).
  destruct (vv >=? 2).
  - step ltac:(apply d_i64_enc; auto). unfold ret. eauto.
  - cbn [app]. unfold ret. eauto.
Qed.

(* the requests a well-formed group-metadata value stands for *)
Definition meta_requests (g : list Z) (v : meta_value) : list request :=
  if bytes_eqb (str_val (mv_ptype v)) str_consumer then
    match mv_members v with
    | [] => [ClearConsumerOwners g]
    | ms => flat_map (owner_requests g) ms
    end
  else [].

Lemma metadata_process accept g vv v o :
  0 <= vv <= 3 -> str_ok g -> meta_ok v ->
  exists al, process_message accept (enc_meta_key g) (enc_meta_value vv v) o
             = Done (if accept (str_val g) then meta_requests (str_val g) v else []) al.
Proof.
  intros Hvv Hg (Hpt & Hgen & Hpr & Hld & Hsts & Hlen & Hms).
  unfold process_message, process_message_gen, enc_meta_key.
  rewrite read_i16_enc by (unfold in_i16; lia).
  change ((2 =? 0) || (2 =? 1)) with false. change (2 =? 2) with true. cbv iota.
  unfold decode_group_metadata.
  rewrite <- (app_nil_r (enc_string g)). rewrite read_string_enc by auto.
  destruct (accept (str_val g)); cbn [negb andb]; [|eauto].
  unfold enc_meta_value.
  match goal with |- context [enc_i16 vv ++ ?x] =>
    destruct (enc_i16_cons vv x) as (a & b & Ev); set (rest := x) in * end.
  assert (Hr : read_i16 (enc_i16 vv ++ rest) = Some (vv, rest)) by (apply read_i16_enc; unfold in_i16; lia).
  rewrite Ev in *. rewrite Hr. subst rest.
  replace ((0 <=? vv) && (vv <=? 3)) with true
    by (symmetry; apply andb_true_iff; split; apply Z.leb_le; lia).
  unfold decode_and_send_metadata.
  destruct (decode_meta_header_enc vv (mv_ptype v) (mv_generation v) (mv_protocol v) (mv_leader v) (mv_state_ts v)
              (enc_i32 (blen (mv_members v)) ++ flat_map (enc_member vv) (mv_members v)))
    as (al1 & ->); auto.
  unfold meta_requests.
  destruct (bytes_eqb (str_val (mv_ptype v)) str_consumer); cbn [negb add_allocs]; [|eauto].
  pose proof (blen_nonneg (mv_members v)).
  rewrite read_i32_enc by (unfold in_i32, two31 in *; lia).
  destruct (mv_members v) as [|m ms] eqn:Em.
  - change (blen (@nil wmember) =? 0) with true. cbv iota. cbn [add_allocs]. eauto.
  - rewrite <- Em in *.
    replace (blen (mv_members v) =? 0) with false
      by (symmetry; apply Z.eqb_neq; rewrite Em, blen_cons; pose proof (blen_nonneg ms); lia).
    rewrite <- (app_nil_r (flat_map (enc_member vv) (mv_members v))).
    destruct (members_loop_enc vv (str_val g) (mv_members v)
                (S (length (flat_map (enc_member vv) (mv_members v) ++ []))) []) as (al2 & ->); auto.
    { rewrite app_nil_r. pose proof (flat_map_length_ge (enc_member vv) (mv_members v) (enc_member_nonempty vv)). lia. }
    cbn [add_allocs]. rewrite Em. eauto.
Qed.

(* For every well-formed group-metadata message - value version 0..3 (rebalance timeout from 1, state timestamp from 2,
   group instance id in 3), any (possibly null or empty) strings of encodable length, any int32 / int64 fields, any
   number of members, each with a null, empty or present assignment of any number of topics (names pairwise distinct
   within one member: the decoder collects them in a map) with any number of partitions, null / empty / present
   subscription and user data - of protocol type "consumer", for a group the reader's lists accept:
   no member => exactly one owner clear; otherwise exactly one owner update per member and assigned
   topic-partition, carrying that member's host and client id (in the order members, topics, partitions). *)
Theorem metadata_roundtrip : forall (accept : list Z -> bool) g vv v o,
  0 <= vv <= 3 -> str_ok g -> meta_ok v ->
  str_val (mv_ptype v) = str_consumer -> accept (str_val g) = true ->
  exists al,
    process_message accept (enc_meta_key g) (enc_meta_value vv v) o
    = Done (match mv_members v with
            | [] => [ClearConsumerOwners (str_val g)]
            | ms => flat_map (owner_requests (str_val g)) ms
            end) al.
Proof.
  intros accept g vv v o Hvv Hg Hv Hpt Ha.
  destruct (metadata_process accept g vv v o Hvv Hg Hv) as (al & E).
  rewrite Ha in E. unfold meta_requests in E. rewrite Hpt in E.
  replace (bytes_eqb str_consumer str_consumer) with true in E by reflexivity.
  eauto.
Qed.

(* any other protocol type (null and empty included) yields nothing *)
Theorem metadata_other_protocol : forall (accept : list Z -> bool) g vv v o,
  0 <= vv <= 3 -> str_ok g -> meta_ok v ->
  str_val (mv_ptype v) <> str_consumer ->
  exists al, process_message accept (enc_meta_key g) (enc_meta_value vv v) o = Done [] al.
Proof.
  intros accept g vv v o Hvv Hg Hv Hpt.
  destruct (metadata_process accept g vv v o Hvv Hg Hv) as (al & E).
  unfold meta_requests in E. rewrite (bytes_eqb_neq _ _ Hpt) in E.
  destruct (accept (str_val g)); eauto.
Qed.

(* a metadata tombstone (empty value) deletes the group - when the reader's lists accept it *)
Theorem metadata_tombstone : forall (accept : list Z -> bool) g o,
  str_ok g ->
  exists al, process_message accept (enc_meta_key g) [] o
             = Done (if accept (str_val g) then [DeleteGroup (str_val g)] else []) al.
Proof.
  intros accept g o Hg.
  unfold process_message, process_message_gen, enc_meta_key.
  rewrite read_i16_enc by (unfold in_i16; lia).
  change ((2 =? 0) || (2 =? 1)) with false. change (2 =? 2) with true. cbv iota.
  unfold decode_group_metadata.
  rewrite <- (app_nil_r (enc_string g)). rewrite read_string_enc by auto.
  destruct (accept (str_val g)); cbn [negb andb]; eauto.
Qed.

(* Go ranges over member.Assignment (a map) in an unspecified order; the model ranges in insertion order.  Whatever
   order each member's map is ranged in, the updates sent are the same up to order. *)
Lemma member_requests_perm g cid host a a' :
  Permutation a a' -> Permutation (member_requests g (mkMember cid host a)) (member_requests g (mkMember cid host a')).
Proof. intros H. unfold member_requests. cbn [m_assignment]. apply Permutation_flat_map. exact H. Qed.

Theorem owner_updates_any_map_order : forall g (ms ms' : list member),
  Forall2 (fun m m' => m_client_id m = m_client_id m' /\ m_client_host m = m_client_host m'
                       /\ Permutation (m_assignment m) (m_assignment m')) ms ms' ->
  Permutation (flat_map (member_requests g) ms) (flat_map (member_requests g) ms').
Proof.
  intros g ms ms' H. induction H as [|m m' ms ms' (Hc & Hh & Hp) _ IH]; cbn [flat_map]; [constructor|].
  apply Permutation_app; [|exact IH].
  destruct m as [c h a], m' as [c' h' a']. cbn [m_client_id m_client_host m_assignment] in *. subst.
  apply member_requests_perm. exact Hp.
Qed.

(* ------------------------------------------------------------------------------------------ *)
(* C07: every integer in a request is a Go int32 / int64; Order is the message's own offset     *)
(* ------------------------------------------------------------------------------------------ *)

Definition req_in_range (o : Z) (r : request) : Prop :=
  match r with
  | SetConsumerOffset _ _ p off ts order => in_i32 p /\ in_i64 off /\ in_i64 ts /\ order = o
  | SetConsumerOwner _ _ p _ _ => in_i32 p
  | _ => True
  end.

Ltac binv H :=
  let a := fresh "a" in let r := fresh "r" in let al1 := fresh "al" in let al2 := fresh "al" in
  let H1 := fresh "B" in let E := fresh "E" in
  apply bind_ok_inv in H; destruct H as (a & r & al1 & al2 & H1 & H & E).

Lemma d_i32_range b x r al : d_i32 b = DOk x r al -> in_i32 x.
Proof.
  unfold d_i32, of_read. destruct (read_i32 b) as [[y r']|] eqn:E; [|discriminate].
  intros H; inversion H; subst. eapply read_i32_range; eauto.
Qed.
Lemma d_i64_range b x r al : d_i64 b = DOk x r al -> in_i64 x.
Proof.
  unfold d_i64, of_read. destruct (read_i64 b) as [[y r']|] eqn:E; [|discriminate].
  intros H; inversion H; subst. eapply read_i64_range; eauto.
Qed.

Lemma parts_loop_range : forall fuel count b ps r al,
  parts_loop fuel count b = DOk ps r al -> Forall in_i32 ps.
Proof.
  induction fuel; intros count b ps r al H; cbn [parts_loop] in H.
  - destruct (count <=? 0); [|discriminate]. inversion H; subst. constructor.
  - destruct (count <=? 0); [inversion H; subst; constructor|].
    binv H. binv H. unfold ret in H. inversion H; subst.
    constructor; [eapply d_i32_range; eauto | eapply IHfuel; eauto].
Qed.

Definition amap_ok (m : amap) : Prop := Forall (fun kv => Forall in_i32 (snd kv)) m.

Lemma amap_set_ok k v m : Forall in_i32 v -> amap_ok m -> amap_ok (amap_set k v m).
Proof.
  intros Hv. induction m as [|[k' v'] m IH]; intros Hm; cbn [amap_set].
  - constructor; auto.
  - inversion Hm; subst. destruct (bytes_eqb k k'); constructor; auto. apply IH; auto.
Qed.

Lemma topics_loop_range bd : forall fuel count m b m' r al,
  amap_ok m -> topics_loop bd fuel count m b = DOk m' r al -> amap_ok m'.
Proof.
  induction fuel; intros count m b m' r al Hm H; cbn [topics_loop] in H.
  - destruct (count <=? 0); [|discriminate]. inversion H; subst. exact Hm.
  - destruct (count <=? 0); [inversion H; subst; exact Hm|].
    binv H. binv H. binv H. unfold parts_block in B1. binv B1.
    eapply IHfuel; [|exact H]. apply amap_set_ok; auto. eapply parts_loop_range; eauto.
Qed.

Lemma decode_assignment_range bd b m r al : decode_assignment bd b = DOk m r al -> amap_ok m.
Proof.
  unfold decode_assignment. intros H. binv H. binv H. binv H. binv H. binv H.
  unfold ret in H. inversion H; subst.
  eapply topics_loop_range; [|exact B1]. constructor.
Qed.

Lemma decode_assignment_bytes_range bd ab b m r al : decode_assignment_bytes bd ab b = DOk m r al -> amap_ok m.
Proof.
  unfold decode_assignment_bytes. destruct (next ab b) as [ad rest al0|al0|w]; try discriminate.
  match goal with |- context [match ?d ad with _ => _ end] => destruct (d ad) as [m0 r0 al1|al1|w] eqn:E end;
    try discriminate.
  intros H; inversion H; subst. binv E.
  destruct (a <? 0); [discriminate|]. eapply decode_assignment_range; eauto.
Qed.

Lemma decode_member_range bd vv b m r al : decode_member bd vv b = DOk m r al -> amap_ok (m_assignment m).
Proof.
  unfold decode_member. intros H. do 10 binv H. unfold ret in H. inversion H; subst. cbn [m_assignment].
  destruct (a7 >? 0).
  - eapply decode_assignment_bytes_range; eauto.
  - unfold ret in B8. inversion B8; subst. constructor.
Qed.

Lemma member_requests_range o g m : amap_ok (m_assignment m) -> Forall (req_in_range o) (member_requests g m).
Proof.
  intros Hm. unfold member_requests. apply Forall_forall. intros rq Hr.
  apply in_flat_map in Hr. destruct Hr as (tp & Ht & Hr). apply in_map_iff in Hr. destruct Hr as (p & <- & Hp).
  cbn [req_in_range]. unfold amap_ok in Hm. rewrite Forall_forall in Hm. specialize (Hm tp Ht).
  rewrite Forall_forall in Hm. auto.
Qed.

Lemma members_loop_range o bd vv g : forall fuel count b,
  oall (req_in_range o) (members_loop bd vv g fuel count b).
Proof.
  induction fuel; intros count b; cbn [members_loop].
  - destruct (count <=? 0); cbn [oall]; auto.
  - destruct (count <=? 0); [cbn [oall]; auto|].
    destruct (decode_member bd vv b) as [m r al|al|w] eqn:E; cbn [oall]; auto.
    specialize (IHfuel (count - 1) r).
    destruct (members_loop bd vv g fuel (count - 1) r); cbn [oall] in *; auto.
    apply Forall_app. split; auto. apply member_requests_range. eapply decode_member_range; eauto.
Qed.

Lemma decode_group_metadata_range o bd macc accept kr value :
  oall (req_in_range o) (decode_group_metadata bd macc accept kr value).
Proof.
  unfold decode_group_metadata.
  destruct (read_string bd kr) as [g r al|al|w]; cbn [oall]; auto.
  destruct (macc && negb (accept g)); cbn [oall]; auto.
  destruct value as [|v0 value']; [cbn [oall]; repeat constructor|].
  destruct (read_i16 (v0 :: value')) as [[vv vr]|]; cbn [oall]; auto.
  destruct ((0 <=? vv) && (vv <=? 3)); cbn [oall]; auto.
  unfold decode_and_send_metadata.
  destruct (decode_meta_header bd vv vr) as [pt r' al'|al'|w]; cbn [add_allocs oall]; auto.
  destruct (negb (bytes_eqb pt str_consumer)); cbn [add_allocs oall]; auto.
  destruct (read_i32 r') as [[mc r'']|]; cbn [add_allocs oall]; auto.
  destruct (mc =? 0); [cbn [add_allocs oall]; repeat constructor|].
  pose proof (members_loop_range o bd vv g (S (length r'')) mc r'') as L.
  destruct (members_loop bd vv g (S (length r'')) mc r''); cbn [add_allocs oall] in *; auto.
Qed.

Lemma decode_offset_value_v0_range bd b off ts r al :
  decode_offset_value_v0 bd b = DOk (off, ts) r al -> in_i64 off /\ in_i64 ts.
Proof.
  unfold decode_offset_value_v0. intros H. do 3 binv H. unfold ret in H. inversion H; subst.
  split; eapply d_i64_range; eauto.
Qed.
Lemma decode_offset_value_v3_range bd b off ts r al :
  decode_offset_value_v3 bd b = DOk (off, ts) r al -> in_i64 off /\ in_i64 ts.
Proof.
  unfold decode_offset_value_v3. intros H. do 4 binv H. unfold ret in H. inversion H; subst.
  split; eapply d_i64_range; eauto.
Qed.

Lemma decode_key_and_offset_range o bd accept kr value :
  oall (req_in_range o) (decode_key_and_offset bd accept kr value o).
Proof.
  unfold decode_key_and_offset.
  destruct (decode_offset_key bd kr) as [[[g t] p] r al|al|w] eqn:Ek; cbn [oall]; auto.
  assert (Hp : in_i32 p).
  { unfold decode_offset_key in Ek. do 3 binv Ek. unfold ret in Ek. inversion Ek; subst. eapply d_i32_range; eauto. }
  destruct (negb (accept g)); cbn [oall]; auto.
  destruct value as [|v0 value']; [cbn [oall]; auto|].
  destruct (read_i16 (v0 :: value')) as [[vv vr]|]; cbn [oall]; auto.
  destruct ((vv =? 0) || (vv =? 1)).
  { unfold send_offset. destruct (decode_offset_value_v0 bd vr) as [[off ts] r' al'|al'|w] eqn:Ev; cbn [oall]; auto.
    apply decode_offset_value_v0_range in Ev. constructor; [|constructor]. cbn [req_in_range]. tauto. }
  destruct (vv =? 3); [|cbn [oall]; auto].
  unfold send_offset. destruct (decode_offset_value_v3 bd vr) as [[off ts] r' al'|al'|w] eqn:Ev; cbn [oall]; auto.
  apply decode_offset_value_v3_range in Ev. constructor; [|constructor]. cbn [req_in_range]. tauto.
Qed.

(* Whatever the bytes: every partition in a request is an int32, every offset and timestamp an int64 (what the
   storage layer's arithmetic assumes, C01), and the Order of an offset update is the message's own offset. *)
Theorem in_range : forall (accept : list Z -> bool) key value o rs al,
  process_message accept key value o = Done rs al -> Forall (req_in_range o) rs.
Proof.
  intros accept key value o rs al H.
  assert (L : oall (req_in_range o) (process_message accept key value o)).
  { unfold process_message, process_message_gen.
    destruct (read_i16 key) as [[kv kr]|]; [|cbn [oall]; auto].
    destruct ((kv =? 0) || (kv =? 1)). { apply decode_key_and_offset_range. }
    destruct (kv =? 2); [|cbn [oall]; auto]. apply decode_group_metadata_range. }
  rewrite H in L. exact L.
Qed.
