(* Second half of the proofs about the offsets-topic decoder model (continues WireProofs.v).
   C07: metadata_roundtrip, metadata_other_protocol, metadata_tombstone, owner_updates_any_map_order, in_range
   C06: commit_at_most_one, commit_update_wellformed, commit_malformed_skipped *)
From Coq Require Import ZArith List Bool Lia Permutation.
From Coq Require String.
From Burrow Require Import Int64 Int64Proofs Wire WireEnc WireProofs.
Import ListNotations.
Open Scope Z_scope.

(* ------------------------------------------------------------------------------------------ *)
(* C07: group metadata                                                                         *)
(* ------------------------------------------------------------------------------------------ *)

(* what the member decoder makes of a well-formed member *)
Definition conv_member (m : wmember) : member :=
  mkMember (str_val (wm_client_id m)) (str_val (wm_host m)) (amap_of (wm_assignment m)).

Lemma flat_map_map {A B C} (f : B -> list C) (g : A -> B) l :
  flat_map f (map g l) = flat_map (fun x => f (g x)) l.
Proof. induction l; cbn [map flat_map]; [reflexivity|]. rewrite IHl. reflexivity. Qed.

Lemma member_requests_conv g m : member_requests g (conv_member m) = owner_requests g m.
Proof.
  unfold member_requests, owner_requests, conv_member. cbn [m_assignment m_client_host m_client_id].
  destruct (wm_assignment m) as [| |a]; cbn [amap_of asg_topics]; try reflexivity.
  rewrite flat_map_map. reflexivity.
Qed.

Lemma enc_member_nonempty vv m : (1 <= length (enc_member vv m))%nat.
Proof. unfold enc_member. rewrite app_length. pose proof (enc_string_nonempty (wm_id m)). lia. Qed.

Lemma members_loop_enc vv g : forall ms fuel r, (length ms <= fuel)%nat -> Forall member_ok ms ->
  exists al, members_loop true vv g fuel (blen ms) (flat_map (enc_member vv) ms ++ r)
             = Done (flat_map (owner_requests g) ms) al.
Proof.
  induction ms as [|m ms IH]; intros fuel r Hf Hm.
  - destruct fuel; cbn; eauto.
  - destruct fuel; [cbn [length] in Hf; lia|]. cbn [members_loop].
    pose proof (blen_nonneg ms).
    replace (blen (m :: ms) <=? 0) with false by (symmetry; apply Z.leb_gt; rewrite blen_cons; lia).
    inversion Hm as [|? ? Hm1 Hm2]; subst.
    cbn [flat_map]. rewrite <- app_assoc.
    destruct (decode_member_enc vv m (flat_map (enc_member vv) ms ++ r) Hm1) as (al1 & ->).
    replace (blen (m :: ms) - 1) with (blen ms) by (rewrite blen_cons; lia).
    destruct (IH fuel r) as (al2 & ->); auto. { cbn [length] in Hf. lia. }
    change (mkMember (str_val (wm_client_id m)) (str_val (wm_host m)) (amap_of (wm_assignment m)))
      with (conv_member m).
    rewrite member_requests_conv. eauto.
Qed.

Lemma decode_meta_header_enc vv pt gen pr ld sts r :
  str_ok pt -> in_i32 gen -> str_ok pr -> str_ok ld -> in_i64 sts ->
  exists al, decode_meta_header true vv
               (enc_string pt ++ enc_i32 gen ++ enc_string pr ++ enc_string ld
                ++ (if vv >=? 2 then enc_i64 sts else []) ++ r)
             = DOk (str_val pt) r al.
Proof.
  intros Hpt Hgen Hpr Hld Hsts. unfold decode_meta_header.
  step ltac:(apply read_string_enc; auto).
  step ltac:(apply d_i32_enc; auto).
  step ltac:(apply read_string_enc; auto).
  step ltac:(apply read_string_enc; auto).
  destruct (vv >=? 2).
  - step ltac:(apply d_i64_enc; auto). unfold ret. eauto.
  - cbn [app]. unfold ret. eauto.
Qed.

(* the requests a well-formed group-metadata value stands for *)
Definition meta_requests (g : list Z) (v : meta_value) : list request :=
  if bytes_eqb (str_val (mv_ptype v)) str_consumer then
    match mv_members v with
    | [] => [ClearConsumerOwners g]
    | ms => flat_map (owner_requests g) ms
    end
  else [].

Lemma metadata_process accept g vv v o :
  0 <= vv <= 3 -> str_ok g -> meta_ok v ->
  exists al, process_message accept (enc_meta_key g) (enc_meta_value vv v) o
             = Done (if accept (str_val g) then meta_requests (str_val g) v else []) al.
Proof.
  intros Hvv Hg (Hpt & Hgen & Hpr & Hld & Hsts & Hlen & Hms).
  unfold process_message, process_message_gen, enc_meta_key.
  rewrite read_i16_enc by (unfold in_i16; lia).
  change ((2 =? 0) || (2 =? 1)) with false. change (2 =? 2) with true. cbv iota.
  unfold decode_group_metadata.
  rewrite <- (app_nil_r (enc_string g)). rewrite read_string_enc by auto.
  destruct (accept (str_val g)); cbn [negb andb]; [|eauto].
  unfold enc_meta_value.
  match goal with |- context [enc_i16 vv ++ ?x] =>
    destruct (enc_i16_cons vv x) as (a & b & Ev); set (rest := x) in * end.
  assert (Hr : read_i16 (enc_i16 vv ++ rest) = Some (vv, rest)) by (apply read_i16_enc; unfold in_i16; lia).
  rewrite Ev in *. rewrite Hr. subst rest.
  replace ((0 <=? vv) && (vv <=? 3)) with true
    by (symmetry; apply andb_true_iff; split; apply Z.leb_le; lia).
  unfold decode_and_send_metadata.
  destruct (decode_meta_header_enc vv (mv_ptype v) (mv_generation v) (mv_protocol v) (mv_leader v) (mv_state_ts v)
              (enc_i32 (blen (mv_members v)) ++ flat_map (enc_member vv) (mv_members v)))
    as (al1 & ->); auto.
  unfold meta_requests.
  destruct (bytes_eqb (str_val (mv_ptype v)) str_consumer); cbn [negb add_allocs]; [|eauto].
  pose proof (blen_nonneg (mv_members v)).
  rewrite read_i32_enc by (unfold in_i32, two31 in *; lia).
  destruct (mv_members v) as [|m ms] eqn:Em.
  - change (blen (@nil wmember) =? 0) with true. cbv iota. cbn [add_allocs]. eauto.
  - rewrite <- Em in *.
    replace (blen (mv_members v) =? 0) with false
      by (symmetry; apply Z.eqb_neq; rewrite Em, blen_cons; pose proof (blen_nonneg ms); lia).
    rewrite <- (app_nil_r (flat_map (enc_member vv) (mv_members v))).
    destruct (members_loop_enc vv (str_val g) (mv_members v)
                (S (length (flat_map (enc_member vv) (mv_members v) ++ []))) []) as (al2 & ->); auto.
    { rewrite app_nil_r. pose proof (flat_map_length_ge (enc_member vv) (mv_members v) (enc_member_nonempty vv)). lia. }
    cbn [add_allocs]. rewrite Em. eauto.
Qed.

(* For every well-formed group-metadata message - value version 0..3 (rebalance timeout from 1, state timestamp from 2,
   group instance id in 3), any (possibly null or empty) strings of encodable length, any int32 / int64 fields, any
   number of members, each with a null, empty or present assignment of any number of topics (names pairwise distinct
   within one member: the decoder collects them in a map) with any number of partitions, null / empty / present
   subscription and user data - of protocol type "consumer", for a group the reader's lists accept:
   no member => exactly one owner clear; otherwise exactly one owner update per member and assigned
   topic-partition, carrying that member's host and client id (in the order members, topics, partitions). *)
Theorem metadata_roundtrip : forall (accept : list Z -> bool) g vv v o,
  0 <= vv <= 3 -> str_ok g -> meta_ok v ->
  str_val (mv_ptype v) = str_consumer -> accept (str_val g) = true ->
  exists al,
    process_message accept (enc_meta_key g) (enc_meta_value vv v) o
    = Done (match mv_members v with
            | [] => [ClearConsumerOwners (str_val g)]
            | ms => flat_map (owner_requests (str_val g)) ms
            end) al.
Proof.
  intros accept g vv v o Hvv Hg Hv Hpt Ha.
  destruct (metadata_process accept g vv v o Hvv Hg Hv) as (al & E).
  rewrite Ha in E. unfold meta_requests in E. rewrite Hpt in E.
  replace (bytes_eqb str_consumer str_consumer) with true in E by reflexivity.
  eauto.
Qed.

(* any other protocol type (null and empty included) yields nothing *)
Theorem metadata_other_protocol : forall (accept : list Z -> bool) g vv v o,
  0 <= vv <= 3 -> str_ok g -> meta_ok v ->
  str_val (mv_ptype v) <> str_consumer ->
  exists al, process_message accept (enc_meta_key g) (enc_meta_value vv v) o = Done [] al.
Proof.
  intros accept g vv v o Hvv Hg Hv Hpt.
  destruct (metadata_process accept g vv v o Hvv Hg Hv) as (al & E).
  unfold meta_requests in E. rewrite (bytes_eqb_neq _ _ Hpt) in E.
  destruct (accept (str_val g)); eauto.
Qed.

(* a metadata tombstone (empty value) deletes the group - when the reader's lists accept it *)
Theorem metadata_tombstone : forall (accept : list Z -> bool) g o,
  str_ok g ->
  exists al, process_message accept (enc_meta_key g) [] o
             = Done (if accept (str_val g) then [DeleteGroup (str_val g)] else []) al.
Proof.
  intros accept g o Hg.
  unfold process_message, process_message_gen, enc_meta_key.
  rewrite read_i16_enc by (unfold in_i16; lia).
  change ((2 =? 0) || (2 =? 1)) with false. change (2 =? 2) with true. cbv iota.
  unfold decode_group_metadata.
  rewrite <- (app_nil_r (enc_string g)). rewrite read_string_enc by auto.
  destruct (accept (str_val g)); cbn [negb andb]; eauto.
Qed.

(* Go ranges over member.Assignment (a map) in an unspecified order; the model ranges in insertion order.  Whatever
   order each member's map is ranged in, the updates sent are the same up to order. *)
Lemma member_requests_perm g cid host a a' :
  Permutation a a' -> Permutation (member_requests g (mkMember cid host a)) (member_requests g (mkMember cid host a')).
Proof. intros H. unfold member_requests. cbn [m_assignment]. apply Permutation_flat_map. exact H. Qed.

Theorem owner_updates_any_map_order : forall g (ms ms' : list member),
  Forall2 (fun m m' => m_client_id m = m_client_id m' /\ m_client_host m = m_client_host m'
                       /\ Permutation (m_assignment m) (m_assignment m')) ms ms' ->
  Permutation (flat_map (member_requests g) ms) (flat_map (member_requests g) ms').
Proof.
  intros g ms ms' H. induction H as [|m m' ms ms' (Hc & Hh & Hp) _ IH]; cbn [flat_map]; [constructor|].
  apply Permutation_app; [|exact IH].
  destruct m as [c h a], m' as [c' h' a']. cbn [m_client_id m_client_host m_assignment] in *. subst.
  apply member_requests_perm. exact Hp.
Qed.

(* ------------------------------------------------------------------------------------------ *)
(* C07: every integer in a request is a Go int32 / int64; Order is the message's own offset     *)
(* ------------------------------------------------------------------------------------------ *)

Definition req_in_range (o : Z) (r : request) : Prop :=
  match r with
  | SetConsumerOffset _ _ p off ts order => in_i32 p /\ in_i64 off /\ in_i64 ts /\ order = o
  | SetConsumerOwner _ _ p _ _ => in_i32 p
  | _ => True
  end.

Ltac binv H :=
  let a := fresh "a" in let r := fresh "r" in let al1 := fresh "al" in let al2 := fresh "al" in
  let H1 := fresh "B" in let E := fresh "E" in
  apply bind_ok_inv in H; destruct H as (a & r & al1 & al2 & H1 & H & E).

Lemma d_i32_range b x r al : d_i32 b = DOk x r al -> in_i32 x.
Proof.
  unfold d_i32, of_read. destruct (read_i32 b) as [[y r']|] eqn:E; [|discriminate].
  intros H; inversion H; subst. eapply read_i32_range; eauto.
Qed.
Lemma d_i64_range b x r al : d_i64 b = DOk x r al -> in_i64 x.
Proof.
  unfold d_i64, of_read. destruct (read_i64 b) as [[y r']|] eqn:E; [|discriminate].
  intros H; inversion H; subst. eapply read_i64_range; eauto.
Qed.

Lemma parts_loop_range : forall fuel count b ps r al,
  parts_loop fuel count b = DOk ps r al -> Forall in_i32 ps.
Proof.
  induction fuel; intros count b ps r al H; cbn [parts_loop] in H.
  - destruct (count <=? 0); [|discriminate]. inversion H; subst. constructor.
  - destruct (count <=? 0); [inversion H; subst; constructor|].
    binv H. binv H. unfold ret in H. inversion H; subst.
    constructor; [eapply d_i32_range; eauto | eapply IHfuel; eauto].
Qed.

Definition amap_ok (m : amap) : Prop := Forall (fun kv => Forall in_i32 (snd kv)) m.

Lemma amap_set_ok k v m : Forall in_i32 v -> amap_ok m -> amap_ok (amap_set k v m).
Proof.
  intros Hv. induction m as [|[k' v'] m IH]; intros Hm; cbn [amap_set].
  - constructor; auto.
  - inversion Hm; subst. destruct (bytes_eqb k k'); constructor; auto. apply IH; auto.
Qed.

Lemma topics_loop_range bd : forall fuel count m b m' r al,
  amap_ok m -> topics_loop bd fuel count m b = DOk m' r al -> amap_ok m'.
Proof.
  induction fuel; intros count m b m' r al Hm H; cbn [topics_loop] in H.
  - destruct (count <=? 0); [|discriminate]. inversion H; subst. exact Hm.
  - destruct (count <=? 0); [inversion H; subst; exact Hm|].
    binv H. binv H. binv H. unfold parts_block in B1. binv B1.
    eapply IHfuel; [|exact H]. apply amap_set_ok; auto. eapply parts_loop_range; eauto.
Qed.

Lemma decode_assignment_range bd b m r al : decode_assignment bd b = DOk m r al -> amap_ok m.
Proof.
  unfold decode_assignment. intros H. binv H. binv H. binv H. binv H. binv H.
  unfold ret in H. inversion H; subst.
  eapply topics_loop_range; [|exact B1]. constructor.
Qed.

Lemma decode_assignment_bytes_range bd ab b m r al : decode_assignment_bytes bd ab b = DOk m r al -> amap_ok m.
Proof.
  unfold decode_assignment_bytes. destruct (next ab b) as [ad rest al0|al0|w]; try discriminate.
  match goal with |- context [match ?d ad with _ => _ end] => destruct (d ad) as [m0 r0 al1|al1|w] eqn:E end;
    try discriminate.
  intros H; inversion H; subst. binv E.
  destruct (a <? 0); [discriminate|]. eapply decode_assignment_range; eauto.
Qed.

Lemma decode_member_range bd vv b m r al : decode_member bd vv b = DOk m r al -> amap_ok (m_assignment m).
Proof.
  unfold decode_member. intros H. do 10 binv H. unfold ret in H. inversion H; subst. cbn [m_assignment].
  destruct (a7 >? 0).
  - eapply decode_assignment_bytes_range; eauto.
  - unfold ret in B8. inversion B8; subst. constructor.
Qed.

Lemma member_requests_range o g m : amap_ok (m_assignment m) -> Forall (req_in_range o) (member_requests g m).
Proof.
  intros Hm. unfold member_requests. apply Forall_forall. intros rq Hr.
  apply in_flat_map in Hr. destruct Hr as (tp & Ht & Hr). apply in_map_iff in Hr. destruct Hr as (p & <- & Hp).
  cbn [req_in_range]. unfold amap_ok in Hm. rewrite Forall_forall in Hm. specialize (Hm tp Ht).
  rewrite Forall_forall in Hm. auto.
Qed.

Lemma members_loop_range o bd vv g : forall fuel count b,
  oall (req_in_range o) (members_loop bd vv g fuel count b).
Proof.
  induction fuel; intros count b; cbn [members_loop].
  - destruct (count <=? 0); cbn [oall]; auto.
  - destruct (count <=? 0); [cbn [oall]; auto|].
    destruct (decode_member bd vv b) as [m r al|al|w] eqn:E; cbn [oall]; auto.
    specialize (IHfuel (count - 1) r).
    destruct (members_loop bd vv g fuel (count - 1) r); cbn [oall] in *; auto.
    apply Forall_app. split; auto. apply member_requests_range. eapply decode_member_range; eauto.
Qed.

Lemma decode_group_metadata_range o bd macc accept kr value :
  oall (req_in_range o) (decode_group_metadata bd macc accept kr value).
Proof.
  unfold decode_group_metadata.
  destruct (read_string bd kr) as [g r al|al|w]; cbn [oall]; auto.
  destruct (macc && negb (accept g)); cbn [oall]; auto.
  destruct value as [|v0 value']; [cbn [oall]; repeat constructor|].
  destruct (read_i16 (v0 :: value')) as [[vv vr]|]; cbn [oall]; auto.
  destruct ((0 <=? vv) && (vv <=? 3)); cbn [oall]; auto.
  unfold decode_and_send_metadata.
  destruct (decode_meta_header bd vv vr) as [pt r' al'|al'|w]; cbn [add_allocs oall]; auto.
  destruct (negb (bytes_eqb pt str_consumer)); cbn [add_allocs oall]; auto.
  destruct (read_i32 r') as [[mc r'']|]; cbn [add_allocs oall]; auto.
  destruct (mc =? 0); [cbn [add_allocs oall]; repeat constructor|].
  pose proof (members_loop_range o bd vv g (S (length r'')) mc r'') as L.
  destruct (members_loop bd vv g (S (length r'')) mc r''); cbn [add_allocs oall] in *; auto.
Qed.

Lemma decode_offset_value_v0_range bd b off ts r al :
  decode_offset_value_v0 bd b = DOk (off, ts) r al -> in_i64 off /\ in_i64 ts.
Proof.
  unfold decode_offset_value_v0. intros H. do 3 binv H. unfold ret in H. inversion H; subst.
  split; eapply d_i64_range; eauto.
Qed.
Lemma decode_offset_value_v3_range bd b off ts r al :
  decode_offset_value_v3 bd b = DOk (off, ts) r al -> in_i64 off /\ in_i64 ts.
Proof.
  unfold decode_offset_value_v3. intros H. do 4 binv H. unfold ret in H. inversion H; subst.
  split; eapply d_i64_range; eauto.
Qed.

Lemma decode_key_and_offset_range o bd accept kr value :
  oall (req_in_range o) (decode_key_and_offset bd accept kr value o).
Proof.
  unfold decode_key_and_offset.
  destruct (decode_offset_key bd kr) as [[[g t] p] r al|al|w] eqn:Ek; cbn [oall]; auto.
  assert (Hp : in_i32 p).
  { unfold decode_offset_key in Ek. do 3 binv Ek. unfold ret in Ek. inversion Ek; subst. eapply d_i32_range; eauto. }
  destruct (negb (accept g)); cbn [oall]; auto.
  destruct value as [|v0 value']; [cbn [oall]; auto|].
  destruct (read_i16 (v0 :: value')) as [[vv vr]|]; cbn [oall]; auto.
  destruct ((vv =? 0) || (vv =? 1)).
  { unfold send_offset. destruct (decode_offset_value_v0 bd vr) as [[off ts] r' al'|al'|w] eqn:Ev; cbn [oall]; auto.
    apply decode_offset_value_v0_range in Ev. constructor; [|constructor]. cbn [req_in_range]. tauto. }
  destruct (vv =? 3); [|cbn [oall]; auto].
  unfold send_offset. destruct (decode_offset_value_v3 bd vr) as [[off ts] r' al'|al'|w] eqn:Ev; cbn [oall]; auto.
  apply decode_offset_value_v3_range in Ev. constructor; [|constructor]. cbn [req_in_range]. tauto.
Qed.

(* Whatever the bytes: every partition in a request is an int32, every offset and timestamp an int64 (what the
   storage layer's arithmetic assumes, C01), and the Order of an offset update is the message's own offset. *)
Theorem in_range : forall (accept : list Z -> bool) key value o rs al,
  process_message accept key value o = Done rs al -> Forall (req_in_range o) rs.
Proof.
  intros accept key value o rs al H.
  assert (L : oall (req_in_range o) (process_message accept key value o)).
  { unfold process_message, process_message_gen.
    destruct (read_i16 key) as [[kv kr]|]; [|cbn [oall]; auto].
    destruct ((kv =? 0) || (kv =? 1)). { apply decode_key_and_offset_range. }
    destruct (kv =? 2); [|cbn [oall]; auto]. apply decode_group_metadata_range. }
  rewrite H in L. exact L.
Qed.

(* ------------------------------------------------------------------------------------------ *)
(* C06: an offset commit yields at most one update, and only if every field read is complete   *)
(* ------------------------------------------------------------------------------------------ *)

Definition is_byte (z : Z) : Prop := 0 <= z < 256.
Definition bytes (l : list Z) : Prop := Forall is_byte l.

Lemma bytes_app a b : bytes (a ++ b) <-> bytes a /\ bytes b.
Proof. unfold bytes. apply Forall_app. Qed.

Lemma be_val_snoc acc l x : be_val acc (l ++ [x]) = be_val acc l * 256 + x.
Proof. rewrite be_val_app. reflexivity. Qed.

Lemma enc_be_be_val : forall l, bytes l -> enc_be (length l) (be_val 0 l) = l.
Proof.
  induction l as [|x l IH] using rev_ind; intros Hb; [reflexivity|].
  apply bytes_app in Hb. destruct Hb as [Hl Hx]. inversion Hx as [|? ? Hx' _]; subst. unfold is_byte in Hx'.
  rewrite app_length. cbn [length]. rewrite Nat.add_1_r. cbn [enc_be]. rewrite be_val_snoc.
  rewrite Z.div_add_l by lia. rewrite (Z.div_small x 256) by lia. rewrite Z.add_0_r.
  rewrite Z.add_comm, Z.mod_add by lia. rewrite Z.mod_small by lia. rewrite IH by auto. reflexivity.
Qed.

Lemma enc_be_shift : forall n u k, enc_be n (u + k * 256 ^ Z.of_nat n) = enc_be n u.
Proof.
  induction n; intros u k; [reflexivity|].
  cbn [enc_be]. rewrite Nat2Z.inj_succ, Z.pow_succ_r by lia.
  replace (u + k * (256 * 256 ^ Z.of_nat n)) with (u + (k * 256 ^ Z.of_nat n) * 256) by ring.
  rewrite Z.div_add, Z.mod_add by lia. rewrite IHn. reflexivity.
Qed.

Lemma read_n_inv n b u r : bytes b -> read_n n b = Some (u, r) -> b = enc_be n u ++ r /\ bytes r.
Proof.
  unfold read_n. intros Hb. destruct (length b <? n)%nat eqn:E; [discriminate|].
  apply Nat.ltb_ge in E. intros H; inversion H; subst.
  rewrite <- (firstn_skipn n b) in Hb. apply bytes_app in Hb. destruct Hb as [H1 H2].
  split; [|exact H2].
  assert (Hl : length (firstn n b) = n) by (rewrite firstn_length; lia).
  rewrite <- Hl at 1. rewrite enc_be_be_val by exact H1. symmetry. apply firstn_skipn.
Qed.

Lemma wrap16_shift z : exists k, wrap16 z = z + k * 256 ^ Z.of_nat 2.
Proof.
  exists (- ((z + 32768) / 65536)). unfold wrap16. change (256 ^ Z.of_nat 2) with 65536.
  pose proof (Z.div_mod (z + 32768) 65536). lia.
Qed.
Lemma wrap32_shift z : exists k, wrap32 z = z + k * 256 ^ Z.of_nat 4.
Proof.
  exists (- ((z + 2147483648) / 4294967296)). unfold wrap32, two31, two32. change (256 ^ Z.of_nat 4) with 4294967296.
  pose proof (Z.div_mod (z + 2147483648) 4294967296). lia.
Qed.
Lemma wrap64_shift z : exists k, wrap64 z = z + k * 256 ^ Z.of_nat 8.
Proof.
  exists (- ((z + 9223372036854775808) / 18446744073709551616)). unfold wrap64, two63, two64.
  change (256 ^ Z.of_nat 8) with 18446744073709551616.
  pose proof (Z.div_mod (z + 9223372036854775808) 18446744073709551616). lia.
Qed.

Lemma read_i16_inv b x r : bytes b -> read_i16 b = Some (x, r) -> b = enc_i16 x ++ r /\ in_i16 x /\ bytes r.
Proof.
  intros Hb. unfold read_i16. destruct (read_n 2 b) as [[u r']|] eqn:E; [|discriminate].
  intros H; inversion H; subst. destruct (read_n_inv _ _ _ _ Hb E) as [H1 H2].
  split; [|split; [apply wrap16_range | exact H2]].
  destruct (wrap16_shift u) as (k & ->). unfold enc_i16. rewrite enc_be_shift. exact H1.
Qed.
Lemma read_i32_inv b x r : bytes b -> read_i32 b = Some (x, r) -> b = enc_i32 x ++ r /\ in_i32 x /\ bytes r.
Proof.
  intros Hb. unfold read_i32. destruct (read_n 4 b) as [[u r']|] eqn:E; [|discriminate].
  intros H; inversion H; subst. destruct (read_n_inv _ _ _ _ Hb E) as [H1 H2].
  split; [|split; [apply wrap32_range | exact H2]].
  destruct (wrap32_shift u) as (k & ->). unfold enc_i32. rewrite enc_be_shift. exact H1.
Qed.
Lemma read_i64_inv b x r : bytes b -> read_i64 b = Some (x, r) -> b = enc_i64 x ++ r /\ in_i64 x /\ bytes r.
Proof.
  intros Hb. unfold read_i64. destruct (read_n 8 b) as [[u r']|] eqn:E; [|discriminate].
  intros H; inversion H; subst. destruct (read_n_inv _ _ _ _ Hb E) as [H1 H2].
  split; [|split; [apply wrap64_range | exact H2]].
  destruct (wrap64_shift u) as (k & ->). unfold enc_i64. rewrite enc_be_shift. exact H1.
Qed.

Lemma d_i32_inv b x r al : bytes b -> d_i32 b = DOk x r al -> b = enc_i32 x ++ r /\ in_i32 x /\ bytes r.
Proof.
  intros Hb. unfold d_i32, of_read. destruct (read_i32 b) as [[y r']|] eqn:E; [|discriminate].
  intros H; inversion H; subst. apply read_i32_inv; auto.
Qed.
Lemma d_i64_inv b x r al : bytes b -> d_i64 b = DOk x r al -> b = enc_i64 x ++ r /\ in_i64 x /\ bytes r.
Proof.
  intros Hb. unfold d_i64, of_read. destruct (read_i64 b) as [[y r']|] eqn:E; [|discriminate].
  intros H; inversion H; subst. apply read_i64_inv; auto.
Qed.

(* a string that the (repaired) reader accepts is completely present and has a possible length *)
Lemma read_string_inv b s r al : bytes b -> read_string true b = DOk s r al ->
  exists so, str_ok so /\ b = enc_string so ++ r /\ s = str_val so /\ bytes r.
Proof.
  intros Hb. unfold read_string. destruct (read_i16 b) as [[n r0]|] eqn:E; [|discriminate].
  destruct (read_i16_inv _ _ _ Hb E) as (Hb0 & Hn & Hr0). unfold in_i16 in Hn.
  destruct (n =? -1) eqn:E0.
  - apply Z.eqb_eq in E0. intros H; inversion H; subst. exists None. cbn [str_ok enc_string str_val]. auto.
  - destruct (n <? 0) eqn:E1; cbn [orb]; [discriminate|].
    destruct (blen r0 <? n) eqn:E2; [discriminate|].
    apply Z.ltb_ge in E1, E2. intros H; inversion H; subst.
    destruct (take_drop_len n r0) as [_ Hl]; [lia|].
    assert (Hs : r0 = take n r0 ++ drop n r0) by (unfold take, drop; symmetry; apply firstn_skipn).
    exists (Some (take n r0)). cbn [str_ok enc_string str_val]. rewrite Hl.
    split; [lia|]. split; [rewrite <- app_assoc, <- Hs; reflexivity|]. split; [reflexivity|].
    rewrite Hs in Hr0. apply bytes_app in Hr0. tauto.
Qed.

Lemma decode_offset_key_inv kr g t p r al : bytes kr -> decode_offset_key true kr = DOk (g, t, p) r al ->
  exists go to, str_ok go /\ str_ok to /\ in_i32 p /\ g = str_val go /\ t = str_val to
                /\ kr = enc_string go ++ enc_string to ++ enc_i32 p ++ r.
Proof.
  intros Hb H. unfold decode_offset_key in H. do 3 binv H. unfold ret in H. inversion H; subst.
  destruct (read_string_inv _ _ _ _ Hb B) as (go & Hgo & -> & -> & Hb1).
  destruct (read_string_inv _ _ _ _ Hb1 B0) as (to & Hto & -> & -> & Hb2).
  destruct (d_i32_inv _ _ _ _ Hb2 B1) as (-> & Hp & _).
  exists go, to. repeat split; auto; unfold in_i32, in_i64 in *; lia.
Qed.

Lemma decode_offset_value_v0_inv b off ts r al : bytes b -> decode_offset_value_v0 true b = DOk (off, ts) r al ->
  exists md, in_i64 off /\ str_ok md /\ in_i64 ts /\ b = enc_i64 off ++ enc_string md ++ enc_i64 ts ++ r.
Proof.
  intros Hb H. unfold decode_offset_value_v0 in H. do 3 binv H. unfold ret in H. inversion H; subst.
  destruct (d_i64_inv _ _ _ _ Hb B) as (-> & Ho & Hb1).
  destruct (read_string_inv _ _ _ _ Hb1 B0) as (md & Hmd & -> & _ & Hb2).
  destruct (d_i64_inv _ _ _ _ Hb2 B1) as (-> & Hts & _).
  exists md. repeat split; auto; unfold in_i32, in_i64 in *; lia.
Qed.

Lemma decode_offset_value_v3_inv b off ts r al : bytes b -> decode_offset_value_v3 true b = DOk (off, ts) r al ->
  exists ep md, in_i64 off /\ in_i32 ep /\ str_ok md /\ in_i64 ts
                /\ b = enc_i64 off ++ enc_i32 ep ++ enc_string md ++ enc_i64 ts ++ r.
Proof.
  intros Hb H. unfold decode_offset_value_v3 in H. do 4 binv H. unfold ret in H. inversion H; subst.
  destruct (d_i64_inv _ _ _ _ Hb B) as (-> & Ho & Hb1).
  destruct (d_i32_inv _ _ _ _ Hb1 B0) as (-> & Hep & Hb2).
  destruct (read_string_inv _ _ _ _ Hb2 B1) as (md & Hmd & -> & _ & Hb3).
  destruct (d_i64_inv _ _ _ _ Hb3 B2) as (-> & Hts & _).
  exists a0, md. repeat split; auto; unfold in_i32, in_i64 in *; lia.
Qed.

(* the fields of an offset-commit value that Burrow reads: everything but the v1 expire timestamp *)
Definition enc_offset_value_read (vv : Z) (v : offset_value) : list Z :=
  enc_i16 vv ++ enc_i64 (ov_offset v)
  ++ (if vv =? 3 then enc_i32 (ov_leader_epoch v) else [])
  ++ enc_string (ov_metadata v) ++ enc_i64 (ov_commit_ts v).

Lemma enc_offset_value_split vv v :
  enc_offset_value vv v = enc_offset_value_read vv v ++ (if vv =? 1 then enc_i64 (ov_expire_ts v) else []).
Proof. unfold enc_offset_value, enc_offset_value_read. rewrite <- !app_assoc. reflexivity. Qed.

Definition is_offset_update (r : request) : Prop :=
  match r with SetConsumerOffset _ _ _ _ _ _ => True | _ => False end.

(* An offset-commit message (key version 0 or 1) produces at most one request, and only a consumer-offset update. *)
Theorem commit_at_most_one : forall (accept : list Z -> bool) key value o rs al,
  is_commit_key key ->
  process_message accept key value o = Done rs al ->
  (length rs <= 1)%nat /\ Forall is_offset_update rs.
Proof.
  intros accept key value o rs al (kv & kr & E & Hkv) H.
  unfold process_message, process_message_gen in H. rewrite E in H.
  replace ((kv =? 0) || (kv =? 1)) with true in H by (destruct Hkv; subst; reflexivity).
  unfold decode_key_and_offset in H.
  destruct (decode_offset_key true kr) as [[[g t] p] r al0|al0|w]; try discriminate;
    [|inversion H; subst; cbn; auto].
  destruct (negb (accept g)); [inversion H; subst; cbn; auto|].
  destruct value as [|v0 value']; [inversion H; subst; cbn; auto|].
  destruct (read_i16 (v0 :: value')) as [[vv vr]|]; [|inversion H; subst; cbn; auto].
  assert (S : forall d, send_offset g t p o al0 d = Done rs al -> (length rs <= 1)%nat /\ Forall is_offset_update rs).
  { intros d Hd. unfold send_offset in Hd. destruct d as [[off ts] r' al'|al'|w]; try discriminate;
      inversion Hd; subst; cbn [length]; split; auto; repeat constructor. }
  destruct ((vv =? 0) || (vv =? 1)); [eapply S; eauto|].
  destruct (vv =? 3); [eapply S; eauto|]. inversion H; subst; cbn; auto.
Qed.

(* If an offset-commit message (key version 0 or 1; key and value any byte strings) produces a request r, then the
   key begins with a complete well-formed offset key and the value begins with every field Burrow reads of a
   well-formed value of a supported version - each string completely present with a possible length (-1 or
   0..32767 and not beyond the end), each integer completely present - the lists accept the group, and r carries
   exactly those fields and the message's own offset.  Contrapositive: a commit in which any field Burrow reads is
   cut short or carries an impossible length produces no storage update (commit_malformed_skipped). *)
Theorem commit_update_wellformed : forall (accept : list Z -> bool) key value o rs al r,
  bytes key -> bytes value -> is_commit_key key ->
  process_message accept key value o = Done rs al -> In r rs ->
  exists kv g t p vv v restk restv,
    (kv = 0 \/ kv = 1) /\ (vv = 0 \/ vv = 1 \/ vv = 3) /\
    str_ok g /\ str_ok t /\ in_i32 p /\ offset_value_ok v /\
    key = enc_offset_key kv g t p ++ restk /\
    value = enc_offset_value_read vv v ++ restv /\
    accept (str_val g) = true /\
    r = SetConsumerOffset (str_val g) (str_val t) p (ov_offset v) (ov_commit_ts v) o.
Proof.
  intros accept key value o rs al rq Hbk Hbv (kv & kr & E & Hkv) H Hin.
  destruct (read_i16_inv _ _ _ Hbk E) as (Hkey & _ & Hbkr).
  unfold process_message, process_message_gen in H. rewrite E in H.
  replace ((kv =? 0) || (kv =? 1)) with true in H by (destruct Hkv; subst; reflexivity).
  unfold decode_key_and_offset in H.
  destruct (decode_offset_key true kr) as [[[g t] p] rk al0|al0|w] eqn:Ek; try discriminate;
    [|inversion H; subst; destruct Hin].
  destruct (decode_offset_key_inv _ _ _ _ _ _ Hbkr Ek) as (go & to & Hgo & Hto & Hp & -> & -> & Hkr).
  destruct (accept (str_val go)) eqn:Ea; cbn [negb] in H; [|inversion H; subst; destruct Hin].
  destruct value as [|v0 value']; [inversion H; subst; destruct Hin|].
  set (value := v0 :: value') in *.
  destruct (read_i16 value) as [[vv vr]|] eqn:Ev; [|inversion H; subst; destruct Hin].
  destruct (read_i16_inv _ _ _ Hbv Ev) as (Hval & _ & Hbvr).
  assert (Hk : key = enc_offset_key kv go to p ++ rk).
  { rewrite Hkey, Hkr. unfold enc_offset_key. rewrite <- !app_assoc. reflexivity. }
  destruct ((vv =? 0) || (vv =? 1)) eqn:E01.
  - unfold send_offset in H.
    destruct (decode_offset_value_v0 true vr) as [[off ts] rv al1|al1|w] eqn:Ed; try discriminate;
      [|inversion H; subst; destruct Hin].
    destruct (decode_offset_value_v0_inv _ _ _ _ _ Hbvr Ed) as (md & Ho & Hmd & Hts & Hvr).
    inversion H; subst rs. destruct Hin as [<-|[]].
    exists kv, go, to, p, vv, (mkOV off 0 md ts 0), rk, rv.
    assert (Hvv : vv = 0 \/ vv = 1) by (apply orb_true_iff in E01; destruct E01 as [X|X]; apply Z.eqb_eq in X; lia).
    assert (Hov : offset_value_ok (mkOV off 0 md ts 0)).
    { unfold offset_value_ok. cbn [ov_offset ov_metadata ov_commit_ts ov_leader_epoch ov_expire_ts].
      unfold in_i32, in_i64, two31, two63 in *. repeat split; auto; lia. }
    split; [exact Hkv|]. split; [tauto|]. split; [exact Hgo|]. split; [exact Hto|]. split; [exact Hp|].
    split; [exact Hov|]. split; [exact Hk|]. split; [|split; [exact Ea | reflexivity]].
    rewrite Hval, Hvr. unfold enc_offset_value_read. cbn [ov_offset ov_metadata ov_commit_ts ov_leader_epoch].
    replace (vv =? 3) with false by (destruct Hvv; subst; reflexivity).
    rewrite <- !app_assoc. reflexivity.
  - destruct (vv =? 3) eqn:E3; [|inversion H; subst; destruct Hin].
    apply Z.eqb_eq in E3. subst vv.
    unfold send_offset in H.
    destruct (decode_offset_value_v3 true vr) as [[off ts] rv al1|al1|w] eqn:Ed; try discriminate;
      [|inversion H; subst; destruct Hin].
    destruct (decode_offset_value_v3_inv _ _ _ _ _ Hbvr Ed) as (ep & md & Ho & Hep & Hmd & Hts & Hvr).
    inversion H; subst rs. destruct Hin as [<-|[]].
    exists kv, go, to, p, 3, (mkOV off ep md ts 0), rk, rv.
    assert (Hov : offset_value_ok (mkOV off ep md ts 0)).
    { unfold offset_value_ok. cbn [ov_offset ov_metadata ov_commit_ts ov_leader_epoch ov_expire_ts].
      unfold in_i32, in_i64, two31, two63 in *. repeat split; auto; lia. }
    split; [exact Hkv|]. split; [tauto|]. split; [exact Hgo|]. split; [exact Hto|]. split; [exact Hp|].
    split; [exact Hov|]. split; [exact Hk|]. split; [|split; [exact Ea | reflexivity]].
    rewrite Hval, Hvr. unfold enc_offset_value_read. cbn [ov_offset ov_metadata ov_commit_ts ov_leader_epoch Z.eqb Pos.eqb].
    rewrite <- !app_assoc. reflexivity.
Qed.

Definition commit_wellformed (accept : list Z -> bool) (key value : list Z) : Prop :=
  exists kv g t p vv v restk restv,
    (kv = 0 \/ kv = 1) /\ (vv = 0 \/ vv = 1 \/ vv = 3) /\
    str_ok g /\ str_ok t /\ in_i32 p /\ offset_value_ok v /\
    key = enc_offset_key kv g t p ++ restk /\
    value = enc_offset_value_read vv v ++ restv.

(* the property's last sentence, literally *)
Theorem commit_malformed_skipped : forall (accept : list Z -> bool) key value o rs al,
  bytes key -> bytes value -> is_commit_key key ->
  ~ commit_wellformed accept key value ->
  process_message accept key value o = Done rs al -> rs = [].
Proof.
  intros accept key value o rs al Hbk Hbv Hc Hn H.
  destruct rs as [|r rs']; [reflexivity|]. exfalso. apply Hn.
  destruct (commit_update_wellformed accept key value o (r :: rs') al r Hbk Hbv Hc H (or_introl eq_refl))
    as (kv & g & t & p & vv & v & restk & restv & H1 & H2 & H3 & H4 & H5 & H6 & H7 & H8 & _).
  exists kv, g, t, p, vv, v, restk, restv. tauto.
Qed.

Import Coq.Strings.String.
(* non-vacuity: the unit test's literals are a well-formed commit; cut one byte off the value and nothing is sent *)
Example commit_wellformed_example : commit_wellformed (fun _ => true) lit_okey1 lit_oval0.
Proof.
  exists 1, (sstr "testgroup"), (sstr "testtopic"), 11, 0, (mkOV 8372 0 (sstr "testdata") 1637 0), [], [].
  repeat split; try (cbn; unfold in_i32, in_i64, two31, two63; lia); auto; vm_compute; lia.
Qed.
Example commit_truncated_example :
  process_message (fun _ => true) lit_okey1 (removelast lit_oval0) 7 = Done [] [9; 9; 8].
Proof. vm_compute. reflexivity. Qed.

(* ------------------------------------------------------------------------------------------ *)
(* C10, reader half, in terms of the two lists                                                 *)
(* ------------------------------------------------------------------------------------------ *)

(* "matches the allowlist if one is set and does not match the denylist if one is set": all 16 combinations *)
Theorem reader_accept_spec : forall a_set a_m d_set d_m,
  reader_accept a_set a_m d_set d_m = true <->
  (a_set = true -> a_m = true) /\ ~ (d_set = true /\ d_m = true).
Proof.
  intros [] [] [] []; unfold reader_accept; cbn; split; intros H;
    try discriminate; try reflexivity; try (split; [auto | intros [? ?]; discriminate]);
    destruct H as [H1 H2]; try (specialize (H1 eq_refl); discriminate); exfalso; apply H2; split; reflexivity.
Qed.

(* Whatever the bytes, whatever the two patterns answer: every request the Kafka reader forwards is for a group that
   matches the allowlist (if set) and does not match the denylist (if set). *)
Theorem reader_lists_enforced : forall a_set d_set (am dm : list Z -> bool) key value o rs al,
  process_message (fun g => reader_accept a_set (am g) d_set (dm g)) key value o = Done rs al ->
  Forall (fun r => (a_set = true -> am (req_group r) = true) /\ ~ (d_set = true /\ dm (req_group r) = true)) rs.
Proof.
  intros a_set d_set am dm key value o rs al H.
  apply reader_rejected_silent in H. eapply Forall_impl; [|exact H].
  cbn beta. intros r Hr. apply reader_accept_spec in Hr. exact Hr.
Qed.

(* names used by the Examples of props/C06.v and props/C07.v *)
Definition b_testgroup : list Z := str "testgroup".
Definition b_testtopic : list Z := str "testtopic".
Definition b_consumer : option (list Z) := sstr "consumer".
Definition b_g : option (list Z) := sstr "g".
Definition b_t1 : option (list Z) := sstr "t1".
Definition b_t2 : option (list Z) := sstr "t2".
Definition b_host1 : option (list Z) := sstr "/10.0.0.1".
Definition b_host2 : option (list Z) := sstr "/10.0.0.2".
Definition b_cid1 : option (list Z) := sstr "c1".
Definition b_cid2 : option (list Z) := sstr "c2".

(* ------------------------------------------------------------------------------------------ *)
(* C07: every request goes to the module's cluster                                             *)
(* ------------------------------------------------------------------------------------------ *)

(* Whatever the bytes, whatever the module is called: every request the reader sends - offset update, owner update,
   owner clear, group delete - names the cluster the module is configured for (not the module's own name), and apart
   from that the requests are those of process_message. *)
Theorem requests_addressed_to_cluster : forall cfg (accept : list Z -> bool) key value o rs al,
  process_message_for cfg accept key value o = DoneFor rs al ->
  Forall (fun cr => fst cr = rc_cluster cfg) rs /\
  process_message accept key value o = Done (map snd rs) al.
Proof.
  intros cfg accept key value o rs al H. unfold process_message_for, address in H.
  destruct (process_message accept key value o) as [w|rs0 al0]; [discriminate|].
  inversion H; subst. split.
  - apply Forall_forall. intros cr Hin. apply in_map_iff in Hin. destruct Hin as (r & <- & _). reflexivity.
  - rewrite map_map. cbn [snd]. rewrite map_id. reflexivity.
Qed.

Theorem process_for_never_crashes : forall cfg (accept : list Z -> bool) key value o,
  exists rs al, process_message_for cfg accept key value o = DoneFor rs al.
Proof.
  intros. destruct (process_never_crashes accept key value o) as (rs & al & H).
  unfold process_message_for. rewrite H. cbn [address]. eauto.
Qed.

(* a metadata tombstone deletes the group in the module's cluster *)
Theorem metadata_tombstone_for : forall cfg (accept : list Z -> bool) g o,
  str_ok g -> accept (str_val g) = true ->
  exists al, process_message_for cfg accept (enc_meta_key g) [] o
             = DoneFor [(rc_cluster cfg, DeleteGroup (str_val g))] al.
Proof.
  intros cfg accept g o Hg Ha. destruct (metadata_tombstone accept g o Hg) as (al & H).
  unfold process_message_for. rewrite H, Ha. cbn [address map]. eauto.
Qed.

(* no list configured (key absent, or present with the empty string): every group is accepted, whatever a pattern would
   have answered; only a denylist that is set can reject when no allowlist is set *)
Lemma reader_accept_no_lists : forall a_m d_m, reader_accept false a_m false d_m = true.
Proof. intros [] []; reflexivity. Qed.
Lemma reader_accept_no_allowlist : forall a_m d_set d_m, reader_accept false a_m d_set d_m = negb (d_set && d_m).
Proof. intros [] [] []; reflexivity. Qed.
Lemma reader_accept_no_denylist : forall a_set a_m d_m, reader_accept a_set a_m false d_m = (negb a_set || a_m).
Proof. intros [] [] []; reflexivity. Qed.

(* ------------------------------------------------------------------------------------------ *)
(* C06: allocation follows the bytes consumed; the clamp of eb5a1a8 did not                    *)
(* ------------------------------------------------------------------------------------------ *)

(* What decoding one member hands to make is at most the number of bytes it consumed (and at most the bytes left when it
   fails): an announced count or length buys nothing. *)
Theorem member_alloc_le_consumed : forall vv b,
  match decode_member true vv b with
  | DOk _ r al => 0 <= sumz al <= blen b - blen r
  | DErr al => 0 <= sumz al <= blen b
  | DCrash _ => False
  end.
Proof.
  intros vv b. pose proof (safe_decode_member vv b) as S. unfold safe_at in S.
  destruct (decode_member true vv b); auto; lia.
Qed.

(* The intermediate repair (eb5a1a8) clamped the map size hint by what the remaining bytes could hold.  That is linear in
   the message and paid for by nothing: a topic count of 2^31-1 made the decoder allocate 48 nominal bytes (about 76
   measured) per 6 bytes that follow, before reading a single topic ... *)
Lemma make_topics_clamped_linear : forall b,
  blen b / 6 <= 2147483647 -> make_topics_clamped 2147483647 b = DOk tt b [48 * (blen b / 6)].
Proof.
  intros b H. unfold make_topics_clamped, map_entry_bytes. cbn [Z.ltb Z.compare].
  pose proof (blen_nonneg b). pose proof (Z.div_pos (blen b) 6).
  rewrite Z.min_r by lia. rewrite Z.max_r by lia. reflexivity.
Qed.

(* ... e.g. an assignment that announces 2^31-1 topics, whose first topic name has the impossible length -2, followed by
   600 zero bytes: nothing is decoded, 4800 bytes of map are asked for 606 bytes of input (on the real code: 128 KiB of
   such a value allocated 1.58 MB, 1 MB allocated 12.6 MB, with no request produced). *)
Theorem assignment_hint_clamped_refuted :
  exists b al, decode_assignment_clamped b = DErr al /\ blen b = 606 /\ sumz al = 4800.
Proof.
  exists ([127; 255; 255; 255; 255; 254] ++ repeat 0 600), [4800].
  split; [vm_compute; reflexivity|]. split; vm_compute; reflexivity.
Qed.

(* the same input on the code as it is now: nothing is allocated *)
Example assignment_no_hint_example :
  decode_assignment true ([127; 255; 255; 255; 255; 254] ++ repeat 0 600) = DErr [].
Proof. vm_compute. reflexivity. Qed.
