(* ConfigRead.v -- C18 as non-interference: what a handler's response can depend on in the configuration.

   The configuration is the tree of Http.v (viper lookup).  Password paths are
       sasl.<n>.password       (helpers/sarama.go: SASL profile; <n> may be dotted -- profiles nest -- see is_pw)
       notifier.<n>.password   (notifier/http.go basic-auth and notifier/email.go SMTP share the key)
   (no other password-like key is read anywhere in /repo/core: no TLS key passwords, no tokens).

   gen/ReadSets.v lists, for every route handler, every viper access reachable from it as a path pattern.
   [observe] is the semantics of such a table: the results of all those accesses, evaluated in order (a
   pattern may have holes filled by request parameters, by the string value of an earlier read -- the
   client-profile -> tls/sasl indirection -- or by the keys of an earlier map read).  A handler's response
   is an ARBITRARY function of these observations, the request parameters and the backend ([respond]).
   [reads_avoid_passwords] is the decision procedure on the table; ConfigReadProofs.v proves that it implies
   non-interference for all configurations and all parameter strings.

   Why a pattern can be accepted (viper lower-cases the key and splits it at every '.', and a hole can be
   filled with ANY bytes -- dots, upper case, nothing):
     - a pattern without holes denotes one path, which is computed and compared;
     - [first_seg_safe]: the literal head contains a dot, so the first segment of every instance is that
       literal segment, and it is not a section that holds passwords;
     - [last_seg_safe]: the literal tail contains a dot, so the last segment of every instance is that literal
       segment, and it is not "password"; for reads that return values BELOW the key two literal dots are
       required as well (the key has at least three segments) and the literal first segment must not be
       "sasl" (whose profiles nest: sasl.a.b.password is the password of profile "a.b"), so that nothing
       below the key is a password path.
   Everything else -- in particular "sasl."+x, "notifier."+x, x+".password", any PUnknown -- is rejected.

   Model only: no proofs here. *)
Require Import List ZArith Bool String Ascii.
Import ListNotations.
From Burrow Require Export Http.
Open Scope Z_scope.

(* ------------------------------------------------------------------------------------------------ *)
(* table types (rows are emitted by /verif/translator/http reads|fields)                             *)
(* ------------------------------------------------------------------------------------------------ *)

Inductive pelem :=
| PFix (s : string)        (* literal text of the key, may contain dots *)
| PParam (name : string)   (* params.ByName(name) *)
| PValOf (row : nat)       (* string value returned by an earlier scalar read *)
| PKeyOf (row : nat)       (* a key of the map returned by an earlier GetStringMap* read *)
| PUnknown (why : string). (* the translator could not tell *)

Inductive rkind :=
| KExists     (* IsSet / InConfig: only whether the key is set *)
| KKeys       (* GetStringMap*: only the keys of the map are used *)
| KScalar     (* GetString, GetInt, GetBool, GetStringSlice ...: the value at the key (zero value for a map) *)
| KChildren   (* GetStringMapString with values used: keys and scalar values one level below the key *)
| KSubtree    (* Get, Sub, GetStringMap with values used, AllSettings ...: everything below the key *)
| KUnknown.

Inductive rrow := RRow (id : nat) (handler : string) (kind : rkind) (pat : list pelem) (call feeds pos : string).

Inductive fkind := FRead | FConst | FVar | FNested | FCall | FBackend | FApp | FRequest | FOther.
Inductive feed := Feed (handler struct field : string) (k : fkind) (detail pos : string).

Definition row_id (r : rrow) : nat := match r with RRow i _ _ _ _ _ _ => i end.
Definition row_handler (r : rrow) : string := match r with RRow _ h _ _ _ _ _ => h end.
Definition row_kind (r : rrow) : rkind := match r with RRow _ _ k _ _ _ _ => k end.
Definition row_pat (r : rrow) : list pelem := match r with RRow _ _ _ p _ _ _ => p end.
Definition row_feeds (r : rrow) : string := match r with RRow _ _ _ _ _ f _ => f end.

(* ------------------------------------------------------------------------------------------------ *)
(* password paths and agreement of two configurations except for password values                     *)
(* ------------------------------------------------------------------------------------------------ *)

(* Sections that hold passwords.
   - "sasl": a profile is named BY VALUE (client-profile.<p>.sasl = "<name>", read by helpers/sarama.go as
     "sasl." + name + ".password"), and the name may contain dots: a profile "prod.east" (TOML [sasl.prod.east])
     is nested inside the profile "prod".  So every path  sasl.<s1>. ... .<sk>.password  (k >= 1) is a password.
   - "notifier": modules are the TOP-LEVEL keys of the section (notifier coordinator: keys of
     viper.GetStringMap("notifier")), so only  notifier.<n>.password  with a one-segment <n> is a password
     (notifier.<n>.extras.password is an "extras" entry, shown by design). *)
Definition deep_sections : list bytes := [pb "sasl"].
Definition flat_sections : list bytes := [pb "notifier"].
Definition pw_sections : list bytes := deep_sections ++ flat_sections.
Definition pw_key : bytes := pb "password".

Definition in_deep_section (a : bytes) : bool := existsb (beq a) deep_sections.
Definition in_flat_section (a : bytes) : bool := existsb (beq a) flat_sections.
Definition in_pw_section (a : bytes) : bool := existsb (beq a) pw_sections.

Definition is_pw (path : list bytes) : bool :=
  Nat.leb 3 (List.length path) && beq (last path []) pw_key &&
  (in_deep_section (hd [] path) || (in_flat_section (hd [] path) && Nat.eqb (List.length path) 3)).

(* same shape, same keys, same values -- except that the values at password paths may differ *)
Fixpoint agree (p : list bytes) (t t' : tree) {struct t} : Prop :=
  match t, t' with
  | Leaf v, Leaf v' => v = v' \/ is_pw p = true
  | Node ks, Node ks' => agree_kids p ks ks'
  | _, _ => False
  end
with agree_kids (p : list bytes) (ks ks' : kids) {struct ks} : Prop :=
  match ks, ks' with
  | KNil, KNil => True
  | KCons k c r, KCons k' c' r' => k = k' /\ agree (p ++ [lower k]) c c' /\ agree_kids p r r'
  | _, _ => False
  end.

Definition agree_except_passwords (cfg cfg' : tree) : Prop := agree [] cfg cfg'.

(* the configuration with every password value replaced by [f] of it (e.g. by a constant) *)
Fixpoint set_pw (f : value -> value) (p : list bytes) (t : tree) {struct t} : tree :=
  match t with
  | Leaf v => if is_pw p then Leaf (f v) else Leaf v
  | Node ks => Node (set_pw_kids f p ks)
  end
with set_pw_kids (f : value -> value) (p : list bytes) (ks : kids) {struct ks} : kids :=
  match ks with
  | KNil => KNil
  | KCons k c r => KCons k (set_pw f (p ++ [lower k]) c) (set_pw_kids f p r)
  end.

Definition set_passwords (f : value -> value) (cfg : tree) : tree := set_pw f [] cfg.
Definition erase_passwords (cfg : tree) : tree := set_passwords (fun _ => VStr []) cfg.

(* ------------------------------------------------------------------------------------------------ *)
(* semantics of a read-set table                                                                     *)
(* ------------------------------------------------------------------------------------------------ *)

Inductive rres :=
| ResBool (b : bool)
| ResKeys (ks : list bytes)
| ResVal (v : option value)
| ResKids (l : list (bytes * option value))
| ResTree (t : option tree)
| ResNone.

Fixpoint kid_leaves (ks : kids) : list (bytes * option value) :=
  match ks with
  | KNil => []
  | KCons k c r => (lower k, match c with Leaf v => Some v | Node _ => None end) :: kid_leaves r
  end.

(* The path a read key denotes.  The EMPTY key stands for the root of the configuration: the translator emits
   the whole-configuration reads (viper.AllSettings, AllKeys, Unmarshal, GetViper ...) as rows with an empty
   pattern.  (viper.Get("") itself finds nothing; letting it see the root only makes the model reveal more.) *)
Definition key_path (key : bytes) : list bytes :=
  match key with
  | [] => []
  | _ => path_of key
  end.

Definition renv := list (nat * list rres).

Fixpoint env_get (env : renv) (i : nat) : list rres :=
  match env with
  | [] => []
  | (j, rs) :: r => if Nat.eqb i j then rs else env_get r i
  end.

Section Sem.
  (* cast.ToString of a configuration value (used when a read value becomes part of another key) *)
  Variable to_string : value -> bytes.
  (* cast.ToStringMap / cast.ToStringMapString applied to a SCALAR: spf13/cast parses a string value as a JSON
     object, so GetStringMap*("a.b") on a string leaf can return keys (and values) taken from inside that string.
     Whatever they return is a function of the leaf's value; the two oracles stand for these functions. *)
  Variable leaf_keys : value -> list bytes.
  Variable leaf_kids : value -> list (bytes * option value).

  Definition read (cfg : tree) (k : rkind) (key : bytes) : rres :=
    let n := lookup cfg (key_path key) in
    match k with
    | KExists => ResBool (match n with Some _ => true | None => false end)
    | KKeys => ResKeys (match n with Some (Node ks) => kid_keys ks | Some (Leaf v) => leaf_keys v | None => [] end)
    | KScalar => ResVal (match n with Some (Leaf v) => Some v | _ => None end)
    | KChildren => ResKids (match n with Some (Node ks) => kid_leaves ks | Some (Leaf v) => leaf_kids v | None => [] end)
    | KSubtree => ResTree n
    | KUnknown => ResNone
    end.

  Definition elem_strings (ps : params) (env : renv) (e : pelem) : list bytes :=
    match e with
    | PFix s => [bytes_of_string s]
    | PParam n => [param ps (bytes_of_string n)]
    | PValOf i => flat_map (fun r => match r with
                                     | ResVal (Some v) => [to_string v]
                                     | ResVal None => [[]]
                                     | _ => []
                                     end) (env_get env i)
    | PKeyOf i => flat_map (fun r => match r with ResKeys ks => ks | _ => [] end) (env_get env i)
    | PUnknown _ => []
    end.

  (* all key strings a pattern can denote *)
  Fixpoint inst (ps : params) (env : renv) (pat : list pelem) : list bytes :=
    match pat with
    | [] => [[]]
    | e :: r => flat_map (fun a => map (fun b => a ++ b) (inst ps env r)) (elem_strings ps env e)
    end.

  Definition eval_row (cfg : tree) (ps : params) (env : renv) (r : rrow) : list rres :=
    map (read cfg (row_kind r)) (inst ps env (row_pat r)).

  Fixpoint eval_rows (cfg : tree) (ps : params) (env : renv) (rows : list rrow) : renv :=
    match rows with
    | [] => env
    | r :: rest => eval_rows cfg ps (env ++ [(row_id r, eval_row cfg ps env r)]) rest
    end.

  (* rows of the handler, plus the rows filed under "*": reads performed outside any handler (Configure, Start,
     init, package-level initialisers), whose results may sit in package state that every handler can see *)
  Definition rows_of (tbl : list rrow) (handler : string) : list rrow :=
    filter (fun r => String.eqb (row_handler r) handler || String.eqb (row_handler r) "*") tbl.

  (* everything the handler can learn from the configuration *)
  Definition observe (tbl : list rrow) (cfg : tree) (handler : string) (ps : params) : renv :=
    eval_rows cfg ps [] (rows_of tbl handler).

  (* A response is any function of the handler, the parameters, the backend and the observations. *)
  Definition respond {R : Type} (render : string -> params -> backend -> renv -> R)
             (tbl : list rrow) (cfg : tree) (handler : string) (ps : params) (b : backend) : R :=
    render handler ps b (observe tbl cfg handler ps).
End Sem.

(* ------------------------------------------------------------------------------------------------ *)
(* the checker                                                                                       *)
(* ------------------------------------------------------------------------------------------------ *)

(* nothing unknown, and the literal text is ASCII: there [lower] is exactly Go's strings.ToLower (which also maps the
   two non-ASCII code points U+212A and U+0130 to 'k' and 'i'); what fills a hole is arbitrary anyway *)
Definition pat_known (pat : list pelem) : bool :=
  forallb (fun e => match e with
                    | PUnknown _ => false
                    | PFix s => forallb (fun c => c <? 128) (bytes_of_string s)
                    | _ => true
                    end) pat.

Definition is_fix (e : pelem) : bool := match e with PFix _ => true | _ => false end.

Definition count_dots (s : bytes) : nat := List.length (filter (fun c => c =? dot) s).

(* the literal text every instance of the pattern starts with *)
Fixpoint lead (pat : list pelem) : bytes :=
  match pat with
  | PFix s :: r => bytes_of_string s ++ lead r
  | _ => []
  end.

(* no password path is [path] itself or lies below it *)
Definition path_below_ok (path : list bytes) : bool :=
  match path with
  | [] => false
  | a :: _ => negb (in_pw_section a)
              || (negb (in_deep_section a) && Nat.leb 3 (List.length path) && negb (is_pw path))
  end.

(* the pattern starts with literal text that contains a dot and whose first segment is not a section that
   holds passwords: whatever fills the holes, the first segment of the key is that literal segment *)
Definition first_seg_safe (pat : list pelem) : bool :=
  let l := lower (lead pat) in
  Nat.ltb 0 (count_dots l) && negb (in_pw_section (hd [] (split_dots l))).

(* the literal head contains a dot and its first segment is not a section with nested password paths *)
Definition first_seg_not_deep (pat : list pelem) : bool :=
  let l := lower (lead pat) in
  Nat.ltb 0 (count_dots l) && negb (in_deep_section (hd [] (split_dots l))).

(* the pattern ends with literal text that contains a dot and whose last segment is not "password":
   whatever fills the holes (dots, upper case, nothing), the last segment of the key is that literal segment *)
Definition last_seg_safe (pat : list pelem) : bool :=
  match last pat (PUnknown EmptyString) with
  | PFix s =>
      let b := lower (bytes_of_string s) in
      Nat.ltb 0 (count_dots b) && negb (beq (last (split_dots b) []) pw_key)
  | _ => false
  end.

(* at least this many dots are literal text, hence the key has at least that many + 1 segments *)
Fixpoint fixed_dots (pat : list pelem) : nat :=
  match pat with
  | [] => 0
  | PFix s :: r => count_dots (lower (bytes_of_string s)) + fixed_dots r
  | _ :: r => fixed_dots r
  end.

(* no instance of the pattern is a password path *)
Definition exact_ok (pat : list pelem) : bool :=
  if forallb is_fix pat then negb (is_pw (key_path (lead pat)))
  else first_seg_safe pat || last_seg_safe pat.

(* no instance of the pattern is a password path or a prefix of one *)
Definition below_ok (pat : list pelem) : bool :=
  if forallb is_fix pat then path_below_ok (key_path (lead pat))
  else first_seg_safe pat || (last_seg_safe pat && Nat.leb 2 (fixed_dots pat) && first_seg_not_deep pat).

Definition row_ok (r : rrow) : bool :=
  let pat := row_pat r in
  match row_kind r with
  | KExists => pat_known pat
  | KKeys | KScalar => pat_known pat && exact_ok pat
  | KChildren | KSubtree => pat_known pat && below_ok pat
  | KUnknown => false
  end.

Definition reads_avoid_passwords (tbl : list rrow) : bool := forallb row_ok tbl.

(* ------------------------------------------------------------------------------------------------ *)
(* response structs (gen/RespFields.v): a structural lint next to the read-set obligation            *)
(* ------------------------------------------------------------------------------------------------ *)

Fixpoint has_prefix (p s : bytes) : bool :=
  match p, s with
  | [], _ => true
  | x :: p', y :: s' => (x =? y) && has_prefix p' s'
  | _, [] => false
  end.

Fixpoint contains (needle s : bytes) : bool :=
  has_prefix needle s || match s with [] => false | _ :: r => contains needle r end.

Definition secretish (s : string) : bool :=
  let b := lower (bytes_of_string s) in
  contains (pb "password") b || contains (pb "passwd") b || contains (pb "secret") b.

Definition struct_has_field (structs : list (string * list (string * string * string))) (sf : string) : bool :=
  existsb (fun st => existsb (fun f => String.eqb sf (fst st ++ "." ++ fst (fst f))%string) (snd st)) structs.

Definition is_struct_feed (structs : list (string * list (string * string * string))) (f : string) : bool :=
  existsb (fun st => String.prefix (fst st ++ ".")%string f) structs.

(* The field-feed obligation (a structural lint next to the read-set obligation, which carries the proof):
   - every field of every response-struct literal reachable from a handler is filled by an expression the
     translator can classify -- a viper read (which is then a row of the read table), a constant, a variable,
     a nested literal, a call of a function of the package (walked) or of a library without access to the
     configuration, the backend's reply, the application context, or the request -- never by something it
     cannot see through (FOther: a field of the coordinator, a call into another package of the module, a
     function value, reflection ...);
   - a read that feeds "T.F" feeds a field that exists.
   Field NAMES are not judged: a field called "Password" that is fed from a constant reveals nothing, and one
   fed from the configuration is caught by the read table.  [secretish_fields] only lists such names for the
   evidence file. *)
Definition resp_fields_ok (structs : list (string * list (string * string * string))) (feeds : list feed)
           (tbl : list rrow) : bool :=
  forallb (fun fd => match fd with Feed _ _ _ FOther _ _ => false | _ => true end) feeds
  && forallb (fun r => negb (is_struct_feed structs (row_feeds r)) || struct_has_field structs (row_feeds r)) tbl.

Definition secretish_fields (structs : list (string * list (string * string * string))) : list string :=
  flat_map (fun st => map (fun f => (fst st ++ "." ++ fst (fst f))%string)
                          (filter (fun f => secretish (fst (fst f)) || secretish (snd f)) (snd st))) structs.

(* ------------------------------------------------------------------------------------------------ *)
(* route table <-> read table                                                                        *)
(* ------------------------------------------------------------------------------------------------ *)

(* Every registration of the route table is analysed and names a handler the reads pass really walked
   (gen/ReadSets.walked: a handler that reads nothing is in the list, a handler the pass never entered is not);
   if the router has options (NotFound, MethodNotAllowed, PanicHandler ...) the ServeHTTP methods of the package
   were walked too.  Without this, [respond tbl cfg h ...] for an unwalked handler h observes only the "*" rows
   and non-interference would hold for it vacuously. *)
Definition rt_handler (row : rt_row) : option string :=
  match row with
  | RtRow _ _ _ h _ => Some h
  | RtUnknown _ _ => None
  end.

Definition route_handlers_walked (rt : list rt_row) (opts : list (string * string)) (walked : list string) : bool :=
  forallb (fun row => match rt_handler row with Some h => str_in h walked | None => false end) rt
  && match opts with [] => true | _ => str_in "ServeHTTP" walked end.
