(* Lock discipline over a regenerated access table (C08 b/c).
   The table (coq/gen/LocksetTable.v, coq/gen/RouterTable.v) is produced on every run by
   /verif/translator/lockset from core/internal/storage/inmemory.go:
     - one [row] per access of a request handler (helpers inlined) to shared storage state, with the locks that
       are certainly held at that point AND protect the accessed object (the lock of the same cluster / of the
       same group object);
     - one [acq] per lock acquisition with the locks held at that moment;
     - the dispatch switch of mainLoop ([route]), requestTypeMap and every StorageRequestConstant.
   This file holds the boolean checkers and the step semantics they are sound for; proofs in LocksetProofs.v. *)
From Coq Require Import String List Bool NArith ZArith.
Import ListNotations.

Inductive lockc := LBroker | LConsumer | LGroup.     (* clusterOffsets.brokerLock / .consumerLock / consumerGroup.lock *)
Inductive lmode := MR | MW.                           (* RLock / Lock *)
Inductive access := R | W.

(* location classes *)
Inductive lclass :=
| CModuleCfg        (* InMemoryStorage fields and module.offsets: written by Configure/Start only *)
| CBrokerMap        (* clusterOffsets.broker (map topic -> partitions) *)
| CBrokerParts      (* elements of a []*ring.Ring of the broker map *)
| CBrokerRing       (* slots / values of a broker offset ring *)
| CConsumerMap      (* clusterOffsets.consumer (map group -> *consumerGroup) *)
| CGroupTopics      (* consumerGroup.topics *)
| CGroupParts       (* elements of a []*consumerPartition *)
| CGroupLast        (* consumerGroup.lastCommit *)
| CPartOffsets | CPartOwner | CPartClient   (* consumerPartition fields *)
| CConsumerRing     (* slots / values of a consumer offset ring *)
| CLagValue         (* protocol.Lag reachable from a ring (also reachable from delivered replies) *)
| CEscape (ty : string)    (* a reference into shared state stored into a reply / handed to foreign code *)
| CBlocking (what : string) (* a channel send / receive while a storage lock is held (can block for ever) *)
| CUnknown (why : string). (* anything the translator could not classify *)

Record row := mkRow {
  r_handler : string; r_func : string; r_line : N; r_class : lclass; r_rw : access;
  r_locks : list (lockc * lmode);      (* held for certain, and of the accessed object's cluster / group *)
  r_own : bool }.                      (* the object is the group named by request.Group *)

Record acq := mkAcq {
  a_handler : string; a_func : string; a_line : N; a_class : lockc; a_mode : lmode;
  a_before : list (lockc * lmode) }.   (* every lock held when the acquisition starts *)

Inductive route := RAny | RHashed | RUnknown.   (* random worker / hash(cluster+group) / not understood *)

Definition lockc_eqb (a b : lockc) : bool :=
  match a, b with LBroker, LBroker | LConsumer, LConsumer | LGroup, LGroup => true | _, _ => false end.
Definition is_mw (m : lmode) : bool := match m with MW => true | MR => false end.
Definition is_w (a : access) : bool := match a with W => true | R => false end.

Definition lclass_eqb (a b : lclass) : bool :=
  match a, b with
  | CModuleCfg, CModuleCfg | CBrokerMap, CBrokerMap | CBrokerParts, CBrokerParts | CBrokerRing, CBrokerRing
  | CConsumerMap, CConsumerMap | CGroupTopics, CGroupTopics | CGroupParts, CGroupParts | CGroupLast, CGroupLast
  | CPartOffsets, CPartOffsets | CPartOwner, CPartOwner | CPartClient, CPartClient
  | CConsumerRing, CConsumerRing | CLagValue, CLagValue => true
  | _, _ => false
  end.

(* classes whose objects belong to exactly one consumer group *)
Definition group_scoped (c : lclass) : bool :=
  match c with
  | CGroupTopics | CGroupParts | CGroupLast | CPartOffsets | CPartOwner | CPartClient | CConsumerRing => true
  | _ => false
  end.

(* protocol.Lag values are written before they are published and never afterwards (a write to a published one
   is a CLagValue W row and conflicts with the synthetic reply-reader row), so copying the pointer is a copy *)
Definition row_ok (r : row) : bool :=
  match r_class r with
  | CUnknown _ => false
  | CBlocking _ => false
  | CEscape ty => String.eqb ty "*protocol.Lag"
  | _ => true
  end.

(* the synthetic row the translator adds for whoever reads a delivered reply (evaluator, HTTP server): it dereferences
   the Lag pointers of the reply holding no storage lock *)
Definition is_reply_reader (r : row) : bool :=
  match r_class r, r_rw r, r_locks r with CLagValue, R, [] => negb (r_own r) | _, _, _ => false end.

Definition conflict (r1 r2 : row) : bool :=
  lclass_eqb (r_class r1) (r_class r2) && (is_w (r_rw r1) || is_w (r_rw r2)).

Definition common_lock (r1 r2 : row) : bool :=
  existsb (fun lm1 => existsb (fun lm2 => lockc_eqb (fst lm1) (fst lm2) && (is_mw (snd lm1) || is_mw (snd lm2)))
                              (r_locks r2)) (r_locks r1).

Section Checkers.
  Variable keyed : string -> bool.     (* the handler's request types are all hashed by (cluster, group) *)

  (* both accesses are made by group-keyed handlers to their own group: same group => same worker *)
  (* (written with if-then-else so that vm_compute evaluates the string comparisons of [keyed] only when needed) *)
  Definition exempt (r1 r2 : row) : bool :=
    if group_scoped (r_class r1) then if r_own r1 then if r_own r2 then
      if keyed (r_handler r1) then keyed (r_handler r2) else false
    else false else false else false.

  Definition pair_ok (r1 r2 : row) : bool :=
    if conflict r1 r2 then (if common_lock r1 r2 then true else exempt r1 r2) else true.

  Definition race_free (tbl : list row) : bool :=
    forallb row_ok tbl && forallb (fun r1 => forallb (pair_ok r1) tbl) tbl.

  (* diagnostics for the check module: the offending rows / pairs *)
  Definition bad_rows (tbl : list row) : list row := filter (fun r => negb (row_ok r)) tbl.
  Definition bad_pairs (tbl : list row) : list (row * row) :=
    flat_map (fun r1 => map (fun r2 => (r1, r2)) (filter (fun r2 => negb (pair_ok r1 r2)) tbl)) tbl.
End Checkers.

(* ---- lock order ---- *)
Definition rank_of (order : list lockc) (l : lockc) : nat :=
  (fix go (o : list lockc) (i : nat) : nat :=
     match o with [] => i | x :: r => if lockc_eqb x l then i else go r (S i) end) order O.

Definition acq_respects (rk : lockc -> nat) (a : acq) : bool :=
  forallb (fun lm => Nat.ltb (rk (fst lm)) (rk (a_class a))) (a_before a).

Definition all_orders : list (list lockc) :=
  [[LBroker; LConsumer; LGroup]; [LBroker; LGroup; LConsumer]; [LConsumer; LBroker; LGroup];
   [LConsumer; LGroup; LBroker]; [LGroup; LBroker; LConsumer]; [LGroup; LConsumer; LBroker]].

(* some total order of the three lock classes is respected by every acquisition: a lock is only ever
   requested while holding locks of strictly smaller classes (in particular never two locks of one class) *)
Definition lock_order_ok (acqs : list acq) : bool :=
  existsb (fun o => forallb (acq_respects (rank_of o)) acqs) all_orders.

Definition bad_acqs (acqs : list acq) : list acq :=
  filter (fun a => negb (acq_respects (rank_of [LConsumer; LGroup; LBroker]) a)) acqs.

(* ---- router ---- *)
Fixpoint route_of (routes : list (string * route * N)) (c : string) : option route :=
  match routes with
  | [] => None
  | (c', k, _) :: r => if String.eqb c' c then Some k else route_of r c
  end.

Definition handler_keyed (routes : list (string * route * N)) (handlers : list (string * string)) (h : string) : bool :=
  existsb (fun ch => String.eqb (snd ch) h) handlers &&
  forallb (fun ch => negb (String.eqb (snd ch) h) ||
                     match route_of routes (fst ch) with Some RHashed => true | _ => false end) handlers.

(* the handler writes state of the group named by its request *)
Definition writes_own_group (tbl : list row) (h : string) : bool :=
  existsb (fun r => String.eqb (r_handler r) h && group_scoped (r_class r) && r_own r && is_w (r_rw r)) tbl.

Definition mem_string (s : string) (l : list string) : bool := existsb (String.eqb s) l.

Definition router_check (constants : list string) (routes : list (string * route * N))
           (handlers : list (string * string)) (problems : list string) (tbl : list row) : bool :=
  match problems with [] => true | _ => false end &&
  forallb (fun c => match route_of routes c with Some RAny | Some RHashed => true | _ => false end &&
                    existsb (fun ch => String.eqb (fst ch) c) handlers) constants &&
  forallb (fun ch => mem_string (fst ch) constants &&
                     (negb (writes_own_group tbl (snd ch)) ||
                      match route_of routes (fst ch) with Some RHashed => true | _ => false end)) handlers.

(* ---- step semantics of a table ----
   Workers hold locks on concrete objects and perform the accesses of the table.  An access of row r to object o
   is permitted only while the worker holds every lock the row lists, instantiated at o (the group lock of o
   itself, the broker / consumer lock of o's cluster); accesses of a keyed handler to its own group are made by
   the one worker the router assigns to that group. *)
Section Sem.
  Variable keyed : string -> bool.
  Variable tbl : list row.
  Variable cluster_of : Z -> Z.          (* the cluster an object belongs to *)
  Variable router : Z -> nat.            (* the worker serving the keyed requests of a group object *)

  Definition lockid := (lockc * Z)%type.
  Definition lock_inst (l : lockc) (o : Z) : lockid :=
    match l with LGroup => (LGroup, o) | _ => (l, cluster_of o) end.

  Definition holdings := nat -> list (lockid * lmode).

  Inductive ev :=
  | EAcq (w : nat) (l : lockid) (m : lmode)
  | ERel (w : nat) (l : lockid) (m : lmode)
  | EAcc (w : nat) (r : row) (o : Z).

  (* sync.RWMutex: a writer excludes everybody, readers exclude writers *)
  Definition compat (h : holdings) (w : nat) (l : lockid) (m : lmode) : Prop :=
    forall w' m', w' <> w -> In (l, m') (h w') -> m = MR /\ m' = MR.

  Definition upd (h : holdings) (w : nat) (v : list (lockid * lmode)) : holdings :=
    fun w' => if Nat.eqb w' w then v else h w'.

  Definition can_access (h : holdings) (w : nat) (r : row) (o : Z) : Prop :=
    In r tbl /\
    (forall l m, In (l, m) (r_locks r) -> exists m', In (lock_inst l o, m') (h w) /\ (m = MW -> m' = MW)) /\
    (r_own r = true -> keyed (r_handler r) = true -> w = router o).

  Inductive step : holdings -> ev -> holdings -> Prop :=
  | SAcq h w l m : compat h w l m -> step h (EAcq w l m) (upd h w ((l, m) :: h w))
  | SRel h w l m rest : (forall x, In x rest -> In x (h w)) -> step h (ERel w l m) (upd h w rest)
  | SAcc h w r o : can_access h w r o -> step h (EAcc w r o) h.

  Inductive reachable : holdings -> Prop :=
  | RInit : reachable (fun _ => [])
  | RStep h e h' : reachable h -> step h e h' -> reachable h'.

  (* two accesses that race: same object, same class, one writes, different workers *)
  Definition race (h : holdings) : Prop :=
    exists w1 w2 r1 r2 o, w1 <> w2 /\ can_access h w1 r1 o /\ can_access h w2 r2 o /\ conflict r1 r2 = true.
End Sem.

(* ---- waiting-for semantics (deadlock) ----
   Every worker either runs or waits for one lock; [respects] says that what it waits for and what it holds
   follow the acquisition table (it waits for a lock of a class ranked above everything it holds). *)
Section Wait.
  Variable n : nat.                                       (* number of workers *)
  Variable rk : lockc -> nat.
  Definition wlockid := (lockc * Z)%type.
  Variable holds : nat -> list (wlockid * lmode).
  Variable waits : nat -> option (wlockid * lmode).

  Definition blocked_by (w w' : nat) (l : wlockid) (m : lmode) : Prop :=
    w' <> w /\ exists m', In (l, m') (holds w') /\ (m = MW \/ m' = MW).

  Definition can_acquire (w : nat) (l : wlockid) (m : lmode) : Prop :=
    forall w', w' < n -> ~ blocked_by w w' l m.

  Definition respects : Prop :=
    forall w l m, w < n -> waits w = Some (l, m) -> forall l' m', In (l', m') (holds w) -> rk (fst l') < rk (fst l).
End Wait.
