(* C17, the full statement of metrics_equal_state: the registry after ANY scrape of ANY history equals what the live
   state calls for.  Needs, on top of MetricsProofs, that what a scrape writes only grows between deletions:
   groups, partition lists and broker partitions never disappear except through the removing requests (whose metric
   deletions remove the series), and a window that is full stays full (Ring / Storage proofs of the other layers). *)
From Coq Require Import ZArith List Bool Lia.
From Burrow Require Import Int64 F32 Eval EvalProofs EvalGroupProofs EvalCompleteProofs AMap AMapProofs Ring RingProofs
     Storage StorageProofs StorageWindows StorageDelProofs Metrics MetricsProofs.
Import ListNotations.
Open Scope Z_scope.

(* ---------- a full window ---------- *)
Definition ring_full (w : ring) : bool := match w with [] => false | _ :: _ => forallb is_some w end.

Lemma ring_full_spec w : ring_full w = true <-> w <> [] /\ forall s, In s w -> is_some s = true.
Proof.
  destruct w as [|x r]; cbn [ring_full].
  - split; [discriminate|intros [H _]; congruence].
  - rewrite forallb_forall. split; [intros H; split; [discriminate|exact H]|intros [_ H]; exact H].
Qed.

Lemma ring_step_full md w c lag w' app :
  ring_step md w c lag = (w', app) -> ring_full w = true -> ring_full w' = true.
Proof.
  intros Hs Hf. apply ring_full_spec in Hf. destruct Hf as [Hne Hall]. apply ring_full_spec. split.
  - pose proof (ring_step_length _ _ _ _ _ _ Hs) as Hl. destruct w' as [|a b]; [|discriminate].
    destruct w; [congruence|discriminate].
  - intros s Hin. destruct (ring_step_slots _ _ _ _ _ _ _ Hs Hin) as [Ho|(e & -> & _)]; [apply Hall; exact Ho|reflexivity].
Qed.

(* ---------- what must not disappear ---------- *)
Definition tofs (cl : cluster) (t : Z) : option (list Z) :=
  match get (cl_broker cl) t with
  | Some tl => Some (flat_map (fun r : bring => match last r None with Some o => [o] | None => [] end) tl)
  | None => None
  end.

Lemma topic_offsets_tofs st c t :
  Metrics.topic_offsets st c t = match get st c with Some cl => tofs cl t | None => None end.
Proof.
  unfold Metrics.topic_offsets, fetch_topic, tofs. destruct (get st c) as [cl|]; [|reflexivity].
  destruct (get (cl_broker cl) t); reflexivity.
Qed.

Definition pl (st : state) (c g t : Z) : list cpartition :=
  match get st c with Some cl => cons_topic cl g t | None => [] end.

Definition live (st : state) (k : key) : Prop :=
  match k with
  | KGroup _ c g => find_group st c g <> None
  | KPart f c g t p =>
      0 <= p /\ exists pr, nth_error (pl st c g t) (Z.to_nat p) = Some pr /\
                           match f with PLag => True | _ => exists w, pr_ring pr = Some w /\ ring_full w = true end
  | KTopic c t p => 0 <= p /\ exists l, Metrics.topic_offsets st c t = Some l /\ (Z.to_nat p < length l)%nat
  end.

Definition part_mono (pr pr' : cpartition) : Prop :=
  forall w, pr_ring pr = Some w -> exists w', pr_ring pr' = Some w' /\ (ring_full w = true -> ring_full w' = true).

Lemma part_mono_refl pr : part_mono pr pr.
Proof. intros w Hw. eauto. Qed.

(* the cluster before and after one handler; kg / kp / kt say which groups, (group, topic) lists and broker topics the
   handler is NOT allowed to remove *)
Record CRel (kg : Z -> bool) (kp : Z -> Z -> bool) (kt : Z -> bool) (cl cl' : cluster) : Prop := mkCRel {
  cr_g : forall g, kg g = true -> get (cl_consumer cl) g <> None -> get (cl_consumer cl') g <> None;
  cr_p : forall g t i pr, kp g t = true -> nth_error (cons_topic cl g t) i = Some pr ->
                          exists pr', nth_error (cons_topic cl' g t) i = Some pr' /\ part_mono pr pr';
  cr_t : forall t l, kt t = true -> tofs cl t = Some l -> exists l', tofs cl' t = Some l' /\ (length l <= length l')%nat }.

Definition keepk (c : Z) (kg : Z -> bool) (kp : Z -> Z -> bool) (kt : Z -> bool) (k : key) : bool :=
  if key_cluster k =? c
  then match k with KGroup _ _ g => kg g | KPart _ _ g t _ => kp g t | KTopic _ t _ => kt t end
  else true.

Lemma live_set st c cl cl' kg kp kt k :
  get st c = Some cl -> CRel kg kp kt cl cl' -> live st k -> keepk c kg kp kt k = true -> live (set st c cl') k.
Proof.
  intros Hc [Rg Rp Rt] Hl Hk. unfold keepk in Hk.
  destruct k as [f c0 g|f c0 g t p|c0 t p]; cbn [key_cluster live] in *.
  - unfold find_group in *. destruct (Z.eqb_spec c0 c) as [->|Hn].
    + rewrite get_set_eq. rewrite Hc in Hl. apply Rg; assumption.
    + rewrite get_set_neq by congruence. exact Hl.
  - destruct Hl as (Hp & pr & Hn & Hf). split; [exact Hp|]. unfold pl in *.
    destruct (Z.eqb_spec c0 c) as [->|Hne].
    + rewrite get_set_eq. rewrite Hc in Hn. destruct (Rp g t _ pr Hk Hn) as (pr' & Hn' & Hm).
      exists pr'. split; [exact Hn'|]. destruct f; [exact I| |];
        destruct Hf as (w & Hw & Hfull); destruct (Hm w Hw) as (w' & Hw' & Hi); eauto.
    + rewrite get_set_neq by congruence. eauto.
  - destruct Hl as (Hp & l & Hl & Hlen). split; [exact Hp|]. rewrite topic_offsets_tofs in *.
    destruct (Z.eqb_spec c0 c) as [->|Hne].
    + rewrite get_set_eq. rewrite Hc in Hl. destruct (Rt t l Hk Hl) as (l' & Hl' & Hle). exists l'. split; [exact Hl'|lia].
    + rewrite get_set_neq by congruence. eauto.
Qed.

Definition ktrue1 (_ : Z) := true.
Definition ktrue2 (_ _ : Z) := true.

Lemma CRel_refl kg kp kt cl : CRel kg kp kt cl cl.
Proof. constructor; intros; eauto using part_mono_refl. Qed.

(* ---------- one lemma per storage handler ---------- *)
Definition cntf (tl : list bring) : nat :=
  length (flat_map (fun r : bring => match last r None with Some o => [o] | None => [] end) tl).

Lemma cntf_app l m : cntf (l ++ m) = (cntf l + cntf m)%nat.
Proof. unfold cntf. rewrite flat_map_app, app_length. reflexivity. Qed.

Lemma cntf_set_nth l : forall i x, last x None <> None -> (cntf l <= cntf (set_nth l i x))%nat.
Proof.
  induction l as [|a r IH]; intros i x Hx; [destruct i; cbn; lia|].
  destruct i as [|i]; cbn [set_nth].
  - unfold cntf. cbn [flat_map]. rewrite !app_length. destruct (last x None); [|congruence]. destruct (last a None); cbn; lia.
  - specialize (IH i x Hx). unfold cntf in *. cbn [flat_map]. rewrite !app_length. lia.
Qed.

Lemma abo_rel cf st c cl t p cnt off st' rep :
  get st c = Some cl -> add_broker_offset cf st c t p cnt off = Done st' rep ->
  exists cl', st' = set st c cl' /\ CRel ktrue1 ktrue2 ktrue1 cl cl'.
Proof.
  intros Hc. unfold add_broker_offset. rewrite Hc. cbv zeta.
  match goal with |- context [if ?b then Crashed else _] => destruct b end; [discriminate|].
  intros H. injection H as <- _. eexists. split; [reflexivity|].
  constructor; cbn [cl_consumer cl_broker].
  - intros g _ H. exact H.
  - intros g t0 i pr _ H. exists pr. split; [exact H|apply part_mono_refl].
  - intros t0 l _. unfold tofs. cbn [cl_broker]. destruct (Z.eq_dec t0 t) as [->|Hn].
    + rewrite get_set_eq. intros Hl. eexists. split; [reflexivity|].
      fold (cntf (set_nth (if Z.of_nat (length match get (cl_broker cl) t with Some l0 => l0 | None => [] end) <=? cnt
                           then match get (cl_broker cl) t with Some l0 => l0 | None => [] end ++
                                repeat (repeat None (cf_intervals cf))
                                  (Z.to_nat cnt - length match get (cl_broker cl) t with Some l0 => l0 | None => [] end)
                           else match get (cl_broker cl) t with Some l0 => l0 | None => [] end) (Z.to_nat p)
                    (tl (nth (Z.to_nat p)
                           (if Z.of_nat (length match get (cl_broker cl) t with Some l0 => l0 | None => [] end) <=? cnt
                            then match get (cl_broker cl) t with Some l0 => l0 | None => [] end ++
                                 repeat (repeat None (cf_intervals cf))
                                   (Z.to_nat cnt - length match get (cl_broker cl) t with Some l0 => l0 | None => [] end)
                            else match get (cl_broker cl) t with Some l0 => l0 | None => [] end) []) ++ [Some off]))).
      destruct (get (cl_broker cl) t) as [tl0|]; [|discriminate]. injection Hl as <-. fold (cntf tl0).
      eapply Nat.le_trans; [|apply cntf_set_nth; rewrite last_last; discriminate].
      destruct (Z.of_nat (length tl0) <=? cnt); [rewrite cntf_app; lia|lia].
    + rewrite get_set_neq by congruence. intros Hl. exists l. split; [exact Hl|lia].
Qed.

Lemma gcp_keeps N l0 p cnt j pr0 :
  nth_error l0 j = Some pr0 ->
  exists pr1, nth_error (gcp N l0 p cnt) j = Some pr1 /\ (forall w, pr_ring pr0 = Some w -> pr_ring pr1 = Some w).
Proof.
  intros Hj. unfold gcp. cbv zeta.
  set (l1 := if Z.of_nat (length l0) <=? p then l0 ++ repeat empty_partition (Z.to_nat cnt - length l0) else l0).
  assert (H1 : nth_error l1 j = Some pr0).
  { unfold l1. destruct (Z.of_nat (length l0) <=? p); [apply nth_error_app_l; exact Hj|exact Hj]. }
  destruct (pr_ring (nth (Z.to_nat p) l1 empty_partition)) eqn:Er; [exists pr0; auto|].
  destruct (Nat.eq_dec (Z.to_nat p) j) as [E|Hn].
  - subst j. rewrite nth_error_set_nth_eq by (apply nth_error_Some; congruence).
    eexists. split; [reflexivity|]. intros w Hw. rewrite (nth_error_nth _ _ empty_partition H1) in Er. congruence.
  - rewrite nth_error_set_nth_neq by exact Hn. exists pr0. auto.
Qed.

Lemma cons_topic_set_group cl g grp' g0 t0 :
  cons_topic (mkCluster (cl_broker cl) (set (cl_consumer cl) g grp')) g0 t0 =
  if g0 =? g then match get (g_topics grp') t0 with Some l => l | None => [] end else cons_topic cl g0 t0.
Proof.
  unfold cons_topic. cbn [cl_consumer]. destruct (Z.eqb_spec g0 g) as [->|Hn].
  - rewrite get_set_eq. reflexivity.
  - rewrite get_set_neq by congruence. reflexivity.
Qed.

Lemma cons_topic_grp_or_empty cl g t : cons_topic cl g t = match get (g_topics (grp_or_empty cl g)) t with Some l => l | None => [] end.
Proof. unfold cons_topic, grp_or_empty. destruct (get (cl_consumer cl) g); reflexivity. Qed.

(* a handler that replaces the partition list of (g, t) by one that keeps every partition *)
Lemma set_topic_rel cl g t parts' last :
  (forall j pr0, nth_error (cons_topic cl g t) j = Some pr0 -> exists pr', nth_error parts' j = Some pr' /\ part_mono pr0 pr') ->
  CRel ktrue1 ktrue2 ktrue1 cl
       (mkCluster (cl_broker cl) (set (cl_consumer cl) g (mkCgroup (set (g_topics (grp_or_empty cl g)) t parts') last))).
Proof.
  intros Hp. constructor.
  - intros g0 _ H. cbn [cl_consumer]. destruct (Z.eq_dec g0 g) as [->|Hn]; [rewrite get_set_eq; discriminate|].
    rewrite get_set_neq by congruence. exact H.
  - intros g0 t0 i pr _ H. rewrite cons_topic_set_group. destruct (Z.eqb_spec g0 g) as [->|Hn]; [|eauto using part_mono_refl].
    cbn [g_topics]. destruct (Z.eq_dec t0 t) as [->|Ht].
    + rewrite get_set_eq. apply Hp. exact H.
    + rewrite get_set_neq by congruence. rewrite <- cons_topic_grp_or_empty. eauto using part_mono_refl.
  - intros t0 l _ H. exists l. split; [exact H|lia].
Qed.

Lemma aco_rel cf now st c cl g t p off order ts st' rep :
  get st c = Some cl -> add_consumer_offset cf now st c g t p off order ts = Done st' rep ->
  st' = st \/ exists cl', st' = set st c cl' /\ CRel ktrue1 ktrue2 ktrue1 cl cl'.
Proof.
  intros Hc. unfold add_consumer_offset. rewrite Hc.
  destruct (too_old cf now ts); [intros H; injection H as <- _; left; reflexivity|].
  destruct (negb (cf_accept cf g)); [intros H; injection H as <- _; left; reflexivity|].
  destruct (get_broker_offset cl t p) as [boff cnt].
  destruct (cnt =? 0); [intros H; injection H as <- _; left; reflexivity|].
  cbv zeta. fold (grp_or_empty cl g). rewrite gcp_eq, <- cons_topic_grp_or_empty.
  set (parts := gcp (cf_intervals cf) (cons_topic cl g t) p cnt).
  set (pr := nth (Z.to_nat p) parts empty_partition).
  destruct (ring_step (cf_min_distance cf) (match pr_ring pr with Some w => w | None => [] end)
              (mkCommit off order ts) (commit_lag boff off)) as [w' app] eqn:Ers.
  intros H. injection H as <- _. right. eexists. split; [reflexivity|].
  apply set_topic_rel. intros j pr0 Hj.
  destruct (gcp_keeps (cf_intervals cf) _ p cnt j pr0 Hj) as (pr1 & H1 & Hk). fold parts in H1.
  destruct (Nat.eq_dec (Z.to_nat p) j) as [E|Hn].
  - subst j. rewrite nth_error_set_nth_eq by (apply nth_error_Some; congruence).
    eexists. split; [reflexivity|]. intros w Hw. cbn [pr_ring]. exists w'. split; [reflexivity|].
    assert (Epr : pr = pr1) by (unfold pr; apply nth_error_nth; exact H1).
    rewrite Epr, (Hk w Hw) in Ers. eapply ring_step_full. exact Ers.
  - rewrite nth_error_set_nth_neq by exact Hn. exists pr1. split; [exact H1|]. intros w Hw. rewrite (Hk w Hw). eauto.
Qed.

Lemma aown_rel cf st c cl g t p owner client st' rep :
  get st c = Some cl -> add_consumer_owner cf st c g t p owner client = Done st' rep ->
  st' = st \/ exists cl', st' = set st c cl' /\ CRel ktrue1 ktrue2 ktrue1 cl cl'.
Proof.
  intros Hc. unfold add_consumer_owner. rewrite Hc.
  destruct (negb (cf_accept cf g)); [intros H; injection H as <- _; left; reflexivity|].
  cbv zeta. fold (grp_or_empty cl g).
  destruct (get_broker_offset cl t p) as [boff cnt]. destruct (cnt =? 0).
  - intros H. injection H as <- _. right. eexists. split; [reflexivity|]. constructor.
    + intros g0 _ H. cbn [cl_consumer]. destruct (Z.eq_dec g0 g) as [->|Hn]; [rewrite get_set_eq; discriminate|].
      rewrite get_set_neq by congruence. exact H.
    + intros g0 t0 i pr _ H. rewrite cons_topic_set_group. destruct (Z.eqb_spec g0 g) as [->|Hn]; [|eauto using part_mono_refl].
      rewrite <- cons_topic_grp_or_empty. eauto using part_mono_refl.
    + intros t0 l _ H. exists l. split; [exact H|lia].
  - rewrite gcp_eq, <- cons_topic_grp_or_empty.
    intros H. injection H as <- _. right. eexists. split; [reflexivity|].
    apply set_topic_rel. intros j pr0 Hj.
    destruct (gcp_keeps (cf_intervals cf) _ p cnt j pr0 Hj) as (pr1 & H1 & Hk).
    destruct (Nat.eq_dec (Z.to_nat p) j) as [E|Hn].
    + subst j. rewrite nth_error_set_nth_eq by (apply nth_error_Some; congruence).
      eexists. split; [reflexivity|]. intros w Hw. cbn [pr_ring].
      rewrite (nth_error_nth _ _ empty_partition H1), (Hk w Hw). eauto.
    + rewrite nth_error_set_nth_neq by exact Hn. exists pr1. split; [exact H1|]. intros w Hw. rewrite (Hk w Hw). eauto.
Qed.

Lemma clear_rel cf st c cl g st' rep :
  get st c = Some cl -> clear_consumer_owners cf st c g = Done st' rep ->
  st' = st \/ exists cl', st' = set st c cl' /\ CRel ktrue1 ktrue2 ktrue1 cl cl'.
Proof.
  intros Hc. unfold clear_consumer_owners. rewrite Hc.
  destruct (negb (cf_accept cf g)); [intros H; injection H as <- _; left; reflexivity|].
  destruct (get (cl_consumer cl) g) as [grp|] eqn:Hg; [|intros H; injection H as <- _; left; reflexivity].
  intros H. injection H as <- _. right. eexists. split; [reflexivity|]. constructor.
  - intros g0 _ H. cbn [cl_consumer]. destruct (Z.eq_dec g0 g) as [->|Hn]; [rewrite get_set_eq; discriminate|].
    rewrite get_set_neq by congruence. exact H.
  - intros g0 t0 i pr _ H. rewrite cons_topic_set_group. destruct (Z.eqb_spec g0 g) as [->|Hn]; [|eauto using part_mono_refl].
    unfold cons_topic in H. rewrite Hg in H. unfold clear_owners_group. cbn [g_topics]. rewrite get_map_vals.
    destruct (get (g_topics grp) t0) as [l|]; cbn [option_map]; [|destruct i; discriminate].
    rewrite nth_error_map, H. cbn [option_map]. eexists. split; [reflexivity|]. intros w Hw. cbn [pr_ring]. eauto.
  - intros t0 l _ H. exists l. split; [exact H|lia].
Qed.

Lemma dtopic_rel st c cl t st' rep :
  get st c = Some cl -> delete_topic st c t = Done st' rep ->
  exists cl', st' = set st c cl' /\
    CRel ktrue1 (fun _ t0 => negb (t0 =? t)) (fun t0 => negb (t0 =? t)) cl cl'.
Proof.
  intros Hc. unfold delete_topic. rewrite Hc. intros H. injection H as <- _. eexists. split; [reflexivity|]. constructor.
  - intros g _ H. cbn [cl_consumer]. rewrite get_map_vals. destruct (get (cl_consumer cl) g); [discriminate|congruence].
  - intros g t0 i pr Hk H. apply negb_true_iff, Z.eqb_neq in Hk. exists pr. split; [|apply part_mono_refl].
    unfold cons_topic in *. cbn [cl_consumer]. rewrite get_map_vals.
    destruct (get (cl_consumer cl) g) as [grp|]; cbn [option_map g_topics]; [|exact H].
    rewrite get_remove_neq by congruence. exact H.
  - intros t0 l Hk H. apply negb_true_iff, Z.eqb_neq in Hk. exists l. split; [|lia].
    unfold tofs in *. cbn [cl_broker]. rewrite get_remove_neq by congruence. exact H.
Qed.

(* deleteGroup: either the whole group goes, or only the topic's partition list *)
Lemma dgroup_rel st c cl g t st' rep :
  get st c = Some cl -> delete_group st c g t = Done st' rep ->
  st' = st \/
  exists cl', st' = set st c cl' /\
    ((get (cl_consumer cl') g = None /\
      CRel (fun g0 => negb (g0 =? g)) (fun g0 _ => negb (g0 =? g)) ktrue1 cl cl') \/
     (get (cl_consumer cl') g <> None /\
      CRel ktrue1 (fun g0 t0 => negb ((g0 =? g) && (t0 =? t))) ktrue1 cl cl')).
Proof.
  intros Hc. unfold delete_group. rewrite Hc.
  destruct (get (cl_consumer cl) g) as [grp|] eqn:Hg; [|intros H; injection H as <- _; left; reflexivity].
  assert (Hwhole : CRel (fun g0 => negb (g0 =? g)) (fun g0 _ => negb (g0 =? g)) ktrue1 cl
                        (mkCluster (cl_broker cl) (remove (cl_consumer cl) g))).
  { constructor.
    - intros g0 Hk H. apply negb_true_iff, Z.eqb_neq in Hk. cbn [cl_consumer]. rewrite get_remove_neq by congruence. exact H.
    - intros g0 t0 i pr Hk H. apply negb_true_iff, Z.eqb_neq in Hk. exists pr. split; [|apply part_mono_refl].
      unfold cons_topic in *. cbn [cl_consumer]. rewrite get_remove_neq by congruence. exact H.
    - intros t0 l _ H. exists l. split; [exact H|lia]. }
  destruct (t =? 0).
  - intros H. injection H as <- _. right. eexists. split; [reflexivity|]. left. split; [cbn [cl_consumer]; apply get_remove_eq|exact Hwhole].
  - assert (Hset : Done (set st c (mkCluster (cl_broker cl) (set (cl_consumer cl) g
                            (mkCgroup (remove (g_topics grp) t) (g_last grp))))) RNone = Done st' rep ->
                   st' = st \/
                   exists cl', st' = set st c cl' /\
                     ((get (cl_consumer cl') g = None /\
                       CRel (fun g0 => negb (g0 =? g)) (fun g0 _ => negb (g0 =? g)) ktrue1 cl cl') \/
                      (get (cl_consumer cl') g <> None /\
                       CRel ktrue1 (fun g0 t0 => negb ((g0 =? g) && (t0 =? t))) ktrue1 cl cl'))).
    2:{ destruct (remove (g_topics grp) t) as [|x r] eqn:Er; [|exact Hset].
        destruct (get (g_topics grp) t); [|exact Hset].
        intros H. injection H as <- _. right. eexists. split; [reflexivity|]. left. split; [cbn [cl_consumer]; apply get_remove_eq|exact Hwhole]. }
    + intros H. injection H as <- _. right. eexists. split; [reflexivity|]. right.
      split; [cbn [cl_consumer]; rewrite get_set_eq; discriminate|]. constructor.
      * intros g0 _ H. cbn [cl_consumer]. destruct (Z.eq_dec g0 g) as [->|Hn]; [rewrite get_set_eq; discriminate|].
        rewrite get_set_neq by congruence. exact H.
      * intros g0 t0 i pr Hk H. exists pr. split; [|apply part_mono_refl]. rewrite cons_topic_set_group.
        destruct (Z.eqb_spec g0 g) as [->|Hn]; [|exact H]. cbn [andb negb] in Hk. apply negb_true_iff, Z.eqb_neq in Hk.
        cbn [g_topics]. rewrite get_remove_neq by congruence. unfold cons_topic in H. rewrite Hg in H. exact H.
      * intros t0 l _ H. exists l. split; [exact H|lia].
Qed.

(* ---------- one storage request: which keys may stop being live ---------- *)
Definition removed (cf : config) (now : Z) (st st' : state) (r : req) (k : key) : bool :=
  match r with
  | DeleteTopic c t => names_topic c t k
  | DeleteGroup c g t =>
      match find_group st' c g with Some _ => names_group_topic c g t k | None => names_group c g k end
  | FetchConsumer c g => Metrics.group_expired cf now st c g && names_group c g k
  | _ => false
  end.

Lemma live_unknown_cluster st k : get st (key_cluster k) = None -> ~ live st k.
Proof.
  intros Hg Hl. destruct k as [f c g|f c g t p|c t p]; cbn [key_cluster live] in *.
  - unfold find_group in Hl. rewrite Hg in Hl. congruence.
  - destruct Hl as (_ & pr & Hn & _). unfold pl in Hn. rewrite Hg in Hn. destruct (Z.to_nat p); discriminate.
  - destruct Hl as (_ & l & Hl & _). rewrite topic_offsets_tofs, Hg in Hl. discriminate.
Qed.

Lemma keepk_other c kg kp kt k : key_cluster k <> c -> keepk c kg kp kt k = true.
Proof. intros H. unfold keepk. apply Z.eqb_neq in H. rewrite H. reflexivity. Qed.

Lemma dgroup_live st c g t st' rep k :
  delete_group st c g t = Done st' rep -> live st k ->
  (match find_group st' c g with Some _ => names_group_topic c g t k | None => names_group c g k end) = false ->
  live st' k.
Proof.
  intros Hd Hl Hr. destruct (get st c) as [cl|] eqn:Hc.
  2:{ unfold delete_group in Hd. rewrite Hc in Hd. injection Hd as <- _. exact Hl. }
  destruct (dgroup_rel _ _ _ _ _ _ _ Hc Hd) as [->|(cl' & -> & [[Hgone R]|[Hkept R]])]; [exact Hl| |].
  - unfold find_group in Hr. rewrite get_set_eq, Hgone in Hr.
    eapply live_set; [exact Hc|exact R|exact Hl|]. unfold keepk, names_group in *.
    destruct (key_cluster k =? c) eqn:Ec; [|reflexivity]. cbn [andb] in Hr.
    destruct k as [f c0 g0|f c0 g0 t0 p|c0 t0 p]; cbn [key_group] in *; try rewrite Hr; reflexivity.
  - unfold find_group in Hr. rewrite get_set_eq in Hr. destruct (get (cl_consumer cl') g) as [grp'|] eqn:E; [|congruence].
    eapply live_set; [exact Hc|exact R|exact Hl|]. unfold keepk, names_group_topic, names_group, names_topic in *.
    destruct (key_cluster k =? c) eqn:Ec; [|reflexivity]. cbn [andb] in Hr.
    destruct k as [f c0 g0|f c0 g0 t0 p|c0 t0 p]; cbn [key_group key_topic] in *; try reflexivity.
    rewrite Hr. reflexivity.
Qed.

Lemma step_live cf now st r st' rep k :
  step cf now st r = Done st' rep -> live st k -> removed cf now st st' r k = false -> live st' k.
Proof.
  intros Hs Hl Hr.
  assert (Hrel : forall c cl', get st c <> None -> st' = set st c cl' ->
                   (forall cl, get st c = Some cl -> CRel ktrue1 ktrue2 ktrue1 cl cl') -> live st' k).
  { intros c cl' Hc -> HR. destruct (get st c) as [cl|] eqn:E; [|congruence].
    eapply live_set; [exact E|apply HR; reflexivity|exact Hl|]. unfold keepk. destruct (key_cluster k =? c); [|reflexivity].
    destruct k; reflexivity. }
  destruct r; cbn [step removed] in *.
  - destruct (get st c) as [cl|] eqn:Hc; [|unfold add_broker_offset in Hs; rewrite Hc in Hs; injection Hs as <- _; exact Hl].
    destruct (abo_rel _ _ _ _ _ _ _ _ _ _ Hc Hs) as (cl' & E & R). apply (Hrel c cl'); [congruence|exact E|].
    intros cl0 H0. rewrite Hc in H0. injection H0 as <-. exact R.
  - destruct (get st c) as [cl|] eqn:Hc; [|unfold add_consumer_offset in Hs; rewrite Hc in Hs; injection Hs as <- _; exact Hl].
    destruct (aco_rel _ _ _ _ _ _ _ _ _ _ _ _ _ Hc Hs) as [->|(cl' & E & R)]; [exact Hl|]. apply (Hrel c cl'); [congruence|exact E|].
    intros cl0 H0. rewrite Hc in H0. injection H0 as <-. exact R.
  - destruct (get st c) as [cl|] eqn:Hc; [|unfold add_consumer_owner in Hs; rewrite Hc in Hs; injection Hs as <- _; exact Hl].
    destruct (aown_rel _ _ _ _ _ _ _ _ _ _ _ Hc Hs) as [->|(cl' & E & R)]; [exact Hl|]. apply (Hrel c cl'); [congruence|exact E|].
    intros cl0 H0. rewrite Hc in H0. injection H0 as <-. exact R.
  - destruct (get st c) as [cl|] eqn:Hc; [|unfold clear_consumer_owners in Hs; rewrite Hc in Hs; injection Hs as <- _; exact Hl].
    destruct (clear_rel _ _ _ _ _ _ _ Hc Hs) as [->|(cl' & E & R)]; [exact Hl|]. apply (Hrel c cl'); [congruence|exact E|].
    intros cl0 H0. rewrite Hc in H0. injection H0 as <-. exact R.
  - destruct (get st c) as [cl|] eqn:Hc; [|unfold delete_topic in Hs; rewrite Hc in Hs; injection Hs as <- _; exact Hl].
    destruct (dtopic_rel _ _ _ _ _ _ Hc Hs) as (cl' & -> & R).
    eapply live_set; [exact Hc|exact R|exact Hl|]. unfold keepk, names_topic in *.
    destruct (key_cluster k =? c) eqn:Ec; [|reflexivity]. cbn [andb] in Hr.
    destruct k as [f1 c1 g1|f1 c1 g1 t1 p1|c1 t1 p1]; cbn [key_topic] in *; try rewrite Hr; reflexivity.
  - eapply dgroup_live; eassumption.
  - injection Hs as <- _. exact Hl.
  - destruct (get st c); injection Hs as <- _; exact Hl.
  - destruct (get st c); injection Hs as <- _; exact Hl.
  - (* FetchConsumer: unchanged, or the purge = deleteGroup of the whole group *)
    pose proof Hs as Hs0. apply fetch_consumer_state in Hs.
    destruct Hs as [->|(cl & grp & Hc & Hg & He & _ & ->)]; [exact Hl|].
    assert (Hge : Metrics.group_expired cf now st c g = true) by (unfold Metrics.group_expired, find_group; rewrite Hc, Hg; exact He).
    rewrite Hge in Hr. cbn [andb] in Hr.
    eapply (dgroup_live st c g 0); [unfold delete_group; rewrite Hc, Hg; cbn [Z.eqb]; reflexivity|exact Hl|].
    unfold find_group. rewrite get_set_eq. cbn [cl_consumer]. rewrite get_remove_eq. exact Hr.
  - unfold fetch_topic in Hs. destruct (get st c) as [cl|]; [destruct (get (cl_broker cl) t)|]; injection Hs as <- _; exact Hl.
  - unfold fetch_consumers_for_topic in Hs. destruct (get st c); injection Hs as <- _; exact Hl.
Qed.

(* ====================================================================================================
   The partitions of an evaluated group, read against the stored partition lists (both directions)
   ==================================================================================================== *)
Lemma eval_parts_nth t cps : forall k m a n lps,
  eval_parts t k cps m a n = Ok lps ->
  forall i, match nth_error cps i, nth_error lps i with
            | Some cp, Some ps => ps_topic ps = t /\ ps_partition ps = k + Z.of_nat i /\
                                  eval_partition cp m a n = Ok (ps_status ps, ps_start ps, ps_end ps, ps_complete ps)
            | None, None => True
            | _, _ => False
            end.
Proof.
  induction cps as [|cp r IH]; intros k m a n lps; cbn [eval_parts].
  - intros H. injection H as <-. intros [|i]; exact I.
  - destruct (eval_partition cp m a n) as [[[[s st] en] c]|] eqn:E; [|discriminate].
    destruct (eval_parts t (k + 1) r m a n) as [l'|] eqn:E'; [|discriminate].
    intros H. injection H as <-. intros [|i]; cbn [nth_error].
    + cbn [ps_topic ps_partition ps_status ps_start ps_end ps_complete]. repeat split; [lia|exact E].
    + specialize (IH _ _ _ _ _ E' i). destruct (nth_error r i), (nth_error l' i); try exact IH.
      destruct IH as (H1 & H2 & H3). repeat split; [exact H1|lia|exact H3].
Qed.

Definition ps_of (m : f32) (a n : Z) (t : Z) (i : nat) (cp : cpart) (ps : pstatus) : Prop :=
  ps_topic ps = t /\ ps_partition ps = Z.of_nat i /\
  eval_partition cp m a n = Ok (ps_status ps, ps_start ps, ps_end ps, ps_complete ps).

Lemma eval_topics_fwd l : forall m a n parts,
  eval_topics l m a n = Ok parts ->
  forall t cps i cp, In (t, cps) l -> nth_error cps i = Some cp -> exists ps, In ps parts /\ ps_of m a n t i cp ps.
Proof.
  induction l as [|[t0 cps0] r IH]; intros m a n parts; cbn [eval_topics]; [intros _ t cps i cp []|].
  destruct (eval_parts t0 0 cps0 m a n) as [l1|] eqn:E1; [|discriminate].
  destruct (eval_topics r m a n) as [l2|] eqn:E2; [|discriminate].
  intros H. injection H as <-. intros t cps i cp [Hin|Hin] Hn.
  - injection Hin as <- <-. pose proof (eval_parts_nth _ _ _ _ _ _ _ E1 i) as Hp. rewrite Hn in Hp.
    destruct (nth_error l1 i) as [ps|] eqn:En; [|contradiction]. exists ps. split; [apply in_or_app; left; eapply nth_error_In; exact En|].
    destruct Hp as (H1 & H2 & H3). repeat split; [exact H1|lia|exact H3].
  - destruct (IH _ _ _ _ E2 t cps i cp Hin Hn) as (ps & Hi & Hp). exists ps. split; [apply in_or_app; right; exact Hi|exact Hp].
Qed.

Lemma eval_topics_conv l : forall m a n parts,
  eval_topics l m a n = Ok parts ->
  forall ps, In ps parts -> exists t cps i cp, In (t, cps) l /\ nth_error cps i = Some cp /\ ps_of m a n t i cp ps.
Proof.
  induction l as [|[t0 cps0] r IH]; intros m a n parts; cbn [eval_topics]; [intros H; injection H as <-; intros ps []|].
  destruct (eval_parts t0 0 cps0 m a n) as [l1|] eqn:E1; [|discriminate].
  destruct (eval_topics r m a n) as [l2|] eqn:E2; [|discriminate].
  intros H. injection H as <-. intros ps Hin. apply in_app_or in Hin. destruct Hin as [Hin|Hin].
  - apply In_nth_error in Hin. destruct Hin as (i & En).
    pose proof (eval_parts_nth _ _ _ _ _ _ _ E1 i) as Hp. rewrite En in Hp.
    destruct (nth_error cps0 i) as [cp|] eqn:Ec; [|contradiction].
    exists t0, cps0, i, cp. split; [left; reflexivity|]. split; [exact Ec|].
    destruct Hp as (H1 & H2 & H3). repeat split; [exact H1|lia|exact H3].
  - destruct (IH _ _ _ _ E2 ps Hin) as (t & cps & i & cp & Hi & Hn & Hp). exists t, cps, i, cp. split; [right; exact Hi|auto].
Qed.

(* the lag loop of fetchConsumer changes neither the number of partitions nor a window *)
Definition same_windows (cps0 cps' : list cpart) : Prop :=
  forall j, option_map cp_offsets (nth_error cps' j) = option_map cp_offsets (nth_error cps0 j).

Lemma add_lag_offsets r cp cp' : add_lag r cp = Some cp' -> cp_offsets cp' = cp_offsets cp.
Proof.
  unfold add_lag. destruct (cp_offsets cp) eqn:Eo; [intros H; injection H as <-; cbn; congruence|].
  destruct (somes r); [intros H; injection H as <-; cbn; congruence|].
  cbv zeta. destruct (last (o :: l) None); intros H; injection H as <-; cbn; congruence.
Qed.

Lemma add_lags_windows tl cps : forall k res, add_lags tl k cps = Some res -> same_windows cps res.
Proof.
  induction cps as [|cp r IH]; intros k res; cbn [add_lags].
  - intros H. injection H as <-. intros j. reflexivity.
  - destruct (nth_error tl k) as [br|].
    + destruct (add_lag br cp) as [cp'|] eqn:Ea; [|discriminate].
      destruct (add_lags tl (S k) r) as [r'|] eqn:Er; [|discriminate].
      intros H. injection H as <-. intros [|j]; cbn [nth_error option_map]; [f_equal; eapply add_lag_offsets; exact Ea|].
      apply (IH _ _ Er).
    + destruct (add_lags tl (S k) r) as [r'|] eqn:Er; [|discriminate].
      intros H. injection H as <-. intros [|j]; cbn [nth_error option_map]; [reflexivity|]. apply (IH _ _ Er).
Qed.

Lemma fetch_lags_fwd br tops : forall l,
  fetch_topics_lags br tops = Some l ->
  forall t cps0, In (t, cps0) tops -> exists cps', In (t, cps') l /\ same_windows cps0 cps'.
Proof.
  induction tops as [|[t0 c0] r IH]; intros l; cbn [fetch_topics_lags]; [intros _ t cps0 []|].
  destruct (match get br t0 with Some tl => add_lags tl 0 c0 | None => Some c0 end) as [c'|] eqn:Eh; [|discriminate].
  destruct (fetch_topics_lags br r) as [r'|] eqn:Er; [|discriminate].
  intros H. injection H as <-. intros t cps0 [Hin|Hin].
  - injection Hin as <- <-. exists c'. split; [left; reflexivity|].
    destruct (get br t0); [eapply add_lags_windows; exact Eh|injection Eh as <-; intros j; reflexivity].
  - destruct (IH _ eq_refl t cps0 Hin) as (cps' & Hi & Hs). exists cps'. split; [right; exact Hi|exact Hs].
Qed.

Lemma fetch_lags_conv br tops l t cps' :
  fetch_topics_lags br tops = Some l -> In (t, cps') l -> exists cps0, In (t, cps0) tops /\ same_windows cps0 cps'.
Proof.
  intros Hf Hin. destruct (fetch_topics_lags_spec _ _ _ Hf t cps' Hin) as (cps0 & Hi & Hm). exists cps0. split; [exact Hi|].
  destruct (get br t); [eapply add_lags_windows; exact Hm|subst; intros j; reflexivity].
Qed.

(* ---- the evaluation of one window ---- *)
Lemma forallb_is_some_inv {A} (l : list (option A)) : forallb is_some l = true -> exists cs, l = map Some cs.
Proof.
  induction l as [|[x|] r IH]; cbn [forallb is_some andb]; [exists []; reflexivity| |discriminate].
  intros H. destruct (IH H) as (cs & ->). exists (x :: cs). reflexivity.
Qed.

Lemma ring_full_rev w : ring_full w = true -> exists c0 cs, rev w = map Some (c0 :: cs).
Proof.
  intros H. apply ring_full_spec in H. destruct H as [Hne Hall].
  assert (Hf : forallb is_some (rev w) = true).
  { apply forallb_forall. intros s Hs. apply Hall. apply in_rev. exact Hs. }
  destruct (forallb_is_some_inv _ Hf) as (cs & E). destruct cs as [|c0 cs]; [|eauto].
  cbn [map] in E. apply (f_equal (@rev _)) in E. rewrite rev_involutive in E. cbn in E. congruence.
Qed.

Lemma f32_one_eq : f32_eq f32_one f32_one = true.
Proof. vm_compute. reflexivity. Qed.

(* a full window is reported: Complete = 1.0 and there is an End offset *)
Lemma full_window_reports cp w m a n s st en c :
  cp_offsets cp = rev w -> ring_full w = true -> eval_partition cp m a n = Ok (s, st, en, c) ->
  f32_eq c f32_one = true /\ en <> None.
Proof.
  intros Ho Hf He. destruct (ring_full_rev _ Hf) as (c0 & cs & Er). rewrite Er in Ho.
  rewrite (eval_partition_shape 0 c0 cs cp m a n) in He by (cbn [repeat app]; exact Ho).
  injection He as _ _ <- <-. rewrite part_complete_full. split; [apply f32_one_eq|discriminate].
Qed.

(* and only a full window is: needs the C02 window shape and at most 2^24 slots (float32 rounds (n-1)/n to 1.0 beyond) *)
Lemma reports_full_window N cp w m a n s st en c :
  Z.of_nat N <= 2 ^ 24 -> wf N w -> cp_offsets cp = rev w -> eval_partition cp m a n = Ok (s, st, en, c) ->
  f32_eq c f32_one = true -> ring_full w = true.
Proof.
  intros HN Hwf Ho He Hc.
  destruct (wf_readout _ _ Hwf) as (b & cs & Hr & Hlen & _). unfold readout in Hr.
  assert (Hsh : storage_shaped cp).
  { split; [exists b, cs; rewrite Ho; exact Hr|]. rewrite Ho, Hr. unfold window. rewrite app_length, repeat_length, map_length. lia. }
  rewrite (partition_complete_is_window_full cp m a n s st en c Hsh He) in Hc. unfold window_full in Hc. rewrite Ho in Hc.
  apply ring_full_spec. destruct (rev w) as [|x r] eqn:Er; [discriminate|]. split.
  - intros ->. discriminate.
  - intros s0 Hs. rewrite forallb_forall in Hc. apply Hc. rewrite <- Er. apply in_rev. rewrite rev_involutive. exact Hs.
Qed.

(* ====================================================================================================
   live  <->  called for   (for a group that evaluates)
   ==================================================================================================== *)
Definition snapf (grp : cgroup) : list (Z * list cpart) :=
  map (fun tp => (fst tp, map snapshot_partition (snd tp))) (g_topics grp).

Lemma group_view_inv sc now st c g gs :
  group_view sc now st c g = Some gs ->
  exists cl grp l, get st c = Some cl /\ get (cl_consumer cl) g = Some grp /\
    fetch_topics_lags (cl_broker cl) (snapf grp) = Some l /\
    eval_topics l (sc_minimum sc) (sc_allowed sc) now = Ok (gs_partitions gs).
Proof.
  unfold group_view. destruct (get st c) as [cl|] eqn:Hc; [|discriminate].
  destruct (get (cl_consumer cl) g) as [grp|] eqn:Hg; [|discriminate]. fold (snapf grp).
  destruct (fetch_topics_lags (cl_broker cl) (snapf grp)) as [l|] eqn:El; [|discriminate].
  destruct (eval_group l (sc_minimum sc) (sc_allowed sc) now) as [gs'|] eqn:Eg; [|discriminate].
  intros H. injection H as <-. exists cl, grp, l.
  split; [reflexivity|]. split; [exact Hg|]. split; [exact El|].
  destruct (eval_group_spec _ _ _ _ _ Eg) as (parts & Hp & Hgp & _). rewrite Hgp. exact Hp.
Qed.

Definition window_of (pr : cpartition) : list (option coff) := match pr_ring pr with Some w => rev w | None => [] end.

Lemma snapshot_offsets pr : cp_offsets (snapshot_partition pr) = window_of pr.
Proof. unfold snapshot_partition, window_of, readout. destruct (pr_ring pr); reflexivity. Qed.

Lemma view_fwd sc now st c g gs t i pr :
  group_view sc now st c g = Some gs -> nth_error (pl st c g t) i = Some pr ->
  exists ps cp, In ps (gs_partitions gs) /\ ps_of (sc_minimum sc) (sc_allowed sc) now t i cp ps /\ cp_offsets cp = window_of pr.
Proof.
  intros Hv Hn. destruct (group_view_inv _ _ _ _ _ _ Hv) as (cl & grp & l & Hc & Hg & El & Ep).
  unfold pl in Hn. rewrite Hc in Hn. unfold cons_topic in Hn. rewrite Hg in Hn.
  destruct (get (g_topics grp) t) as [parts0|] eqn:Et; [|destruct i; discriminate].
  assert (Hin : In (t, map snapshot_partition parts0) (snapf grp)).
  { unfold snapf. apply in_map_iff. exists (t, parts0). split; [reflexivity|]. apply get_in. exact Et. }
  destruct (fetch_lags_fwd _ _ _ El t _ Hin) as (cps' & Hi & Hs).
  specialize (Hs i). rewrite nth_error_map, Hn in Hs. cbn [option_map] in Hs.
  destruct (nth_error cps' i) as [cp|] eqn:En; [|discriminate]. cbn [option_map] in Hs. injection Hs as Hs.
  destruct (eval_topics_fwd _ _ _ _ _ Ep t cps' i cp Hi En) as (ps & Hps & Hof).
  exists ps, cp. split; [exact Hps|]. split; [exact Hof|]. rewrite Hs. apply snapshot_offsets.
Qed.

Lemma view_conv sc now st c g gs ps :
  wf_state st -> group_view sc now st c g = Some gs -> In ps (gs_partitions gs) ->
  exists i pr cp, ps_of (sc_minimum sc) (sc_allowed sc) now (ps_topic ps) i cp ps /\
                  nth_error (pl st c g (ps_topic ps)) i = Some pr /\ cp_offsets cp = window_of pr.
Proof.
  intros Hwf Hv Hin. destruct (group_view_inv _ _ _ _ _ _ Hv) as (cl & grp & l & Hc & Hg & El & Ep).
  destruct (eval_topics_conv _ _ _ _ _ Ep ps Hin) as (t & cps' & i & cp & Hi & Hn & Hof).
  destruct (fetch_lags_conv _ _ _ _ _ El Hi) as (cps0 & H0 & Hs).
  unfold snapf in H0. apply in_map_iff in H0. destruct H0 as ([t0 parts0] & E0 & Hp0). cbn [fst snd] in E0. injection E0 as -> <-.
  assert (Hnd : NoDup (keys (g_topics grp))).
  { destruct Hwf as [_ Hw]. destruct (Hw c cl Hc) as (_ & _ & Hg3). apply (Hg3 g grp Hg). }
  pose proof (in_get _ _ _ Hnd Hp0) as Hget.
  specialize (Hs i). rewrite Hn, nth_error_map in Hs. cbn [option_map] in Hs.
  destruct (nth_error parts0 i) as [pr|] eqn:Epr; [|discriminate]. cbn [option_map] in Hs. injection Hs as Hs.
  assert (Et : ps_topic ps = t) by (destruct Hof as (H1 & _); exact H1). rewrite Et.
  exists i, pr, cp. split; [exact Hof|]. split; [|rewrite Hs; apply snapshot_offsets].
  unfold pl. rewrite Hc. unfold cons_topic. rewrite Hg, Hget. exact Epr.
Qed.

Lemma last_match_spec q t p parts ps :
  last_match q t p parts = Some ps -> In ps parts /\ ps_topic ps = t /\ ps_partition ps = p /\ q ps = true.
Proof.
  unfold last_match. intros H. apply find_some in H. destruct H as [Hin Hp].
  apply andb_true_iff in Hp. destruct Hp as [Hp Hq]. apply andb_true_iff in Hp. destruct Hp as [H1 H2].
  apply Z.eqb_eq in H1, H2. split; [apply in_rev; exact Hin|auto].
Qed.

Lemma last_match_some q t p parts ps :
  In ps parts -> ps_topic ps = t -> ps_partition ps = p -> q ps = true -> last_match q t p parts <> None.
Proof.
  intros Hin H1 H2 Hq Hn. unfold last_match in Hn.
  pose proof (find_none _ _ Hn ps) as Hf. rewrite <- in_rev in Hf. specialize (Hf Hin).
  rewrite H1, H2, !Z.eqb_refl, Hq in Hf. discriminate.
Qed.

Definition rings_ok (N : nat) (st : state) : Prop :=
  forall c cl g t i pr w, get st c = Some cl -> nth_error (cons_topic cl g t) i = Some pr -> pr_ring pr = Some w -> wf N w.

Lemma written_part c g gs f t p :
  written c g gs (KPart f c g t p) =
  match f with
  | PLag => option_map ps_lag (last_match (fun _ => true) t p (gs_partitions gs))
  | POffset => option_map end_offset (last_match reports t p (gs_partitions gs))
  | PStatus => option_map (fun ps => status_num (ps_status ps)) (last_match reports t p (gs_partitions gs))
  end.
Proof. cbn [written]. rewrite !Z.eqb_refl. reflexivity. Qed.

(* live => called for *)
Lemma live_called_part sc now st c g gs f t p :
  group_view sc now st c g = Some gs -> live st (KPart f c g t p) -> written c g gs (KPart f c g t p) <> None.
Proof.
  intros Hv (Hp & pr & Hn & Hf). rewrite written_part.
  destruct (view_fwd _ _ _ _ _ _ _ _ _ Hv Hn) as (ps & cp & Hin & (H1 & H2 & He) & Ho).
  assert (H2' : ps_partition ps = p) by (rewrite H2; lia).
  assert (Hrep : (exists w, pr_ring pr = Some w /\ ring_full w = true) -> reports ps = true).
  { intros (w & Hw & Hfull). unfold window_of in Ho. rewrite Hw in Ho.
    destruct (full_window_reports _ _ _ _ _ _ _ _ _ Ho Hfull He) as [Hc Hen]. unfold reports. rewrite Hc.
    destruct (ps_end ps); [reflexivity|congruence]. }
  destruct f.
  - pose proof (last_match_some (fun _ => true) t p _ ps Hin H1 H2' eq_refl) as Hs.
    destruct (last_match (fun _ => true) t p (gs_partitions gs)); [discriminate|congruence].
  - pose proof (last_match_some reports t p _ ps Hin H1 H2' (Hrep Hf)) as Hs.
    destruct (last_match reports t p (gs_partitions gs)); [discriminate|congruence].
  - pose proof (last_match_some reports t p _ ps Hin H1 H2' (Hrep Hf)) as Hs.
    destruct (last_match reports t p (gs_partitions gs)); [discriminate|congruence].
Qed.

(* called for => live *)
Lemma called_live_part N sc now st c g gs f t p :
  Z.of_nat N <= 2 ^ 24 -> wf_state st -> rings_ok N st ->
  group_view sc now st c g = Some gs -> written c g gs (KPart f c g t p) <> None -> live st (KPart f c g t p).
Proof.
  intros HN Hwf Hro Hv Hw. rewrite written_part in Hw.
  assert (Hm : exists q ps, last_match q t p (gs_partitions gs) = Some ps /\ (f <> PLag -> reports ps = true)).
  { destruct f; cbn [option_map] in Hw;
      match type of Hw with context [last_match ?q t p ?l] => destruct (last_match q t p l) as [ps|] eqn:E end;
      try (exfalso; apply Hw; reflexivity); eexists; exists ps; (split; [exact E|]); intros Hne; try congruence;
      apply (last_match_spec _ _ _ _ _ E). }
  destruct Hm as (q & ps & Hm & Hrep). destruct (last_match_spec _ _ _ _ _ Hm) as (Hin & Ht & Hpp & _).
  destruct (view_conv _ _ _ _ _ _ _ Hwf Hv Hin) as (i & pr & cp & (_ & H2 & He) & Hn & Ho).
  rewrite Ht in Hn. assert (Hi : Z.to_nat p = i) by lia.
  cbn [live]. split; [lia|]. exists pr. rewrite Hi. split; [exact Hn|].
  assert (Hfull : f <> PLag -> exists w, pr_ring pr = Some w /\ ring_full w = true).
  { intros Hne. specialize (Hrep Hne). unfold reports in Hrep. apply andb_true_iff in Hrep. destruct Hrep as [Hc Hen].
    unfold window_of in Ho. destruct (pr_ring pr) as [w|] eqn:Ew.
    - exists w. split; [reflexivity|].
      destruct (group_view_inv _ _ _ _ _ _ Hv) as (cl & _ & _ & Hcl & _). unfold pl in Hn. rewrite Hcl in Hn.
      eapply (reports_full_window N); [exact HN|eapply Hro; eassumption|exact Ho|exact He|exact Hc].
    - exfalso. unfold eval_partition in He. rewrite Ho in He. cbn [length] in He. injection He as _ _ He _.
      rewrite <- He in Hen. discriminate. }
  destruct f; [exact I|apply Hfull; discriminate|apply Hfull; discriminate].
Qed.

(* ====================================================================================================
   Reachable storage states; the state-only part of what a scrape does
   ==================================================================================================== *)
Definition good (cf : config) (cls : list Z) (st : state) : Prop :=
  exists h reps, wf_hist h /\ run cf (init_state cls) h = Some (st, reps).

Lemma good_init cf cls : good cf cls (init_state cls).
Proof. exists [], []. split; [constructor|reflexivity]. Qed.

Lemma good_step cf cls now st r st' rep :
  good cf cls st -> wf_req r -> step cf now st r = Done st' rep -> good cf cls st'.
Proof.
  intros (h & reps & Hwf & Hrun) Hr Hs. exists (h ++ [(now, r)]), (reps ++ [rep]). split.
  - apply wf_hist_snoc. split; [exact Hwf|exact Hr].
  - rewrite StorageProofs.run_snoc, Hrun, Hs. reflexivity.
Qed.

Lemma good_facts cf cls st :
  (1 <= cf_intervals cf)%nat -> NoDup cls -> good cf cls st -> wf_state st /\ rings_ok (cf_intervals cf) st.
Proof.
  intros HN Hnd (h & reps & Hwf & Hrun). split; [eapply reachable_wf; eassumption|].
  intros c cl g t i pr w Hc Hi Hw. exact (proj1 (storage_windows_wf cf cls h st reps c cl g t i pr w HN Hwf Hrun Hc Hi Hw)).
Qed.

Lemma sys_storage_step pd sc now sy r sy' rep :
  sys_storage_gen pd sc now sy r = Some (sy', rep) -> step (sc_st sc) now (s_st sy) r = Done (s_st sy') rep.
Proof.
  unfold sys_storage_gen. destruct (step (sc_st sc) now (s_st sy) r) as [st' rep'|]; [|discriminate].
  intros H. injection H as <- <-. reflexivity.
Qed.

Lemma sys_status_step sc now sy c g sy' o :
  sys_status sc now sy c g = Some (sy', o) ->
  exists rep, step (sc_st sc) now (s_st sy) (FetchConsumer c g) = Done (s_st sy') rep.
Proof.
  unfold sys_status, sys_status_gen.
  destruct (sys_storage_gen true sc now sy (FetchConsumer c g)) as [[sy1 rep]|] eqn:Hs; [|discriminate].
  apply sys_storage_step in Hs. intros H. exists rep.
  destruct rep; try (injection H as <- _; exact Hs).
  destruct (eval_group l _ _ now); [|discriminate]. injection H as <- _. exact Hs.
Qed.

Lemma pl_group st c g t i pr : nth_error (pl st c g t) i = Some pr -> find_group st c g <> None.
Proof.
  unfold pl, find_group, cons_topic. destruct (get st c) as [cl|]; [|destruct i; discriminate].
  destruct (get (cl_consumer cl) g); [discriminate|destruct i; discriminate].
Qed.

Record StepOK2 (sc : sconfig) (now : Z) (cls : list Z) (sy sy' : sys) : Prop := mkStepOK2 {
  s2_good : good (sc_st sc) cls (s_st sy) -> good (sc_st sc) cls (s_st sy');
  s2_gmono : forall c g, find_group (s_st sy') c g = find_group (s_st sy) c g \/ find_group (s_st sy') c g = None;
  s2_view : forall c g, group_view sc now (s_st sy') c g = group_view sc now (s_st sy) c g \/ find_group (s_st sy') c g = None;
  s2_live : forall k, live (s_st sy) k ->
                      live (s_st sy') k \/
                      exists c g, names_group c g k = true /\ find_group (s_st sy) c g <> None /\ find_group (s_st sy') c g = None }.

Lemma StepOK2_same sc now cls sy sy' : s_st sy' = s_st sy -> StepOK2 sc now cls sy sy'.
Proof. intros E. constructor; rewrite E; auto. Qed.

Lemma StepOK2_trans sc now cls a b c : StepOK2 sc now cls a b -> StepOK2 sc now cls b c -> StepOK2 sc now cls a c.
Proof.
  intros [g1 m1 v1 l1] [g2 m2 v2 l2]. constructor.
  - auto.
  - intros c0 g0. destruct (m2 c0 g0) as [H2|H2]; [|right; exact H2]. destruct (m1 c0 g0) as [H1|H1]; [left|right]; congruence.
  - intros c0 g0. destruct (v2 c0 g0) as [H2|H2]; [|right; exact H2]. destruct (v1 c0 g0) as [H1|H1]; [left; congruence|].
    right. destruct (m2 c0 g0) as [H3|H3]; congruence.
  - intros k Hl. destruct (l1 k Hl) as [Hb|(c0 & g0 & Hn & Hp & Ha)].
    + destruct (l2 k Hb) as [Hc|(c0 & g0 & Hn & Hp & Ha)]; [left; exact Hc|].
      right. exists c0, g0. split; [exact Hn|]. split; [|exact Ha]. destruct (m1 c0 g0) as [H1|H1]; congruence.
    + right. exists c0, g0. split; [exact Hn|]. split; [exact Hp|]. destruct (m2 c0 g0) as [H2|H2]; congruence.
Qed.

Lemma group_step_ok2 sc now cls c sy g sy' :
  group_step_gen true true sc now c sy g = Some sy' ->
  StepOK2 sc now cls sy sy' /\ (find_group (s_st sy') c g = None \/ group_view sc now (s_st sy') c g <> None).
Proof.
  unfold group_step_gen. fold (sys_status sc now sy c g).
  destruct (sys_status sc now sy c g) as [[sy1 o]|] eqn:Hs; [|discriminate].
  destruct (sys_status_step _ _ _ _ _ _ _ Hs) as (rep & Hstep).
  destruct (status_cases _ _ _ _ _ _ _ Hs) as [(Hf & -> & ->)|[(cl & Hc & He & -> & ->)|(He & -> & gs & -> & Hv)]].
  - intros H. injection H as <-. split; [apply StepOK2_same; reflexivity|left; exact Hf].
  - intros H. injection H as <-. cbn [s_st] in *. split.
    + constructor; cbn [s_st].
      * intros Hg. exact (good_step _ _ _ _ (FetchConsumer c g) _ _ Hg I Hstep).
      * intros c0 g0. rewrite (find_group_purge _ _ _ _ _ _ Hc). destruct ((c0 =? c) && (g0 =? g)); [right|left]; reflexivity.
      * intros c0 g0. rewrite (group_view_purge _ _ _ _ _ _ _ _ Hc), (find_group_purge _ _ _ _ _ _ Hc).
        destruct ((c0 =? c) && (g0 =? g)); [right|left]; reflexivity.
      * intros k Hl. destruct (names_group c g k) eqn:Hn.
        -- right. exists c, g. split; [exact Hn|]. split.
           ++ unfold Metrics.group_expired in He. destruct (find_group (s_st sy) c g); [discriminate|discriminate].
           ++ rewrite (find_group_purge _ _ _ _ _ _ Hc), !Z.eqb_refl. reflexivity.
        -- left. eapply step_live; [exact Hstep|exact Hl|]. cbn [removed]. rewrite Hn. apply andb_false_r.
    + left. rewrite (find_group_purge _ _ _ _ _ _ Hc), !Z.eqb_refl. reflexivity.
  - cbn [negb andb]. intros H. injection H as <-. cbn [s_st]. split; [apply StepOK2_same; reflexivity|right; congruence].
Qed.

Lemma scrape_groups_ok2 sc now cls c gs : forall sy sy',
  scrape_groups_gen true true sc now c gs sy = Some sy' ->
  StepOK2 sc now cls sy sy' /\
  (forall g, In g gs -> find_group (s_st sy') c g = None \/ group_view sc now (s_st sy') c g <> None).
Proof.
  induction gs as [|g0 rest IH]; intros sy sy'; cbn [scrape_groups_gen].
  - intros H. injection H as <-. split; [apply StepOK2_same; reflexivity|intros g []].
  - destruct (group_step_gen true true sc now c sy g0) as [sy1|] eqn:H1; [|discriminate]. intros H2.
    destruct (group_step_ok2 _ _ cls _ _ _ _ H1) as [S1 V1]. destruct (IH _ _ H2) as [S2 V2].
    split; [eapply StepOK2_trans; eassumption|]. intros g [<-|Hin]; [|apply V2; exact Hin].
    destruct (s2_gmono _ _ _ _ _ S2 c g0) as [Hm|Hm]; [|left; exact Hm].
    destruct V1 as [V1|V1]; [left; congruence|].
    destruct (s2_view _ _ _ _ _ S2 c g0) as [Hv|Hv]; [right; congruence|left; exact Hv].
Qed.

Lemma cluster_step_ok2 sc now cls sy c sy' :
  cluster_step sc now sy c = Some sy' ->
  StepOK2 sc now cls sy sy' /\
  (forall g, find_group (s_st sy') c g <> None -> group_view sc now (s_st sy') c g <> None).
Proof.
  unfold cluster_step.
  destruct (scrape_groups_gen true true sc now c (cluster_groups (s_st sy) c) sy) as [sy1|] eqn:Hg; [|discriminate].
  intros H. injection H as <-. destruct (scrape_groups_ok2 _ _ cls _ _ _ _ Hg) as [S1 V1].
  split; [eapply StepOK2_trans; [exact S1|apply StepOK2_same; reflexivity]|].
  cbn [s_st]. intros g Hf. destruct (V1 g) as [Hn|Hv]; [|congruence|exact Hv].
  apply find_group_listed. destruct (s2_gmono _ _ _ _ _ S1 c g) as [Hm|Hm]; congruence.
Qed.

Lemma scrape_clusters_ok2 sc now cls cs : forall sy sy',
  scrape_clusters_gen true true sc now cs sy = Some sy' ->
  StepOK2 sc now cls sy sy' /\
  (forall c g, In c cs -> find_group (s_st sy') c g <> None -> group_view sc now (s_st sy') c g <> None).
Proof.
  induction cs as [|c rest IH]; intros sy sy'; rewrite scrape_clusters_unfold.
  - intros H. injection H as <-. split; [apply StepOK2_same; reflexivity|intros c g []].
  - destruct (cluster_step sc now sy c) as [sy1|] eqn:H1; [|discriminate]. intros H2.
    destruct (cluster_step_ok2 _ _ cls _ _ _ H1) as [S1 V1]. destruct (IH _ _ H2) as [S2 V2].
    split; [eapply StepOK2_trans; eassumption|]. intros c0 g [<-|Hin] Hf; [|apply V2; assumption].
    destruct (s2_gmono _ _ _ _ _ S2 c g) as [Hm|Hm]; [|congruence].
    destruct (s2_view _ _ _ _ _ S2 c g) as [Hv|Hv]; [|congruence]. rewrite Hv. apply V1. congruence.
Qed.

Theorem scrape_ok2 sc now cls sy sy' :
  scrape sc now sy = Some sy' ->
  StepOK2 sc now cls sy sy' /\
  (forall c g, find_group (s_st sy') c g <> None -> group_view sc now (s_st sy') c g <> None).
Proof.
  intros H. destruct (scrape_clusters_ok2 _ _ cls _ _ _ H) as [S V]. split; [exact S|].
  intros c g Hf. apply V; [|exact Hf]. apply (find_group_cluster _ c g).
  destruct (s2_gmono _ _ _ _ _ S c g) as [Hm|Hm]; congruence.
Qed.

(* ====================================================================================================
   live <-> called for, for every key; the invariant; the theorem
   ==================================================================================================== *)
Lemma called_live sc cls now st k :
  (1 <= cf_intervals (sc_st sc))%nat -> Z.of_nat (cf_intervals (sc_st sc)) <= 2 ^ 24 -> NoDup cls ->
  good (sc_st sc) cls st -> expected sc now st k <> None -> live st k.
Proof.
  intros HN HB Hnd Hg Hx. destruct (good_facts _ _ _ HN Hnd Hg) as [Hwf Hro].
  destruct k as [f c g|f c g t p|c t p]; cbn [expected] in Hx.
  - cbn [live]. unfold group_view, find_group in *. destruct (get st c) as [cl|]; [|congruence].
    destruct (get (cl_consumer cl) g); [discriminate|congruence].
  - destruct (group_view sc now st c g) as [gs|] eqn:Hv; [|congruence].
    eapply called_live_part; eassumption.
  - cbn [live]. destruct (Metrics.topic_offsets st c t) as [l|]; [|congruence].
    destruct (Z.ltb_spec p 0) as [|Hp]; [congruence|]. split; [exact Hp|]. exists l. split; [reflexivity|].
    apply nth_error_Some. exact Hx.
Qed.

Lemma live_called sc now st k :
  (forall c g, find_group st c g <> None -> group_view sc now st c g <> None) ->
  live st k -> expected sc now st k <> None.
Proof.
  intros V Hl. destruct k as [f c g|f c g t p|c t p]; cbn [expected].
  - cbn [live] in Hl. specialize (V c g Hl). destruct (group_view sc now st c g) as [gs|]; [|congruence].
    cbn [written]. rewrite !Z.eqb_refl. discriminate.
  - pose proof Hl as (_ & pr & Hn & _). specialize (V c g (pl_group _ _ _ _ _ _ Hn)).
    destruct (group_view sc now st c g) as [gs|] eqn:Hv; [|congruence]. eapply live_called_part; eassumption.
  - destruct Hl as (Hp & l & -> & Hlen). destruct (Z.ltb_spec p 0) as [|_]; [lia|]. apply nth_error_Some. exact Hlen.
Qed.

(* every series in the registry belongs to something that is still there *)
Definition Inv (sc : sconfig) (cls : list Z) (sy : sys) : Prop :=
  good (sc_st sc) cls (s_st sy) /\ forall k, reg_get (s_reg sy) k <> None -> live (s_st sy) k.

Definition not_delete_topic (r : req) : Prop := match r with DeleteTopic _ _ => False | _ => True end.

Lemma sys_storage_live sc now sy r sy' rep k :
  sys_storage sc now sy r = Some (sy', rep) -> not_delete_topic r ->
  reg_get (s_reg sy') k <> None ->
  reg_get (s_reg sy) k <> None /\ (live (s_st sy) k -> live (s_st sy') k).
Proof.
  intros Hs Hnd Hr. unfold sys_storage, sys_storage_gen in Hs.
  destruct (step (sc_st sc) now (s_st sy) r) as [st' rep'|] eqn:Hstep; [|discriminate].
  injection Hs as <- <-. cbn [s_reg s_st] in *.
  destruct r; try contradiction;
    try (split; [exact Hr|]; intros Hl; eapply step_live; [exact Hstep|exact Hl|reflexivity]).
  - (* DeleteGroup *)
    destruct (get (s_st sy) c) as [cl|] eqn:Hc.
    + assert (Hrm : removed (sc_st sc) now (s_st sy) st' (DeleteGroup c g t) k = false /\
                    reg_get (s_reg sy) k <> None).
      { cbn [removed]. destruct (find_group st' c g).
        - rewrite delete_consumer_topic_metrics_spec in Hr. destruct (names_group_topic c g t k); [congruence|auto].
        - rewrite delete_consumer_metrics_spec in Hr. destruct (names_group c g k); [congruence|auto]. }
      destruct Hrm as [Hrm Hk]. split; [exact Hk|]. intros Hl. eapply step_live; [exact Hstep|exact Hl|exact Hrm].
    + split; [exact Hr|]. cbn [step] in Hstep. unfold delete_group in Hstep. rewrite Hc in Hstep. injection Hstep as <- _. auto.
  - (* FetchConsumer *)
    cbn [andb] in Hr. destruct (Metrics.group_expired (sc_st sc) now (s_st sy) c g) eqn:He.
    + rewrite delete_consumer_metrics_spec in Hr. destruct (names_group c g k) eqn:Hn; [congruence|].
      split; [exact Hr|]. intros Hl. eapply step_live; [exact Hstep|exact Hl|]. cbn [removed]. rewrite Hn. apply andb_false_r.
    + split; [exact Hr|]. intros Hl. eapply step_live; [exact Hstep|exact Hl|]. cbn [removed]. rewrite He. reflexivity.
Qed.

Definition op_ok (o : op) : Prop :=
  match o with
  | OStorage r => wf_req r /\ not_delete_topic r      (* topic deletions reach storage only from the cluster module: OTopicDeleted *)
  | _ => True
  end.

Lemma Inv_scrape sc cls now sy sy' :
  (1 <= cf_intervals (sc_st sc))%nat -> Z.of_nat (cf_intervals (sc_st sc)) <= 2 ^ 24 -> NoDup cls ->
  Inv sc cls sy -> scrape sc now sy = Some sy' ->
  Inv sc cls sy' /\ forall k, reg_get (s_reg sy') k = expected sc now (s_st sy') k.
Proof.
  intros HN HB Hnd [Hg Hi] Hs. pose proof (scrape_stepok _ _ _ _ Hs) as S1.
  destruct (scrape_ok2 _ _ cls _ _ Hs) as [S2 V]. pose proof (s2_good _ _ _ _ _ S2 Hg) as Hg'.
  assert (Hstale : forall k, reg_get (s_reg sy) k <> None -> live (s_st sy') k \/ reg_get (s_reg sy') k = None).
  { intros k Hk. destruct (s2_live _ _ _ _ _ S2 k (Hi k Hk)) as [Hl|(c & g & Hn & Hp & Ha)]; [left; exact Hl|].
    right. apply (so_gone _ _ _ _ S1 c g Hp Ha k Hn). }
  split; [split; [exact Hg'|]|].
  - intros k Hk. destruct (scrape_spec _ _ _ _ k Hs) as [Hc|[Hx Hr]].
    + apply (called_live sc cls now); try assumption. unfold Correct in Hc. congruence.
    + rewrite Hr in Hk. destruct (Hstale k Hk) as [Hl|Hn]; [exact Hl|congruence].
  - intros k. destruct (scrape_spec _ _ _ _ k Hs) as [Hc|[Hx Hr]]; [exact Hc|]. rewrite Hx.
    destruct (reg_get (s_reg sy) k) as [v|] eqn:Ek; [|exact Hr].
    assert (Hk : reg_get (s_reg sy) k <> None) by congruence.
    destruct (Hstale k Hk) as [Hl|Hn]; [|exact Hn].
    exfalso. apply (live_called sc now _ k V Hl). exact Hx.
Qed.

Lemma Inv_step sc cls now sy o sy' :
  (1 <= cf_intervals (sc_st sc))%nat -> Z.of_nat (cf_intervals (sc_st sc)) <= 2 ^ 24 -> NoDup cls ->
  op_ok o -> Inv sc cls sy -> sys_step sc now sy o = Some sy' -> Inv sc cls sy'.
Proof.
  intros HN HB Hnd Hok [Hg Hi]. destruct o as [r|c t|c g|c g|]; cbn [sys_step op_ok] in *.
  - destruct Hok as [Hwr Hndt]. destruct (sys_storage sc now sy r) as [[sy1 rep]|] eqn:Hs; [|discriminate].
    intros H. injection H as <-. split.
    + eapply good_step; [exact Hg|exact Hwr|eapply sys_storage_step; exact Hs].
    + intros k Hk. destruct (sys_storage_live _ _ _ _ _ _ k Hs Hndt Hk) as [Hk0 Hl]. apply Hl, Hi, Hk0.
  - destruct (sys_storage sc now sy (DeleteTopic c t)) as [[sy1 rep]|] eqn:Hs; [|discriminate].
    intros H. injection H as <-. unfold sys_storage, sys_storage_gen in Hs.
    destruct (step (sc_st sc) now (s_st sy) (DeleteTopic c t)) as [st1 rep1|] eqn:Hstep; [|discriminate].
    injection Hs as <- <-. cbn [s_st s_reg]. split.
    + exact (good_step _ _ _ _ (DeleteTopic c t) _ _ Hg I Hstep).
    + intros k Hk. change (reg_get (delete_topic_metrics c t (s_reg sy)) k <> None) in Hk.
      rewrite delete_topic_metrics_spec in Hk. destruct (names_topic c t k) eqn:Hn; [congruence|].
      eapply step_live; [exact Hstep|apply Hi; exact Hk|exact Hn].
  - destruct (sys_storage sc now sy (DeleteGroup c g 0)) as [[sy1 rep]|] eqn:Hs; [|discriminate].
    intros H. injection H as <-. cbn [s_st s_reg]. split.
    + exact (good_step _ _ _ _ (DeleteGroup c g 0) _ _ Hg I (sys_storage_step _ _ _ _ _ _ _ Hs)).
    + intros k Hk. change (reg_get (delete_consumer_metrics c g (s_reg sy1)) k <> None) in Hk.
      rewrite delete_consumer_metrics_spec in Hk. destruct (names_group c g k); [congruence|].
      destruct (sys_storage_live _ _ _ _ _ _ k Hs I Hk) as [Hk0 Hl]. apply Hl, Hi, Hk0.
  - unfold sys_status, sys_status_gen. fold (sys_storage sc now sy (FetchConsumer c g)).
    destruct (sys_storage sc now sy (FetchConsumer c g)) as [[sy1 rep]|] eqn:Hs; [|discriminate].
    assert (Hinv1 : Inv sc cls sy1).
    { split.
      - exact (good_step _ _ _ _ (FetchConsumer c g) _ _ Hg I (sys_storage_step _ _ _ _ _ _ _ Hs)).
      - intros k Hk. destruct (sys_storage_live _ _ _ _ _ _ k Hs I Hk) as [Hk0 Hl]. apply Hl, Hi, Hk0. }
    destruct rep; try (intros H; injection H as <-; exact Hinv1).
    destruct (eval_group l _ _ now); [|discriminate]. intros H. injection H as <-. exact Hinv1.
  - intros Hs. exact (proj1 (Inv_scrape _ _ _ _ _ HN HB Hnd (conj Hg Hi) Hs)).
Qed.

Lemma Inv_run sc cls h : forall sy sy',
  (1 <= cf_intervals (sc_st sc))%nat -> Z.of_nat (cf_intervals (sc_st sc)) <= 2 ^ 24 -> NoDup cls ->
  Forall (fun no => op_ok (snd no)) h -> Inv sc cls sy -> sys_run sc sy h = Some sy' -> Inv sc cls sy'.
Proof.
  induction h as [|[now o] rest IH]; intros sy sy' HN HB Hnd Hok Hinv; cbn [sys_run].
  - intros H. injection H as <-. exact Hinv.
  - inversion Hok as [|x l Ho Hrest]; subst. cbn [snd] in Ho.
    destruct (sys_step sc now sy o) as [sy1|] eqn:Hs; [|discriminate].
    apply IH; try assumption. eapply Inv_step; eassumption.
Qed.

Lemma Inv_init sc cls : Inv sc cls (init_sys cls).
Proof. split; [apply good_init|]. intros k Hk. cbn in Hk. congruence. Qed.

(* ---- the full statement: any history (ingest, deletions through their paths, status requests, EARLIER SCRAPES), then a
   scrape: the registry is exactly what the live state calls for ---- *)
Theorem metrics_equal_state sc clusters h sy now sy' k :
  (1 <= cf_intervals (sc_st sc))%nat -> Z.of_nat (cf_intervals (sc_st sc)) <= 2 ^ 24 -> NoDup clusters ->
  Forall (fun no => op_ok (snd no)) h ->
  sys_run sc (init_sys clusters) h = Some sy -> scrape sc now sy = Some sy' ->
  reg_get (s_reg sy') k = expected sc now (s_st sy') k.
Proof.
  intros HN HB Hnd Hok Hrun Hs.
  pose proof (Inv_run sc clusters h _ _ HN HB Hnd Hok (Inv_init sc clusters) Hrun) as Hinv.
  exact (proj2 (Inv_scrape _ _ _ _ _ HN HB Hnd Hinv Hs) k).
Qed.

(* the live predicate is what "called for" means structurally (so the theorem is not about an empty specification) *)
Theorem expected_iff_live sc clusters h sy now sy' k :
  (1 <= cf_intervals (sc_st sc))%nat -> Z.of_nat (cf_intervals (sc_st sc)) <= 2 ^ 24 -> NoDup clusters ->
  Forall (fun no => op_ok (snd no)) h ->
  sys_run sc (init_sys clusters) h = Some sy -> scrape sc now sy = Some sy' ->
  (expected sc now (s_st sy') k <> None <-> live (s_st sy') k).
Proof.
  intros HN HB Hnd Hok Hrun Hs.
  pose proof (Inv_run sc clusters h _ _ HN HB Hnd Hok (Inv_init sc clusters) Hrun) as [Hg _].
  destruct (scrape_ok2 _ _ clusters _ _ Hs) as [S2 V]. split.
  - apply (called_live sc clusters now); try assumption. apply (s2_good _ _ _ _ _ S2 Hg).
  - apply live_called. exact V.
Qed.

(* ---- the side condition op_ok is needed: a StorageSetDeleteTopic that is NOT accompanied by DeleteTopicMetrics (no function
   of the tree sends one: props/C17.v C17_delete_sites_table) leaves the topic's series behind ---- *)
Theorem bare_delete_topic_refuted :
  exists sc cls h sy now sy' k,
    sys_run sc (init_sys cls) h = Some sy /\ scrape sc now sy = Some sy' /\
    reg_get (s_reg sy') k <> expected sc now (s_st sy') k.
Proof.
  exists (wsc 1 604800), [1],
    [(1000, OStorage (SetBrokerOffset 1 1 0 1 100)); (1001, OScrape); (1002, OStorage (DeleteTopic 1 1))].
  destruct (sys_run (wsc 1 604800) (init_sys [1])
              [(1000, OStorage (SetBrokerOffset 1 1 0 1 100)); (1001, OScrape); (1002, OStorage (DeleteTopic 1 1))])
    as [sy|] eqn:E; [|vm_compute in E; discriminate].
  destruct (scrape (wsc 1 604800) 1003 sy) as [sy'|] eqn:E2; [|vm_compute in E; injection E as <-; vm_compute in E2; discriminate].
  exists sy, 1003, sy', (KTopic 1 1 0). split; [reflexivity|]. split; [exact E2|].
  vm_compute in E. injection E as <-. vm_compute in E2. injection E2 as <-. vm_compute. discriminate.
Qed.

(* non-vacuity of the full theorem: scrapes in the middle of the history, ingest and a deletion between them *)
Definition ex_full_hist : list (Z * op) :=
  [(1000, OStorage (SetBrokerOffset 1 1 0 2 100)); (1000, OStorage (SetBrokerOffset 1 1 1 2 200));
   (1000, OStorage (SetConsumerOffset 1 1 1 0 90 1 999000)); (1001, OScrape);
   (1002, OStorage (SetConsumerOffset 1 1 1 1 150 2 1001000)); (1002, OStorage (SetConsumerOffset 1 2 1 0 95 3 1001500));
   (1003, OScrape); (1004, OStorage (DeleteGroup 1 1 0)); (1005, OGroupGone 1 2); (1006, OStatus 1 2)].

Example metrics_equal_state_nonvacuous :
  Forall (fun no => op_ok (snd no)) ex_full_hist /\
  exists sy sy',
    sys_run (wsc 1 604800) (init_sys [1]) ex_full_hist = Some sy /\ scrape (wsc 1 604800) 1007 sy = Some sy' /\
    reg_get (s_reg sy') (KTopic 1 1 1) = Some 200 /\ reg_get (s_reg sy') (KGroup GStatus 1 1) = None.
Proof.
  split.
  - unfold ex_full_hist. repeat constructor; cbn; unfold in_i64; lia.
  - eexists. eexists. split; [vm_compute; reflexivity|]. split; [vm_compute; reflexivity|]. split; vm_compute; reflexivity.
Qed.
