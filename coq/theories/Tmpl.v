(* Executable model of the text/template subset used by the notification templates shipped with
   Burrow (config/*.tmpl), of the data handed to them, and a static checker for "renders without
   error".
   Anchors: core/internal/notifier/helpers.go  executeTemplate :27-48, helperFunctionMap :51-61 and
            every helper :63-170; Go text/template exec.go (evalField, evalCall, evalArg,
            validateType, walkRange, printValue) and funcs.go (eq, index, length) as documented.
   Only success / failure and the *shape* of the output are modelled: strings taken from the data
   are rendered exactly, everything Go formats itself (numbers, times, json.Marshal) is a hole. *)
From Coq Require Import ZArith List Bool String Ascii.
Import ListNotations.
Open Scope string_scope.
Open Scope list_scope.

(* ------------------------------------------------------------------------------------------ *)
(* Output pieces, results                                                                      *)
(* ------------------------------------------------------------------------------------------ *)

Inductive piece :=
| Lit (s : string)   (* exact bytes: template text, strings of the data, Go constants like <nil> *)
| StrHole            (* a string Go computed (time formatting ...): JSON-string-safe content   *)
| NumHole            (* a number printed by Go                                                  *)
| ValHole.           (* the output of json.Marshal                                              *)

Inductive result (A : Type) := Ok (a : A) | Err (why : string).
Arguments Ok {A} a. Arguments Err {A} why.

Definition bind {A B} (r : result A) (f : A -> result B) : result B :=
  match r with Ok a => f a | Err w => Err w end.

Fixpoint assoc {A} (k : string) (l : list (string * A)) : option A :=
  match l with
  | [] => None
  | (k', a) :: r => if String.eqb k k' then Some a else assoc k r
  end.

(* ------------------------------------------------------------------------------------------ *)
(* Schema: the Go types reachable from the template data, regenerated from /repo               *)
(* ------------------------------------------------------------------------------------------ *)

Inductive ty :=
| TStr | TBool | TFloat
| TInt (n : string)          (* predeclared integer types: "int" "int32" "int64" "uint64" ...     *)
| TNamed (n : string)        (* a type declared in the schema: struct, named integer, opaque      *)
| TPtr (t : ty) | TSlice (t : ty)
| TMap (t : ty)              (* map[string]t                                                       *)
| TIface                     (* interface{} (helper parameters only)                               *)
| TOther (what : string).    (* anything the model does not cover                                  *)

Fixpoint ty_eqb (a b : ty) : bool :=
  match a, b with
  | TStr, TStr | TBool, TBool | TFloat, TFloat | TIface, TIface => true
  | TInt n, TInt m | TNamed n, TNamed m | TOther n, TOther m => String.eqb n m
  | TPtr x, TPtr y | TSlice x, TSlice y | TMap x, TMap y => ty_eqb x y
  | _, _ => false
  end.

Inductive tdef :=
| DStruct (fields : list (string * ty))    (* exported fields, in declaration order *)
| DInt (base : string)                     (* type T int...                         *)
| DOpaque.                                 (* no template-visible fields modelled (time.Time) *)

Record msig := mkMsig { m_ptr : bool; m_params : list ty; m_results : list ty }.
Record tentry := mkTentry { te_def : tdef; te_methods : list (string * msig) }.
Record fsig := mkFsig { f_params : list ty; f_results : list ty }.

Record schema := mkSchema {
  sch_types : list (string * tentry);
  sch_root : string;                         (* name given to the anonymous struct of executeTemplate *)
  sch_funcs : list (string * fsig);          (* helperFunctionMap: name, parameter and result types   *)
  sch_status_ty : string;                    (* the integer type whose String method is a table lookup *)
  sch_status_names : list string;            (* statusStrings                                           *)
  sch_status_unknown : string }.             (* what String returns outside the table                   *)

Definition tentry_of (sch : schema) (tn : string) : option tentry := assoc tn (sch_types sch).

Definition method_of (sch : schema) (tn name : string) : option msig :=
  match tentry_of sch tn with Some e => assoc name (te_methods e) | None => None end.

(* ------------------------------------------------------------------------------------------ *)
(* Values                                                                                      *)
(* ------------------------------------------------------------------------------------------ *)

Inductive value :=
| VStr (s : string)
| VAbsStr (json : bool)        (* a string computed by Go code the model does not evaluate:
                                  json = true: json.Marshal output, false: formatting output *)
| VBool (b : bool)
| VInt (t : ty) (z : Z)        (* t = TInt n or TNamed n (named integer type) *)
| VFloat (finite : bool)       (* float32/float64; only finiteness is kept *)
| VOpaque (tn : string)        (* time.Time *)
| VNil (t : ty)                (* nil pointer of type *t *)
| VPtr (v : value)             (* non-nil pointer *)
| VStruct (tn : string) (fs : list (string * value))
| VSlice (et : ty) (l : list value)
| VMap (vt : ty) (kv : list (string * value)).

Fixpoint type_of (v : value) : ty :=
  match v with
  | VStr _ | VAbsStr _ => TStr
  | VBool _ => TBool
  | VInt t _ => t
  | VFloat _ => TFloat
  | VOpaque tn | VStruct tn _ => TNamed tn
  | VNil t => TPtr t
  | VPtr v => TPtr (type_of v)
  | VSlice et _ => TSlice et
  | VMap vt _ => TMap vt
  end.

Definition is_named_int (sch : schema) (tn : string) : bool :=
  match tentry_of sch tn with Some (mkTentry (DInt _) _) => true | _ => false end.

(* the fields of a struct value against the declared fields: same names, same order, same types *)
Definition fields_ok (f : value -> bool) : list (string * value) -> list (string * ty) -> bool :=
  fix go (fs : list (string * value)) (fds : list (string * ty)) {struct fs} : bool :=
    match fs, fds with
    | [], [] => true
    | (n, v) :: fs', (n', t) :: fds' => String.eqb n n' && ty_eqb (type_of v) t && f v && go fs' fds'
    | _, _ => false
    end.

(* the value is built according to the schema *)
Fixpoint wt (sch : schema) (v : value) {struct v} : bool :=
  match v with
  | VStr _ | VAbsStr _ | VBool _ | VFloat _ | VNil _ => true
  | VInt (TInt _) _ => true
  | VInt (TNamed tn) _ => is_named_int sch tn
  | VInt _ _ => false
  | VOpaque tn => match tentry_of sch tn with Some (mkTentry DOpaque _) => true | _ => false end
  | VPtr v => wt sch v
  | VStruct tn fs =>
      match tentry_of sch tn with
      | Some (mkTentry (DStruct fds) _) => fields_ok (wt sch) fs fds
      | _ => false
      end
  | VSlice et l => forallb (fun v => ty_eqb (type_of v) et && wt sch v) l
  | VMap vt kv => forallb (fun p => ty_eqb (type_of (snd p)) vt && wt sch (snd p)) kv
  end.

Definition has_schema (sch : schema) (d : value) : Prop :=
  wt sch d = true /\ type_of d = TNamed (sch_root sch).

(* Go's indirect(): follow pointers; None when a nil pointer is met *)
Fixpoint indirect (v : value) : option value :=
  match v with VPtr v' => indirect v' | VNil _ => None | _ => Some v end.

Definition vnamed (v : value) : option string :=
  match v with
  | VStruct tn _ | VOpaque tn | VInt (TNamed tn) _ => Some tn
  | _ => None
  end.

Definition zero_of (sch : schema) (t : ty) : option value :=
  match t with
  | TStr => Some (VStr "")
  | TBool => Some (VBool false)
  | TFloat => Some (VFloat true)
  | TInt n => Some (VInt (TInt n) 0)
  | TNamed n => if is_named_int sch n then Some (VInt (TNamed n) 0) else None
  | TPtr t => Some (VNil t)
  | TSlice t => Some (VSlice t [])
  | TMap t => Some (VMap t [])
  | _ => None
  end.

Definition status_name (sch : schema) (z : Z) : string :=
  if ((0 <=? z) && (z <? Z.of_nat (List.length (sch_status_names sch))))%Z
  then nth (Z.to_nat z) (sch_status_names sch) (sch_status_unknown sch)
  else sch_status_unknown sch.

(* ------------------------------------------------------------------------------------------ *)
(* Template AST                                                                                *)
(* ------------------------------------------------------------------------------------------ *)

Inductive arg :=
| ADot
| AField (chain : list string)     (* .A.B.C *)
| AStr (s : string)
| AInt (z : Z)
| AOther (what : string).          (* variables, nil, floats, parenthesised pipelines ...: not covered *)

Inductive cmd :=
| CArgs (first : arg) (rest : list arg)   (* first word is an operand; rest non-empty only for a method call *)
| CCall (fn : string) (args : list arg).  (* first word is a function name *)

Definition pipe := list cmd.

Inductive node :=
| NText (s : string)
| NAction (p : pipe)
| NIf (p : pipe) (th el : list node)
| NRange (p : pipe) (body el : list node)
| NWith (p : pipe) (body el : list node)
| NOther (what : string).          (* define/template, variable declarations, break ...: not covered *)

(* ------------------------------------------------------------------------------------------ *)
(* Evaluation                                                                                  *)
(* ------------------------------------------------------------------------------------------ *)

Inductive pspec := PAny | PTy (t : ty).

Definition pspec_of (t : ty) : pspec := match t with TIface => PAny | _ => PTy t end.

(* validateType: assignable as is, or after one dereference *)
Definition coerce (ps : pspec) (v : value) : result value :=
  match ps with
  | PAny => Ok v
  | PTy t =>
      if ty_eqb (type_of v) t then Ok v
      else match v with
           | VPtr v' => if ty_eqb (type_of v') t then Ok v' else Err "wrong type for value"
           | VNil t' => if ty_eqb t' t then Err "dereference of nil pointer" else Err "wrong type for value"
           | _ => Err "wrong type for value"
           end
  end.

Definition method_result (sch : schema) (recv : value) (name : string) (m : msig) : result value :=
  match m_results m with
  | [TStr] =>
      match recv with
      | VInt (TNamed tn) z =>
          if String.eqb tn (sch_status_ty sch) && String.eqb name "String"
          then Ok (VStr (status_name sch z)) else Ok (VAbsStr false)
      | _ => Ok (VAbsStr false)
      end
  | _ => Err "method result not modelled"
  end.

(* one step of evalField: [evargs] evaluates the call's arguments against the parameter types
   ([noargs]: the field is written without arguments and is not fed by a pipeline) *)
Definition field_step (sch : schema) (evargs : list ty -> result (list value)) (noargs : bool)
           (recv : value) (name : string) : result value :=
  match indirect recv with
  | None => Err "nil pointer evaluating field"
  | Some v =>
      match match vnamed v with Some tn => method_of sch tn name | None => None end with
      | Some m =>
          if m_ptr m then Err "pointer-receiver method: not modelled"
          else bind (evargs (m_params m)) (fun _ => method_result sch v name m)
      | None =>
          match v with
          | VStruct _ fs =>
              if noargs then
                match assoc name fs with Some x => Ok x | None => Err "can't evaluate field" end
              else Err "field has arguments but cannot be invoked as function"
          | _ => Err "can't evaluate field"
          end
      end
  end.

Definition no_args (ps : list ty) : result (list value) :=
  match ps with [] => Ok [] | _ => Err "wrong number of args" end.

Fixpoint eval_chain0 (sch : schema) (v : value) (chain : list string) : result value :=
  match chain with
  | [] => Ok v
  | f :: r => bind (field_step sch no_args true v f) (fun x => eval_chain0 sch x r)
  end.

Definition eval_arg (sch : schema) (dot : value) (ps : pspec) (a : arg) : result value :=
  match a with
  | ADot => coerce ps dot
  | AField ch => bind (eval_chain0 sch dot ch) (coerce ps)
  | AStr s => match ps with
              | PAny | PTy TStr => Ok (VStr s)
              | _ => Err "string constant for a non-string parameter"
              end
  | AInt z => match ps with
              | PAny => Ok (VInt (TInt "int") z)
              | PTy (TInt n) => Ok (VInt (TInt n) z)
              | PTy (TNamed n) => if is_named_int sch n then Ok (VInt (TNamed n) z)
                                  else Err "integer constant for a non-integer parameter"
              | _ => Err "integer constant for a non-integer parameter"
              end
  | AOther w => Err ("operand not modelled: " ++ w)%string
  end.

(* arguments of a call: explicit operands, then the value fed by the pipeline *)
Fixpoint eval_args (sch : schema) (dot : value) (specs : list pspec) (var : option pspec)
         (args : list arg) (final : option value) : result (list value) :=
  match args with
  | a :: r =>
      match specs with
      | p :: ps => bind (eval_arg sch dot p a) (fun v =>
                   bind (eval_args sch dot ps var r final) (fun vs => Ok (v :: vs)))
      | [] => match var with
              | Some p => bind (eval_arg sch dot p a) (fun v =>
                          bind (eval_args sch dot [] var r final) (fun vs => Ok (v :: vs)))
              | None => Err "wrong number of args"
              end
      end
  | [] =>
      match final with
      | Some fv =>
          match specs with
          | [p] => bind (coerce p fv) (fun v => Ok [v])
          | [] => match var with
                  | Some p => bind (coerce p fv) (fun v => Ok [v])
                  | None => Err "wrong number of args"
                  end
          | _ => Err "wrong number of args"
          end
      | None => match specs with [] => Ok [] | _ => Err "wrong number of args" end
      end
  end.

(* .A.B.M args : every element but the last is a plain step, the last one receives the arguments *)
Fixpoint eval_chain (sch : schema) (dot v : value) (chain : list string) (args : list arg)
         (final : option value) : result value :=
  match chain with
  | [] => match args, final with [], None => Ok v | _, _ => Err "can't give argument to non-function" end
  | [f] =>
      field_step sch (fun ps => eval_args sch dot (map PTy ps) None args final)
                 (match args, final with [], None => true | _, _ => false end) v f
  | f :: r => bind (field_step sch no_args true v f) (fun x => eval_chain sch dot x r args final)
  end.

(* --- functions ---------------------------------------------------------------------------- *)

Inductive fn :=
| FLen | FIndex | FEq | FNe | FLt | FLe | FGt | FGe
| FJson | FTopics | FCounts | FAdd | FMinus | FMul | FDiv | FMaxlag | FFmtTs.

Definition builtin_of (name : string) : option fn :=
  if String.eqb name "len" then Some FLen else
  if String.eqb name "index" then Some FIndex else
  if String.eqb name "eq" then Some FEq else
  if String.eqb name "ne" then Some FNe else
  if String.eqb name "lt" then Some FLt else
  if String.eqb name "le" then Some FLe else
  if String.eqb name "gt" then Some FGt else
  if String.eqb name "ge" then Some FGe else None.

Definition helper_of (name : string) : option fn :=
  if String.eqb name "jsonencoder" then Some FJson else
  if String.eqb name "topicsbystatus" then Some FTopics else
  if String.eqb name "partitioncounts" then Some FCounts else
  if String.eqb name "add" then Some FAdd else
  if String.eqb name "minus" then Some FMinus else
  if String.eqb name "multiply" then Some FMul else
  if String.eqb name "divide" then Some FDiv else
  if String.eqb name "maxlag" then Some FMaxlag else
  if String.eqb name "formattimestamp" then Some FFmtTs else None.

Definition t_int := TInt "int".
Definition t_parts := TSlice (TPtr (TNamed "PartitionStatus")).

(* the documented helper signatures (helpers.go:63-170); the regenerated table must agree *)
Definition helper_sig (f : fn) : fsig :=
  match f with
  | FJson => mkFsig [TIface] [TStr]
  | FTopics => mkFsig [t_parts] [TMap (TSlice TStr)]
  | FCounts => mkFsig [t_parts] [TMap t_int]
  | FAdd | FMinus | FMul | FDiv => mkFsig [t_int; t_int] [t_int]
  | FMaxlag => mkFsig [TPtr (TNamed "PartitionStatus")] [TInt "uint64"]
  | FFmtTs => mkFsig [TInt "int64"; TStr] [TStr]
  | _ => mkFsig [] []
  end.

Definition list_eqb {A} (eqb : A -> A -> bool) :=
  fix go (a b : list A) : bool :=
    match a, b with
    | [], [] => true
    | x :: a', y :: b' => eqb x y && go a' b'
    | _, _ => false
    end.

Definition fsig_eqb (a b : fsig) : bool :=
  list_eqb ty_eqb (f_params a) (f_params b) && list_eqb ty_eqb (f_results a) (f_results b).

(* name resolution as in text/template: the template's own FuncMap first, then the builtins *)
Definition resolve_fn (sch : schema) (name : string) : option fn :=
  match assoc name (sch_funcs sch) with
  | Some sg =>
      match helper_of name with
      | Some f => if fsig_eqb sg (helper_sig f) then Some f else None
      | None => None
      end
  | None => builtin_of name
  end.

Definition fn_specs (f : fn) : list pspec * option pspec :=
  match f with
  | FLen => ([PAny], None)
  | FIndex | FEq => ([PAny], Some PAny)
  | FNe | FLt | FLe | FGt | FGe => ([PAny; PAny], None)
  | _ => (map pspec_of (f_params (helper_sig f)), None)
  end.

Definition wrap_int (z : Z) : Z :=
  ((z + 9223372036854775808) mod 18446744073709551616 - 9223372036854775808)%Z.

Fixpoint contains_nonfinite (v : value) : bool :=
  match v with
  | VFloat fin => negb fin
  | VPtr v => contains_nonfinite v
  | VStruct _ fs => existsb (fun p => contains_nonfinite (snd p)) fs
  | VSlice _ l => existsb contains_nonfinite l
  | VMap _ kv => existsb (fun p => contains_nonfinite (snd p)) kv
  | _ => false
  end.

Definition int_of (v : value) : option Z := match v with VInt _ z => Some z | _ => None end.

Definition compare_vals (v1 v2 : value) : result comparison :=
  match v1, v2 with
  | VInt _ a, VInt _ b => Ok (Z.compare a b)
  | VStr a, VStr b => Ok (String.compare a b)
  | _, _ => Err "comparison not modelled for these operands"
  end.

Definition eq_vals (v1 v2 : value) : result bool :=
  match v1, v2 with
  | VBool a, VBool b => Ok (Bool.eqb a b)
  | _, _ => bind (compare_vals v1 v2) (fun c => Ok (match c with Eq => true | _ => false end))
  end.

Fixpoint eq_any (v1 : value) (vs : list value) : result bool :=
  match vs with
  | [] => Ok false
  | v :: r => bind (eq_vals v1 v) (fun b => if b then Ok true else eq_any v1 r)
  end.

Definition index_one (sch : schema) (item key : value) : result value :=
  match indirect item with
  | None => Err "index of nil pointer"
  | Some (VMap vt kv) =>
      match key with
      | VStr k => match assoc k kv with
                  | Some x => Ok x
                  | None => match zero_of sch vt with Some z => Ok z | None => Err "zero value not modelled" end
                  end
      | _ => Err "map key is not a string"
      end
  | Some (VSlice _ l) =>
      match key with
      | VInt _ i => if ((0 <=? i) && (i <? Z.of_nat (List.length l)))%Z
                    then match nth_error l (Z.to_nat i) with Some x => Ok x | None => Err "index out of range" end
                    else Err "index out of range"
      | _ => Err "cannot index slice with this type"
      end
  | Some _ => Err "can't index item"
  end.

Fixpoint index_all (sch : schema) (item : value) (keys : list value) : result value :=
  match keys with
  | [] => Ok item
  | k :: r => bind (index_one sch item k) (fun x => index_all sch x r)
  end.

(* the Status field of every listed partition; a nil entry is a nil dereference in the helper *)
Fixpoint part_fields (l : list value) (f : string) : result (list value) :=
  match l with
  | [] => Ok []
  | VPtr (VStruct _ fs) :: r =>
      match assoc f fs with
      | Some x => bind (part_fields r f) (fun xs => Ok (x :: xs))
      | None => Err "no such field"
      end
  | _ => Err "nil pointer dereference in helper"
  end.

Definition count_if (f : Z -> bool) (l : list value) : Z :=
  Z.of_nat (List.length (filter (fun v => match v with VInt _ z => f z | _ => false end) l)).

Fixpoint insert_topic (st tp : string) (m : list (string * list string)) : list (string * list string) :=
  match m with
  | [] => [(st, [tp])]
  | (s, ts) :: r =>
      if String.eqb s st then (s, if existsb (String.eqb tp) ts then ts else ts ++ [tp]) :: r
      else (s, ts) :: insert_topic st tp r
  end.

Fixpoint classify (sch : schema) (sts tps : list value) (m : list (string * list string)) :=
  match sts, tps with
  | VInt _ z :: sr, VStr t :: tr => classify sch sr tr (insert_topic (status_name sch z) t m)
  | _, _ => m
  end.

Definition apply_fn (sch : schema) (f : fn) (vs : list value) : result value :=
  match f, vs with
  | FLen, [v] =>
      match indirect v with
      | None => Err "len of nil pointer"
      | Some (VSlice _ l) => Ok (VInt t_int (Z.of_nat (List.length l)))
      | Some (VMap _ kv) => Ok (VInt t_int (Z.of_nat (List.length kv)))
      | Some (VStr s) => Ok (VInt t_int (Z.of_nat (String.length s)))
      | Some _ => Err "len of this type"
      end
  | FIndex, item :: keys => index_all sch item keys
  | FEq, v1 :: (_ :: _) as vs' => bind (eq_any v1 vs') (fun b => Ok (VBool b))
  | FNe, [a; b] => bind (eq_vals a b) (fun r => Ok (VBool (negb r)))
  | FLt, [a; b] => bind (compare_vals a b) (fun c => Ok (VBool (match c with Lt => true | _ => false end)))
  | FLe, [a; b] => bind (compare_vals a b) (fun c => Ok (VBool (match c with Gt => false | _ => true end)))
  | FGt, [a; b] => bind (compare_vals a b) (fun c => Ok (VBool (match c with Gt => true | _ => false end)))
  | FGe, [a; b] => bind (compare_vals a b) (fun c => Ok (VBool (match c with Lt => false | _ => true end)))
  | FJson, [v] => Ok (if contains_nonfinite v then VStr "" else VAbsStr true)
  | FTopics, [VSlice _ l] =>
      bind (part_fields l "Status") (fun sts =>
      bind (part_fields l "Topic") (fun tps =>
      Ok (VMap (TSlice TStr)
               (map (fun p => (fst p, VSlice TStr (map VStr (snd p)))) (classify sch sts tps [])))))
  | FCounts, [VSlice _ l] =>
      bind (part_fields l "Status") (fun sts =>
      Ok (VMap t_int
            [("warn", VInt t_int (count_if (Z.eqb 2) sts));
             ("stop", VInt t_int (count_if (Z.eqb 4) sts));
             ("stall", VInt t_int (count_if (Z.eqb 5) sts));
             ("rewind", VInt t_int (count_if (Z.eqb 6) sts));
             ("unknown", VInt t_int (count_if (fun z => negb ((1 <=? z) && (z <=? 2) || (4 <=? z) && (z <=? 6)))%Z sts))]))
  | FAdd, [VInt _ a; VInt _ b] => Ok (VInt t_int (wrap_int (a + b)))
  | FMinus, [VInt _ a; VInt _ b] => Ok (VInt t_int (wrap_int (a - b)))
  | FMul, [VInt _ a; VInt _ b] => Ok (VInt t_int (wrap_int (a * b)))
  | FDiv, [VInt _ a; VInt _ b] =>
      if (b =? 0)%Z then Err "integer divide by zero" else Ok (VInt t_int (wrap_int (Z.quot a b)))
  | FMaxlag, [VNil _] => Ok (VInt (TInt "uint64") 0)
  | FMaxlag, [VPtr (VStruct _ fs)] =>
      match assoc "CurrentLag" fs with Some x => Ok x | None => Err "no such field" end
  | FFmtTs, [_; _] => Ok (VAbsStr false)
  | _, _ => Err "bad call"
  end.

Definition call_fn (sch : schema) (dot : value) (name : string) (args : list arg)
           (final : option value) : result value :=
  match resolve_fn sch name with
  | None => Err ("function not defined or not modelled: " ++ name)%string
  | Some f =>
      let '(specs, var) := fn_specs f in
      bind (eval_args sch dot specs var args final) (apply_fn sch f)
  end.

Definition eval_cmd (sch : schema) (dot : value) (c : cmd) (final : option value) : result value :=
  match c with
  | CArgs ADot [] => match final with None => Ok dot | Some _ => Err "can't give argument to non-function" end
  | CArgs (AField ch) rest => eval_chain sch dot dot ch rest final
  | CArgs (AStr s) [] => match final with None => Ok (VStr s) | Some _ => Err "can't give argument to non-function" end
  | CArgs (AInt z) [] => match final with None => Ok (VInt t_int z) | Some _ => Err "can't give argument to non-function" end
  | CArgs _ _ => Err "command not modelled"
  | CCall f args => call_fn sch dot f args final
  end.

Fixpoint eval_cmds (sch : schema) (dot : value) (p : list cmd) (final : option value) : result value :=
  match p with
  | [] => match final with Some v => Ok v | None => Err "empty pipeline" end
  | c :: r => bind (eval_cmd sch dot c final) (fun v => eval_cmds sch dot r (Some v))
  end.

Definition eval_pipe (sch : schema) (dot : value) (p : pipe) : result value := eval_cmds sch dot p None.

(* --- printing ------------------------------------------------------------------------------ *)

Definition has_stringer (sch : schema) (tn : string) : bool :=
  match method_of sch tn "String" with
  | Some m => negb (m_ptr m) && match m_params m, m_results m with [], [TStr] => true | _, _ => false end
  | None => false
  end.

Fixpoint sep_by (sep : piece) (l : list (list piece)) : list piece :=
  match l with
  | [] => []
  | [x] => x
  | x :: r => x ++ sep :: sep_by sep r
  end.

(* fmt's %v: [top] — template printing indirects a top-level pointer, nested pointers print as addresses *)
Fixpoint print_value (sch : schema) (top : bool) (v : value) {struct v} : list piece :=
  match v with
  | VStr s => [Lit s]
  | VAbsStr j => [if j then ValHole else StrHole]
  | VBool b => [Lit (if b then "true" else "false")]
  | VInt (TNamed tn) z =>
      if String.eqb tn (sch_status_ty sch) && has_stringer sch tn then [Lit (status_name sch z)]
      else if has_stringer sch tn then [StrHole] else [NumHole]
  | VInt _ _ => [NumHole]
  | VFloat fin => [if fin then NumHole else Lit "NaN"]
  | VOpaque _ => [StrHole]
  | VNil _ => [Lit "<nil>"]
  | VPtr v' => if top then print_value sch true v' else [StrHole]
  | VStruct tn fs =>
      if has_stringer sch tn then [StrHole]
      else Lit "{" :: sep_by (Lit " ") (map (fun p => print_value sch false (snd p)) fs) ++ [Lit "}"]
  | VSlice _ l => Lit "[" :: sep_by (Lit " ") (map (print_value sch false) l) ++ [Lit "]"]
  | VMap _ kv =>
      Lit "map[" :: sep_by (Lit " ") (map (fun p => Lit (fst p) :: Lit ":" :: print_value sch false (snd p)) kv)
          ++ [Lit "]"]
  end.

(* Go's truth(): the "empty" values are false *)
Definition truth (v : value) : result bool :=
  match v with
  | VBool b => Ok b
  | VInt _ z => Ok (negb (z =? 0)%Z)
  | VStr s => Ok (negb (String.eqb s ""))
  | VNil _ => Ok false
  | VPtr _ | VStruct _ _ | VOpaque _ => Ok true
  | VSlice _ l => Ok (match l with [] => false | _ => true end)
  | VMap _ kv => Ok (match kv with [] => false | _ => true end)
  | VAbsStr _ => Ok true      (* text Go computed (String methods, time.Format, json.Marshal): taken to be non-empty;
                                 data strings (VStr) are decided exactly.  The checker demands that BOTH branches render *)
  | VFloat _ => Err "truth of a value the model does not compute"
  end.

(* --- execution ----------------------------------------------------------------------------- *)

Definition seq_exec (f : node -> value -> result (list piece)) : list node -> value -> result (list piece) :=
  fix go (ns : list node) (dot : value) {struct ns} : result (list piece) :=
    match ns with
    | [] => Ok []
    | n :: r => bind (f n dot) (fun o1 => bind (go r dot) (fun o2 => Ok (o1 ++ o2)))
    end.

Definition loop_exec (f : value -> result (list piece)) : list value -> result (list piece) :=
  fix go (l : list value) : result (list piece) :=
    match l with
    | [] => Ok []
    | x :: r => bind (f x) (fun o1 => bind (go r) (fun o2 => Ok (o1 ++ o2)))
    end.

Fixpoint exec_node (sch : schema) (n : node) (dot : value) {struct n} : result (list piece) :=
  match n with
  | NText s => Ok [Lit s]
  | NAction p => bind (eval_pipe sch dot p) (fun v => Ok (print_value sch true v))
  | NIf p th el =>
      bind (eval_pipe sch dot p) (fun v => bind (truth v) (fun b =>
      if b then seq_exec (exec_node sch) th dot else seq_exec (exec_node sch) el dot))
  | NRange p body el =>
      bind (eval_pipe sch dot p) (fun v =>
      match indirect v with
      | Some (VSlice _ []) => seq_exec (exec_node sch) el dot
      | Some (VSlice _ l) => loop_exec (seq_exec (exec_node sch) body) l
      | _ => Err "range over a value that is not a slice"
      end)
  | NWith p body el =>
      (* dot is set to the value of the pipeline if it is not empty; otherwise dot is unaffected (else list) *)
      bind (eval_pipe sch dot p) (fun v => bind (truth v) (fun b =>
      if b then seq_exec (exec_node sch) body v else seq_exec (exec_node sch) el dot))
  | NOther w => Err ("construct not modelled: " ++ w)%string
  end.

Definition exec_list (sch : schema) : list node -> value -> result (list piece) := seq_exec (exec_node sch).

Definition tmpl := list node.
Definition exec (sch : schema) (t : tmpl) (d : value) : result (list piece) := exec_list sch t d.

(* ------------------------------------------------------------------------------------------ *)
(* Non-nil facts                                                                               *)
(* ------------------------------------------------------------------------------------------ *)

Inductive pstep := PField (f : string) | PElem.
Definition path := list pstep.

Definition pstep_eqb (a b : pstep) : bool :=
  match a, b with
  | PField f, PField g => String.eqb f g
  | PElem, PElem => true
  | _, _ => false
  end.
Definition path_eqb : path -> path -> bool := list_eqb pstep_eqb.

(* every value found by following the path from v (through non-nil pointers, over all slice
   elements) is not a nil pointer *)
Fixpoint nonnil_at (p : path) (v : value) {struct p} : bool :=
  match p with
  | [] => match v with VNil _ => false | _ => true end
  | PField f :: r =>
      match indirect v with
      | Some (VStruct _ fs) => match assoc f fs with Some x => nonnil_at r x | None => true end
      | _ => true
      end
  | PElem :: r =>
      match indirect v with
      | Some (VSlice _ l) => forallb (nonnil_at r) l
      | _ => true
      end
  end.

Definition satisfies (facts : list path) (d : value) : bool := forallb (fun f => nonnil_at f d) facts.

(* ------------------------------------------------------------------------------------------ *)
(* Static check: "this template renders without error on every value of the schema that
   satisfies the facts"                                                                        *)
(* ------------------------------------------------------------------------------------------ *)

Record sty := mkSty { s_ty : ty; s_path : option path; s_json : bool }.

Definition fact_in (facts : list path) (p : option path) : bool :=
  match p with Some q => existsb (path_eqb q) facts | None => false end.

Definition path_app (p : option path) (s : pstep) : option path :=
  match p with Some q => Some (q ++ [s]) | None => None end.

(* literal arguments only *)
Fixpoint lit_args_ok (params : list ty) (args : list arg) : bool :=
  match params, args with
  | [], [] => true
  | TStr :: ps, AStr _ :: r => lit_args_ok ps r
  | TInt _ :: ps, AInt _ :: r => lit_args_ok ps r
  | _, _ => false
  end.

Definition ty_field (sch : schema) (facts : list path) (st : sty) (name : string) (args : list arg)
  : option sty :=
  let base :=
    match s_ty st with
    | TPtr (TNamed tn) => if fact_in facts (s_path st) then Some tn else None
    | TNamed tn => Some tn
    | _ => None
    end in
  match base with
  | None => None
  | Some tn =>
      match method_of sch tn name with
      | Some m =>
          if negb (m_ptr m) && lit_args_ok (m_params m) args
             && match m_results m with [TStr] => true | _ => false end
          then Some (mkSty TStr None false) else None
      | None =>
          match tentry_of sch tn, args with
          | Some (mkTentry (DStruct fds) _), [] =>
              match assoc name fds with
              | Some ft => Some (mkSty ft (path_app (s_path st) (PField name)) false)
              | None => None
              end
          | _, _ => None
          end
      end
  end.

Fixpoint ty_chain0 (sch : schema) (facts : list path) (st : sty) (chain : list string) : option sty :=
  match chain with
  | [] => Some st
  | f :: r => match ty_field sch facts st f [] with Some st' => ty_chain0 sch facts st' r | None => None end
  end.

Fixpoint ty_chain (sch : schema) (facts : list path) (st : sty) (chain : list string) (args : list arg)
  : option sty :=
  match chain with
  | [] => match args with [] => Some st | _ => None end
  | [f] => ty_field sch facts st f args
  | f :: r => match ty_field sch facts st f [] with Some st' => ty_chain sch facts st' r args | None => None end
  end.

Definition ty_operand (sch : schema) (facts : list path) (dot : sty) (a : arg) : option sty :=
  match a with
  | ADot => Some dot
  | AField ch => ty_chain0 sch facts dot ch
  | AStr _ => Some (mkSty TStr None false)
  | AInt _ => Some (mkSty t_int None false)
  | AOther _ => None
  end.

Definition is_int_ty (sch : schema) (t : ty) : bool :=
  match t with TInt _ => true | TNamed n => is_named_int sch n | _ => false end.

Definition scalar_zero (sch : schema) (t : ty) : bool :=
  match zero_of sch t with Some _ => true | None => false end.

Definition field_ty (sch : schema) (tn f : string) : option ty :=
  match tentry_of sch tn with Some (mkTentry (DStruct fds) _) => assoc f fds | _ => None end.

Definition t_partp : ty := TPtr (TNamed "PartitionStatus").
Definition t_u64 : ty := TInt "uint64".
Definition t_i64 : ty := TInt "int64".

(* maxlag: nil-safe read of CurrentLag through a *PartitionStatus *)
Definition ty_maxlag (sch : schema) (arg : option sty) : option sty :=
  match arg, field_ty sch "PartitionStatus" "CurrentLag" with
  | Some sa, Some ft => if ty_eqb (s_ty sa) t_partp && ty_eqb ft t_u64 then Some (mkSty t_u64 None false) else None
  | _, _ => None
  end.

Definition is_t_int (o : option sty) : bool :=
  match o with Some sa => ty_eqb (s_ty sa) t_int | None => false end.

(* the calls the checker accepts, by shape; [fed]: static type of the value fed by the pipeline *)
Definition ty_call (sch : schema) (facts : list path) (dot : sty) (name : string) (args : list arg)
           (fed : option sty) : option sty :=
  match resolve_fn sch name, args, fed with
  | Some FIndex, [m; AStr _], None =>
      match ty_operand sch facts dot m with
      | Some (mkSty (TMap vt) _ _) => if scalar_zero sch vt then Some (mkSty vt None false) else None
      | _ => None
      end
  | Some FLen, [a], None =>
      match ty_operand sch facts dot a with
      | Some (mkSty (TSlice _) _ _) | Some (mkSty (TMap _) _ _) => Some (mkSty t_int None false)
      | _ => None
      end
  | Some FEq, [a; b], None
  | Some FNe, [a; b], None | Some FLt, [a; b], None | Some FLe, [a; b], None
  | Some FGt, [a; b], None | Some FGe, [a; b], None =>
      match ty_operand sch facts dot a, ty_operand sch facts dot b with
      | Some sa, Some sb =>
          if is_int_ty sch (s_ty sa) && is_int_ty sch (s_ty sb) then Some (mkSty TBool None false) else None
      | _, _ => None
      end
  | Some FJson, [a], None =>
      match ty_operand sch facts dot a with Some _ => Some (mkSty TStr None true) | None => None end
  | Some FJson, [], Some _ => Some (mkSty TStr None true)
  | Some FMaxlag, [a], None => ty_maxlag sch (ty_operand sch facts dot a)
  | Some FMaxlag, [], Some s => ty_maxlag sch (Some s)
  | Some FAdd, [a; b], None | Some FMinus, [a; b], None | Some FMul, [a; b], None =>
      if is_t_int (ty_operand sch facts dot a) && is_t_int (ty_operand sch facts dot b)
      then Some (mkSty t_int None false) else None
  | Some FDiv, [a; AInt z], None =>   (* only a literal, non-zero divisor: anything else may divide by zero *)
      if is_t_int (ty_operand sch facts dot a) && negb (z =? 0)%Z then Some (mkSty t_int None false) else None
  | Some FFmtTs, [a; AStr _], None =>
      match a with
      | AInt _ => Some (mkSty TStr None false)
      | _ => match ty_operand sch facts dot a with
             | Some sa => if ty_eqb (s_ty sa) t_i64 then Some (mkSty TStr None false) else None
             | None => None
             end
      end
  | _, _, _ => None
  end.

Definition ty_cmd (sch : schema) (facts : list path) (dot : sty) (c : cmd) (fed : option sty) : option sty :=
  match c with
  | CArgs ADot [] => match fed with None => Some dot | Some _ => None end
  | CArgs (AField ch) rest => match fed with None => ty_chain sch facts dot ch rest | Some _ => None end
  | CArgs (AStr _) [] => match fed with None => Some (mkSty TStr None false) | Some _ => None end
  | CArgs (AInt _) [] => match fed with None => Some (mkSty t_int None false) | Some _ => None end
  | CArgs _ _ => None
  | CCall f args => ty_call sch facts dot f args fed
  end.

Fixpoint ty_cmds (sch : schema) (facts : list path) (dot : sty) (p : list cmd) (fed : option sty) : option sty :=
  match p with
  | [] => fed
  | c :: r => match ty_cmd sch facts dot c fed with
              | Some st => ty_cmds sch facts dot r (Some st)
              | None => None
              end
  end.

Definition ty_pipe (sch : schema) (facts : list path) (dot : sty) (p : pipe) : option sty :=
  ty_cmds sch facts dot p None.

(* values of these static types have a truth value the model computes *)
Definition truth_ok (sch : schema) (t : ty) : bool :=
  match t with
  | TBool | TInt _ | TPtr _ | TSlice _ | TMap _ | TStr => true
  | TNamed n => match tentry_of sch n with Some _ => true | None => false end
  | _ => false
  end.

(* A guard: inside {{if .A.B}} ... (before its else) and inside {{with .A.B}} ... the value at that path is not
   "empty" (text/template isTrue), in particular not a nil pointer: the path joins the facts for that branch. *)
Definition guard_of (p : pipe) : option (list string) :=
  match p with [CArgs (AField ch) []] => Some ch | _ => None end.

Definition path_fact (st : sty) : list path := match s_path st with Some q => [q] | None => [] end.

Definition guard_fact (sch : schema) (facts : list path) (dot : sty) (p : pipe) : list path :=
  match guard_of p with
  | Some ch => match ty_chain sch facts dot ch [] with Some st => path_fact st | None => [] end
  | None => []
  end.

Fixpoint check_node (sch : schema) (facts : list path) (dot : sty) (n : node) {struct n} : bool :=
  match n with
  | NText _ => true
  | NAction p => match ty_pipe sch facts dot p with Some _ => true | None => false end
  | NIf p th el =>
      match ty_pipe sch facts dot p with
      | Some st => truth_ok sch (s_ty st)
                   && forallb (check_node sch (guard_fact sch facts dot p ++ facts) dot) th
                   && forallb (check_node sch facts dot) el
      | None => false
      end
  | NRange p body el =>
      match ty_pipe sch facts dot p with
      | Some (mkSty (TSlice et) pa _) =>
          forallb (check_node sch facts (mkSty et (path_app pa PElem) false)) body
          && forallb (check_node sch facts dot) el
      | _ => false
      end
  | NWith p body el =>
      match ty_pipe sch facts dot p with
      | Some st => truth_ok sch (s_ty st)
                   && forallb (check_node sch (path_fact st ++ facts) st) body
                   && forallb (check_node sch facts dot) el
      | None => false
      end
  | NOther _ => false
  end.

Definition check_list (sch : schema) (facts : list path) (dot : sty) (ns : list node) : bool :=
  forallb (check_node sch facts dot) ns.

Definition root_sty (sch : schema) : sty := mkSty (TNamed (sch_root sch)) (Some []) false.

Definition typecheck (sch : schema) (t : tmpl) (facts : list path) : bool :=
  check_list sch facts (root_sty sch) t.

(* ------------------------------------------------------------------------------------------ *)
(* What the data offers (C20, first sentence)                                                  *)
(* ------------------------------------------------------------------------------------------ *)

Definition documented_fields : list (string * ty) :=
  [("Cluster", TStr); ("Group", TStr); ("ID", TStr); ("Start", TNamed "time.Time");
   ("Extras", TMap TStr); ("Result", TNamed "ConsumerGroupStatus")].

Definition documented_helpers : list string :=
  ["jsonencoder"; "topicsbystatus"; "partitioncounts"; "add"; "minus"; "multiply"; "divide";
   "maxlag"; "formattimestamp"].

(* every documented field can be read off the data value (as {{.Field}}) and has the documented type *)
Definition root_offers (sch : schema) : bool :=
  forallb (fun ft => match ty_chain0 sch [] (root_sty sch) [fst ft] with
                     | Some st => ty_eqb (s_ty st) (snd ft)
                     | None => false
                     end) documented_fields.

Definition helpers_offered (sch : schema) : bool :=
  forallb (fun h => match resolve_fn sch h, helper_of h with
                    | Some f, Some g => fsig_eqb (helper_sig f) (helper_sig g)
                                        && match assoc h (sch_funcs sch) with Some _ => true | None => false end
                    | _, _ => false
                    end) documented_helpers.

Definition offers (sch : schema) : bool := root_offers sch && helpers_offered sch.

(* ------------------------------------------------------------------------------------------ *)
(* The non-nil facts the shipped templates rely on, and data values built against a schema     *)
(* ------------------------------------------------------------------------------------------ *)

(* every listed partition is present and carries its first and last commit *)
Definition p_parts : path := [PField "Result"; PField "Partitions"; PElem].
Definition burrow_facts : list path :=
  [p_parts; p_parts ++ [PField "Start"]; p_parts ++ [PField "End"]].

(* A struct value of declared type [tn] built from what is known about some of its fields: strings, integers
   (given the integer type the schema declares for the field), floats, ready-made values.  Fields the schema
   declares beyond the known ones get the zero value of their type, as in Go. *)
Inductive kval := KStr (s : string) | KInt (z : Z) | KFloat (fin : bool) | KVal (v : value).
Inductive kkind := KKStr | KKInt | KKFloat | KKTy (t : ty).

Definition kind_of (k : kval) : kkind :=
  match k with KStr _ => KKStr | KInt _ => KKInt | KFloat _ => KKFloat | KVal v => KKTy (type_of v) end.

Definition kbuild (sch : schema) (k : kval) (t : ty) : option value :=
  match k with
  | KStr s => if ty_eqb t TStr then Some (VStr s) else None
  | KInt z => if is_int_ty sch t then Some (VInt t z) else None
  | KFloat b => if ty_eqb t TFloat then Some (VFloat b) else None
  | KVal v => if ty_eqb (type_of v) t then Some v else None
  end.

Definition junk : value := VBool false.

Definition build_field (sch : schema) (known : list (string * kval)) (nt : string * ty) : string * value :=
  (fst nt, match assoc (fst nt) known with
           | Some k => match kbuild sch k (snd nt) with Some v => v | None => junk end
           | None => match zero_of sch (snd nt) with Some z => z | None => junk end
           end).

Definition fields_of (sch : schema) (tn : string) : list (string * ty) :=
  match tentry_of sch tn with Some (mkTentry (DStruct fds) _) => fds | _ => [] end.

Definition build_struct (sch : schema) (tn : string) (known : list (string * kval)) : value :=
  VStruct tn (map (build_field sch known) (fields_of sch tn)).

Definition kind_ok (sch : schema) (kk : kkind) (t : ty) : bool :=
  match kk with
  | KKStr => ty_eqb t TStr
  | KKInt => is_int_ty sch t
  | KKFloat => ty_eqb t TFloat
  | KKTy t' => ty_eqb t' t
  end.

(* the schema declares [tn] as a struct each of whose fields can be filled from values of these kinds *)
Definition struct_ok (sch : schema) (tn : string) (kinds : list (string * kkind)) : bool :=
  match tentry_of sch tn with
  | Some (mkTentry (DStruct fds) _) =>
      forallb (fun nt => match assoc (fst nt) kinds with
                         | Some kk => kind_ok sch kk (snd nt)
                         | None => scalar_zero sch (snd nt)
                         end) fds
  | _ => false
  end.

(* a shipped template by file name; a missing one is a template that never renders *)
Definition lookup_tmpl (tbl : list (string * tmpl)) (name : string) : tmpl :=
  match assoc name tbl with Some t => t | None => [NOther "no such template"] end.

(* ------------------------------------------------------------------------------------------ *)
(* Which template a module executes (Coordinator.Configure, coordinator.go:157-236)            *)
(* ------------------------------------------------------------------------------------------ *)

(* One notifier section of the configuration, as far as templates go.  Configure parses the file named by
   template-open - and, only if send-close is set, the one named by template-close - each on its own, and hands
   the two template objects to the module; Notify executes the close one for stateGood and the open one otherwise
   (http.go:162-168, email.go:174-178).  Modelled: this association.  Trusted: that ParseFiles on a fresh root gives
   a set whose only member is the named file's template (so that Templates()[0] is it). *)
Record modcfg := mkModcfg {
  mc_name : string; mc_open : string; mc_close : string; mc_send_close : bool }.

Definition load_templates (tbl : list (string * tmpl)) (cfg : list modcfg)
  : list (string * (tmpl * option tmpl)) :=
  map (fun m => (mc_name m,
                 (lookup_tmpl tbl (mc_open m),
                  if mc_send_close m then Some (lookup_tmpl tbl (mc_close m)) else None))) cfg.

(* what module [name] renders for a close (good = true) or open notification about data d *)
Definition module_renders (sch : schema) (tbl : list (string * tmpl)) (cfg : list modcfg)
           (name : string) (good : bool) (d : value) : result (list piece) :=
  match assoc name (load_templates tbl cfg) with
  | None => Err "no such module"
  | Some (topen, tclose) =>
      if good then match tclose with Some t => exec sch t d | None => Err "no close template (send-close is off)" end
      else exec sch topen d
  end.

(* ------------------------------------------------------------------------------------------ *)
(* The data a module hands to its template (HTTPNotifier.Notify, EmailNotifier.Notify,         *)
(* coordinator.go notifyModule / checkAndSendResponseToModules)                                *)
(* ------------------------------------------------------------------------------------------ *)

(* the record executeTemplate builds, before it becomes a template value; the status is left abstract *)
Record tdata (R : Type) := mkTdata {
  td_cluster : string; td_group : string; td_id : string;
  td_start : Z;                                  (* nanoseconds since the epoch *)
  td_extras : list (string * string);
  td_result : R }.
Arguments mkTdata {R}. Arguments td_cluster {R}. Arguments td_group {R}. Arguments td_id {R}.
Arguments td_start {R}. Arguments td_extras {R}. Arguments td_result {R}.

(* an incident of a group as the coordinator keeps it: the event id and the time it was opened *)
Record incident := mkIncident { inc_id : string; inc_start : Z }.

(* one notification handed to a module: the incident of the group and the evaluator's reply about it *)
Record notification (R : Type) := mkNotification {
  nt_incident : incident; nt_cluster : string; nt_group : string; nt_status : R }.
Arguments mkNotification {R}. Arguments nt_incident {R}. Arguments nt_cluster {R}. Arguments nt_group {R}.
Arguments nt_status {R}.

(* what the templates of a module configured with [extras] are to be executed against for this notification:
   cluster and group of the reply, the incident's id and START time, the configured extras, the reply *)
Definition notify_data {R} (extras : list (string * string)) (n : notification R) : tdata R :=
  mkTdata (nt_cluster n) (nt_group n) (inc_id (nt_incident n)) (inc_start (nt_incident n)) extras (nt_status n).

(* the module as a state machine over the notifications it is handed: the state is what Notify can reach - the
   module's extras map and how many notifications went before; Notify reads the map and leaves it alone *)
Record mstate := mkMstate { ms_extras : list (string * string); ms_sent : nat }.

Definition notify_step {R} (m : mstate) (n : notification R) : mstate * tdata R :=
  (mkMstate (ms_extras m) (S (ms_sent m)),
   mkTdata (nt_cluster n) (nt_group n) (inc_id (nt_incident n)) (inc_start (nt_incident n)) (ms_extras m) (nt_status n)).

Fixpoint run_notifications {R} (m : mstate) (l : list (notification R)) : list (tdata R) :=
  match l with
  | [] => []
  | n :: r => let '(m', d) := notify_step m n in d :: run_notifications m' r
  end.

(* ------------------------------------------------------------------------------------------ *)
(* The documented meaning of the summarising helpers, as pure functions of the partition list  *)
(* ------------------------------------------------------------------------------------------ *)

(* topicsbystatus: status name -> the topics that have a partition in that status (each once).  [classify] above
   is this fold, run over the Status / Topic fields of the listed partitions. *)
Definition topics_by_status (name : Z -> string) (l : list (Z * string)) : list (string * list string) :=
  fold_left (fun m p => insert_topic (name (fst p)) (snd p) m) l [].

Definition topics_in (m : list (string * list string)) (s : string) : list string :=
  match assoc s m with Some ts => ts | None => [] end.

(* partitioncounts: how many listed partitions are in each problem state; OK partitions are not counted, every status
   outside the table is "unknown" *)
Definition count_key (z : Z) : option string :=
  if (z =? 1)%Z then None
  else if (z =? 2)%Z then Some "warn" else if (z =? 4)%Z then Some "stop"
  else if (z =? 5)%Z then Some "stall" else if (z =? 6)%Z then Some "rewind" else Some "unknown".

Definition partition_count (l : list Z) (key : string) : Z :=
  Z.of_nat (List.length (filter (fun z => match count_key z with Some k => String.eqb k key | None => false end) l)).
