(* The binary32 expressions of the evaluator (float32(k)/float32(n), == 1.0, >= minimum) in real numbers.
   Model: F32.v (Flocq binary32, round to nearest even).
   Anchors: core/internal/evaluator/caching.go evaluatePartitionStatus / evaluateConsumerStatus
   (Complete = float32(k)/float32(n); Complete == 1.0; Complete >= minimumComplete). *)
From Coq Require Import ZArith Reals Lia Lra.
From Flocq Require Import Core IEEE754.Binary IEEE754.Bits.
From Flocq Require IEEE754.BinarySingleNaN.
From Burrow Require Import F32.
Open Scope Z_scope.

(* the rounding of Go's float32 arithmetic: binary32 (24-bit significand, subnormals from 2^-149), ties to even *)
Notation round32 := (round radix2 (FLT_exp (-149) 24) ZnearestE).
Notation format32 := (generic_format radix2 (FLT_exp (-149) 24)).

Local Instance prec24_gt_0 : Prec_gt_0 24.
Proof. reflexivity. Qed.

Lemma two24_bpow : IZR (2 ^ 24) = bpow radix2 24.
Proof. rewrite <- (IZR_Zpower radix2 24) by lia. reflexivity. Qed.

(* ---------- integers up to 2^24 are binary32 numbers ---------- *)
Lemma int_format32 z : 0 <= z <= 2 ^ 24 -> format32 (IZR z).
Proof.
  intros Hz. destruct (Z.eq_dec z (2 ^ 24)) as [->|Hne].
  - rewrite two24_bpow. apply generic_format_FLT_bpow; [exact prec24_gt_0|lia].
  - apply generic_format_FLT.
    apply (FLT_spec radix2 (-149) 24 (IZR z) (Float radix2 z 0)).
    + unfold F2R. cbn [Fnum Fexp bpow]. rewrite Rmult_1_r. reflexivity.
    + cbn [Fnum]. change (Z.pow radix2 24) with (2 ^ 24). lia.
    + cbn [Fexp]. lia.
Qed.

Lemma round32_int z : 0 <= z <= 2 ^ 24 -> round32 (IZR z) = IZR z.
Proof. intros Hz. apply round_generic; [apply valid_rnd_N|apply int_format32; exact Hz]. Qed.

Lemma bpow128_big : (IZR (2 ^ 24) < bpow radix2 128)%R.
Proof. rewrite two24_bpow. apply bpow_lt. lia. Qed.

(* float32(z) is exact for 0 <= z <= 2^24 *)
Theorem f32_of_int_exact z :
  0 <= z <= 2 ^ 24 ->
  B2R 24 128 (f32_of_int z) = IZR z /\ is_finite 24 128 (f32_of_int z) = true.
Proof.
  intros Hz. unfold f32_of_int.
  pose proof (binary_normalize_correct 24 128 eq_refl eq_refl mode_NE z 0 false) as H.
  change (BinarySingleNaN.round_mode mode_NE) with ZnearestE in H.
  change (SpecFloat.fexp 24 128) with (FLT_exp (-149) 24) in H.
  assert (E : F2R (Float radix2 z 0) = IZR z).
  { unfold F2R. cbn [Fnum Fexp bpow]. apply Rmult_1_r. }
  rewrite E, (round32_int z Hz) in H.
  rewrite Rlt_bool_true in H.
  - destruct H as (H1 & H2 & _). split; assumption.
  - rewrite Rabs_pos_eq by (apply IZR_le; lia).
    eapply Rle_lt_trans; [apply IZR_le; apply Hz|apply bpow128_big].
Qed.

Lemma f32_one_R : B2R 24 128 f32_one = 1%R /\ is_finite 24 128 f32_one = true.
Proof. apply (f32_of_int_exact 1). lia. Qed.

Lemma f32_zero_R : B2R 24 128 f32_zero = 0%R /\ is_finite 24 128 f32_zero = true.
Proof. apply (f32_of_int_exact 0). lia. Qed.

(* ---------- the quotient of two such integers is the correctly rounded fraction ---------- *)
Lemma frac_bounds k n : 0 <= k <= 2 ^ 24 -> 0 < n <= 2 ^ 24 -> (0 <= IZR k / IZR n <= IZR (2 ^ 24))%R.
Proof.
  intros Hk Hn.
  assert (Hn1 : (1 <= IZR n)%R) by (apply IZR_le; lia).
  assert (Hk0 : (0 <= IZR k)%R) by (apply IZR_le; lia).
  assert (Hk1 : (IZR k <= IZR (2 ^ 24))%R) by (apply IZR_le; lia).
  split.
  - apply Rmult_le_pos; [exact Hk0|]. apply Rlt_le, Rinv_0_lt_compat. lra.
  - apply Rle_trans with (IZR k); [|exact Hk1].
    apply (Rmult_le_reg_r (IZR n)); [lra|].
    unfold Rdiv. rewrite Rmult_assoc, Rinv_l, Rmult_1_r by lra.
    rewrite <- (Rmult_1_r (IZR k)) at 1. apply Rmult_le_compat_l; assumption.
Qed.

Lemma round32_frac_bounds k n :
  0 <= k <= 2 ^ 24 -> 0 < n <= 2 ^ 24 -> (0 <= round32 (IZR k / IZR n) <= IZR (2 ^ 24))%R.
Proof.
  intros Hk Hn. destruct (frac_bounds k n Hk Hn) as [H0 H1]. split.
  - apply round_ge_generic; [apply FLT_exp_valid; exact prec24_gt_0|apply valid_rnd_N|apply generic_format_0|exact H0].
  - apply round_le_generic; [apply FLT_exp_valid; exact prec24_gt_0|apply valid_rnd_N|apply int_format32; lia|exact H1].
Qed.

Theorem f32_div_correct_frac k n :
  0 <= k <= 2 ^ 24 -> 0 < n <= 2 ^ 24 ->
  B2R 24 128 (f32_div (f32_of_int k) (f32_of_int n)) = round32 (IZR k / IZR n) /\
  is_finite 24 128 (f32_div (f32_of_int k) (f32_of_int n)) = true.
Proof.
  intros Hk Hn.
  destruct (f32_of_int_exact k Hk) as [Rk Fk].
  destruct (f32_of_int_exact n) as [Rn Fn]; [lia|].
  change (f32_div (f32_of_int k) (f32_of_int n))
    with (Bdiv 24 128 eq_refl eq_refl binop_nan_pl32 mode_NE (f32_of_int k) (f32_of_int n)).
  assert (Hnz : B2R 24 128 (f32_of_int n) <> 0%R).
  { rewrite Rn. apply not_0_IZR. lia. }
  pose proof (Bdiv_correct 24 128 eq_refl eq_refl binop_nan_pl32 mode_NE (f32_of_int k) (f32_of_int n) Hnz) as H.
  change (BinarySingleNaN.round_mode mode_NE) with ZnearestE in H.
  change (SpecFloat.fexp 24 128) with (FLT_exp (-149) 24) in H.
  rewrite Rk, Rn in H.
  rewrite Rlt_bool_true in H.
  - destruct H as (H1 & H2 & _). split; [exact H1|]. rewrite H2. exact Fk.
  - destruct (round32_frac_bounds k n Hk Hn) as [H0 H1].
    rewrite Rabs_pos_eq by exact H0.
    eapply Rle_lt_trans; [exact H1|apply bpow128_big].
Qed.

(* ---------- comparisons ---------- *)
Lemma f32_eq_R a b :
  is_finite 24 128 a = true -> is_finite 24 128 b = true ->
  (f32_eq a b = true <-> B2R 24 128 a = B2R 24 128 b).
Proof.
  intros Fa Fb. unfold f32_eq. rewrite (Bcompare_correct 24 128 a b Fa Fb).
  destruct (Rcompare_spec (B2R 24 128 a) (B2R 24 128 b)) as [H|H|H]; split; intros H'; try discriminate; try reflexivity; lra.
Qed.

(* Go's >= on float32: true exactly when the real values compare that way (both operands finite) *)
Lemma f32_ge_R a b :
  is_finite 24 128 a = true -> is_finite 24 128 b = true ->
  (f32_ge a b = true <-> (B2R 24 128 b <= B2R 24 128 a)%R).
Proof.
  intros Fa Fb. unfold f32_ge. rewrite (Bcompare_correct 24 128 a b Fa Fb).
  destruct (Rcompare_spec (B2R 24 128 a) (B2R 24 128 b)) as [H|H|H]; split; intros H'; try discriminate; try reflexivity; lra.
Qed.

(* a NaN minimum makes the gate false (Go: every comparison with NaN is false) *)
Lemma f32_ge_nan a b : is_nan 24 128 b = true -> f32_ge a b = false.
Proof. intros Hb. unfold f32_ge. destruct a, b; try discriminate; reflexivity. Qed.

(* ---------- a proper fraction never rounds up to 1.0 ---------- *)
Lemma below_one_format32 : format32 (IZR (2 ^ 24 - 1) * bpow radix2 (-24))%R.
Proof.
  apply generic_format_FLT.
  apply (FLT_spec radix2 (-149) 24 _ (Float radix2 (2 ^ 24 - 1) (-24))).
  - reflexivity.
  - cbn [Fnum]. change (Z.pow radix2 24) with (2 ^ 24). lia.
  - cbn [Fexp]. lia.
Qed.

Lemma below_one_val : (IZR (2 ^ 24 - 1) * bpow radix2 (-24) = 1 - / IZR (2 ^ 24))%R.
Proof.
  change (bpow radix2 (-24)) with (bpow radix2 (- (24))).
  rewrite bpow_opp, <- two24_bpow, minus_IZR.
  assert (IZR (2 ^ 24) <> 0)%R by (apply not_0_IZR; lia).
  field. assumption.
Qed.

Lemma frac_le_below_one k n :
  0 <= k < n -> n <= 2 ^ 24 -> (IZR k / IZR n <= 1 - / IZR (2 ^ 24))%R.
Proof.
  intros Hk Hn.
  assert (Hn0 : (0 < IZR n)%R) by (apply IZR_lt; lia).
  assert (H24 : (0 < IZR (2 ^ 24))%R) by (apply IZR_lt; lia).
  assert (Hk1 : (IZR k <= IZR n - 1)%R) by (rewrite <- minus_IZR; apply IZR_le; lia).
  assert (Hnn : (IZR n <= IZR (2 ^ 24))%R) by (apply IZR_le; lia).
  apply Rle_trans with (1 - / IZR n)%R.
  - apply (Rmult_le_reg_r (IZR n)); [exact Hn0|].
    unfold Rdiv. rewrite Rmult_assoc, Rinv_l, Rmult_1_r by lra.
    rewrite Rmult_minus_distr_r, Rinv_l by lra. lra.
  - apply Rplus_le_compat_l, Ropp_le_contravar, Rinv_le_contravar; assumption.
Qed.

Lemma round32_frac_lt_one k n :
  0 <= k < n -> n <= 2 ^ 24 -> (round32 (IZR k / IZR n) <= 1 - / IZR (2 ^ 24))%R.
Proof.
  intros Hk Hn. rewrite <- below_one_val.
  apply round_le_generic; [apply FLT_exp_valid; exact prec24_gt_0|apply valid_rnd_N|apply below_one_format32|].
  rewrite below_one_val. apply frac_le_below_one; assumption.
Qed.

Theorem f32_frac_lt_one_cmp k n :
  0 <= k < n -> n <= 2 ^ 24 ->
  Bcompare 24 128 (f32_div (f32_of_int k) (f32_of_int n)) f32_one = Some Lt.
Proof.
  intros Hk Hn.
  destruct (f32_div_correct_frac k n) as [Rq Fq]; [lia|lia|].
  destruct f32_one_R as [R1 F1].
  rewrite (Bcompare_correct 24 128 _ _ Fq F1), Rq, R1. f_equal.
  apply Rcompare_Lt.
  pose proof (round32_frac_lt_one k n Hk Hn) as H.
  assert (0 < / IZR (2 ^ 24))%R by (apply Rinv_0_lt_compat, IZR_lt; lia).
  lra.
Qed.

Theorem f32_frac_lt_one k n :
  0 <= k < n -> n <= 2 ^ 24 ->
  f32_eq (f32_div (f32_of_int k) (f32_of_int n)) f32_one = false.
Proof. intros Hk Hn. unfold f32_eq. rewrite (f32_frac_lt_one_cmp k n Hk Hn). reflexivity. Qed.

Theorem f32_zero_frac n :
  0 < n <= 2 ^ 24 -> f32_eq (f32_div (f32_of_int 0) (f32_of_int n)) f32_one = false.
Proof. intros Hn. apply f32_frac_lt_one; lia. Qed.

Theorem f32_frac_full n :
  0 < n <= 2 ^ 24 -> f32_eq (f32_div (f32_of_int n) (f32_of_int n)) f32_one = true.
Proof.
  intros Hn.
  destruct (f32_div_correct_frac n n) as [Rq Fq]; [lia|lia|].
  destruct f32_one_R as [R1 F1].
  apply (f32_eq_R _ _ Fq F1). rewrite Rq, R1.
  unfold Rdiv. rewrite Rinv_r by (apply not_0_IZR; lia).
  apply (round32_int 1). lia.
Qed.

Theorem f32_frac_eq_one_iff k n :
  0 <= k <= n -> 0 < n <= 2 ^ 24 ->
  (f32_eq (f32_div (f32_of_int k) (f32_of_int n)) f32_one = true <-> k = n).
Proof.
  intros Hk Hn. split.
  - intros H. destruct (Z.eq_dec k n) as [E|Hne]; [exact E|].
    rewrite f32_frac_lt_one in H by lia. discriminate.
  - intros ->. apply f32_frac_full. exact Hn.
Qed.

Lemma f32_one_eq_one : f32_eq f32_one f32_one = true.
Proof. vm_compute. reflexivity. Qed.

Lemma f32_zero_ne_one : f32_eq f32_zero f32_one = false.
Proof. vm_compute. reflexivity. Qed.

(* ---------- the completeness gate in real numbers ---------- *)
Theorem f32_frac_ge_R k n minimum :
  0 <= k <= 2 ^ 24 -> 0 < n <= 2 ^ 24 -> is_finite 24 128 minimum = true ->
  (f32_ge (f32_div (f32_of_int k) (f32_of_int n)) minimum = true <->
   (B2R 24 128 minimum <= round32 (IZR k / IZR n))%R).
Proof.
  intros Hk Hn Fm. destruct (f32_div_correct_frac k n Hk Hn) as [Rq Fq].
  rewrite (f32_ge_R _ _ Fq Fm), Rq. reflexivity.
Qed.

Theorem f32_one_ge_R minimum :
  is_finite 24 128 minimum = true ->
  (f32_ge f32_one minimum = true <-> (B2R 24 128 minimum <= 1)%R).
Proof.
  intros Fm. destruct f32_one_R as [R1 F1]. rewrite (f32_ge_R _ _ F1 Fm), R1. reflexivity.
Qed.

(* ---------- non-vacuity: the bit patterns Go produces ---------- *)
Example frac_3_4_bits : f32_bits (f32_div (f32_of_int 3) (f32_of_int 4)) = 0x3F400000.
Proof. vm_compute. reflexivity. Qed.
Example frac_1_3_bits : f32_bits (f32_div (f32_of_int 1) (f32_of_int 3)) = 0x3EAAAAAB.
Proof. vm_compute. reflexivity. Qed.
Example frac_big_bits :
  f32_bits (f32_div (f32_of_int (2 ^ 24 - 1)) (f32_of_int (2 ^ 24))) = 0x3F7FFFFF /\
  f32_eq (f32_div (f32_of_int (2 ^ 24 - 1)) (f32_of_int (2 ^ 24))) f32_one = false.
Proof. vm_compute. split; reflexivity. Qed.
(* the bound 2^24 is sharp: float32(2^24+1) = 2^24, so (2^24)/(2^24+1) evaluates to exactly 1.0 in Go *)
Example frac_beyond_bound_is_one :
  f32_eq (f32_div (f32_of_int (2 ^ 24)) (f32_of_int (2 ^ 24 + 1))) f32_one = true.
Proof. vm_compute. reflexivity. Qed.

Print Assumptions f32_of_int_exact.
Print Assumptions f32_div_correct_frac.
Print Assumptions f32_frac_lt_one.
Print Assumptions f32_frac_lt_one_cmp.
Print Assumptions f32_frac_eq_one_iff.
Print Assumptions f32_zero_frac.
Print Assumptions f32_frac_ge_R.
Print Assumptions f32_one_ge_R.
