(* Executable model of the Zookeeper consumer reader's group-list handling (C10, ZK half).
   Anchors: core/internal/consumer/kafka_zk_client.go
     acceptConsumerGroup            :178-186
     resetGroupListWatchAndAdd      :237-276   (the only place a group enters groupList; consults the lists)
     resetTopicListWatchAndAdd      :295-336   (+ waitForNodeToExist :194-221)
     resetPartitionListWatchAndAdd  :359-399
     resetOffsetWatchAndSend        :424-490   (the only place storage requests are produced)
     watch* goroutines              :223-235, 278-293, 338-357, 401-422
     connectionStateWatcher         :155-176   (session expiry: groupList reset, group list re-read)

   The module is a set of goroutines; each is either a spawned procedure call that will read Zookeeper ("call") or a
   goroutine parked on a watch channel ("watch").  One model step executes one pending call with Zookeeper's answer
   to its read (any answer: the environment is unconstrained), or fires one armed watch.  Names are interned; the
   allow/deny outcome per group name is the oracle acc. *)
From Coq Require Import ZArith List Bool.
Import ListNotations.
Open Scope Z_scope.

(* C10's predicate: matches the allowlist if one is set and not the denylist if one is set *)
Definition zk_accept (a_set a_match d_set d_match : bool) : bool :=
  (negb a_set || a_match) && negb (d_set && d_match).

Inductive call :=
| CGroupList (ro : bool)                        (* resetGroupListWatchAndAdd(resetOnly) *)
| CTopicList (g : positive) (ro : bool)         (* resetTopicListWatchAndAdd(group, resetOnly), at ExistsW *)
| CTopicRead (g : positive) (ro : bool)         (* ... the same invocation once the offsets znode exists *)
| CPartList (g t : positive) (ro : bool)        (* resetPartitionListWatchAndAdd *)
| COffset (g t : positive) (p : Z) (ro : bool). (* resetOffsetWatchAndSend *)

Inductive watch :=
| WGroupList
| WExists (g : positive) (ro : bool)            (* blocked in waitForNodeToExist *)
| WTopicList (g : positive)
| WPartList (g t : positive)
| WOffset (g t : positive) (p : Z).

Inductive answer :=
| AErr                                          (* the read failed *)
| AChildren (l : list positive)                 (* ChildrenW on the consumers path / the group's offsets path *)
| ACount (n : Z)                                (* number of children of a topic's offsets path *)
| AExists (b : bool)                            (* ExistsW on the group's offsets path *)
| AOffset (parsed : option Z) (mtime mzxid owner : Z).
                                                (* GetW on the offset znode (parsed = strconv.ParseInt result) and on
                                                   the owner znode (0 = no owner / read failed) *)

Inductive firekind := NotWatching | Changed | OtherEvent.

Inductive zevent :=
| Run (c : call) (a : answer)
| Fire (w : watch) (k : firekind)
| ZExpire.                                      (* StateExpired followed by StateConnected *)

Inductive zaction :=
| SetOffset (g t : positive) (p off ts order : Z)   (* StorageSetConsumerOffset *)
| SetOwner (g t : positive) (p owner : Z)           (* StorageSetConsumerOwner *)
| ZPanic.                                           (* nil map entry dereferenced *)

Record zstate := mkZ {
  known : list (positive * list (positive * Z));    (* groupList: group -> topic -> partition count *)
  calls : list call;
  watches : list watch;
  zcrashed : bool }.

(* ---- decidable equalities ---- *)
Definition call_eqb (a b : call) : bool :=
  match a, b with
  | CGroupList r1, CGroupList r2 => Bool.eqb r1 r2
  | CTopicList g1 r1, CTopicList g2 r2 => Pos.eqb g1 g2 && Bool.eqb r1 r2
  | CTopicRead g1 r1, CTopicRead g2 r2 => Pos.eqb g1 g2 && Bool.eqb r1 r2
  | CPartList g1 t1 r1, CPartList g2 t2 r2 => Pos.eqb g1 g2 && Pos.eqb t1 t2 && Bool.eqb r1 r2
  | COffset g1 t1 p1 r1, COffset g2 t2 p2 r2 => Pos.eqb g1 g2 && Pos.eqb t1 t2 && Z.eqb p1 p2 && Bool.eqb r1 r2
  | _, _ => false
  end.

Definition watch_eqb (a b : watch) : bool :=
  match a, b with
  | WGroupList, WGroupList => true
  | WExists g1 r1, WExists g2 r2 => Pos.eqb g1 g2 && Bool.eqb r1 r2
  | WTopicList g1, WTopicList g2 => Pos.eqb g1 g2
  | WPartList g1 t1, WPartList g2 t2 => Pos.eqb g1 g2 && Pos.eqb t1 t2
  | WOffset g1 t1 p1, WOffset g2 t2 p2 => Pos.eqb g1 g2 && Pos.eqb t1 t2 && Z.eqb p1 p2
  | _, _ => false
  end.

Fixpoint remove_first {A} (eqb : A -> A -> bool) (x : A) (l : list A) : option (list A) :=
  match l with
  | [] => None
  | y :: r => if eqb x y then Some r
              else match remove_first eqb x r with Some r' => Some (y :: r') | None => None end
  end.

(* ---- groupList ---- *)
Fixpoint lookup {V} (k : positive) (l : list (positive * V)) : option V :=
  match l with
  | [] => None
  | (k', v) :: r => if Pos.eqb k k' then Some v else lookup k r
  end.

Fixpoint update {V} (k : positive) (v : V) (l : list (positive * V)) : list (positive * V) :=
  match l with
  | [] => [(k, v)]
  | (k', v') :: r => if Pos.eqb k k' then (k, v) :: r else (k', v') :: update k v r
  end.

(* resetGroupListWatchAndAdd, !resetOnly: every accepted, not yet known group is added and its topic list spawned *)
Fixpoint add_groups (acc : positive -> bool) (gl : list positive) (kn : list (positive * list (positive * Z)))
  : list (positive * list (positive * Z)) * list call :=
  match gl with
  | [] => (kn, [])
  | g :: r =>
      if acc g then
        match lookup g kn with
        | Some _ => add_groups acc r kn
        | None => let x := add_groups acc r (update g [] kn) in (fst x, CTopicList g false :: snd x)
        end
      else add_groups acc r kn      (* "skip group" *)
  end.

Fixpoint add_topics (g : positive) (tl : list positive) (ts : list (positive * Z)) : list (positive * Z) * list call :=
  match tl with
  | [] => (ts, [])
  | t :: r =>
      match lookup t ts with
      | Some _ => add_topics g r ts
      | None => let x := add_topics g r (update t 0 ts) in (fst x, CPartList g t false :: snd x)
      end
  end.

Fixpoint offset_calls (g t : positive) (from : Z) (n : nat) : list call :=
  match n with
  | O => []
  | S m => COffset g t from false :: offset_calls g t (from + 1) m
  end.

Definition crash (st : zstate) : zstate * list zaction :=
  (mkZ (known st) [] [] true, [ZPanic]).

Definition exec (acc : positive -> bool) (st : zstate) (c : call) (a : answer) : zstate * list zaction :=
  match c with
  | CGroupList ro =>
      match a with
      | AChildren gl =>
          let st1 := mkZ (known st) (calls st) (watches st ++ [WGroupList]) false in
          if ro then (st1, [])
          else let x := add_groups acc gl (known st) in
               (mkZ (fst x) (calls st ++ snd x) (watches st1) false, [])
      | _ => (st, [])
      end
  | CTopicList g ro =>
      match a with
      | AExists true => (mkZ (known st) (calls st ++ [CTopicRead g ro]) (watches st) false, [])
      | AExists false => (mkZ (known st) (calls st) (watches st ++ [WExists g ro]) false, [])
      | _ => (st, [])
      end
  | CTopicRead g ro =>
      match a with
      | AChildren tl =>
          let st1 := mkZ (known st) (calls st) (watches st ++ [WTopicList g]) false in
          if ro then (st1, [])
          else match lookup g (known st) with
               | None => crash st        (* module.groupList[group] == nil *)
               | Some ts => let x := add_topics g tl ts in
                            (mkZ (update g (fst x) (known st)) (calls st ++ snd x) (watches st1) false, [])
               end
      | _ => (st, [])
      end
  | CPartList g t ro =>
      match a with
      | ACount n =>
          let st1 := mkZ (known st) (calls st) (watches st ++ [WPartList g t]) false in
          if ro then (st1, [])
          else match lookup g (known st) with
               | None => crash st
               | Some ts =>
                   match lookup t ts with
                   | None => crash st    (* module.groupList[group].topics[topic] == nil *)
                   | Some cnt =>
                       if cnt <=? n then
                         (mkZ (update g (update t n ts) (known st))
                              (calls st ++ offset_calls g t cnt (Z.to_nat (n - cnt))) (watches st1) false, [])
                       else (st1, [])
                   end
               end
      | _ => (st, [])
      end
  | COffset g t p ro =>
      match a with
      | AOffset parsed mtime mzxid owner =>
          let st1 := mkZ (known st) (calls st) (watches st ++ [WOffset g t p]) false in
          if ro then (st1, [])
          else match parsed with
               | None => (st1, [])       (* badly formatted offset *)
               | Some off => (st1, [SetOffset g t p off mtime mzxid; SetOwner g t p owner])
               end
      | _ => (st, [])
      end
  end.

Definition call_of_watch (w : watch) (k : firekind) : list call :=
  match k with
  | NotWatching => []
  | _ =>
    let ro := match k with Changed => false | _ => true end in
    match w with
    | WGroupList => [CGroupList ro]
    | WExists g ro0 => [CTopicRead g ro0]
    | WTopicList g => [CTopicList g ro]
    | WPartList g t => [CPartList g t ro]
    | WOffset g t p => [COffset g t p ro]
    end
  end.

Definition zk_step (acc : positive -> bool) (st : zstate) (ev : zevent) : zstate * list zaction :=
  if zcrashed st then (st, []) else
  match ev with
  | Run c a =>
      match remove_first call_eqb c (calls st) with
      | None => (st, [])      (* no such goroutine *)
      | Some cs => exec acc (mkZ (known st) cs (watches st) false) c a
      end
  | Fire w k =>
      match remove_first watch_eqb w (watches st) with
      | None => (st, [])      (* no such watch *)
      | Some ws => (mkZ (known st) (calls st ++ call_of_watch w k) ws false, [])
      end
  | ZExpire => (mkZ [] (calls st ++ [CGroupList false]) (watches st) false, [])
  end.

(* Start(): resetGroupListWatchAndAdd(false) *)
Definition zk_init : zstate := mkZ [] [CGroupList false] [] false.

Fixpoint zk_run (acc : positive -> bool) (st : zstate) (evs : list zevent) : zstate * list zaction :=
  match evs with
  | [] => (st, [])
  | e :: r => let x := zk_step acc st e in let y := zk_run acc (fst x) r in (fst y, snd x ++ snd y)
  end.

(* ---- a scripted /consumers tree and the answers it gives (for the correspondence driver) ---- *)
Record pnode := mkP { pn_exists : bool; pn_parsed : option Z; pn_mtime : Z; pn_mzxid : Z; pn_owner : Z }.
Record gnode := mkG { gn_offsets : bool; gn_topics : list (positive * list pnode) }.
Definition tree := list (positive * gnode).

Definition answer_of (tr : tree) (c : call) : answer :=
  match c with
  | CGroupList _ => AChildren (map fst tr)
  | CTopicList g _ => match lookup g tr with Some gn => AExists (gn_offsets gn) | None => AExists false end
  | CTopicRead g _ =>
      match lookup g tr with
      | Some gn => if gn_offsets gn then AChildren (map fst (gn_topics gn)) else AErr
      | None => AErr
      end
  | CPartList g t _ =>
      match lookup g tr with
      | Some gn => match lookup t (gn_topics gn) with Some ps => ACount (Z.of_nat (length ps)) | None => AErr end
      | None => AErr
      end
  | COffset g t p _ =>
      match lookup g tr with
      | Some gn =>
          match lookup t (gn_topics gn) with
          | Some ps =>
              match nth_error ps (Z.to_nat p) with
              | Some pn => if pn_exists pn && (0 <=? p)
                           then AOffset (pn_parsed pn) (pn_mtime pn) (pn_mzxid pn) (pn_owner pn) else AErr
              | None => AErr
              end
          | None => AErr
          end
      | None => AErr
      end
  end.

(* run every spawned goroutine to completion against the tree (FIFO) *)
Fixpoint quiesce (fuel : nat) (acc : positive -> bool) (tr : tree) (st : zstate) : zstate * list zaction :=
  match fuel with
  | O => (st, [])
  | S f =>
      match calls st with
      | [] => (st, [])
      | c :: _ => let x := zk_step acc st (Run c (answer_of tr c)) in
                  let y := quiesce f acc tr (fst x) in (fst y, snd x ++ snd y)
      end
  end.
