(* The documented evaluation procedure (C03) as a declarative specification:
   mathematical integers, quantifiers over the window — no loops, no wrap-around. *)
From Coq Require Import ZArith List Bool Sorted.
From Burrow Require Import Int64 Eval.
Import ListNotations.
Open Scope Z_scope.

Section Spec.
  Variable offs : list coff.      (* the window, oldest first, no nil entries *)
  Variable brokers : list Z.      (* recent broker end offsets *)
  Variable cur_lag now allowed : Z.

  Definition first_ts : Z := match offs with [] => 0 | f :: _ => co_ts f end.
  Definition last_commit : option coff := match offs with [] => None | f :: _ => Some (last offs f) end.

  (* time since the last commit exceeds the time spanned by the window *)
  Definition Stopped : Prop :=
    exists l, last_commit = Some l /\ co_ts l - first_ts < now * 1000 - co_ts l.

  (* some recent broker offset was at or below the last commit *)
  Definition RecentZero : Prop :=
    exists l b, last_commit = Some l /\ In b brokers /\ b <= co_offset l.

  (* some backward step p -> c, and nothing from c onwards got back to p's offset *)
  Definition RewoundUnrecovered : Prop :=
    exists pre p c post,
      offs = pre ++ p :: c :: post /\
      co_offset c < co_offset p /\
      Forall (fun o => co_offset o < co_offset p) (c :: post).

  (* what the code looked at before the repair: only the FIRST backward step of the window *)
  Definition RewoundUnrecoveredFirst : Prop :=
    exists pre p c post,
      offs = pre ++ p :: c :: post /\
      Sorted (fun a b => co_offset a <= co_offset b) (pre ++ [p]) /\
      co_offset c < co_offset p /\
      Forall (fun o => co_offset o < co_offset p) (c :: post).

  Definition SomeLagOk : Prop :=
    exists o l, In o offs /\ co_lag o = Some l /\ l <= allowed.

  Definition NeverMoved : Prop :=
    forall a b, In a offs -> In b offs -> co_offset a = co_offset b.

  Definition present_lags : list Z :=
    flat_map (fun o => match co_lag o with Some l => [l] | None => [] end) offs.

  Definition LagNeverDecreased : Prop := Sorted Z.le present_lags.

  (* The decision list of the property text. *)
  Inductive Spec : status -> Prop :=
  | SpecWithin : cur_lag <= allowed -> Spec StOK
  | SpecStop : allowed < cur_lag -> Stopped -> ~ RecentZero -> Spec StStop
  | SpecRewind : allowed < cur_lag -> ~ (Stopped /\ ~ RecentZero) ->
                 RewoundUnrecovered -> Spec StRewind
  | SpecLagOk : allowed < cur_lag -> ~ (Stopped /\ ~ RecentZero) -> ~ RewoundUnrecovered ->
                SomeLagOk -> Spec StOK
  | SpecStall : allowed < cur_lag -> ~ (Stopped /\ ~ RecentZero) -> ~ RewoundUnrecovered ->
                ~ SomeLagOk -> NeverMoved -> Spec StStall
  | SpecWarn : allowed < cur_lag -> ~ (Stopped /\ ~ RecentZero) -> ~ RewoundUnrecovered ->
               ~ SomeLagOk -> ~ NeverMoved -> LagNeverDecreased -> Spec StWarn
  | SpecElse : allowed < cur_lag -> ~ (Stopped /\ ~ RecentZero) -> ~ RewoundUnrecovered ->
               ~ SomeLagOk -> ~ NeverMoved -> ~ LagNeverDecreased -> Spec StOK.
End Spec.

(* Guard under which Go's int64 arithmetic in the stop rule cannot wrap. *)
Definition ts_bound : Z := 2305843009213693952.   (* 2^61 *)
Definition now_bound : Z := 2251799813685248.      (* 2^51 *)
Definition no_overflow (offs : list coff) (now : Z) : Prop :=
  - now_bound < now < now_bound /\ Forall (fun o => - ts_bound < co_ts o < ts_bound) offs.

(* The sharp guard: exactly the three int64 operations of the stop rule (checkIfOffsetsStopped) do not wrap. *)
Definition no_wrap (offs : list coff) (now : Z) : Prop :=
  match offs with
  | [] => True
  | f :: _ => in_i64 (now * 1000) /\ in_i64 (co_ts (last offs f) - co_ts f) /\ in_i64 (now * 1000 - co_ts (last offs f))
  end.

(* What the evaluator is handed in a running Burrow: int64 commit timestamps that are not negative (storage admits a commit
   only if its timestamp is at least (clock - expire-group) * 1000, and the clock is past expire-group) and a clock whose
   millisecond value fits an int64. *)
Definition clock_max : Z := 9223372036854775.      (* (2^63 - 1) / 1000 *)
Definition storage_guard (offs : list coff) (now : Z) : Prop :=
  0 <= now <= clock_max /\ Forall (fun o => 0 <= co_ts o < two63) offs.

Definition shift_offsets (k : Z) (offs : list coff) : list coff :=
  map (fun o => mkCoff (co_offset o + k) (co_order o) (co_ts o) (co_lag o)) offs.
Definition shift_times (k : Z) (offs : list coff) : list coff :=
  map (fun o => mkCoff (co_offset o) (co_order o) (co_ts o + 1000 * k) (co_lag o)) offs.
