(* Model of the evaluator's result cache (C05): core/internal/evaluator/caching.go getConsumerStatus /
   cacheKey / splitCacheKey / evaluateConsumerStatus (storage fetch + nil => cacheError 404), on top of
   github.com/karrick/goswarm v1.10.0 Simple.Query / update / newTimedValue / IsExpiredAt / IsStaleAt as
   Burrow configures it (GoodExpiryDuration = BadExpiryDuration = expire-cache seconds, both stale
   durations zero, no GC).

   What goswarm really does there (simple.go, timedValue.go):
   * there is NO per-key lock: the value of a key is one atomic.Value; Query = Load, time.Now, test; a miss
     calls Lookup *in the caller's goroutine* and then Stores.  Concurrent queries of one key may all miss,
     all fetch from storage, and store one after the other;
   * a good value (Err = nil) with a zero stale duration never goes stale; it is expired when now is strictly
     after created + lifetime;
   * an error value with a zero stale duration is ALWAYS stale: while it is not expired Query answers the
     cached error and, unless a refresh of that key is already pending, starts a goroutine that looks the key
     up again and stores the outcome;
   * update: a good result is stored unconditionally; an error result replaces nothing but an absent value,
     another error, or an expired good value -- if a good value that has not expired is found, *that* value
     is returned instead of the error (Load and Store are two separate atomic operations);
   * a zero lifetime means "never expires" for good values and "always expired" for errors.  Since the
     fix: commit for expire-cache = 0, Burrow no longer consults the cache then ([fixed0]).

   Strings whose structure matters (cluster, group, cache key) are byte lists.  The evaluation of one storage
   reply ([evalf], in the development: Eval.eval_group) and the problems-only view ([filt], Eval.filter_view)
   are parameters, and so is storage itself ([lookup time cluster group]). *)
From Coq Require Import ZArith List Bool Lia Decimal DecimalNat.
Import ListNotations.
Open Scope Z_scope.

Definition name := list Z.
Definition key := list Z.
Definition sp : Z := 32.

Fixpoint bytes_eqb (a b : list Z) : bool :=
  match a, b with
  | [], [] => true
  | x :: a', y :: b' => (x =? y) && bytes_eqb a' b'
  | _, _ => false
  end.

(* ---------------------------------------------------------------------------------------------- *)
(* Cache keys                                                                                       *)
(* ---------------------------------------------------------------------------------------------- *)

(* strings.SplitN(k, " ", 2): None when there is no space (len(parts) != 2) *)
Fixpoint split_first_space (k : key) : option (name * name) :=
  match k with
  | [] => None
  | b :: r => if b =? sp then Some ([], r)
              else match split_first_space r with
                   | Some (a, z) => Some (b :: a, z)
                   | None => None
                   end
  end.

(* the key of the unrepaired code: cluster + " " + group, taken apart on the first space *)
Definition mk_key_old (c g : name) : key := c ++ sp :: g.
Definition split_key_old (k : key) : option (name * name) := split_first_space k.

Definition no_space (c : name) : Prop := ~ In sp c.

(* strconv.Itoa of a length / strconv.Atoi restricted to what Itoa produces (plain digits, not empty) *)
Fixpoint uint_bytes (u : Decimal.uint) : list Z :=
  match u with
  | Nil => []
  | D0 u => 48 :: uint_bytes u | D1 u => 49 :: uint_bytes u | D2 u => 50 :: uint_bytes u
  | D3 u => 51 :: uint_bytes u | D4 u => 52 :: uint_bytes u | D5 u => 53 :: uint_bytes u
  | D6 u => 54 :: uint_bytes u | D7 u => 55 :: uint_bytes u | D8 u => 56 :: uint_bytes u
  | D9 u => 57 :: uint_bytes u
  end.

Fixpoint bytes_uint (l : list Z) : option Decimal.uint :=
  match l with
  | [] => Some Nil
  | b :: r =>
      match bytes_uint r with
      | None => None
      | Some u =>
          if b =? 48 then Some (D0 u) else if b =? 49 then Some (D1 u) else if b =? 50 then Some (D2 u)
          else if b =? 51 then Some (D3 u) else if b =? 52 then Some (D4 u) else if b =? 53 then Some (D5 u)
          else if b =? 54 then Some (D6 u) else if b =? 55 then Some (D7 u) else if b =? 56 then Some (D8 u)
          else if b =? 57 then Some (D9 u) else None
      end
  end.

Definition itoa (n : nat) : list Z := uint_bytes (Nat.to_uint n).
Definition atoi (l : list Z) : option nat :=
  match l with
  | [] => None
  | _ => match bytes_uint l with Some u => Some (Nat.of_uint u) | None => None end
  end.

(* cacheKey / splitCacheKey of the repaired code: strconv.Itoa(len(cluster)) + " " + cluster + " " + group *)
Definition mk_key (c g : name) : key := itoa (length c) ++ sp :: c ++ sp :: g.

Definition split_key (k : key) : option (name * name) :=
  match split_first_space k with
  | None => None
  | Some (d, rest) =>
      match atoi d with
      | None => None
      | Some n =>
          if (n <? length rest)%nat && (nth n rest 0 =? sp)
          then Some (firstn n rest, skipn (S n) rest)
          else None
      end
  end.

(* ---------------------------------------------------------------------------------------------- *)
(* The cache and one request, at the granularity of goswarm's atomic operations                     *)
(* ---------------------------------------------------------------------------------------------- *)

Section Model.
  Variables data value : Type.
  Variable evalf : Z -> data -> value.                      (* evaluateConsumerStatus after the fetch, at a clock *)
  Variable filt : value -> value.                           (* the ShowAll = false copy *)
  (* the ShowAll = false branch as an operation on the CACHED object: (what it leaves in the cached object, the copy
     it hands out).  The code is [pure_op]: it copies.  A variant that builds the copy in place would not be. *)
  Variable filt_op : value -> value * value.
  Variable lookup : Z -> name -> name -> option data.       (* storage at a time: None = nil reply *)
  Variable mk : name -> name -> key.                        (* key scheme (old or repaired) *)
  Variable split : key -> option (name * name).
  Variable L : Z.                                           (* expire-cache, in the unit of the clock *)
  Variable fixed0 : bool.                                   (* true: expire-cache = 0 bypasses the cache *)

  (* the cached *ConsumerGroupStatus: names as evaluateConsumerStatus split them off the key + the evaluation *)
  Definition cval : Type := (name * name * value)%type.

  (* TimedValue; e_res = None is a stored cacheError.  e_snap is the time of the storage fetch it came from. *)
  (* e_addr: where the cached *ConsumerGroupStatus lives (index into [heap]); the cache, and every requester that was
     handed the full view, hold this one object *)
  Record entry := mkEntry { e_res : option cval; e_created : Z; e_snap : Z; e_addr : nat }.

  Definition use_cache : bool := negb fixed0 || (0 <? L).

  (* IsExpiredAt with Expiry = created + L, or the zero time when L = 0 *)
  Definition expired (e : entry) (t : Z) : bool :=
    match e_res e with
    | Some _ => negb (L =? 0) && (e_created e + L <? t)
    | None => (L =? 0) || (e_created e + L <? t)
    end.

  Inductive phase :=
  | PRead                                   (* about to enter Simple.Query *)
  | PLookup                                 (* miss: about to fetch from storage (config.Lookup) *)
  | PStoreGood (v : cval) (s : Z) (a : nat) (* evaluated a reply fetched at s into object a; about to Store *)
  | PErrLoad (s : Z)                        (* nil reply fetched at s; about to Load the current value *)
  | PErrStore (e : entry)                   (* about to Store the error value *)
  | PReply (res : option cval) (s c r : Z) (a : nat)  (* Query returned res = object a (fetched at s, created at c, valid at r) *)
  | PDone.

  Record thread := mkThread { th_c : name; th_g : name; th_async : bool; th_sa : bool; th_start : Z; th_ph : phase }.

  Inductive event :=
  | EvLookup (tid : nat) (t : Z) (c g : name) (x : option data)
  | EvStore (tid : nat) (t : Z)
  | EvReply (tid : nat) (t : Z) (rc rg : name) (c g : name) (v : option value) (s cr r start : Z)
  (* what the requester of tid is handed: sa = the view it asked for, v = the status Query returned (as in EvReply),
     dv = the object it receives -- the cached object itself (full view) or the filtered copy, read from the heap *)
  | EvDeliver (tid : nat) (t : Z) (sa : bool) (v dv : option value).

  Record state := mkState {
    cache : list (key * entry);       (* newest binding first *)
    pend : list key;                  (* keys with a background refresh in flight (atomicTimedValue.pending) *)
    threads : list thread;
    trace : list event;               (* newest first *)
    clock : Z;
    heap : list value }.              (* the *ConsumerGroupStatus objects made by evaluateConsumerStatus, by address *)

  Fixpoint find_entry (k : key) (m : list (key * entry)) : option entry :=
    match m with
    | [] => None
    | (k', e) :: r => if bytes_eqb k k' then Some e else find_entry k r
    end.

  Definition is_pending (k : key) (p : list key) : bool := existsb (bytes_eqb k) p.
  Definition clear_pending (k : key) (p : list key) : list key := filter (fun k' => negb (bytes_eqb k k')) p.

  Fixpoint set_nth {A} (l : list A) (n : nat) (a : A) : list A :=
    match l, n with
    | [], _ => []
    | _ :: r, O => a :: r
    | x :: r, S m => x :: set_nth r m a
    end.

  Definition with_phase (th : thread) (ph : phase) : thread :=
    mkThread (th_c th) (th_g th) (th_async th) (th_sa th) (th_start th) ph.

  (* the reply getConsumerStatus builds from what Query returned: an error is answered with the REQUEST's names,
     a cached status with the names stored in it *)
  Definition reply_names (th : thread) (res : option cval) : name * name * option value :=
    match res with
    | None => (th_c th, th_g th, None)
    | Some (c, g, v) => (c, g, Some v)
    end.

  (* getConsumerStatus after Query returned: the full view hands out the cached object itself; the filtered view
     runs filt_op on it *)
  Definition deliver (h : list value) (sa : bool) (res : option cval) (a : nat) : list value * option value :=
    match res with
    | None => (h, None)
    | Some (_, _, v) =>
        let obj := nth a h v in
        if sa then (h, Some obj)
        else (set_nth h a (fst (filt_op obj)), Some (snd (filt_op obj)))
    end.

  Definition step (st : state) (tid : nat) (t0 : Z) : state :=
    let t := Z.max (clock st) t0 in
    match nth_error (threads st) tid with
    | None => mkState (cache st) (pend st) (threads st) (trace st) t (heap st)
    | Some th =>
      let k := mk (th_c th) (th_g th) in
      let upd (th' : thread) := set_nth (threads st) tid th' in
      match th_ph th with
      | PRead =>
          let th1 := mkThread (th_c th) (th_g th) (th_async th) (th_sa th) t in
          if use_cache then
            match find_entry k (cache st) with
            | None => mkState (cache st) (pend st) (upd (th1 PLookup)) (trace st) t (heap st)
            | Some e =>
                if expired e t then mkState (cache st) (pend st) (upd (th1 PLookup)) (trace st) t (heap st)
                else match e_res e with
                     | Some v =>
                         mkState (cache st) (pend st)
                                 (upd (th1 (PReply (Some v) (e_snap e) (e_created e) t (e_addr e)))) (trace st) t (heap st)
                     | None =>
                         (* a cached error is stale at once: answer it, and refresh in the background *)
                         let ths := upd (th1 (PReply None (e_snap e) (e_created e) t O)) in
                         if is_pending k (pend st) then mkState (cache st) (pend st) ths (trace st) t (heap st)
                         else mkState (cache st) (k :: pend st)
                                      (ths ++ [mkThread (th_c th) (th_g th) true true t PLookup]) (trace st) t (heap st)
                     end
            end
          else mkState (cache st) (pend st) (upd (th1 PLookup)) (trace st) t (heap st)
      | PLookup =>
          match split k with
          | None => (* "bad request" cacheError, no storage fetch *)
              mkState (cache st) (pend st) (upd (with_phase th (PErrLoad t))) (trace st) t (heap st)
          | Some (c, g) =>
              match lookup t c g with
              | None =>
                  mkState (cache st) (pend st) (upd (with_phase th (PErrLoad t)))
                          (EvLookup tid t c g None :: trace st) t (heap st)
              | Some d => (* a new status object is allocated *)
                  mkState (cache st) (pend st)
                          (upd (with_phase th (PStoreGood (c, g, evalf t d) t (length (heap st)))))
                          (EvLookup tid t c g (Some d) :: trace st) t (heap st ++ [evalf t d])
              end
          end
      | PStoreGood v s a =>
          let ths := upd (with_phase th (PReply (Some v) s t t a)) in
          if use_cache
          then mkState ((k, mkEntry (Some v) t s a) :: cache st) (pend st) ths (EvStore tid t :: trace st) t (heap st)
          else mkState (cache st) (pend st) ths (trace st) t (heap st)
      | PErrLoad s =>
          if use_cache then
            let fresh := mkState (cache st) (pend st) (upd (with_phase th (PErrStore (mkEntry None t s O))))
                                 (trace st) t (heap st) in
            match find_entry k (cache st) with
            | None => fresh
            | Some e =>
                match e_res e with
                | None => fresh
                | Some v =>
                    if expired e t then fresh
                    else (* a good value that is still valid wins over the error *)
                      mkState (cache st) (pend st)
                              (upd (with_phase th (PReply (Some v) (e_snap e) (e_created e) t (e_addr e))))
                              (trace st) t (heap st)
                end
            end
          else mkState (cache st) (pend st) (upd (with_phase th (PReply None s t t O))) (trace st) t (heap st)
      | PErrStore e =>
          mkState ((k, e) :: cache st) (pend st)
                  (upd (with_phase th (PReply None (e_snap e) (e_created e) (e_created e) O)))
                  (EvStore tid t :: trace st) t (heap st)
      | PReply res s c r a =>
          if th_async th
          then mkState (cache st) (clear_pending k (pend st)) (upd (with_phase th PDone)) (trace st) t (heap st)
          else let '(rc, rg, v) := reply_names th res in
               mkState (cache st) (pend st) (upd (with_phase th PDone))
                       (EvReply tid t (th_c th) (th_g th) rc rg v s c r (th_start th)
                        :: EvDeliver tid t (th_sa th) v (snd (deliver (heap st) (th_sa th) res a)) :: trace st)
                       t (fst (deliver (heap st) (th_sa th) res a))
      | PDone => mkState (cache st) (pend st) (threads st) (trace st) t (heap st)
      end
    end.

  (* one thread per status request (mainLoop starts one goroutine per request) *)
  (* a request: cluster, group, ShowAll *)
  Definition init (reqs : list (name * name * bool)) : state :=
    mkState [] [] (map (fun q => mkThread (fst (fst q)) (snd (fst q)) false (snd q) 0 PRead) reqs) [] 0 [].

  (* a schedule: which thread takes its next atomic step, and the wall clock then *)
  Definition run_from (st : state) (sched : list (nat * Z)) : state :=
    fold_left (fun st x => step st (fst x) (snd x)) sched st.
  Definition run (reqs : list (name * name * bool)) (sched : list (nat * Z)) : state := run_from (init reqs) sched.

  (* observables *)
  Definition view (showall : bool) (v : value) : value := if showall then v else filt v.

  Fixpoint replies_of (tid : nat) (tr : list event) : list event :=
    match tr with
    | [] => []
    | EvReply i t rc rg c g v s cr r st :: rest =>
        if Nat.eqb i tid then EvReply i t rc rg c g v s cr r st :: replies_of tid rest else replies_of tid rest
    | _ :: rest => replies_of tid rest
    end.

  (* what the requesters are handed, oldest first: (request, view asked for, object received) *)
  Fixpoint deliveries (tr : list event) : list (nat * bool * option value) :=
    match tr with
    | [] => []
    | EvDeliver tid _ sa _ dv :: rest => deliveries rest ++ [(tid, sa, dv)]
    | _ :: rest => deliveries rest
    end.

  (* the sequential special case: the request runs alone to its reply, then a refresh it started runs alone *)
  Fixpoint steps_of (st : state) (tid : nat) (t : Z) (n : nat) : state :=
    match n with O => st | S m => steps_of (step st tid t) tid t m end.

  (* ------------------------------------------------------------------------------------------ *)
  (* The property's oracle over observations alone (what a requester and the storage channel see)  *)
  (* ------------------------------------------------------------------------------------------ *)
  Variable value_eqb : value -> value -> bool.

  Record oreq := mkOreq { q_c : name; q_g : name; q_sa : bool; q_t : Z }.
  Record olook := mkOlook { l_t : Z; l_c : name; l_g : name; l_x : option data }.
  Record orep := mkOrep { r_i : nat; r_t : Z; r_c : name; r_g : name; r_v : option value }.

  Definition body_eqb (a b : option value) : bool :=
    match a, b with
    | None, None => true
    | Some x, Some y => value_eqb x y
    | _, _ => false
    end.

  (* 0 = fine; 1 = not exactly one reply; 2 = reply names another cluster/group; 3 = no storage fetch of the
     request's own pair, not older than lifetime + slack when the request was made and not later than the reply,
     whose evaluation (NOTFOUND for a nil fetch) is the reply *)
  Definition check_req (slack : Z) (looks : list olook) (reps : list orep) (i : nat) (q : oreq) : Z :=
    match filter (fun r => Nat.eqb (r_i r) i) reps with
    | [r] =>
        if bytes_eqb (r_c r) (q_c q) && bytes_eqb (r_g r) (q_g q) then
          if existsb (fun l => bytes_eqb (l_c l) (q_c q) && bytes_eqb (l_g l) (q_g q)
                               && (l_t l <=? r_t r) && (q_t q - l_t l <=? L + slack)
                               && body_eqb (r_v r) (option_map (fun d => view (q_sa q) (evalf (l_t l) d)) (l_x l)))
                     looks
          then 0 else 3
        else 2
    | _ => 1
    end.

  Fixpoint check_from (slack : Z) (looks : list olook) (reps : list orep) (i : nat) (qs : list oreq) : list Z :=
    match qs with
    | [] => []
    | q :: r => check_req slack looks reps i q :: check_from slack looks reps (S i) r
    end.
  Definition check_obs (slack : Z) (qs : list oreq) (looks : list olook) (reps : list orep) : list Z :=
    check_from slack looks reps 0%nat qs.
End Model.

Arguments mkEntry {value}.
Arguments e_res {value}.
Arguments e_created {value}.
Arguments e_snap {value}.
Arguments e_addr {value}.
Arguments PRead {value}.
Arguments PLookup {value}.
Arguments PStoreGood {value}.
Arguments PErrLoad {value}.
Arguments PErrStore {value}.
Arguments PReply {value}.
Arguments PDone {value}.
Arguments mkThread {value}.
Arguments th_c {value}.
Arguments th_g {value}.
Arguments th_async {value}.
Arguments th_sa {value}.
Arguments th_start {value}.
Arguments th_ph {value}.
Arguments EvLookup {data value}.
Arguments EvStore {data value}.
Arguments EvReply {data value}.
Arguments EvDeliver {data value}.
Arguments mkState {data value}.
Arguments cache {data value}.
Arguments pend {data value}.
Arguments threads {data value}.
Arguments trace {data value}.
Arguments clock {data value}.
Arguments heap {data value}.

(* the code's filtered view: the cached object is left alone, a copy is handed out *)
Definition pure_op {value : Type} (filt : value -> value) (v : value) : value * value := (v, filt v).

(* ---------------------------------------------------------------------------------------------- *)
(* What the storage channel and the requesters observe of a trace (input of check_obs)              *)
(* ---------------------------------------------------------------------------------------------- *)
Section Observe.
  Variables data value : Type.
  Variable filt : value -> value.

  Fixpoint obs_looks (tr : list (event data value)) : list (olook data) :=
    match tr with
    | [] => []
    | EvLookup _ t c g x :: r => mkOlook data t c g x :: obs_looks r
    | _ :: r => obs_looks r
    end.

  (* the view request i asked for *)
  Definition sa_of (qs : list oreq) (i : nat) : bool :=
    match nth_error qs i with Some q => q_sa q | None => true end.

  Fixpoint obs_reps (qs : list oreq) (tr : list (event data value)) : list (orep value) :=
    match tr with
    | [] => []
    | EvReply i t _ _ c g v _ _ _ _ :: r =>
        mkOrep value i t c g (option_map (view value filt (sa_of qs i)) v) :: obs_reps qs r
    | _ :: r => obs_reps qs r
    end.
End Observe.
