From Coq Require Import ZArith List Bool Sorted Lia.
From Burrow Require Import Int64 Int64Proofs Eval EvalSpec.
Import ListNotations.
Open Scope Z_scope.

(* ---------- Rule 3: stopped ---------- *)
Lemma last_in {A} (l : list A) (d : A) : l <> [] -> In (last l d) l.
Proof.
  induction l as [|a l IH]; [congruence|]. intros _.
  destruct l as [|b l]; [left; reflexivity|].
  right. apply IH. discriminate.
Qed.

Lemma last_in_cons {A} (l : list A) (d : A) : In (last (d :: l) d) (d :: l).
Proof. apply last_in. discriminate. Qed.

Lemma offsets_stopped_spec offs now :
  no_wrap offs now ->
  offsets_stopped offs now = true <-> Stopped offs now.
Proof.
  intros Hnw. unfold Stopped, offsets_stopped, last_commit, first_ts.
  destruct offs as [|f r].
  - split; [discriminate|]. intros (l & Hl & _); discriminate.
  - cbn [no_wrap] in Hnw. set (l := last (f :: r) f) in *. destruct Hnw as (Hn & Hd & Hs).
    assert (E2 : mul64 now 1000 = now * 1000) by (unfold mul64; apply wrap64_id; exact Hn).
    assert (E1 : sub64 (co_ts l) (co_ts f) = co_ts l - co_ts f) by (unfold sub64; apply wrap64_id; exact Hd).
    assert (E3 : sub64 (now * 1000) (co_ts l) = now * 1000 - co_ts l) by (unfold sub64; apply wrap64_id; exact Hs).
    rewrite E1, E2, E3, Z.ltb_lt.
    split.
    + intros H. exists l. split; [reflexivity|exact H].
    + intros (l' & Hl' & H). injection Hl' as <-. exact H.
Qed.

(* the coarse guard of the first version implies the sharp one *)
Lemma no_overflow_no_wrap offs now : no_overflow offs now -> no_wrap offs now.
Proof.
  intros [Hn Hts]. destruct offs as [|f r]; [exact I|]. cbn [no_wrap].
  set (l := last (f :: r) f).
  assert (Hl : - ts_bound < co_ts l < ts_bound).
  { rewrite Forall_forall in Hts. apply Hts. apply last_in_cons. }
  assert (Hf : - ts_bound < co_ts f < ts_bound).
  { rewrite Forall_forall in Hts. apply Hts. left; reflexivity. }
  unfold ts_bound, now_bound, in_i64, two63 in *. lia.
Qed.

(* ... and so does what a running Burrow hands to the evaluator *)
Lemma storage_guard_no_wrap offs now : storage_guard offs now -> no_wrap offs now.
Proof.
  intros [Hn Hts]. destruct offs as [|f r]; [exact I|]. cbn [no_wrap].
  set (l := last (f :: r) f).
  assert (Hl : 0 <= co_ts l < two63).
  { rewrite Forall_forall in Hts. apply Hts. apply last_in_cons. }
  assert (Hf : 0 <= co_ts f < two63).
  { rewrite Forall_forall in Hts. apply Hts. left; reflexivity. }
  unfold clock_max, in_i64, two63 in *. lia.
Qed.

(* ---------- recent lag zero ---------- *)
Lemma recent_lag_zero_spec offs brokers :
  recent_lag_zero offs brokers = true <-> RecentZero offs brokers.
Proof.
  unfold recent_lag_zero, RecentZero, last_commit. destruct offs as [|f r].
  - split; [discriminate|]. intros (l & b & Hl & _); discriminate.
  - rewrite existsb_exists. split.
    + intros (b & Hb & Hle). apply Z.leb_le in Hle. exists (last (f :: r) f), b. auto.
    + intros (l & b & Hl & Hb & Hle). injection Hl as <-. exists b. split; [exact Hb|]. apply Z.leb_le; exact Hle.
Qed.

(* ---------- Rule 1 ---------- *)
Lemma lag_always_not_zero_spec offs allowed :
  lag_always_not_zero offs allowed = false <-> SomeLagOk offs allowed.
Proof.
  unfold lag_always_not_zero, SomeLagOk. induction offs as [|o r IH]; cbn [forallb].
  - split; [discriminate|]. intros (o & l & [] & _).
  - destruct (co_lag o) as [lg|] eqn:E.
    + destruct (lg <=? allowed) eqn:Hle; cbn [negb andb].
      * split; [|reflexivity]. intros _. exists o, lg. apply Z.leb_le in Hle. split; [left; reflexivity|auto].
      * rewrite IH. apply Z.leb_gt in Hle. split.
        -- intros (o' & l & Hin & Hl & Hle'). exists o', l. split; [right; exact Hin|auto].
        -- intros (o' & l & [->|Hin] & Hl & Hle').
           ++ rewrite E in Hl. injection Hl as ->. lia.
           ++ exists o', l. auto.
    + cbn [andb]. rewrite IH. split.
      * intros (o' & l & Hin & Hl & Hle'). exists o', l. split; [right; exact Hin|auto].
      * intros (o' & l & [->|Hin] & Hl & Hle').
        -- rewrite E in Hl; discriminate.
        -- exists o', l. auto.
Qed.

(* ---------- Rule 4 ---------- *)
Lemma stalled_from_spec prev l :
  stalled_from prev l = true <-> Forall (fun o => co_offset o = prev) l.
Proof.
  revert prev; induction l as [|o r IH]; intros prev; cbn [stalled_from].
  - split; [constructor|reflexivity].
  - destruct (co_offset o =? prev) eqn:E.
    + apply Z.eqb_eq in E. rewrite IH, E. split.
      * intros H. constructor; [exact E|exact H].
      * intros H. inversion H; assumption.
    + apply Z.eqb_neq in E. split; [discriminate|]. intros H. inversion H; contradiction.
Qed.

Lemma offsets_stalled_spec offs :
  offsets_stalled offs = true <-> NeverMoved offs.
Proof.
  unfold offsets_stalled, NeverMoved. destruct offs as [|o r].
  - split; [intros _ a b []|reflexivity].
  - rewrite stalled_from_spec, Forall_forall. split.
    + intros H a b [<-|Ha] [<-|Hb]; try reflexivity.
      * symmetry; apply H; exact Hb.
      * apply H; exact Ha.
      * rewrite (H a Ha), (H b Hb); reflexivity.
    + intros H x Hx. apply H; [right; exact Hx|left; reflexivity].
Qed.

(* ---------- Rule 5 ---------- *)
Lemma lag_not_decreasing_from_spec lastlag l :
  lag_not_decreasing_from lastlag l = true <->
  Sorted Z.le (match lastlag with Some ll => ll :: present_lags l | None => present_lags l end).
Proof.
  revert lastlag; induction l as [|o r IH]; intros lastlag; cbn [lag_not_decreasing_from].
  - unfold present_lags; cbn. split; [|reflexivity]. intros _. destruct lastlag; repeat constructor.
  - unfold present_lags in *. cbn [flat_map]. destruct (co_lag o) as [lg|].
    + cbn [app]. destruct lastlag as [ll|].
      * destruct (lg <? ll) eqn:E.
        -- apply Z.ltb_lt in E. split; [discriminate|]. intros H. inversion H as [|? ? ? Hd]; subst.
           inversion Hd; subst. lia.
        -- apply Z.ltb_ge in E. rewrite (IH (Some lg)). split.
           ++ intros H. constructor; [exact H|constructor; exact E].
           ++ intros H. inversion H; assumption.
      * apply (IH (Some lg)).
    + cbn [app]. apply IH.
Qed.

Lemma lag_not_decreasing_spec offs :
  lag_not_decreasing offs = true <-> LagNeverDecreased offs.
Proof. unfold lag_not_decreasing, LagNeverDecreased. apply (lag_not_decreasing_from_spec None). Qed.

(* ---------- Rule 2 ---------- *)
Definition le_off (a b : coff) : Prop := co_offset a <= co_offset b.

Lemma rewind_from_some p l i k :
  rewind_from (co_offset p) l i = Some k ->
  exists pre q c post,
    p :: l = pre ++ q :: c :: post /\ k = (i + length pre)%nat /\
    Sorted le_off (pre ++ [q]) /\ co_offset c < co_offset q.
Proof.
  revert p i; induction l as [|o r IH]; intros p i; cbn [rewind_from]; [discriminate|].
  destruct (co_offset o <? co_offset p) eqn:E.
  - intros H; injection H as <-. apply Z.ltb_lt in E.
    exists [], p, o, r. cbn. repeat split; [lia| repeat constructor | exact E].
  - intros H. apply Z.ltb_ge in E. destruct (IH o (S i) H) as (pre & q & c & post & Heq & Hk & Hs & Hlt).
    exists (p :: pre), q, c, post. cbn [app length]. rewrite Heq. repeat split; [lia| |exact Hlt].
    cbn [app]. constructor; [exact Hs|].
    destruct pre as [|x pre]; cbn [app] in *.
    + injection Heq as <- _. constructor. exact E.
    + injection Heq as <- _. constructor. exact E.
Qed.

Lemma rewind_from_none p l i :
  rewind_from (co_offset p) l i = None -> Sorted le_off (p :: l).
Proof.
  revert p i; induction l as [|o r IH]; intros p i; cbn [rewind_from]; [repeat constructor|].
  destruct (co_offset o <? co_offset p) eqn:E; [discriminate|]. apply Z.ltb_ge in E.
  intros H. constructor; [eapply IH; exact H|constructor; exact E].
Qed.

(* a sorted prefix pins down the first backward step *)
Lemma first_rewind_unique pre1 q1 c1 post1 pre2 q2 c2 post2 :
  pre1 ++ q1 :: c1 :: post1 = pre2 ++ q2 :: c2 :: post2 ->
  Sorted le_off (pre1 ++ [q1]) -> co_offset c1 < co_offset q1 ->
  Sorted le_off (pre2 ++ [q2]) -> co_offset c2 < co_offset q2 ->
  pre1 = pre2 /\ q1 = q2 /\ c1 = c2 /\ post1 = post2.
Proof.
  revert pre2; induction pre1 as [|x pre1 IH]; intros pre2 Heq Hs1 Hl1 Hs2 Hl2.
  - destruct pre2 as [|y pre2]; cbn [app] in *.
    + injection Heq as -> -> ->. auto.
    + injection Heq as <- Heq. exfalso.
      destruct pre2 as [|z pre2]; cbn [app] in *.
      * injection Heq as <- _. inversion Hs2 as [|? ? ? Hd]; subst. inversion Hd; subst. unfold le_off in *. lia.
      * injection Heq as <- _. inversion Hs2 as [|? ? ? Hd]; subst. inversion Hd; subst. unfold le_off in *. lia.
  - destruct pre2 as [|y pre2]; cbn [app] in *.
    + injection Heq as -> Heq. exfalso.
      destruct pre1 as [|z pre1]; cbn [app] in *.
      * injection Heq as -> _. inversion Hs1 as [|? ? ? Hd]; subst. inversion Hd; subst. unfold le_off in *. lia.
      * injection Heq as -> _. inversion Hs1 as [|? ? ? Hd]; subst. inversion Hd; subst. unfold le_off in *. lia.
    + injection Heq as -> Heq.
      inversion Hs1; subst. inversion Hs2; subst.
      destruct (IH pre2 Heq) as (-> & -> & -> & ->); auto.
Qed.

Lemma sorted_no_rewind pre q c post :
  Sorted le_off (pre ++ q :: c :: post) -> co_offset c < co_offset q -> False.
Proof.
  induction pre as [|x pre IH]; cbn [app]; intros Hs Hlt.
  - inversion Hs as [|? ? ? Hd]; subst. inversion Hd; subst. unfold le_off in *. lia.
  - inversion Hs; subst. auto.
Qed.

Lemma nth_error_app_len {A} (pre : list A) x post : nth_error (pre ++ x :: post) (length pre) = Some x.
Proof. induction pre; cbn; auto. Qed.

Lemma skipn_app_len {A} (pre : list A) post : skipn (length pre) (pre ++ post) = post.
Proof. induction pre; cbn; auto. Qed.

Lemma rewound_unrecovered_first_spec offs :
  (exists i, rewind_index offs = Some i /\ rewind_recovered offs i = false) <-> RewoundUnrecoveredFirst offs.
Proof.
  unfold RewoundUnrecoveredFirst, rewind_index. fold le_off. split.
  - intros (i & Hi & Hr). destruct offs as [|p l]; [discriminate|].
    destruct (rewind_from_some _ _ _ _ Hi) as (pre & q & c & post & Heq & Hk & Hs & Hlt).
    exists pre, q, c, post. repeat split; auto.
    unfold rewind_recovered in Hr. rewrite Heq in Hr. subst i.
    replace (1 + length pre - 1)%nat with (length pre) in Hr by lia.
    rewrite nth_error_app_len in Hr.
    replace (pre ++ q :: c :: post) with ((pre ++ [q]) ++ c :: post) in Hr by (rewrite <- app_assoc; reflexivity).
    replace (1 + length pre)%nat with (length (pre ++ [q])) in Hr by (rewrite app_length; cbn; lia).
    rewrite skipn_app_len in Hr.
    rewrite Forall_forall. intros o Ho.
    destruct (Z_lt_dec (co_offset o) (co_offset q)) as [|Hge]; [assumption|exfalso].
    assert (existsb (fun o0 : coff => co_offset q <=? co_offset o0) (c :: post) = true).
    { apply existsb_exists. exists o. split; [exact Ho|apply Z.leb_le; lia]. }
    congruence.
  - intros (pre & p & c & post & Heq & Hs & Hlt & Hall).
    destruct offs as [|p0 l]; [destruct pre; discriminate|].
    destruct (rewind_from (co_offset p0) l 1) as [i|] eqn:Hi.
    + exists i. split; [reflexivity|].
      destruct (rewind_from_some _ _ _ _ Hi) as (pre' & q' & c' & post' & Heq' & Hk & Hs' & Hlt').
      rewrite Heq in Heq'.
      destruct (first_rewind_unique _ _ _ _ _ _ _ _ Heq' Hs Hlt Hs' Hlt') as (<- & <- & <- & <-).
      unfold rewind_recovered. rewrite Heq. subst i.
      replace (1 + length pre - 1)%nat with (length pre) by lia.
      rewrite nth_error_app_len.
      replace (pre ++ p :: c :: post) with ((pre ++ [p]) ++ c :: post) by (rewrite <- app_assoc; reflexivity).
      replace (1 + length pre)%nat with (length (pre ++ [p])) by (rewrite app_length; cbn; lia).
      rewrite skipn_app_len.
      destruct (existsb _ (c :: post)) eqn:Hex; [exfalso|reflexivity].
      apply existsb_exists in Hex. destruct Hex as (o & Ho & Hle). apply Z.leb_le in Hle.
      rewrite Forall_forall in Hall. specialize (Hall o Ho). lia.
    + exfalso. apply rewind_from_none in Hi. rewrite Heq in Hi. eapply sorted_no_rewind; eauto.
Qed.

Lemma unrecovered_rewind_spec prev rest :
  unrecovered_rewind prev rest = true <->
  exists pre p c post, prev :: rest = pre ++ p :: c :: post /\ co_offset c < co_offset p /\
     Forall (fun o => co_offset o < co_offset p) (c :: post).
Proof.
  revert prev; induction rest as [|c post IH]; intros prev; cbn [unrecovered_rewind].
  - split; [discriminate|]. intros (pre & p & c & post & Heq & _).
    destruct pre as [|x pre]; cbn [app] in Heq; [discriminate|]. injection Heq as _ Heq. destruct pre; discriminate.
  - rewrite orb_true_iff, andb_true_iff, negb_true_iff, Z.ltb_lt, IH. split.
    + intros [[Hlt Hex]|(pre & p & c' & post' & Heq & Hlt & Hall)].
      * exists [], prev, c, post. split; [reflexivity|]. split; [exact Hlt|].
        rewrite Forall_forall. intros o Ho.
        destruct (Z_lt_dec (co_offset o) (co_offset prev)) as [|Hge]; [assumption|exfalso].
        assert (existsb (fun o0 : coff => co_offset prev <=? co_offset o0) (c :: post) = true).
        { apply existsb_exists. exists o. split; [exact Ho|apply Z.leb_le; lia]. }
        congruence.
      * exists (prev :: pre), p, c', post'. cbn [app]. rewrite Heq. auto.
    + intros (pre & p & c' & post' & Heq & Hlt & Hall). destruct pre as [|x pre]; cbn [app] in Heq.
      * injection Heq as E1 E2 E3. subst p c' post'. left. split; [exact Hlt|].
        destruct (existsb (fun o : coff => co_offset prev <=? co_offset o) (c :: post)) eqn:Hex; [exfalso|reflexivity].
        apply existsb_exists in Hex. destruct Hex as (o & Ho & Hle). apply Z.leb_le in Hle.
        rewrite Forall_forall in Hall. specialize (Hall o Ho). lia.
      * injection Heq as E1 Heq. right. exists pre, p, c', post'. auto.
Qed.

Lemma rewound_unrecovered_spec offs :
  rewound_unrecovered offs = true <-> RewoundUnrecovered offs.
Proof.
  unfold rewound_unrecovered, RewoundUnrecovered. destruct offs as [|o r].
  - split; [discriminate|]. intros (pre & p & c & post & Heq & _). destruct pre; discriminate.
  - apply unrecovered_rewind_spec.
Qed.

(* the first-step reading is the weaker one: whatever it calls a rewind the repaired rule calls a rewind too *)
Lemma rewound_first_implies_any offs : RewoundUnrecoveredFirst offs -> RewoundUnrecovered offs.
Proof. intros (pre & p & c & post & Heq & _ & Hlt & Hall). exists pre, p, c, post. auto. Qed.

(* ---------- the main theorem ---------- *)
Theorem calc_status_spec offs brokers cur now allowed :
  offs <> [] -> no_wrap offs now ->
  Spec offs brokers cur now allowed (calc_status_some offs brokers cur now allowed).
Proof.
  intros Hne Hno. unfold calc_status_some.
  destruct (cur <=? allowed) eqn:Hc.
  { apply Z.leb_le in Hc. apply SpecWithin; exact Hc. }
  apply Z.leb_gt in Hc.
  pose proof (offsets_stopped_spec offs now Hno) as Hst.
  pose proof (recent_lag_zero_spec offs brokers) as Hrz.
  destruct (offsets_stopped offs now && negb (recent_lag_zero offs brokers)) eqn:Hstop.
  { apply andb_true_iff in Hstop. destruct Hstop as [H1 H2]. apply negb_true_iff in H2.
    apply SpecStop; [exact Hc|apply Hst; exact H1|].
    intros H. apply Hrz in H. congruence. }
  assert (Hns : ~ (Stopped offs now /\ ~ RecentZero offs brokers)).
  { intros [H1 H2]. apply Hst in H1. rewrite H1 in Hstop. cbn in Hstop.
    apply negb_false_iff in Hstop. apply Hrz in Hstop. contradiction. }
  pose proof (rewound_unrecovered_spec offs) as Hru.
  pose proof (lag_always_not_zero_spec offs allowed) as Hlz.
  pose proof (offsets_stalled_spec offs) as Hsl.
  pose proof (lag_not_decreasing_spec offs) as Hld.
  assert (Hrest : ~ RewoundUnrecovered offs ->
     Spec offs brokers cur now allowed (lag_rules offs allowed)).
  { intros Hnr. unfold lag_rules.
    destruct (lag_always_not_zero offs allowed) eqn:H1.
    - assert (Hnl : ~ SomeLagOk offs allowed) by (intros H; apply Hlz in H; congruence).
      destruct (offsets_stalled offs) eqn:H2.
      + apply SpecStall; auto. apply Hsl; reflexivity.
      + assert (Hnm : ~ NeverMoved offs) by (intros H; apply Hsl in H; congruence).
        destruct (lag_not_decreasing offs) eqn:H3.
        * apply SpecWarn; auto. apply Hld; reflexivity.
        * apply SpecElse; auto. intros H; apply Hld in H; congruence.
    - apply SpecLagOk; auto. apply Hlz; reflexivity. }
  clear Hru. destruct (rewound_unrecovered offs) eqn:Hr.
  - apply SpecRewind; auto. apply rewound_unrecovered_spec; exact Hr.
  - apply Hrest. intros H. apply rewound_unrecovered_spec in H. congruence.
Qed.

(* The decision list is deterministic: the specification pins the status. *)
Theorem spec_deterministic offs brokers cur now allowed s1 s2 :
  Spec offs brokers cur now allowed s1 -> Spec offs brokers cur now allowed s2 -> s1 = s2.
Proof.
  intros H1 H2; inversion H1; inversion H2; subst; try reflexivity; try lia; try tauto.
Qed.

Corollary calc_status_iff offs brokers cur now allowed s :
  offs <> [] -> no_wrap offs now ->
  (calc_status_some offs brokers cur now allowed = s <-> Spec offs brokers cur now allowed s).
Proof.
  intros Hne Hno. split.
  - intros <-. apply calc_status_spec; assumption.
  - intros H. eapply spec_deterministic; [apply calc_status_spec; assumption|exact H].
Qed.

(* ---------- calc_status (nil-able entries) vs calc_status_some ---------- *)
Lemma all_some_map_Some {A} (l : list A) : all_some (map Some l) = Some l.
Proof. induction l as [|a l IH]; cbn; [reflexivity|rewrite IH; reflexivity]. Qed.

Lemma calc_status_all_some offs brokers cur now allowed :
  offs <> [] ->
  calc_status (map Some offs) brokers cur now allowed = Ok (calc_status_some offs brokers cur now allowed).
Proof.
  intros Hne. unfold calc_status, calc_status_some. destruct (cur <=? allowed); [reflexivity|].
  rewrite all_some_map_Some. destruct offs; [congruence|reflexivity].
Qed.

Theorem calc_status_documented offs brokers cur now allowed s :
  offs <> [] -> no_wrap offs now ->
  (calc_status (map Some offs) brokers cur now allowed = Ok s <-> Spec offs brokers cur now allowed s).
Proof.
  intros Hne Hno.
  rewrite calc_status_all_some by exact Hne.
  split.
  - intros H; injection H as <-. apply calc_status_spec; assumption.
  - intros H. f_equal. apply calc_status_iff; assumption.
Qed.

(* ---------- precedence (corollaries of the decision list) ---------- *)
Section Precedence.
  Variables (offs : list coff) (brokers : list Z) (cur now allowed : Z).
  Hypothesis Hne : offs <> [].
  Hypothesis Hno : no_wrap offs now.
  Hypothesis Hlag : allowed < cur.
  Let st := calc_status_some offs brokers cur now allowed.

  Lemma stop_over_everything : Stopped offs now -> ~ RecentZero offs brokers -> st = StStop.
  Proof. intros H1 H2. apply calc_status_iff; auto. apply SpecStop; auto. Qed.

  Lemma rewind_over_lag_ok :
    ~ (Stopped offs now /\ ~ RecentZero offs brokers) -> RewoundUnrecovered offs -> st = StRewind.
  Proof. intros H1 H2. apply calc_status_iff; auto. apply SpecRewind; auto. Qed.

  Lemma lag_ok_over_stall :
    ~ (Stopped offs now /\ ~ RecentZero offs brokers) -> ~ RewoundUnrecovered offs ->
    SomeLagOk offs allowed -> st = StOK.
  Proof. intros H1 H2 H3. apply calc_status_iff; auto. apply SpecLagOk; auto. Qed.

  Lemma stall_over_warn :
    ~ (Stopped offs now /\ ~ RecentZero offs brokers) -> ~ RewoundUnrecovered offs ->
    ~ SomeLagOk offs allowed -> NeverMoved offs -> st = StStall.
  Proof. intros H1 H2 H3 H4. apply calc_status_iff; auto. apply SpecStall; auto. Qed.
End Precedence.

Lemma within_allowed_is_ok offs brokers cur now allowed :
  cur <= allowed -> calc_status offs brokers cur now allowed = Ok StOK.
Proof. intros H. unfold calc_status. apply Z.leb_le in H. rewrite H. reflexivity. Qed.

(* ---------- shift invariance ---------- *)
Section MapInvariance.
  Variable f : coff -> coff.
  Variable k : Z.
  Hypothesis Hoff : forall o, co_offset (f o) = co_offset o + k.
  Hypothesis Hlag : forall o, co_lag (f o) = co_lag o.

  Lemma lag_always_not_zero_map l a : lag_always_not_zero (map f l) a = lag_always_not_zero l a.
  Proof. unfold lag_always_not_zero. induction l as [|o r IH]; cbn [map forallb]; [reflexivity|]. rewrite Hlag, IH. reflexivity. Qed.

  Lemma rewind_from_map prev l i : rewind_from (prev + k) (map f l) i = rewind_from prev l i.
  Proof.
    revert prev i; induction l as [|o r IH]; intros prev i; cbn [map rewind_from]; [reflexivity|].
    rewrite Hoff. replace (co_offset o + k <? prev + k) with (co_offset o <? prev).
    - destruct (co_offset o <? prev); [reflexivity|apply IH].
    - destruct (Z.ltb_spec (co_offset o) prev), (Z.ltb_spec (co_offset o + k) (prev + k)); try reflexivity; lia.
  Qed.

  Lemma rewind_index_map l : rewind_index (map f l) = rewind_index l.
  Proof. destruct l as [|o r]; [reflexivity|]. cbn [map rewind_index]. rewrite Hoff. apply rewind_from_map. Qed.

  Lemma existsb_map_le p l :
    existsb (fun o => co_offset (f p) <=? co_offset o) (map f l) = existsb (fun o => co_offset p <=? co_offset o) l.
  Proof.
    induction l as [|o r IH]; cbn [map existsb]; [reflexivity|]. rewrite IH, !Hoff. f_equal.
    destruct (Z.leb_spec (co_offset p + k) (co_offset o + k)), (Z.leb_spec (co_offset p) (co_offset o)); try reflexivity; lia.
  Qed.

  Lemma rewind_recovered_map l i : rewind_recovered (map f l) i = rewind_recovered l i.
  Proof.
    unfold rewind_recovered. rewrite nth_error_map. destruct (nth_error l (i - 1)) as [p|]; cbn [option_map]; [|reflexivity].
    rewrite skipn_map. apply existsb_map_le.
  Qed.

  Lemma stalled_from_map prev l : stalled_from (prev + k) (map f l) = stalled_from prev l.
  Proof.
    revert prev; induction l as [|o r IH]; intros prev; cbn [map stalled_from]; [reflexivity|].
    rewrite Hoff. replace (co_offset o + k =? prev + k) with (co_offset o =? prev).
    - destruct (co_offset o =? prev); [apply IH|reflexivity].
    - destruct (Z.eqb_spec (co_offset o) prev), (Z.eqb_spec (co_offset o + k) (prev + k)); try reflexivity; lia.
  Qed.

  Lemma offsets_stalled_map l : offsets_stalled (map f l) = offsets_stalled l.
  Proof. destruct l as [|o r]; [reflexivity|]. cbn [map offsets_stalled]. rewrite Hoff. apply stalled_from_map. Qed.

  Lemma lag_not_decreasing_from_map ll l : lag_not_decreasing_from ll (map f l) = lag_not_decreasing_from ll l.
  Proof.
    revert ll; induction l as [|o r IH]; intros ll; cbn [map lag_not_decreasing_from]; [reflexivity|].
    rewrite Hlag. destruct (co_lag o); [|apply IH]. destruct ll; [destruct (_ <? _); [reflexivity|apply IH]|apply IH].
  Qed.

  Lemma last_map (l : list coff) d : last (map f l) (f d) = f (last l d).
  Proof. induction l as [|a l IH]; [reflexivity|]. destruct l as [|b l]; [reflexivity|]. exact IH. Qed.

  Lemma recent_lag_zero_map l brokers :
    recent_lag_zero (map f l) (map (fun b => b + k) brokers) = recent_lag_zero l brokers.
  Proof.
    unfold recent_lag_zero. destruct l as [|o r]; [reflexivity|]. cbn [map].
    change (f o :: map f r) with (map f (o :: r)). rewrite last_map, Hoff.
    induction brokers as [|b bs IH]; cbn [map existsb]; [reflexivity|]. rewrite IH. f_equal.
    destruct (Z.leb_spec (b + k) (co_offset (last (o :: r) o) + k)), (Z.leb_spec b (co_offset (last (o :: r) o))); try reflexivity; lia.
  Qed.

  Lemma unrecovered_rewind_map p l : unrecovered_rewind (f p) (map f l) = unrecovered_rewind p l.
  Proof.
    revert p; induction l as [|c post IH]; intros p; [reflexivity|].
    cbn [map unrecovered_rewind]. rewrite IH. f_equal.
    change (f c :: map f post) with (map f (c :: post)). rewrite existsb_map_le, !Hoff. f_equal.
    destruct (Z.ltb_spec (co_offset c + k) (co_offset p + k)), (Z.ltb_spec (co_offset c) (co_offset p)); try reflexivity; lia.
  Qed.

  Lemma rewound_unrecovered_map l : rewound_unrecovered (map f l) = rewound_unrecovered l.
  Proof. destruct l as [|o r]; [reflexivity|]. cbn [map rewound_unrecovered]. apply unrecovered_rewind_map. Qed.

  (* the part of the decision that does not look at time *)
  Lemma rest_map l a :
    (if rewound_unrecovered (map f l) then StRewind else lag_rules (map f l) a) =
    (if rewound_unrecovered l then StRewind else lag_rules l a).
  Proof.
    unfold lag_rules. rewrite rewound_unrecovered_map, lag_always_not_zero_map, offsets_stalled_map.
    unfold lag_not_decreasing. rewrite lag_not_decreasing_from_map. reflexivity.
  Qed.
End MapInvariance.

(* Shifting every consumer offset and every broker offset by the same constant never changes the result. *)
Theorem shift_offsets_invariant k offs brokers cur now allowed :
  calc_status_some (shift_offsets k offs) (map (fun b => b + k) brokers) cur now allowed
  = calc_status_some offs brokers cur now allowed.
Proof.
  unfold calc_status_some, shift_offsets.
  set (f := fun o => mkCoff (co_offset o + k) (co_order o) (co_ts o) (co_lag o)).
  assert (Hoff : forall o, co_offset (f o) = co_offset o + k) by reflexivity.
  assert (Hlag : forall o, co_lag (f o) = co_lag o) by reflexivity.
  rewrite (recent_lag_zero_map f k Hoff), (rest_map f k Hoff Hlag).
  assert (Hst : offsets_stopped (map f offs) now = offsets_stopped offs now).
  { unfold offsets_stopped. destruct offs as [|o r]; [reflexivity|]. cbn [map].
    change (f o :: map f r) with (map f (o :: r)). rewrite (last_map f). reflexivity. }
  rewrite Hst. reflexivity.
Qed.

(* Shifting the clock by k seconds and every commit timestamp by 1000k ms never changes the result. *)
Theorem shift_times_invariant k offs brokers cur now allowed :
  no_wrap offs now -> no_wrap (shift_times k offs) (now + k) ->
  calc_status_some (shift_times k offs) brokers cur (now + k) allowed
  = calc_status_some offs brokers cur now allowed.
Proof.
  intros Hno Hno'. unfold calc_status_some.
  set (f := fun o => mkCoff (co_offset o) (co_order o) (co_ts o + 1000 * k) (co_lag o)).
  change (shift_times k offs) with (map f offs) in *.
  assert (Hoff : forall o, co_offset (f o) = co_offset o + 0) by (intros; cbn; lia).
  assert (Hlag : forall o, co_lag (f o) = co_lag o) by reflexivity.
  rewrite (rest_map f 0 Hoff Hlag).
  assert (Hrz : recent_lag_zero (map f offs) brokers = recent_lag_zero offs brokers).
  { rewrite <- (recent_lag_zero_map f 0 Hoff offs brokers). f_equal.
    rewrite <- (map_id brokers) at 1. apply map_ext. intros; lia. }
  rewrite Hrz.
  assert (Hst : offsets_stopped (map f offs) (now + k) = offsets_stopped offs now).
  { apply eq_true_iff_eq. rewrite (offsets_stopped_spec _ _ Hno), (offsets_stopped_spec _ _ Hno').
    unfold Stopped, last_commit, first_ts. destruct offs as [|o r]; cbn [map].
    - split; intros (l & Hl & _); discriminate.
    - change (f o :: map f r) with (map f (o :: r)). rewrite (last_map f).
      set (L := last (o :: r) o). clearbody L.
      split; intros (l & Hl & H); injection Hl as <-; eexists; (split; [reflexivity|]); unfold f in *; cbn [co_ts] in *; lia. }
  rewrite Hst. reflexivity.
Qed.

(* ---------- evaluatePartitionStatus on windows of the shape storage produces ---------- *)
From Burrow Require Import F32.

Lemma first_some_idx_shape {A} b (cs : list A) i :
  first_some_idx (repeat None b ++ map Some cs) i =
  match cs with [] => None | _ => Some (i + b)%nat end.
Proof.
  revert i; induction b as [|b IH]; intros i; cbn [repeat app].
  - destruct cs; cbn; [reflexivity|f_equal; lia].
  - cbn [first_some_idx]. rewrite IH. destruct cs; [reflexivity|f_equal; lia].
Qed.

Lemma skipn_repeat_app {A} b (x : A) l : skipn b (repeat x b ++ l) = l.
Proof. induction b; cbn; auto. Qed.

Lemma last_map_Some (cs : list coff) c0 : last (map Some (c0 :: cs)) (Some c0) = Some (last (c0 :: cs) c0).
Proof.
  revert c0. induction cs as [|a l IH]; intros c0; [reflexivity|].
  change (last (map Some (c0 :: a :: l)) (Some c0)) with (last (map Some (a :: l)) (Some c0)).
  change (last (c0 :: a :: l) c0) with (last (a :: l) c0).
  destruct l as [|b l]; [reflexivity|].
  specialize (IH a).
  change (last (map Some (a :: b :: l)) (Some c0)) with (last (map Some (b :: l)) (Some c0)).
  change (last (map Some (a :: b :: l)) (Some a)) with (last (map Some (b :: l)) (Some a)) in IH.
  change (last (a :: b :: l) c0) with (last (b :: l) c0).
  change (last (a :: b :: l) a) with (last (b :: l) a) in IH.
  assert (E1 : forall d d' : option coff, last (map Some (b :: l)) d = last (map Some (b :: l)) d').
  { clear. revert b. induction l as [|x l IHl]; intros b d d'; [reflexivity|]. apply (IHl x). }
  assert (E2 : forall d d' : coff, last (b :: l) d = last (b :: l) d').
  { clear. revert b. induction l as [|x l IHl]; intros b d d'; [reflexivity|]. apply (IHl x). }
  rewrite (E1 _ (Some a)), (E2 _ a). exact IH.
Qed.

Definition part_complete (b k : nat) : f32 :=
  if (k <? b + k)%nat then f32_div (f32_of_int (Z.of_nat k)) (f32_of_int (Z.of_nat (b + k))) else f32_one.

(* A window with b unfilled slots at the front followed by the commits c0 :: cs. *)
Theorem eval_partition_shape b c0 cs p minimum allowed now :
  cp_offsets p = repeat None b ++ map Some (c0 :: cs) ->
  eval_partition p minimum allowed now =
  Ok (if f32_ge (part_complete b (S (length cs))) minimum
      then calc_status_some (c0 :: cs) (cp_brokers p) (cp_lag p) now allowed else StOK,
      Some c0, Some (last (c0 :: cs) c0), part_complete b (S (length cs))).
Proof.
  intros Hsh. unfold eval_partition. rewrite Hsh.
  rewrite app_length, repeat_length, map_length. cbn [length].
  destruct (b + S (length cs))%nat as [|n'] eqn:En; [lia|]. rewrite <- En. clear n' En.
  rewrite first_some_idx_shape. cbn [Nat.add]. rewrite skipn_repeat_app.
  rewrite map_length. cbn [length]. fold (part_complete b (S (length cs))).
  cbn [map]. change (Some c0 :: map Some cs) with (map Some (c0 :: cs)).
  rewrite last_map_Some.
  destruct (f32_ge _ minimum); [|reflexivity].
  rewrite calc_status_all_some by discriminate. reflexivity.
Qed.

(* a partition whose window is less complete than the configured minimum is reported OK *)
Corollary incomplete_is_ok b c0 cs p minimum allowed now :
  cp_offsets p = repeat None b ++ map Some (c0 :: cs) ->
  f32_ge (part_complete b (S (length cs))) minimum = false ->
  exists st en c, eval_partition p minimum allowed now = Ok (StOK, st, en, c).
Proof. intros Hsh Hg. rewrite (eval_partition_shape _ _ _ _ _ _ _ Hsh), Hg. eauto. Qed.

(* With every slot unfilled (a partition known only through owner updates) the window left after slicing is empty:
   nothing is dereferenced whatever the current lag, the status is OK, no first/last commit is reported and the
   completeness is 0/N (after the `fix:` commit for finding F4: before it the slice kept one nil entry, the completeness
   was 1/N - i.e. 1.0 for a one-slot window - and a lag above the allowed lag dereferenced nil). *)
Theorem eval_partition_all_nil b p minimum allowed now :
  cp_offsets p = repeat None b ->
  eval_partition p minimum allowed now =
  Ok (StOK, None, None,
      match b with O => f32_zero | _ => f32_div (f32_of_int 0) (f32_of_int (Z.of_nat b)) end).
Proof.
  intros Hsh. unfold eval_partition. rewrite Hsh, repeat_length.
  destruct b as [|b]; [reflexivity|].
  replace (repeat None (S b)) with (repeat (@None coff) (S b) ++ map Some []) by (cbn [map]; rewrite app_nil_r; reflexivity).
  rewrite first_some_idx_shape.
  cbn [map]. rewrite app_nil_r.
  replace (skipn (S b) (repeat (@None coff) (S b))) with (@nil (option coff)).
  2:{ rewrite <- (app_nil_r (repeat None (S b))). rewrite skipn_repeat_app. reflexivity. }
  cbn [length]. replace (0 <? S b)%nat with true by (symmetry; apply Nat.ltb_lt; lia).
  reflexivity.
Qed.

(* every window of the storage shape evaluates without a nil dereference, whatever the lag *)
Corollary eval_partition_no_crash b cs p minimum allowed now :
  cp_offsets p = repeat None b ++ map Some cs ->
  exists r, eval_partition p minimum allowed now = Ok r.
Proof.
  intros Hsh. destruct cs as [|c0 cs].
  - cbn [map] in Hsh. rewrite app_nil_r in Hsh.
    rewrite (eval_partition_all_nil b p minimum allowed now Hsh). eauto.
  - rewrite (eval_partition_shape _ _ _ _ _ _ _ Hsh). eauto.
Qed.

(* ---------- non-vacuity ---------- *)
Example spec_witness_stop :
  let offs := [mkCoff 10 1 1000 (Some 5); mkCoff 20 2 2000 (Some 5)] in
  no_wrap offs 10 /\ storage_guard offs 10 /\ calc_status_some offs [30] 10 10 0 = StStop.
Proof.
  cbn zeta. split; [|split; [|vm_compute; reflexivity]].
  - cbn. unfold in_i64, two63. lia.
  - split; [unfold clock_max; lia|]. repeat constructor; cbn; unfold two63; lia.
Qed.

Example spec_witness_rewind :
  calc_status_some [mkCoff 10 1 1000 (Some 5); mkCoff 5 2 2000 (Some 9); mkCoff 7 3 3000 (Some 9)] [30] 10 3 0 = StRewind.
Proof. vm_compute; reflexivity. Qed.

Example spec_witness_warn :
  calc_status_some [mkCoff 10 1 1000 (Some 5); mkCoff 11 2 2000 None; mkCoff 12 3 3000 (Some 9)] [30] 10 3 0 = StWarn.
Proof. vm_compute; reflexivity. Qed.

(* ---------- witnesses: one per rule of the decision list, each inside the guard ---------- *)
Definition w_c (off ts : Z) (lag : option Z) : coff := mkCoff off 0 ts lag.

(* clock 10 s; windows span 1..3 s, last commit 7..8 s ago: "stopped" unless said otherwise *)
Example witness_within : calc_status_some [w_c 10 1000 (Some 5)] [30] 3 10 3 = StOK.
Proof. vm_compute; reflexivity. Qed.
Example witness_stop :
  calc_status_some [w_c 10 1000 (Some 5); w_c 20 2000 (Some 5)] [30] 10 10 0 = StStop.
Proof. vm_compute; reflexivity. Qed.
(* the same window is NOT stop when a recent broker offset was at or below the last commit *)
Example witness_recent_zero_lifts_stop :
  calc_status_some [w_c 10 1000 (Some 5); w_c 20 2000 (Some 5)] [30; 20] 10 10 0 = StWarn.
Proof. vm_compute; reflexivity. Qed.
Example witness_rewind :
  calc_status_some [w_c 10 1000 (Some 5); w_c 5 2000 (Some 9); w_c 7 3000 (Some 9)] [30] 10 3 0 = StRewind.
Proof. vm_compute; reflexivity. Qed.
Example witness_rewind_recovered :
  calc_status_some [w_c 10 1000 (Some 5); w_c 5 2000 (Some 9); w_c 10 3000 (Some 9)] [30] 10 3 0 = StWarn.
Proof. vm_compute; reflexivity. Qed.
Example witness_lag_ok :
  calc_status_some [w_c 10 1000 (Some 5); w_c 11 2000 (Some 0); w_c 12 3000 (Some 9)] [30] 10 3 0 = StOK.
Proof. vm_compute; reflexivity. Qed.
Example witness_stall :
  calc_status_some [w_c 10 1000 (Some 5); w_c 10 2000 (Some 9); w_c 10 3000 (Some 9)] [30] 10 3 0 = StStall.
Proof. vm_compute; reflexivity. Qed.
Example witness_warn :
  calc_status_some [w_c 10 1000 (Some 5); w_c 11 2000 None; w_c 12 3000 (Some 9)] [30] 10 3 0 = StWarn.
Proof. vm_compute; reflexivity. Qed.
Example witness_else :
  calc_status_some [w_c 10 1000 (Some 9); w_c 11 2000 None; w_c 12 3000 (Some 5)] [30] 10 3 0 = StOK.
Proof. vm_compute; reflexivity. Qed.

(* precedence pairs: a window on which two rules apply and the earlier one of the list wins *)
Example witness_stop_over_rewind :   (* stopped AND an unrecovered rewind *)
  calc_status_some [w_c 10 1000 (Some 5); w_c 5 2000 (Some 9)] [30] 10 10 0 = StStop.
Proof. vm_compute; reflexivity. Qed.
Example witness_rewind_over_lag_ok : (* an unrecovered rewind AND a commit with lag 0 *)
  calc_status_some [w_c 10 1000 (Some 0); w_c 5 2000 (Some 9); w_c 7 3000 (Some 9)] [30] 10 3 0 = StRewind.
Proof. vm_compute; reflexivity. Qed.
Example witness_lag_ok_over_stall :  (* a commit with lag 0 AND offsets that never moved *)
  calc_status_some [w_c 10 1000 (Some 0); w_c 10 2000 (Some 9); w_c 10 3000 (Some 9)] [30] 10 3 0 = StOK.
Proof. vm_compute; reflexivity. Qed.
Example witness_stall_over_warn :    (* never moved AND lag never decreased *)
  calc_status_some [w_c 10 1000 (Some 5); w_c 10 2000 (Some 6); w_c 10 3000 (Some 7)] [30] 10 3 0 = StStall.
Proof. vm_compute; reflexivity. Qed.

(* ---------- the second rewind ---------- *)
(* 10, 5, 10, 3: the first backward step (10 -> 5) was recovered (the third commit is back at 10), the second
   (10 -> 3) was not.  The documented rule -- REWIND for a backwards commit not yet recovered -- applies. *)
Definition second_rewind_window : list coff :=
  [w_c 10 1000 (Some 5); w_c 5 2000 (Some 6); w_c 10 3000 (Some 7); w_c 3 4000 (Some 8)].

Example second_rewind_is_rewind :
  RewoundUnrecovered second_rewind_window /\
  calc_status_some second_rewind_window [30] 10 4 0 = StRewind.
Proof.
  split; [|vm_compute; reflexivity].
  exists [w_c 10 1000 (Some 5); w_c 5 2000 (Some 6)], (w_c 10 3000 (Some 7)), (w_c 3 4000 (Some 8)), [].
  split; [reflexivity|]. split; [cbn; lia|]. repeat constructor; cbn; lia.
Qed.

(* before the repair only the first backward step of the window was examined: the same window was WARN *)
Example second_rewind_masked_before_fix :
  RewoundUnrecovered second_rewind_window /\ no_wrap second_rewind_window 4 /\
  calc_status_some_v1 second_rewind_window [30] 10 4 0 = StWarn.
Proof.
  split; [exact (proj1 second_rewind_is_rewind)|]. split; [|vm_compute; reflexivity].
  cbn. unfold in_i64, two63. lia.
Qed.

(* on windows with at most one backward step the two versions agree *)
Lemma v1_agrees_when_no_rewind offs brokers cur now allowed :
  rewind_index offs = None ->
  calc_status_some_v1 offs brokers cur now allowed = calc_status_some offs brokers cur now allowed.
Proof.
  intros Hi. unfold calc_status_some_v1, calc_status_some. rewrite Hi.
  destruct (cur <=? allowed); [reflexivity|].
  destruct (offsets_stopped offs now && negb (recent_lag_zero offs brokers)); [reflexivity|].
  destruct (rewound_unrecovered offs) eqn:Hr; [|reflexivity].
  exfalso. apply rewound_unrecovered_spec in Hr. destruct Hr as (pre & p & c & post & Heq & Hlt & _).
  unfold rewind_index in Hi. destruct offs as [|o r]; [destruct pre; discriminate|].
  apply rewind_from_none in Hi. rewrite Heq in Hi. eapply sorted_no_rewind; eauto.
Qed.

(* ---------- outside the guard the code and the documented procedure part ways ---------- *)
(* timestamps -2^62 and 2^62: last - first = 2^63 wraps to -2^63, so Go finds the partition stopped although
   in the integers the window (2^63 ms) is far longer than the time since the last commit *)
Example overflow_refuted :
  let offs := [w_c 10 (-4611686018427387904) (Some 5); w_c 20 4611686018427387904 (Some 5)] in
  ~ no_wrap offs 10 /\ ~ Stopped offs 10 /\ calc_status_some offs [30] 10 10 0 = StStop.
Proof.
  cbn zeta. split; [|split; [|vm_compute; reflexivity]].
  - cbn. unfold in_i64, two63. lia.
  - intros (l & Hl & H). cbn in Hl. injection Hl as <-. cbn in H. lia.
Qed.
