(* Go fixed-width integer arithmetic with explicit wrap-around.
   Values are mathematical integers (Z); every Go operation that can wrap is
   written with its wrap.  Anchors: every int64/uint64 expression of
   core/internal/storage/inmemory.go and core/internal/evaluator/caching.go. *)
From Coq Require Export ZArith List Bool.
Export ListNotations.
Open Scope Z_scope.

Definition two63 : Z := 9223372036854775808.
Definition two64 : Z := 18446744073709551616.
Definition two31 : Z := 2147483648.
Definition two32 : Z := 4294967296.

Definition in_i64 (z : Z) : Prop := - two63 <= z < two63.
Definition in_u64 (z : Z) : Prop := 0 <= z < two64.
Definition in_i32 (z : Z) : Prop := - two31 <= z < two31.

Definition in_i64b (z : Z) : bool := (- two63 <=? z) && (z <? two63).
Definition in_u64b (z : Z) : bool := (0 <=? z) && (z <? two64).
Definition in_i32b (z : Z) : bool := (- two31 <=? z) && (z <? two31).

(* two's complement reinterpretation *)
Definition wrap64 (z : Z) : Z := (z + two63) mod two64 - two63.
Definition wrap32 (z : Z) : Z := (z + two31) mod two32 - two31.
Definition u64 (z : Z) : Z := z mod two64.

Definition add64 (a b : Z) : Z := wrap64 (a + b).
Definition sub64 (a b : Z) : Z := wrap64 (a - b).
Definition mul64 (a b : Z) : Z := wrap64 (a * b).
Definition addu64 (a b : Z) : Z := u64 (a + b).
