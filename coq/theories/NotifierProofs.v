(* Theorems about the notifier incident machine (model: Notifier.v).
   Refresh: refresh_frame, clusters_frame, refresh_silent, unrecorded_dropped, unrecorded_blank, reg_recorded
   C13: incident_identity, incident_ids_distinct, close_exactly_once, no_close_without_incident, groups_independent,
        call_id_belongs, dropped_incident_never_notified, relisted_opens_new_incident
   C14: threshold_respected, interval_respected, send_once_respected, every_incident_announced
        (+ announce_refuted_before_fix: the behaviour of the tree before the F3 fix)
   C10: notifier_rejected_silent, notifier_accepted_as_unlisted, lists_accept_spec
   All statements quantify over every module list with distinct names, every history (evaluator responses for any
   clusters / groups / statuses / clock values, interleaved at will with group-list and cluster-list refreshes carrying any
   lists) and every position in it.  The history starts in the state Configure leaves (no cluster, no record). *)
From Coq Require Import ZArith List Bool Lia Permutation.
From Burrow Require Import Int64 Int64Proofs Notifier.
Import ListNotations.
Open Scope Z_scope.

(* ------------------------------------------------------------------------------------------------ *)
(* Reading a history (specification level: no reference to the model's state)                        *)
(* ------------------------------------------------------------------------------------------------ *)

Definition ev_clock (e : nevent) : Z :=
  match e with HResponse now _ => now | HRefresh now _ _ => now | HClusters now _ => now end.

Definition clock_at (h : nhist) (j : nat) : Z :=
  match nth_error h j with Some e => ev_clock e | None => 0 end.

(* What the lists received so far say: which clusters and which (cluster, group) pairs the notifier has been told of.
   A group list is taken in only for a cluster that was on the last cluster list; a cluster list keeps what was known
   of the clusters it repeats. *)
Record listing := mkL { l_known : Z -> bool; l_has : nkey -> bool }.
Definition l_init : listing := mkL (fun _ => false) (fun _ => false).

Definition l_step (l : listing) (e : nevent) : listing :=
  match e with
  | HResponse _ _ => l
  | HRefresh _ c gs =>
      if l_known l c then mkL (l_known l) (fun k => if fst k =? c then memz (snd k) gs else l_has l k) else l
  | HClusters _ cs =>
      mkL (fun c => memz c cs) (fun k => memz (fst k) cs && l_known l (fst k) && l_has l k)
  end.

Definition listing_at (h : nhist) (j : nat) : listing := fold_left l_step (firstn j h) l_init.

(* group k is on the notifier's list when event j arrives (events 0 .. j-1 have been taken in) *)
Definition recorded (h : nhist) (k : nkey) (j : nat) : bool := l_has (listing_at h j) k.
Definition cluster_known (h : nhist) (c : Z) (j : nat) : bool := l_known (listing_at h j) c.

(* The group stays on the list from position i to position j: every group-list refresh of its cluster and every
   cluster-list refresh in between repeats it. *)
Definition listed_throughout (h : nhist) (k : nkey) (i j : nat) : Prop :=
  forall l, (i <= l <= j)%nat -> recorded h k l = true.

(* status of result j if it is an evaluation result for group k that the notifier still lists
   (a result for a group that is not on the list is dropped like a NOTFOUND result; no evaluation is requested for
   such a group either - sendEvaluatorRequests walks the records) *)
Definition status_of (h : nhist) (k : nkey) (j : nat) : option Z :=
  match nth_error h j with
  | Some (HResponse _ r) => if nkey_eqb k (resp_key r) && recorded h k j then Some (nr_status r) else None
  | _ => None
  end.

Definition bad_at (h : nhist) (k : nkey) (j : nat) : Prop := exists s, status_of h k j = Some s /\ 1 < s.
Definition ok_at (h : nhist) (k : nkey) (j : nat) : Prop := status_of h k j = Some 1.
(* a result that responseLoop does not drop *)
Definition live_at (h : nhist) (k : nkey) (j : nat) : Prop := exists s, status_of h k j = Some s /\ s <> 0.

(* Result i opens an incident of group k: it is worse than OK and every earlier worse-than-OK result of the group
   has been followed, before i, by an OK or by the group leaving the list. *)
Definition opens (h : nhist) (k : nkey) (i : nat) : Prop :=
  bad_at h k i /\
  forall i', (i' < i)%nat -> bad_at h k i' ->
    exists l, (i' < l < i)%nat /\ (ok_at h k l \/ recorded h k l = false).

(* Result j belongs to the incident opened at i: no OK of the group in [i, j) - so j may be the closing OK itself -
   and the group has stayed on the list. *)
Definition member (h : nhist) (k : nkey) (i j : nat) : Prop :=
  (i <= j)%nat /\ live_at h k j /\ (forall l, (i <= l < j)%nat -> ~ ok_at h k l) /\ listed_throughout h k i j.

(* observable: an open (stateGood = false) / close (stateGood = true) notification to module n by result j *)
Definition open_call (mods : list nmod) (h : nhist) (j : nat) (n : Z) : Prop :=
  exists c, In c (calls_at mods h j) /\ nc_module c = n /\ nc_good c = false.
Definition close_calls (n : Z) (cs : list ncall) : list ncall :=
  filter (fun c => (nc_module c =? n) && nc_good c) cs.

Definition names_distinct (mods : list nmod) : Prop := NoDup (map nm_name mods).

(* ------------------------------------------------------------------------------------------------ *)
(* Keys                                                                                             *)
(* ------------------------------------------------------------------------------------------------ *)

Lemma nkey_eqb_eq a b : nkey_eqb a b = true <-> a = b.
Proof.
  unfold nkey_eqb. destruct a as [a1 a2], b as [b1 b2]; simpl.
  rewrite andb_true_iff, !Z.eqb_eq. split.
  - intros [-> ->]; reflexivity.
  - intros H; inversion H; auto.
Qed.

Lemma nkey_eqb_refl a : nkey_eqb a a = true.
Proof. apply nkey_eqb_eq; reflexivity. Qed.

Lemma nkey_eqb_neq a b : nkey_eqb a b = false <-> a <> b.
Proof.
  split.
  - intros H E. apply nkey_eqb_eq in E. congruence.
  - intros H. destruct (nkey_eqb a b) eqn:E; auto. apply nkey_eqb_eq in E. contradiction.
Qed.

(* ------------------------------------------------------------------------------------------------ *)
(* notifyModule as a decision on the module's own remembered time                                   *)
(* ------------------------------------------------------------------------------------------------ *)

Inductive action := ActNone | ActClose | ActOpen.

Definition decide (m : nmod) (last : option Z) (now status : Z) (start : option Z) : action :=
  if is_some start && (status =? 1) && nm_close m then ActClose
  else if status <? nm_threshold m then ActNone
  else if is_some last && nm_once m then ActNone
  else if interval_elapsed now last (nm_interval m) then ActOpen
  else ActNone.

Definition new_last (a : action) (old : option Z) (now : Z) : option Z :=
  match a with ActNone => old | ActClose => None | ActOpen => Some now end.

Definition mk_call (m : nmod) (r : nresp) (start id : option Z) (good : bool) : ncall :=
  mkNcall (nm_name m) (nr_cluster r) (nr_group r) (nr_status r) id start good.

Definition act_calls (a : action) (m : nmod) (r : nresp) (start id : option Z) : list ncall :=
  match a with
  | ActNone => []
  | ActClose => [mk_call m r start id true]
  | ActOpen => [mk_call m r start id false]
  end.

(* what a module does with a response, lists and AcceptConsumerGroup included *)
Definition eff_action (m : nmod) (r : nresp) (last : option Z) (now : Z) (start : option Z) : action :=
  if module_accepts m r then decide m last now (nr_status r) start else ActNone.

Lemma notify_module_decide m g now r start id :
  let a := decide m (g_last g (nm_name m)) now (nr_status r) start in
  notify_module m g now r start id =
  (match a with ActNone => g | _ => set_last g (nm_name m) (new_last a (g_last g (nm_name m)) now) end,
   act_calls a m r start id).
Proof.
  unfold notify_module, decide, mk_call. cbv zeta.
  destruct (is_some start && (nr_status r =? 1) && nm_close m); [reflexivity|].
  destruct (nr_status r <? nm_threshold m); [reflexivity|].
  destruct (is_some (g_last g (nm_name m)) && nm_once m); [reflexivity|].
  destruct (interval_elapsed now (g_last g (nm_name m)) (nm_interval m)); reflexivity.
Qed.

(* one turn of the module loop, on the remembered times only *)
Lemma module_turn_last m g now r start id n :
  let gc := if module_accepts m r then notify_module m g now r start id else (g, []) in
  g_last (fst gc) n =
  if n =? nm_name m then new_last (eff_action m r (g_last g (nm_name m)) now start) (g_last g (nm_name m)) now
  else g_last g n.
Proof.
  cbv zeta. unfold eff_action.
  destruct (module_accepts m r).
  - rewrite notify_module_decide. cbv zeta.
    destruct (decide m (g_last g (nm_name m)) now (nr_status r) start); simpl;
      destruct (n =? nm_name m) eqn:E; try reflexivity.
    apply Z.eqb_eq in E; subst; reflexivity.
  - simpl. destruct (n =? nm_name m) eqn:E; try reflexivity.
    apply Z.eqb_eq in E; subst; reflexivity.
Qed.

Lemma module_turn_calls m g now r start id :
  snd (if module_accepts m r then notify_module m g now r start id else (g, [])) =
  act_calls (eff_action m r (g_last g (nm_name m)) now start) m r start id.
Proof.
  unfold eff_action. destruct (module_accepts m r); [|reflexivity].
  rewrite notify_module_decide. reflexivity.
Qed.

Lemma module_turn_id_start m g now r start id :
  let gc := if module_accepts m r then notify_module m g now r start id else (g, []) in
  g_id (fst gc) = g_id g /\ g_start (fst gc) = g_start g.
Proof.
  cbv zeta. destruct (module_accepts m r); [|split; reflexivity].
  rewrite notify_module_decide. cbv zeta.
  destruct (decide m (g_last g (nm_name m)) now (nr_status r) start); split; reflexivity.
Qed.

Lemma act_calls_module a m r start id c :
  In c (act_calls a m r start id) -> nc_module c = nm_name m.
Proof. destruct a; simpl; intros H; try contradiction; destruct H as [<-|[]]; reflexivity. Qed.

(* ------------------------------------------------------------------------------------------------ *)
(* The module loop                                                                                  *)
(* ------------------------------------------------------------------------------------------------ *)

Lemma notify_all_id_start mods : forall g now r start id,
  g_id (fst (notify_all mods g now r start id)) = g_id g /\
  g_start (fst (notify_all mods g now r start id)) = g_start g.
Proof.
  induction mods as [|m ms IH]; intros; simpl; [split; reflexivity|].
  destruct (IH (fst (if module_accepts m r then notify_module m g now r start id else (g, []))) now r start id) as [H1 H2].
  destruct (module_turn_id_start m g now r start id) as [H3 H4].
  rewrite H1, H2. split; assumption.
Qed.

Lemma notify_all_calls_names mods : forall g now r start id c,
  In c (snd (notify_all mods g now r start id)) -> In (nc_module c) (map nm_name mods).
Proof.
  induction mods as [|m ms IH]; intros g now r start id c; simpl; [tauto|].
  rewrite in_app_iff. intros [H|H].
  - left. rewrite module_turn_calls in H. symmetry. eapply act_calls_module; eauto.
  - right. eapply IH; eauto.
Qed.

Lemma notify_all_last_other mods : forall g now r start id n,
  ~ In n (map nm_name mods) -> g_last (fst (notify_all mods g now r start id)) n = g_last g n.
Proof.
  induction mods as [|m ms IH]; intros g now r start id n Hn; simpl; [reflexivity|].
  simpl in Hn. rewrite IH by tauto.
  rewrite module_turn_last. destruct (n =? nm_name m) eqn:E; [|reflexivity].
  apply Z.eqb_eq in E. subst. tauto.
Qed.

Definition calls_of (n : Z) (cs : list ncall) : list ncall := filter (fun c => nc_module c =? n) cs.

Lemma calls_of_none n cs : (forall c, In c cs -> nc_module c <> n) -> calls_of n cs = [].
Proof.
  induction cs as [|c cs IH]; intros H; simpl; [reflexivity|].
  destruct (nc_module c =? n) eqn:E.
  - apply Z.eqb_eq in E. exfalso. apply (H c); simpl; auto.
  - apply IH. intros c' Hc'. apply H. simpl; auto.
Qed.

Lemma calls_of_all n cs : (forall c, In c cs -> nc_module c = n) -> calls_of n cs = cs.
Proof.
  induction cs as [|c cs IH]; intros H; simpl; [reflexivity|].
  rewrite (H c) by (simpl; auto). rewrite Z.eqb_refl. f_equal. apply IH. intros; apply H; simpl; auto.
Qed.

(* With distinct module names each module sees, and alone changes, its own slot: the loop is the product of the
   per-module decisions taken on the state at loop entry. *)
Lemma notify_all_module mods : forall g now r start id m,
  names_distinct mods -> In m mods ->
  let res := notify_all mods g now r start id in
  let a := eff_action m r (g_last g (nm_name m)) now start in
  g_last (fst res) (nm_name m) = new_last a (g_last g (nm_name m)) now /\
  calls_of (nm_name m) (snd res) = act_calls a m r start id.
Proof.
  unfold names_distinct.
  induction mods as [|m0 ms IH]; intros g now r start id m Hnd Hin; [inversion Hin|].
  simpl in Hnd. inversion Hnd as [|x l Hnotin Hnd']; subst.
  cbv zeta. simpl notify_all.
  set (gc := if module_accepts m0 r then notify_module m0 g now r start id else (g, [])).
  simpl fst; simpl snd.
  unfold calls_of. rewrite filter_app. fold (calls_of (nm_name m) (snd gc)).
  fold (calls_of (nm_name m) (snd (notify_all ms (fst gc) now r start id))).
  destruct Hin as [->|Hin].
  - (* the head module *)
    rewrite notify_all_last_other by assumption.
    split.
    + unfold gc. rewrite module_turn_last. rewrite Z.eqb_refl. reflexivity.
    + rewrite (calls_of_none (nm_name m) (snd (notify_all ms (fst gc) now r start id))).
      * rewrite app_nil_r. unfold gc. rewrite module_turn_calls.
        apply calls_of_all. intros c Hc. eapply act_calls_module; eauto.
      * intros c Hc E. apply notify_all_calls_names in Hc. rewrite E in Hc. contradiction.
  - (* a later module *)
    assert (Hne : nm_name m <> nm_name m0).
    { intros E. apply Hnotin. rewrite <- E. apply in_map. assumption. }
    assert (Hlast : g_last (fst gc) (nm_name m) = g_last g (nm_name m)).
    { unfold gc. rewrite module_turn_last. apply Z.eqb_neq in Hne. rewrite Hne. reflexivity. }
    destruct (IH (fst gc) now r start id m Hnd' Hin) as [H1 H2].
    rewrite Hlast in H1, H2. split; [exact H1|].
    rewrite H2. rewrite (calls_of_none (nm_name m) (snd gc)); [reflexivity|].
    intros c Hc. unfold gc in Hc. rewrite module_turn_calls in Hc.
    apply act_calls_module in Hc. congruence.
Qed.

Lemma notify_all_calls_from mods : forall g now r start id c,
  names_distinct mods ->
  In c (snd (notify_all mods g now r start id)) ->
  exists m, In m mods /\ nc_module c = nm_name m /\
            In c (act_calls (eff_action m r (g_last g (nm_name m)) now start) m r start id).
Proof.
  intros g now r start id c Hnd Hc.
  pose proof (notify_all_calls_names _ _ _ _ _ _ _ Hc) as Hn.
  apply in_map_iff in Hn. destruct Hn as [m [Hm Hin]].
  exists m. split; [assumption|]. split; [auto|].
  destruct (notify_all_module mods g now r start id m Hnd Hin) as [_ H2].
  rewrite <- H2. unfold calls_of. apply filter_In. split; [assumption|].
  apply Z.eqb_eq. auto.
Qed.

(* ------------------------------------------------------------------------------------------------ *)
(* checkAndSendResponseToModules on one group record                                                *)
(* ------------------------------------------------------------------------------------------------ *)

Definition opening_flag (g : gstate) (r : nresp) : bool := negb (is_some (g_start g)) && (1 <? nr_status r).
Definition start1 (g : gstate) (now : Z) (r : nresp) : option Z := if opening_flag g r then Some now else g_start g.
Definition id1 (g : gstate) (next : Z) (r : nresp) : option Z := if opening_flag g r then Some next else g_id g.
Definition last1 (g : gstate) (r : nresp) : Z -> option Z := if opening_flag g r then (fun _ => None) else g_last g.

Lemma group_step_spec mods g next now r :
  names_distinct mods ->
  let res := group_step true mods g next now r in
  let g' := fst (fst res) in
  g_start g' = (if nr_status r =? 1 then None else start1 g now r) /\
  g_id g' = (if nr_status r =? 1 then None else id1 g next r) /\
  snd res = (if opening_flag g r then next + 1 else next) /\
  (forall m, In m mods ->
     let a := eff_action m r (last1 g r (nm_name m)) now (start1 g now r) in
     g_last g' (nm_name m) = new_last a (last1 g r (nm_name m)) now /\
     calls_of (nm_name m) (snd (fst res)) = act_calls a m r (start1 g now r) (id1 g next r)) /\
  (forall c, In c (snd (fst res)) ->
     exists m, In m mods /\ nc_module c = nm_name m /\
       In c (act_calls (eff_action m r (last1 g r (nm_name m)) now (start1 g now r)) m r (start1 g now r) (id1 g next r))).
Proof.
  intros Hnd. unfold group_step. fold (opening_flag g r). cbv zeta.
  set (g1 := if opening_flag g r then mkG (Some next) (Some now) (fun _ : Z => None) else g).
  assert (Hs : g_start g1 = start1 g now r) by (unfold g1, start1; destruct (opening_flag g r); reflexivity).
  assert (Hi : g_id g1 = id1 g next r) by (unfold g1, id1; destruct (opening_flag g r); reflexivity).
  assert (Hl : g_last g1 = last1 g r) by (unfold g1, last1; destruct (opening_flag g r); reflexivity).
  simpl fst; simpl snd.
  destruct (notify_all_id_start mods g1 now r (g_start g1) (g_id g1)) as [Hid Hst].
  split; [|split; [|split; [|split]]].
  - destruct (nr_status r =? 1); simpl; congruence.
  - destruct (nr_status r =? 1); simpl; congruence.
  - reflexivity.
  - intros m Hm. cbv zeta.
    destruct (notify_all_module mods g1 now r (g_start g1) (g_id g1) m Hnd Hm) as [H1 H2].
    rewrite Hs, Hi, Hl in *. split; [|exact H2].
    destruct (nr_status r =? 1); simpl; exact H1.
  - intros c Hc.
    destruct (notify_all_calls_from mods g1 now r (g_start g1) (g_id g1) c Hnd Hc) as [m [Hm [Hn Hin]]].
    rewrite Hs, Hi, Hl in *. exists m. auto.
Qed.

(* ------------------------------------------------------------------------------------------------ *)
(* The refresh: processConsumerList / processClusterList on the state                               *)
(* ------------------------------------------------------------------------------------------------ *)

Lemma memz_In x l : memz x l = true <-> In x l.
Proof.
  unfold memz. rewrite existsb_exists. split.
  - intros [y [Hy E]]. apply Z.eqb_eq in E. subst. assumption.
  - intros H. exists x. split; [assumption|apply Z.eqb_refl].
Qed.

(* A group-list refresh of cluster c: makes no call and draws no id; does nothing at all if c has no entry;
   leaves every record of every other cluster untouched; keeps the record of every listed group that has one
   unchanged (id, start and every remembered notify time); gives a listed group without record a blank one;
   deletes the record of every unlisted group of c. *)
Theorem refresh_frame st c gs k :
  let st' := on_refresh st c gs in
  c_next st' = c_next st /\ (forall c', c_known st' c' = c_known st c') /\
  (c_known st c = false -> st' = st) /\
  (fst k <> c -> c_reg st' k = c_reg st k /\ c_groups st' k = c_groups st k) /\
  (c_known st c = true -> fst k = c ->
     c_reg st' k = memz (snd k) gs /\
     (memz (snd k) gs = true -> c_reg st k = true -> c_groups st' k = c_groups st k) /\
     (memz (snd k) gs = true -> c_reg st k = false -> c_groups st' k = g_init)).
Proof.
  cbv zeta. unfold on_refresh. destruct (c_known st c) eqn:Ek.
  - simpl. split; [reflexivity|]. split; [reflexivity|]. split; [discriminate|]. split.
    + intros Hne. apply Z.eqb_neq in Hne. rewrite Hne. split; reflexivity.
    + intros _ Hc. subst c. rewrite Z.eqb_refl. split; [reflexivity|]. split.
      * intros H1 H2. rewrite H1, H2. reflexivity.
      * intros H1 H2. rewrite H1, H2. reflexivity.
  - split; [reflexivity|]. split; [reflexivity|]. split; [reflexivity|]. split; [split; reflexivity|discriminate].
Qed.

(* A cluster-list refresh: no call, no id; a cluster is known afterwards iff it is listed; the records of a listed
   cluster that was known are untouched; everything else has no record. *)
Theorem clusters_frame st cs k :
  let st' := on_clusters st cs in
  c_next st' = c_next st /\ (forall c, c_known st' c = memz c cs) /\
  c_reg st' k = memz (fst k) cs && c_known st (fst k) && c_reg st k /\
  (c_reg st' k = true -> c_groups st' k = c_groups st k) /\
  (c_reg st' k = false -> c_groups st' k = g_init).
Proof.
  cbv zeta. unfold on_clusters. simpl. split; [reflexivity|]. split; [reflexivity|]. split; [reflexivity|].
  split; intros H; rewrite H; reflexivity.
Qed.

(* A cluster list that repeats a known cluster leaves every record of that cluster as it was - this is all that happens
   in a refresh cycle whose group-list requests are never taken by the storage module (TimeoutSendStorageRequest gives
   up after a second, the processConsumerList goroutines wait for ever); a cycle whose cluster-list request is not taken
   is no event at all. *)
Theorem clusters_keeps_record st cs k :
  memz (fst k) cs = true -> c_known st (fst k) = true -> c_reg st k = true ->
  c_reg (on_clusters st cs) k = true /\ c_groups (on_clusters st cs) k = c_groups st k.
Proof. intros H1 H2 H3. unfold on_clusters. simpl. rewrite H1, H2, H3. split; reflexivity. Qed.

Definition is_resp (e : nevent) : bool := match e with HResponse _ _ => true | _ => false end.

Theorem refresh_silent mods st e : is_resp e = false ->
  snd (on_event mods st e) = [] /\ c_next (fst (on_event mods st e)) = c_next st.
Proof.
  destruct e as [now r|now c gs|now cs]; [discriminate| |]; intros _; simpl; split; try reflexivity.
  unfold on_refresh. destruct (c_known st c); reflexivity.
Qed.

(* what an event that is not a response does to the record of any one group *)
Lemma other_event_record mods st e k : is_resp e = false ->
  let st' := fst (on_event mods st e) in
  (c_reg st' k = c_reg st k /\ c_groups st' k = c_groups st k) \/
  (c_reg st' k = false /\ c_groups st' k = g_init) \/
  (c_reg st k = false /\ c_reg st' k = true /\ c_groups st' k = g_init).
Proof.
  destruct e as [now r|now c gs|now cs]; [discriminate| |]; intros _; cbv zeta; simpl.
  - unfold on_refresh. destruct (c_known st c); [|left; split; reflexivity]. simpl.
    destruct (fst k =? c); [|left; split; reflexivity].
    destruct (memz (snd k) gs); simpl.
    + destruct (c_reg st k); [left; split; reflexivity|right; right; auto].
    + right; left; auto.
  - destruct (memz (fst k) cs && c_known st (fst k) && c_reg st k) eqn:E.
    + left. apply andb_true_iff in E. destruct E as [_ E]. rewrite E. split; reflexivity.
    + right; left; auto.
Qed.

(* a response touches neither the cluster entries nor the set of records *)
Lemma on_response_reg mods st now r :
  c_reg (fst (on_response mods st now r)) = c_reg st /\ c_known (fst (on_response mods st now r)) = c_known st.
Proof. unfold on_response, on_response_gen. destruct (live_resp st r); split; reflexivity. Qed.

(* ------------------------------------------------------------------------------------------------ *)
(* Histories: the state before event j, and the calls of event j                                    *)
(* ------------------------------------------------------------------------------------------------ *)

Lemma state_after_app mods h1 : forall st h2,
  state_after mods st (h1 ++ h2) = state_after mods (state_after mods st h1) h2.
Proof.
  induction h1 as [|e h1 IH]; intros st h2; simpl; [reflexivity|]. apply IH.
Qed.

Lemma firstn_S_nth {A : Type} (h : list A) : forall j x, nth_error h j = Some x -> firstn (S j) h = firstn j h ++ [x].
Proof.
  induction h as [|a h IH]; intros j x H.
  - destruct j; discriminate.
  - destruct j as [|j]; simpl in *.
    + inversion H; reflexivity.
    + f_equal. apply IH. assumption.
Qed.

Lemma state_at_0 mods h : state_at mods h 0 = c_init.
Proof. reflexivity. Qed.

Lemma state_at_S mods h j e :
  nth_error h j = Some e ->
  state_at mods h (S j) = fst (on_event mods (state_at mods h j) e).
Proof.
  intros H. unfold state_at. rewrite (firstn_S_nth h j _ H), state_after_app. reflexivity.
Qed.

Lemma state_at_past mods h j : nth_error h j = None -> state_at mods h (S j) = state_at mods h j.
Proof. intros H. apply nth_error_None in H. unfold state_at. rewrite !firstn_all2 by lia. reflexivity. Qed.

Lemma listing_at_S h j e : nth_error h j = Some e -> listing_at h (S j) = l_step (listing_at h j) e.
Proof.
  intros H. unfold listing_at. rewrite (firstn_S_nth h j _ H), fold_left_app. reflexivity.
Qed.

Lemma listing_at_past h j : nth_error h j = None -> listing_at h (S j) = listing_at h j.
Proof. intros H. apply nth_error_None in H. unfold listing_at. rewrite !firstn_all2 by lia. reflexivity. Qed.

(* the theorems' view of a history is the one [run] computes *)
Lemma run_gen_spec mods : forall h st j,
  nth j (fst (run mods st h)) [] =
  match nth_error h j with
  | Some e => snd (on_event mods (state_after mods st (firstn j h)) e)
  | None => []
  end
  /\ snd (run mods st h) = state_after mods st h.
Proof.
  unfold run. induction h as [|e h IH]; intros st j.
  - simpl. destruct j; split; reflexivity.
  - simpl. destruct j as [|j]; simpl.
    + split; [reflexivity|]. apply (IH _ 0%nat).
    + destruct (IH (fst (on_event_gen true mods st e)) j) as [H1 H2]. split; assumption.
Qed.

Theorem run_calls_at mods h j : nth j (fst (run mods c_init h)) [] = calls_at mods h j.
Proof. destruct (run_gen_spec mods h c_init j) as [H _]. exact H. Qed.

Theorem run_final_state mods h : snd (run mods c_init h) = state_at mods h (length h).
Proof.
  destruct (run_gen_spec mods h c_init 0%nat) as [_ H]. rewrite H.
  unfold state_at. rewrite firstn_all. reflexivity.
Qed.

Lemma run_length mods : forall h st, length (fst (run mods st h)) = length h.
Proof.
  unfold run. induction h as [|e h IH]; intros st; simpl; [reflexivity|]. f_equal. apply IH.
Qed.

(* The records the coordinator holds are exactly the groups the lists received so far name, and the cluster entries
   exactly the clusters of the last cluster list: the spec-level reading [recorded] / [cluster_known] describes the
   model's [c_reg] / [c_known]. *)
Theorem reg_recorded mods h : forall j,
  (forall k, c_reg (state_at mods h j) k = recorded h k j) /\
  (forall c, c_known (state_at mods h j) c = cluster_known h c j).
Proof.
  unfold recorded, cluster_known. induction j as [|j [IHr IHk]]; [split; reflexivity|].
  destruct (nth_error h j) as [e|] eqn:Hj.
  2:{ rewrite (state_at_past mods h j Hj), (listing_at_past h j Hj). split; assumption. }
  rewrite (state_at_S mods h j e Hj), (listing_at_S h j e Hj).
  destruct e as [now r|now c gs|now cs]; simpl.
  - destruct (on_response_reg mods (state_at mods h j) now r) as [E1 E2].
    unfold on_event, on_event_gen. fold (on_response mods (state_at mods h j) now r). rewrite E1, E2. split; assumption.
  - unfold on_refresh. rewrite IHk. destruct (l_known (listing_at h j) c); simpl; [|split; assumption].
    split; [|assumption]. intros k. destruct (fst k =? c); [reflexivity|apply IHr].
  - split; [|reflexivity]. intros k. rewrite IHr, IHk. reflexivity.
Qed.

Lemma c_reg_recorded mods h j k : c_reg (state_at mods h j) k = recorded h k j.
Proof. apply reg_recorded. Qed.

(* a record exists only under a cluster entry (so a response that finds a record never meets a missing entry) *)
Theorem recorded_cluster_known h k : forall j, recorded h k j = true -> cluster_known h (fst k) j = true.
Proof.
  unfold recorded, cluster_known. induction j as [|j IH]; [discriminate|].
  destruct (nth_error h j) as [e|] eqn:Hj; [|rewrite (listing_at_past h j Hj); assumption].
  rewrite (listing_at_S h j e Hj). destruct e as [now r|now c gs|now cs]; simpl; [assumption| |].
  - destruct (l_known (listing_at h j) c) eqn:Ek; [|assumption]. simpl.
    destruct (fst k =? c) eqn:E; [|assumption]. intros _. apply Z.eqb_eq in E. rewrite E. assumption.
  - intros H. apply andb_true_iff in H. destruct H as [H _]. apply andb_true_iff in H. tauto.
Qed.

(* One response of a history, as seen from any group k' *)
Section Step.
  Variable mods : list nmod.
  Variable h : nhist.
  Variable j : nat.
  Variable now : Z.
  Variable r : nresp.
  Hypothesis Hj : nth_error h j = Some (HResponse now r).

  Let st := state_at mods h j.
  Let res := group_step true mods (c_groups st (resp_key r)) (c_next st) now r.

  Lemma step_groups k' :
    c_groups (state_at mods h (S j)) k' =
    if live_resp st r && nkey_eqb k' (resp_key r) then fst (fst res) else c_groups st k'.
  Proof.
    rewrite (state_at_S mods h j _ Hj). unfold on_event, on_event_gen, on_response_gen.
    fold st. destruct (live_resp st r); reflexivity.
  Qed.

  Lemma step_next :
    c_next (state_at mods h (S j)) = if live_resp st r then snd res else c_next st.
  Proof.
    rewrite (state_at_S mods h j _ Hj). unfold on_event, on_event_gen, on_response_gen.
    fold st. destruct (live_resp st r); reflexivity.
  Qed.

  Lemma step_calls :
    calls_at mods h j = if live_resp st r then snd (fst res) else [].
  Proof.
    unfold calls_at. rewrite Hj. unfold on_event, on_event_gen, on_response_gen.
    fold st. destruct (live_resp st r); reflexivity.
  Qed.

  Lemma step_status_of k :
    status_of h k j = if nkey_eqb k (resp_key r) && recorded h k j then Some (nr_status r) else None.
  Proof. unfold status_of. rewrite Hj. reflexivity. Qed.

  Lemma step_clock : clock_at h j = now.
  Proof. unfold clock_at. rewrite Hj. reflexivity. Qed.

  Lemma step_recorded k : recorded h k (S j) = recorded h k j.
  Proof. unfold recorded. rewrite (listing_at_S h j _ Hj). reflexivity. Qed.

  (* the model's test "not NOTFOUND and the group has a record", read from the history *)
  Lemma step_live : live_resp st r = negb (nr_status r =? 0) && recorded h (resp_key r) j.
  Proof. unfold live_resp, st. rewrite c_reg_recorded. reflexivity. Qed.

  Lemma step_live_at k : live_at h k j <-> (k = resp_key r /\ live_resp st r = true).
  Proof.
    unfold live_at. rewrite step_status_of, step_live. split.
    - intros [s [H1 H2]]. destruct (nkey_eqb k (resp_key r)) eqn:Ek; [|discriminate]. apply nkey_eqb_eq in Ek. subst k.
      simpl in H1. destruct (recorded h (resp_key r) j); [|discriminate]. inversion H1; subst s.
      apply Z.eqb_neq in H2. rewrite H2. auto.
    - intros [-> H]. apply andb_true_iff in H. destruct H as [H1 H2]. rewrite nkey_eqb_refl, H2. simpl.
      exists (nr_status r). split; [reflexivity|]. apply negb_true_iff in H1. apply Z.eqb_neq. assumption.
  Qed.
End Step.

(* an event that is not a response: no status, and the record of a group that is on the list before and after it
   is unchanged *)
Section OtherStep.
  Variable mods : list nmod.
  Variable h : nhist.
  Variable j : nat.
  Variable e : nevent.
  Hypothesis Hj : nth_error h j = Some e.
  Hypothesis He : is_resp e = false.

  Lemma other_status_of k : status_of h k j = None.
  Proof. unfold status_of. rewrite Hj. destruct e; [discriminate| |]; reflexivity. Qed.

  Lemma other_calls : calls_at mods h j = [].
  Proof. unfold calls_at. rewrite Hj. apply refresh_silent. assumption. Qed.

  Lemma other_next : c_next (state_at mods h (S j)) = c_next (state_at mods h j).
  Proof. rewrite (state_at_S mods h j e Hj). apply refresh_silent. assumption. Qed.

  Lemma other_record k :
    (recorded h k (S j) = recorded h k j /\ c_groups (state_at mods h (S j)) k = c_groups (state_at mods h j) k) \/
    (recorded h k (S j) = false /\ c_groups (state_at mods h (S j)) k = g_init) \/
    (recorded h k j = false /\ recorded h k (S j) = true /\ c_groups (state_at mods h (S j)) k = g_init).
  Proof.
    rewrite <- !(c_reg_recorded mods). rewrite (state_at_S mods h j e Hj).
    apply other_event_record. assumption.
  Qed.

  Lemma other_record_kept k :
    recorded h k j = true -> recorded h k (S j) = true ->
    c_groups (state_at mods h (S j)) k = c_groups (state_at mods h j) k.
  Proof.
    intros H1 H2. destruct (other_record k) as [[_ H]|[[H _]|[H _]]]; [assumption|congruence|congruence].
  Qed.
End OtherStep.

(* ---- the vocabulary, unfolded (for the reader of props/C13.v) ---- *)

(* how the notifier's list evolves: empty after Configure; a response leaves it alone; a group list for a cluster
   that was on the last cluster list replaces what is listed of that cluster; a cluster list keeps what is listed of
   the clusters it repeats (if they were known) and forgets the rest *)
Theorem recorded_spec h k j :
  recorded h k 0 = false /\
  forall e, nth_error h j = Some e ->
    recorded h k (S j) =
    match e with
    | HResponse _ _ => recorded h k j
    | HRefresh _ c gs => if cluster_known h c j && (fst k =? c) then memz (snd k) gs else recorded h k j
    | HClusters _ cs => memz (fst k) cs && cluster_known h (fst k) j && recorded h k j
    end.
Proof.
  split; [reflexivity|]. intros e Hj. unfold recorded, cluster_known. rewrite (listing_at_S h j e Hj).
  destruct e as [now r|now c gs|now cs]; simpl; [reflexivity| |reflexivity].
  destruct (l_known (listing_at h j) c); simpl; [|reflexivity]. reflexivity.
Qed.

Theorem cluster_known_spec h c j :
  cluster_known h c 0 = false /\
  forall e, nth_error h j = Some e ->
    cluster_known h c (S j) = match e with HClusters _ cs => memz c cs | _ => cluster_known h c j end.
Proof.
  split; [reflexivity|]. intros e Hj. unfold cluster_known. rewrite (listing_at_S h j e Hj).
  destruct e as [now r|now c' gs|now cs]; simpl; [reflexivity| |reflexivity].
  destruct (l_known (listing_at h j) c'); reflexivity.
Qed.

Theorem member_unfold h k i j :
  member h k i j <->
  ((i <= j)%nat /\ live_at h k j /\ (forall l, (i <= l < j)%nat -> ~ ok_at h k l) /\ listed_throughout h k i j).
Proof. reflexivity. Qed.

Theorem listed_throughout_unfold h k i j :
  listed_throughout h k i j <-> (forall l, (i <= l <= j)%nat -> recorded h k l = true).
Proof. reflexivity. Qed.

(* A refresh (of either kind) in the middle of a history leaves the record of a group that is on the list before and
   after it exactly as it was: id, start and every remembered notify time. *)
Theorem refresh_keeps_listed_record mods h j e k :
  nth_error h j = Some e -> is_resp e = false -> recorded h k j = true -> recorded h k (S j) = true ->
  c_groups (state_at mods h (S j)) k = c_groups (state_at mods h j) k.
Proof. intros Hj He. apply (other_record_kept mods h j e Hj He k). Qed.

Theorem refresh_keeps_listed_record_silent mods h j e k :
  nth_error h j = Some e -> is_resp e = false -> recorded h k j = true -> recorded h k (S j) = true ->
  calls_at mods h j = [] /\ c_groups (state_at mods h (S j)) k = c_groups (state_at mods h j) k.
Proof.
  intros Hj He H1 H2. split; [apply (other_calls mods h j e Hj He)|apply (other_record_kept mods h j e Hj He k H1 H2)].
Qed.

Lemma status_of_lt h k j s : status_of h k j = Some s -> (j < length h)%nat.
Proof.
  unfold status_of. destruct (nth_error h j) eqn:E; [|discriminate].
  intros _. apply nth_error_Some. congruence.
Qed.

Lemma status_of_recorded h k j s : status_of h k j = Some s -> recorded h k j = true.
Proof.
  unfold status_of. destruct (nth_error h j) as [[now r|? ? ?|? ?]|]; try discriminate.
  destruct (nkey_eqb k (resp_key r)); [|discriminate]. simpl. destruct (recorded h k j); [reflexivity|discriminate].
Qed.

Lemma bad_recorded h k j : bad_at h k j -> recorded h k j = true.
Proof. intros [s [H _]]. eapply status_of_recorded; eauto. Qed.

Lemma nth_error_lt_some {A : Type} (l : list A) j : (j < length l)%nat -> exists x, nth_error l j = Some x.
Proof.
  intros H. destruct (nth_error l j) eqn:E; [eauto|]. apply nth_error_None in E. lia.
Qed.

(* A response for a group that is not on the list is dropped: no call, no change of state.  (So is NOTFOUND.) *)
Theorem unrecorded_dropped mods h j now r :
  nth_error h j = Some (HResponse now r) -> recorded h (resp_key r) j = false ->
  calls_at mods h j = [] /\ state_at mods h (S j) = state_at mods h j.
Proof.
  intros Hj Hr. rewrite (step_calls mods h j now r Hj), (state_at_S mods h j _ Hj).
  unfold on_event, on_event_gen, on_response_gen. rewrite (step_live mods h j r), Hr, andb_false_r. auto.
Qed.

(* A group that is not on the list has no record: its slot is blank, whatever it held before. *)
Theorem unrecorded_blank mods h k : forall j, recorded h k j = false -> c_groups (state_at mods h j) k = g_init.
Proof.
  induction j as [|j IH]; [reflexivity|]. intros Hr.
  destruct (nth_error h j) as [e|] eqn:Hj.
  2:{ rewrite (state_at_past mods h j Hj). apply IH. unfold recorded in *. rewrite <- (listing_at_past h j Hj). assumption. }
  destruct (is_resp e) eqn:He.
  - destruct e as [now r| |]; try discriminate.
    rewrite (step_recorded h j now r Hj) in Hr. rewrite (step_groups mods h j now r Hj).
    destruct (live_resp (state_at mods h j) r && nkey_eqb k (resp_key r)) eqn:E; [|apply IH; assumption].
    apply andb_true_iff in E. destruct E as [E1 E2]. apply nkey_eqb_eq in E2. subst k.
    rewrite (step_live mods h j r), Hr, andb_false_r in E1. discriminate.
  - destruct (other_record mods h j e Hj He k) as [[H1 H2]|[[_ H]|[_ [H _]]]]; [|assumption|congruence].
    rewrite H2. apply IH. congruence.
Qed.

(* ------------------------------------------------------------------------------------------------ *)
(* The incident record of a group describes the group's status sequence                             *)
(* ------------------------------------------------------------------------------------------------ *)

(* every worse-than-OK result before j has been followed by an OK before j, or by the group being off the list at
   some position up to j *)
Definition closed_inv (h : nhist) (k : nkey) (j : nat) : Prop :=
  forall i', (i' < j)%nat -> bad_at h k i' ->
    exists l, (i' < l)%nat /\ (((l < j)%nat /\ ok_at h k l) \/ ((l <= j)%nat /\ recorded h k l = false)).

Definition open_inv (h : nhist) (k : nkey) (i j : nat) : Prop :=
  (i < j)%nat /\ opens h k i /\ (forall l, (i <= l < j)%nat -> ~ ok_at h k l) /\ listed_throughout h k i j.

Definition inv_group (mods : list nmod) (h : nhist) (k : nkey) (j : nat) : Prop :=
  let g := c_groups (state_at mods h j) k in
  (g_start g = None /\ g_id g = None /\ closed_inv h k j) \/
  (exists i, open_inv h k i j /\ g_start g = Some (clock_at h i) /\
             g_id g = Some (c_next (state_at mods h i))).

Lemma bad_not_ok h k j : bad_at h k j -> ~ ok_at h k j.
Proof. intros [s [H1 H2]] H. unfold ok_at in H. rewrite H in H1. inversion H1. lia. Qed.

Lemma closed_opens h k i : closed_inv h k i -> bad_at h k i -> opens h k i.
Proof.
  intros Hc Hb. split; [assumption|]. intros i' Hi Hb'.
  destruct (Hc i' Hi Hb') as [l [Hl [[Hl2 Hok]|[Hl2 Hr]]]].
  - exists l. split; [lia|left; assumption].
  - assert (l <> i) by (intros ->; rewrite (bad_recorded h k i Hb) in Hr; discriminate).
    exists l. split; [lia|right; assumption].
Qed.

Lemma closed_inv_ext h k j : closed_inv h k j -> ~ bad_at h k j -> closed_inv h k (S j).
Proof.
  intros H Hn i' Hi Hb.
  assert (i' <> j) by (intros ->; contradiction).
  destruct (H i' ltac:(lia) Hb) as [l [Hl [[Hl2 Hok]|[Hl2 Hr]]]]; exists l; (split; [lia|]).
  - left. split; [lia|assumption].
  - right. split; [lia|assumption].
Qed.

Lemma closed_inv_close h k j : ok_at h k j -> closed_inv h k (S j).
Proof.
  intros Hok i' Hi Hb.
  assert (i' <> j) by (intros ->; eapply bad_not_ok; eauto).
  exists j. split; [lia|]. left. split; [lia|assumption].
Qed.

Lemma closed_inv_unrec h k j : recorded h k (S j) = false -> closed_inv h k (S j).
Proof. intros Hr i' Hi Hb. exists (S j). split; [lia|]. right. split; [lia|assumption]. Qed.

Lemma open_inv_ext h k i j : open_inv h k i j -> ~ ok_at h k j -> recorded h k (S j) = true -> open_inv h k i (S j).
Proof.
  intros [H1 [H2 [H3 H4]]] Hn Hr. split; [lia|]. split; [assumption|]. split.
  - intros l Hl. destruct (Nat.eq_dec l j) as [->|Hne]; [assumption|]. apply H3. lia.
  - intros l Hl. destruct (Nat.eq_dec l (S j)) as [->|Hne]; [assumption|]. apply H4. lia.
Qed.

Lemma open_inv_start h k j :
  closed_inv h k j -> bad_at h k j -> recorded h k (S j) = true -> open_inv h k j (S j).
Proof.
  intros Hc Hb Hr. split; [lia|]. split; [apply closed_opens; assumption|]. split.
  - intros l Hl. assert (l = j) by lia. subst. apply bad_not_ok. assumption.
  - intros l Hl. assert (l = j \/ l = S j) as [->| ->] by lia; [apply bad_recorded; assumption|assumption].
Qed.

Lemma open_inv_restrict h k i j : open_inv h k i (S j) -> (i < j)%nat -> open_inv h k i j.
Proof.
  intros [H1 [H2 [H3 H4]]] Hlt. split; [assumption|]. split; [assumption|].
  split; intros l Hl; [apply H3|apply H4]; lia.
Qed.

(* at most one incident can be open at a position *)
Lemma open_inv_unique h k i1 i2 j : open_inv h k i1 j -> open_inv h k i2 j -> i1 = i2.
Proof.
  intros [A1 [[Ab Ao] [A3 A4]]] [B1 [[Bb Bo] [B3 B4]]].
  destruct (Nat.lt_trichotomy i1 i2) as [Hlt|[->|Hlt]]; [|reflexivity|].
  - destruct (Bo i1 Hlt Ab) as [l [Hl [Hok|Hr]]]; exfalso.
    + apply (A3 l); [lia|assumption].
    + rewrite A4 in Hr by lia. discriminate.
  - destruct (Ao i2 Hlt Bb) as [l [Hl [Hok|Hr]]]; exfalso.
    + apply (B3 l); [lia|assumption].
    + rewrite B4 in Hr by lia. discriminate.
Qed.

Lemma open_closed_excl h k i j : open_inv h k i j -> closed_inv h k j -> False.
Proof.
  intros [A1 [[Ab Ao] [A3 A4]]] Hc. destruct (Hc i A1 Ab) as [l [Hl [[Hl2 Hok]|[Hl2 Hr]]]].
  - apply (A3 l); [lia|assumption].
  - rewrite A4 in Hr by lia. discriminate.
Qed.

Lemma open_inv_recorded h k i j : open_inv h k i j -> recorded h k j = true.
Proof. intros [H1 [_ [_ H4]]]. apply H4. lia. Qed.

Theorem inv_group_holds mods h :
  names_distinct mods -> forall j, (j <= length h)%nat -> forall k, inv_group mods h k j.
Proof.
  intros Hnd. induction j as [|j IH]; intros Hlen k.
  - left. rewrite state_at_0. simpl. split; [reflexivity|]. split; [reflexivity|].
    intros i' Hi. lia.
  - destruct (nth_error_lt_some h j ltac:(lia)) as [e Hj].
    specialize (IH ltac:(lia) k). unfold inv_group in *. cbv zeta in *.
    destruct (is_resp e) eqn:He.
    2:{ (* a refresh *)
      pose proof (other_status_of h j e Hj He k) as Hso.
      assert (Hnb : ~ bad_at h k j) by (intros [s [H1 H2]]; rewrite Hso in H1; discriminate).
      assert (Hno : ~ ok_at h k j) by (unfold ok_at; rewrite Hso; discriminate).
      destruct (other_record mods h j e Hj He k) as [[R1 R2]|[[R1 R2]|[R0 [R1 R2]]]].
      - rewrite R2. destruct IH as [[H1 [H2 H3]]|[i [H1 [H2 H3]]]].
        + left. split; [assumption|]. split; [assumption|]. apply closed_inv_ext; assumption.
        + right. exists i. split; [|split; assumption]. apply open_inv_ext; [assumption|assumption|].
          rewrite R1. eapply open_inv_recorded; eauto.
      - rewrite R2. left. split; [reflexivity|]. split; [reflexivity|]. apply closed_inv_unrec. assumption.
      - rewrite R2. left. split; [reflexivity|]. split; [reflexivity|].
        destruct IH as [[_ [_ H3]]|[i [H1 _]]]; [apply closed_inv_ext; assumption|].
        apply open_inv_recorded in H1. congruence. }
    destruct e as [now r| |]; try discriminate.
    rewrite (step_groups mods h j now r Hj k).
    pose proof (step_status_of h j now r Hj k) as Hso.
    pose proof (step_recorded h j now r Hj k) as Hrec.
    destruct (live_resp (state_at mods h j) r && nkey_eqb k (resp_key r)) eqn:Elive.
    2:{ (* dropped, or a response for another group *)
      assert (Hnl : ~ live_at h k j).
      { intros Hl. apply (step_live_at mods h j now r Hj) in Hl. destruct Hl as [-> Hl].
        rewrite Hl, nkey_eqb_refl in Elive. discriminate. }
      assert (Hnb : ~ bad_at h k j) by (intros [s [H1 H2]]; apply Hnl; exists s; split; [assumption|lia]).
      assert (Hno : ~ ok_at h k j) by (intros H1; apply Hnl; exists 1; split; [assumption|lia]).
      destruct IH as [[H1 [H2 H3]]|[i [H1 [H2 H3]]]].
      - left. split; [assumption|]. split; [assumption|]. apply closed_inv_ext; assumption.
      - right. exists i. split; [|split; assumption]. apply open_inv_ext; [assumption|assumption|].
        rewrite Hrec. eapply open_inv_recorded; eauto. }
    apply andb_true_iff in Elive. destruct Elive as [Elive Ek]. apply nkey_eqb_eq in Ek. subst k.
    pose proof Elive as Elive'. rewrite (step_live mods h j r) in Elive'.
    apply andb_true_iff in Elive'. destruct Elive' as [E0 Er].
    rewrite nkey_eqb_refl, Er in Hso. simpl in Hso. rewrite Er in Hrec.
    destruct (group_step_spec mods (c_groups (state_at mods h j) (resp_key r)) (c_next (state_at mods h j)) now r Hnd)
      as [Gs [Gi _]].
    rewrite Gs, Gi. clear Gs Gi.
    destruct (nr_status r =? 1) eqn:E1.
    { left. split; [reflexivity|]. split; [reflexivity|]. apply closed_inv_close.
      unfold ok_at. rewrite Hso. apply Z.eqb_eq in E1. congruence. }
    apply Z.eqb_neq in E1.
    assert (Hno : ~ ok_at h (resp_key r) j).
    { unfold ok_at. rewrite Hso. intros H1; inversion H1. contradiction. }
    unfold start1, id1, opening_flag.
    destruct IH as [[H1 [H2 H3]]|[i [H1 [H2 H3]]]].
    + rewrite H1. simpl. destruct (1 <? nr_status r) eqn:E2.
      * right. exists j. split.
        { apply open_inv_start; [assumption| |assumption]. exists (nr_status r). split; [assumption|]. apply Z.ltb_lt; assumption. }
        rewrite (step_clock h j now r Hj). split; reflexivity.
      * left. split; [reflexivity|]. split; [assumption|]. apply closed_inv_ext; [assumption|].
        intros [s [Hs1 Hs2]]. rewrite Hso in Hs1. inversion Hs1. subst. apply Z.ltb_ge in E2. lia.
    + rewrite H2. simpl. right. exists i. split; [apply open_inv_ext; assumption|]. split; [reflexivity|assumption].
Qed.

(* ------------------------------------------------------------------------------------------------ *)
(* The calls of one result, in terms of the group's record before it                                *)
(* ------------------------------------------------------------------------------------------------ *)

Lemma calls_at_resp mods h j c :
  In c (calls_at mods h j) -> exists now r, nth_error h j = Some (HResponse now r).
Proof.
  intros Hc. destruct (nth_error h j) as [e|] eqn:Hj; [|unfold calls_at in Hc; rewrite Hj in Hc; contradiction].
  destruct (is_resp e) eqn:He.
  - destruct e as [now r| |]; try discriminate. eauto.
  - rewrite (other_calls mods h j e Hj He) in Hc. contradiction.
Qed.

Lemma calls_at_from mods h j now r c :
  names_distinct mods -> nth_error h j = Some (HResponse now r) -> In c (calls_at mods h j) ->
  let g := c_groups (state_at mods h j) (resp_key r) in
  let next := c_next (state_at mods h j) in
  live_resp (state_at mods h j) r = true /\
  exists m, In m mods /\ nc_module c = nm_name m /\
    In c (act_calls (eff_action m r (last1 g r (nm_name m)) now (start1 g now r)) m r
                    (start1 g now r) (id1 g next r)).
Proof.
  intros Hnd Hj Hc. cbv zeta. rewrite (step_calls mods h j now r Hj) in Hc.
  destruct (live_resp (state_at mods h j) r) eqn:E0; [|contradiction]. split; [reflexivity|].
  destruct (group_step_spec mods (c_groups (state_at mods h j) (resp_key r)) (c_next (state_at mods h j)) now r Hnd)
    as [_ [_ [_ [_ H]]]].
  apply H. assumption.
Qed.

Lemma calls_at_module mods h j now r m :
  names_distinct mods -> nth_error h j = Some (HResponse now r) -> In m mods ->
  let g := c_groups (state_at mods h j) (resp_key r) in
  let next := c_next (state_at mods h j) in
  calls_of (nm_name m) (calls_at mods h j) =
  if live_resp (state_at mods h j) r
  then act_calls (eff_action m r (last1 g r (nm_name m)) now (start1 g now r)) m r (start1 g now r) (id1 g next r)
  else [].
Proof.
  intros Hnd Hj Hm. cbv zeta. rewrite (step_calls mods h j now r Hj).
  destruct (live_resp (state_at mods h j) r); [|reflexivity].
  destruct (group_step_spec mods (c_groups (state_at mods h j) (resp_key r)) (c_next (state_at mods h j)) now r Hnd)
    as [_ [_ [_ [H _]]]].
  apply H. assumption.
Qed.

Lemma step_last mods h j now r m :
  names_distinct mods -> nth_error h j = Some (HResponse now r) -> In m mods ->
  live_resp (state_at mods h j) r = true ->
  let g := c_groups (state_at mods h j) (resp_key r) in
  g_last (c_groups (state_at mods h (S j)) (resp_key r)) (nm_name m) =
  new_last (eff_action m r (last1 g r (nm_name m)) now (start1 g now r)) (last1 g r (nm_name m)) now.
Proof.
  intros Hnd Hj Hm H0. cbv zeta. rewrite (step_groups mods h j now r Hj).
  rewrite H0, nkey_eqb_refl. simpl.
  destruct (group_step_spec mods (c_groups (state_at mods h j) (resp_key r)) (c_next (state_at mods h j)) now r Hnd)
    as [_ [_ [_ [H _]]]].
  apply H. assumption.
Qed.

(* a live result of group k, unpacked *)
Lemma live_at_step mods h k j :
  live_at h k j -> exists now r, nth_error h j = Some (HResponse now r) /\ resp_key r = k /\
                                 live_resp (state_at mods h j) r = true.
Proof.
  intros Hl. pose proof Hl as [s [H1 H2]]. unfold status_of in H1.
  destruct (nth_error h j) as [[now r|? ? ?|? ?]|] eqn:E; try discriminate.
  exists now, r. split; [reflexivity|].
  apply (step_live_at mods h j now r E) in Hl. destruct Hl as [-> Hl]. auto.
Qed.

Lemma live_resp_status st r : live_resp st r = true -> nr_status r <> 0.
Proof. unfold live_resp. intros H. apply andb_true_iff in H. destruct H as [H _]. apply negb_true_iff in H. apply Z.eqb_neq. assumption. Qed.

Lemma member_open_inv h k i j : opens h k i -> member h k i j -> (i < j)%nat -> open_inv h k i j.
Proof. intros Ho [_ [_ [H3 H4]]] Hlt. split; [assumption|]. split; [assumption|]. split; assumption. Qed.

(* The record a member result of an incident finds: the incident's start clock and id (drawn at the opening). *)
Lemma member_step mods h k i j :
  names_distinct mods -> opens h k i -> member h k i j ->
  exists now r, nth_error h j = Some (HResponse now r) /\ resp_key r = k /\ live_resp (state_at mods h j) r = true /\
    let g := c_groups (state_at mods h j) k in
    start1 g now r = Some (clock_at h i) /\
    id1 g (c_next (state_at mods h j)) r = Some (c_next (state_at mods h i)) /\
    ((i = j /\ opening_flag g r = true) \/ (i < j /\ opening_flag g r = false /\ g_start g = Some (clock_at h i)))%nat.
Proof.
  intros Hnd Ho Hm. pose proof Hm as [Hle [Hlive [Hnook Hlisted]]].
  destruct (live_at_step mods h k j Hlive) as [now [r [Hj [Hk H0]]]].
  exists now, r. split; [assumption|]. split; [assumption|]. split; [assumption|]. cbv zeta.
  assert (Hlen : (j <= length h)%nat).
  { assert (j < length h)%nat; [|lia]. apply nth_error_Some. congruence. }
  pose proof (inv_group_holds mods h Hnd j Hlen k) as Hinv. unfold inv_group in Hinv. cbv zeta in Hinv.
  unfold start1, id1, opening_flag.
  destruct (Nat.eq_dec i j) as [->|Hne].
  - destruct Hinv as [[H1 [H2 H3]]|[i0 [H1 _]]].
    + rewrite H1. simpl.
      assert (E : 1 <? nr_status r = true).
      { destruct Ho as [[s [Hs1 Hs2]] _]. pose proof (status_of_recorded h k j s Hs1) as Hr.
        rewrite (step_status_of h j now r Hj k) in Hs1.
        rewrite <- Hk in Hs1, Hr. rewrite nkey_eqb_refl, Hr in Hs1. inversion Hs1. apply Z.ltb_lt. lia. }
      rewrite E. rewrite (step_clock h j now r Hj). split; [reflexivity|]. split; [reflexivity|]. left. auto.
    + exfalso. destruct H1 as [A1 [[Ab _] [A3 A4]]]. destruct Ho as [_ Ho].
      destruct (Ho i0 A1 Ab) as [l [Hl [Hok|Hr]]]; [apply (A3 l); [lia|assumption]|].
      rewrite A4 in Hr by lia. discriminate.
  - assert (Hlt : (i < j)%nat) by lia.
    pose proof (member_open_inv h k i j Ho Hm Hlt) as Hopen.
    destruct Hinv as [[H1 [H2 H3]]|[i0 [H1 [H2 H3]]]].
    + exfalso. eapply open_closed_excl; eauto.
    + assert (i0 = i) by (eapply open_inv_unique; eauto). subst i0.
      rewrite H2. simpl. split; [reflexivity|]. split; [assumption|]. right. auto.
Qed.

(* ================================================================================================ *)
(* C13                                                                                              *)
(* ================================================================================================ *)

(* The id of the incident opened by result i: the counter value when that result is handled. *)
Definition incident_id (mods : list nmod) (h : nhist) (i : nat) : Z := c_next (state_at mods h i).

Lemma act_calls_fields a m r start id c :
  In c (act_calls a m r start id) ->
  nc_module c = nm_name m /\ nc_cluster c = nr_cluster r /\ nc_group c = nr_group r /\ nc_status c = nr_status r /\
  nc_id c = id /\ nc_start c = start /\ (nc_good c = true <-> a = ActClose) /\ (nc_good c = false <-> a = ActOpen).
Proof.
  destruct a; simpl; intros H; try contradiction; destruct H as [<-|[]]; simpl;
    repeat split; auto; intros; discriminate.
Qed.

(* Every notification made by a result of an incident - the closing OK included - carries the incident's id and
   the clock of the opening result as start time, and is about the group of that result; group-list refreshes that
   keep listing the group, at any point of the incident, change nothing of this. *)
Theorem incident_identity mods h k i j c :
  names_distinct mods -> opens h k i -> member h k i j -> In c (calls_at mods h j) ->
  nc_id c = Some (incident_id mods h i) /\ nc_start c = Some (clock_at h i) /\
  (nc_cluster c, nc_group c) = k.
Proof.
  intros Hnd Ho Hm Hc.
  destruct (member_step mods h k i j Hnd Ho Hm) as [now [r [Hj [Hk [H0 [Hs [Hi _]]]]]]].
  destruct (calls_at_from mods h j now r c Hnd Hj Hc) as [_ [m [Hmm [Hn Hin]]]].
  rewrite Hk in Hin. rewrite Hs, Hi in Hin.
  apply act_calls_fields in Hin. destruct Hin as [_ [Hcl [Hgr [_ [Hid [Hst _]]]]]].
  unfold incident_id. rewrite Hid, Hst, Hcl, Hgr. split; [reflexivity|]. split; [reflexivity|].
  rewrite <- Hk. reflexivity.
Qed.

(* fresh draws: the counter never decreases and every opening result advances it *)
Lemma c_next_step mods h j :
  names_distinct mods -> (c_next (state_at mods h j) <= c_next (state_at mods h (S j))).
Proof.
  intros Hnd. destruct (nth_error h j) as [e|] eqn:Hj.
  - destruct (is_resp e) eqn:He.
    + destruct e as [now r| |]; try discriminate.
      rewrite (step_next mods h j now r Hj). destruct (live_resp (state_at mods h j) r); [|lia].
      destruct (group_step_spec mods (c_groups (state_at mods h j) (resp_key r)) (c_next (state_at mods h j)) now r Hnd)
        as [_ [_ [H _]]].
      rewrite H. destruct (opening_flag _ r); lia.
    + rewrite (other_next mods h j e Hj He). lia.
  - rewrite (state_at_past mods h j Hj). lia.
Qed.

Lemma c_next_mono mods h : names_distinct mods -> forall a b, (a <= b)%nat ->
  c_next (state_at mods h a) <= c_next (state_at mods h b).
Proof.
  intros Hnd a b Hab. induction Hab; [lia|].
  pose proof (c_next_step mods h m Hnd). lia.
Qed.

Lemma member_self h k i : opens h k i -> member h k i i.
Proof.
  intros [Hb _]. pose proof Hb as [s [Hs1 Hs2]]. split; [lia|]. split; [exists s; split; [assumption|lia]|].
  split; [intros l Hl; lia|]. intros l Hl. assert (l = i) by lia. subst. apply bad_recorded. assumption.
Qed.

Lemma c_next_opening mods h k i :
  names_distinct mods -> opens h k i -> c_next (state_at mods h (S i)) = c_next (state_at mods h i) + 1.
Proof.
  intros Hnd Ho.
  destruct (member_step mods h k i i Hnd Ho (member_self h k i Ho)) as [now [r [Hj [Hk [H0 [_ [_ Hcase]]]]]]].
  destruct Hcase as [[_ Hop]|[Hlt _]]; [|lia].
  rewrite (step_next mods h i now r Hj). rewrite H0.
  destruct (group_step_spec mods (c_groups (state_at mods h i) (resp_key r)) (c_next (state_at mods h i)) now r Hnd)
    as [_ [_ [H _]]].
  rewrite H. rewrite Hk. rewrite Hop. reflexivity.
Qed.

(* Different incidents - of the same group or of different groups - have different ids. *)
Theorem incident_ids_distinct_id mods h k1 i1 k2 i2 :
  names_distinct mods -> opens h k1 i1 -> opens h k2 i2 -> i1 <> i2 ->
  incident_id mods h i1 <> incident_id mods h i2.
Proof.
  intros Hnd Ho1 Ho2 Hne. unfold incident_id.
  destruct (Nat.lt_trichotomy i1 i2) as [Hlt|[E|Hlt]]; [|contradiction|].
  - pose proof (c_next_opening mods h k1 i1 Hnd Ho1).
    pose proof (c_next_mono mods h Hnd (S i1) i2 ltac:(lia)). lia.
  - pose proof (c_next_opening mods h k2 i2 Hnd Ho2).
    pose proof (c_next_mono mods h Hnd (S i2) i1 ltac:(lia)). lia.
Qed.

(* observable form: two notifications made during different incidents never carry the same event id *)
Theorem incident_ids_distinct mods h k1 i1 j1 c1 k2 i2 j2 c2 :
  names_distinct mods ->
  opens h k1 i1 -> member h k1 i1 j1 -> In c1 (calls_at mods h j1) ->
  opens h k2 i2 -> member h k2 i2 j2 -> In c2 (calls_at mods h j2) ->
  i1 <> i2 -> nc_id c1 <> nc_id c2.
Proof.
  intros Hnd Ho1 Hm1 Hc1 Ho2 Hm2 Hc2 Hne.
  destruct (incident_identity mods h k1 i1 j1 c1 Hnd Ho1 Hm1 Hc1) as [E1 _].
  destruct (incident_identity mods h k2 i2 j2 c2 Hnd Ho2 Hm2 Hc2) as [E2 _].
  rewrite E1, E2. intros E. injection E as E.
  exact (incident_ids_distinct_id mods h k1 i1 k2 i2 Hnd Ho1 Ho2 Hne E).
Qed.

Lemma decide_close_iff m last now s start :
  decide m last now s start = ActClose <-> (is_some start = true /\ s = 1 /\ nm_close m = true).
Proof.
  unfold decide. split.
  - destruct (is_some start && (s =? 1) && nm_close m) eqn:E.
    + intros _. apply andb_true_iff in E. destruct E as [E E3]. apply andb_true_iff in E. destruct E as [E1 E2].
      apply Z.eqb_eq in E2. auto.
    + destruct (s <? nm_threshold m); [discriminate|].
      destruct (is_some last && nm_once m); [discriminate|].
      destruct (interval_elapsed now last (nm_interval m)); discriminate.
  - intros [H1 [H2 H3]]. subst s. rewrite H1, H3. reflexivity.
Qed.

Lemma close_calls_calls_of n cs : close_calls n cs = filter nc_good (calls_of n cs).
Proof.
  unfold close_calls, calls_of. induction cs as [|c cs IH]; simpl; [reflexivity|].
  destruct (nc_module c =? n); simpl; [|assumption].
  destruct (nc_good c); simpl; [f_equal|]; assumption.
Qed.

Lemma ok_at_status h k j now r :
  nth_error h j = Some (HResponse now r) -> resp_key r = k -> ok_at h k j -> nr_status r = 1.
Proof.
  intros Hj Hk Hok. unfold ok_at in Hok. pose proof (status_of_recorded h k j 1 Hok) as Hr.
  rewrite (step_status_of h j now r Hj k) in Hok. rewrite <- Hk in Hok, Hr.
  rewrite nkey_eqb_refl, Hr in Hok. inversion Hok. reflexivity.
Qed.

(* At the closing OK of an incident every module whose lists accept the group, whose AcceptConsumerGroup agrees and
   that is configured with send-close receives exactly one close notification, carrying the incident's id and start
   time; every other module receives none. *)
Theorem close_exactly_once mods h k i j m :
  names_distinct mods -> opens h k i -> member h k i j -> ok_at h k j -> In m mods ->
  close_calls (nm_name m) (calls_at mods h j) =
  if lists_accept (nm_lists m (snd k)) && nm_accept_group m && nm_close m
  then [mkNcall (nm_name m) (fst k) (snd k) 1 (Some (incident_id mods h i)) (Some (clock_at h i)) true]
  else [].
Proof.
  intros Hnd Ho Hm Hok Hin.
  destruct (member_step mods h k i j Hnd Ho Hm) as [now [r [Hj [Hk [H0 [Hs [Hi Hcase]]]]]]].
  pose proof (ok_at_status h k j now r Hj Hk Hok) as E1.
  rewrite close_calls_calls_of, (calls_at_module mods h j now r m Hnd Hj Hin).
  rewrite H0. rewrite Hk, Hs, Hi.
  unfold eff_action, module_accepts. rewrite <- Hk. simpl snd. simpl fst.
  destruct (lists_accept (nm_lists m (nr_group r)) && nm_accept_group m); simpl; [|reflexivity].
  destruct (nm_close m) eqn:Ec.
  - assert (Hd : decide m (last1 (c_groups (state_at mods h j) (resp_key r)) r (nm_name m)) now (nr_status r)
                        (Some (clock_at h i)) = ActClose).
    { apply decide_close_iff. rewrite E1. auto. }
    rewrite Hd. simpl. unfold mk_call, incident_id. rewrite E1. reflexivity.
  - destruct (decide m (last1 (c_groups (state_at mods h j) (resp_key r)) r (nm_name m)) now (nr_status r)
                     (Some (clock_at h i))) eqn:Hd; simpl; try reflexivity.
    apply decide_close_iff in Hd. destruct Hd as [_ [_ Hd]]. congruence.
Qed.

(* A close notification is only ever made by the closing OK of an open incident, to a module with send-close whose
   lists accept the group: no close for a group that has no open incident. *)
Theorem no_close_without_incident mods h j c :
  names_distinct mods -> In c (calls_at mods h j) -> nc_good c = true ->
  exists k i m, opens h k i /\ member h k i j /\ ok_at h k j /\ (nc_cluster c, nc_group c) = k /\
                In m mods /\ nm_name m = nc_module c /\ nm_close m = true /\
                lists_accept (nm_lists m (snd k)) = true /\ nm_accept_group m = true.
Proof.
  intros Hnd Hc Hgood.
  destruct (calls_at_resp mods h j c Hc) as [now [r Hj]].
  destruct (calls_at_from mods h j now r c Hnd Hj Hc) as [H0 [m [Hm [Hn Hin]]]].
  apply act_calls_fields in Hin. destruct Hin as [_ [Hcl [Hgr [_ [_ [_ [Hg _]]]]]]].
  apply Hg in Hgood. clear Hg.
  unfold eff_action in Hgood. destruct (module_accepts m r) eqn:Hacc; [|discriminate].
  apply decide_close_iff in Hgood. destruct Hgood as [Hs [E1 Hclose]].
  assert (Hflag : opening_flag (c_groups (state_at mods h j) (resp_key r)) r = false).
  { unfold opening_flag. rewrite E1. simpl. apply andb_false_r. }
  unfold start1 in Hs. rewrite Hflag in Hs.
  assert (Hlen : (j <= length h)%nat).
  { assert (j < length h)%nat; [|lia]. apply nth_error_Some. congruence. }
  pose proof (inv_group_holds mods h Hnd j Hlen (resp_key r)) as Hinv. unfold inv_group in Hinv. cbv zeta in Hinv.
  destruct Hinv as [[H1 _]|[i [[A1 [A2 [A3 A4]]] _]]]; [rewrite H1 in Hs; discriminate|].
  assert (Hrec : recorded h (resp_key r) j = true) by (apply A4; lia).
  assert (Hso : status_of h (resp_key r) j = Some 1).
  { rewrite (step_status_of h j now r Hj). rewrite nkey_eqb_refl, Hrec. simpl. congruence. }
  unfold module_accepts in Hacc. apply andb_true_iff in Hacc. destruct Hacc as [Hl Hag].
  exists (resp_key r), i, m. split; [assumption|]. split.
  { split; [lia|]. split; [exists 1; split; [assumption|lia]|]. split; assumption. }
  split; [exact Hso|]. split; [unfold resp_key; congruence|].
  split; [assumption|]. split; [auto|]. split; [assumption|]. split; assumption.
Qed.

(* Frame: a response changes no other group's record, and what it does depends only on its own group's record and
   on the id counter. *)
Theorem groups_independent mods st now r k' :
  k' <> resp_key r -> c_groups (fst (on_response mods st now r)) k' = c_groups st k'.
Proof.
  intros Hne. unfold on_response, on_response_gen. destruct (live_resp st r); [|reflexivity].
  simpl. apply nkey_eqb_neq in Hne. rewrite Hne. reflexivity.
Qed.

Theorem response_local mods st1 st2 now r :
  c_groups st1 (resp_key r) = c_groups st2 (resp_key r) -> c_reg st1 (resp_key r) = c_reg st2 (resp_key r) ->
  c_next st1 = c_next st2 ->
  snd (on_response mods st1 now r) = snd (on_response mods st2 now r) /\
  c_groups (fst (on_response mods st1 now r)) (resp_key r) = c_groups (fst (on_response mods st2 now r)) (resp_key r) /\
  c_next (fst (on_response mods st1 now r)) = c_next (fst (on_response mods st2 now r)).
Proof.
  intros Hg Hr Hn. unfold on_response, on_response_gen, live_resp. rewrite Hr.
  destruct (negb (nr_status r =? 0) && c_reg st2 (resp_key r)).
  - simpl. rewrite nkey_eqb_refl, Hg, Hn. auto.
  - simpl. auto.
Qed.

(* ---- what happens to an incident whose group leaves the list ---- *)

(* two incidents opened by the same result are the same incident *)
Lemma opens_same_key h k1 k2 i : opens h k1 i -> opens h k2 i -> k1 = k2.
Proof.
  intros [[s1 [H1 _]] _] [[s2 [H2 _]] _]. unfold status_of in *.
  destruct (nth_error h i) as [[now r|? ? ?|? ?]|]; try discriminate.
  destruct (nkey_eqb k1 (resp_key r)) eqn:E1; [|discriminate].
  destruct (nkey_eqb k2 (resp_key r)) eqn:E2; [|discriminate].
  apply nkey_eqb_eq in E1. apply nkey_eqb_eq in E2. congruence.
Qed.

(* Whatever notification carries an event id carries the id of an incident to which the notifying result belongs:
   an id is never used outside its incident - in particular not after the group has left the list. *)
Theorem call_id_belongs mods h j c x :
  names_distinct mods -> In c (calls_at mods h j) -> nc_id c = Some x ->
  exists k i, opens h k i /\ member h k i j /\ x = incident_id mods h i /\ (nc_cluster c, nc_group c) = k.
Proof.
  intros Hnd Hc Hid.
  destruct (calls_at_resp mods h j c Hc) as [now [r Hj]].
  destruct (calls_at_from mods h j now r c Hnd Hj Hc) as [H0 [m [Hm [Hn Hin]]]].
  apply act_calls_fields in Hin. destruct Hin as [_ [Hcl [Hgr [_ [Hid' _]]]]].
  assert (Hlen : (j <= length h)%nat).
  { assert (j < length h)%nat; [|lia]. apply nth_error_Some. congruence. }
  assert (Hlive : live_at h (resp_key r) j) by (apply (step_live_at mods h j now r Hj); auto).
  pose proof (inv_group_holds mods h Hnd j Hlen (resp_key r)) as Hinv. unfold inv_group in Hinv. cbv zeta in Hinv.
  assert (Hkey : (nc_cluster c, nc_group c) = resp_key r) by (unfold resp_key; congruence).
  unfold id1, opening_flag in Hid'.
  destruct Hinv as [[H1 [H2 H3]]|[i [H1 [H2 H3]]]].
  - rewrite H1, H2 in Hid'. simpl in Hid'.
    destruct (1 <? nr_status r) eqn:E; [|congruence].
    assert (Hb : bad_at h (resp_key r) j).
    { destruct Hlive as [s [Hs1 Hs2]]. exists s. split; [assumption|].
      pose proof (status_of_recorded _ _ _ _ Hs1) as Hr.
      rewrite (step_status_of h j now r Hj), nkey_eqb_refl, Hr in Hs1. inversion Hs1. subst s. apply Z.ltb_lt. assumption. }
    pose proof (closed_opens h (resp_key r) j H3 Hb) as Ho.
    exists (resp_key r), j. split; [assumption|]. split; [apply member_self; assumption|].
    split; [unfold incident_id; congruence|assumption].
  - rewrite H2 in Hid'. simpl in Hid'. rewrite H3 in Hid'.
    destruct H1 as [A1 [A2 [A3 A4]]].
    exists (resp_key r), i. split; [assumption|]. split.
    { split; [lia|]. split; [assumption|]. split; assumption. }
    split; [unfold incident_id; congruence|assumption].
Qed.

(* A group that leaves the list while its incident is open: from then on no notification of any kind - in particular
   no close - carries that incident's id, however the history continues. *)
Theorem dropped_incident_never_notified mods h k i l j c :
  names_distinct mods -> opens h k i -> (i <= l <= j)%nat -> recorded h k l = false ->
  In c (calls_at mods h j) -> nc_id c <> Some (incident_id mods h i).
Proof.
  intros Hnd Ho Hl Hr Hc Hid.
  destruct (call_id_belongs mods h j c _ Hnd Hc Hid) as [k' [i' [Ho' [Hm' [Heq _]]]]].
  destruct (Nat.eq_dec i i') as [<-|Hne].
  - assert (k' = k) by (eapply opens_same_key; eauto). subst k'.
    destruct Hm' as [_ [_ [_ Hlisted]]]. rewrite Hlisted in Hr by lia. discriminate.
  - exact (incident_ids_distinct_id mods h k i k' i' Hnd Ho Ho' Hne Heq).
Qed.

(* ... and the first worse-than-OK result after the group is back on the list opens a new incident, with a new id
   and its own clock as start time (by incident_identity), whatever became of the old one. *)
Theorem relisted_opens_new_incident mods h k i l i2 :
  names_distinct mods -> opens h k i -> (i < l < i2)%nat -> recorded h k l = false ->
  bad_at h k i2 -> (forall i', (l < i' < i2)%nat -> ~ bad_at h k i') ->
  opens h k i2 /\ incident_id mods h i2 <> incident_id mods h i.
Proof.
  intros Hnd Ho Hl Hr Hb Hnone.
  assert (Ho2 : opens h k i2).
  { split; [assumption|]. intros i' Hi' Hb'.
    destruct (Nat.lt_trichotomy i' l) as [Hlt|[->|Hgt]].
    - exists l. split; [lia|right; assumption].
    - rewrite (bad_recorded h k l Hb') in Hr. discriminate.
    - exfalso. apply (Hnone i'); [lia|assumption]. }
  split; [assumption|]. apply (incident_ids_distinct_id mods h k i2 k i Hnd Ho2 Ho). lia.
Qed.

(* ================================================================================================ *)
(* C14 (and the gating facts used by C10)                                                           *)
(* ================================================================================================ *)

Lemma decide_open m last now s start :
  decide m last now s start = ActOpen ->
  nm_threshold m <= s /\ (is_some last = true -> nm_once m = false) /\
  interval_elapsed now last (nm_interval m) = true.
Proof.
  unfold decide.
  destruct (is_some start && (s =? 1) && nm_close m); [discriminate|].
  destruct (s <? nm_threshold m) eqn:E1; [discriminate|].
  destruct (is_some last && nm_once m) eqn:E2; [discriminate|].
  destruct (interval_elapsed now last (nm_interval m)) eqn:E3; [|discriminate].
  intros _. apply Z.ltb_ge in E1. split; [assumption|]. split; [|reflexivity].
  intros H. rewrite H in E2. simpl in E2. assumption.
Qed.

Lemma decide_open_none m now s start :
  s <> 1 -> nm_threshold m <= s -> decide m None now s start = ActOpen.
Proof.
  intros H1 H2. unfold decide. apply Z.eqb_neq in H1. rewrite H1, andb_false_r. simpl.
  apply Z.ltb_ge in H2. rewrite H2. reflexivity.
Qed.

Lemma eff_action_open m r last now start :
  eff_action m r last now start = ActOpen ->
  module_accepts m r = true /\ decide m last now (nr_status r) start = ActOpen.
Proof. unfold eff_action. destruct (module_accepts m r); [auto|discriminate]. Qed.

(* an open notification to module m by result j, in terms of the record before it *)
Lemma open_call_iff mods h j now r m :
  names_distinct mods -> nth_error h j = Some (HResponse now r) -> In m mods ->
  let g := c_groups (state_at mods h j) (resp_key r) in
  open_call mods h j (nm_name m) <->
  (live_resp (state_at mods h j) r = true /\ eff_action m r (last1 g r (nm_name m)) now (start1 g now r) = ActOpen).
Proof.
  intros Hnd Hj Hm. cbv zeta.
  pose proof (calls_at_module mods h j now r m Hnd Hj Hm) as Hc. cbv zeta in Hc.
  split.
  - intros [c [Hin [Hn Hg]]].
    assert (Hin' : In c (calls_of (nm_name m) (calls_at mods h j))).
    { unfold calls_of. apply filter_In. split; [assumption|]. apply Z.eqb_eq. assumption. }
    rewrite Hc in Hin'. destruct (live_resp (state_at mods h j) r) eqn:E0; [|contradiction].
    split; [reflexivity|].
    apply act_calls_fields in Hin'. destruct Hin' as [_ [_ [_ [_ [_ [_ [_ Hopen]]]]]]]. apply Hopen. assumption.
  - intros [H0 Ha]. rewrite H0, Ha in Hc. simpl in Hc.
    set (c := mk_call m r (start1 (c_groups (state_at mods h j) (resp_key r)) now r)
                      (id1 (c_groups (state_at mods h j) (resp_key r)) (c_next (state_at mods h j)) r) false) in *.
    assert (Hin : In c (calls_of (nm_name m) (calls_at mods h j))) by (rewrite Hc; simpl; auto).
    unfold calls_of in Hin. apply filter_In in Hin. destruct Hin as [Hin _].
    exists c. split; [assumption|]. split; reflexivity.
Qed.

Lemma dur_sat_gt x d : 0 <= d -> d < dur_sat x -> d < x.
Proof.
  unfold dur_sat. intros Hd H.
  destruct (Z.ltb_spec x (- two63)); [unfold two63 in *; lia|].
  destruct (Z.leb_spec two63 x); unfold two63 in *; lia.
Qed.

Definition interval_fits (m : nmod) : Prop := 0 <= nm_interval m * 1000000000 < two63.

Lemma interval_elapsed_some m now t :
  interval_fits m -> interval_elapsed now (Some t) (nm_interval m) = true ->
  nm_interval m * 1000000000 < now - t.
Proof.
  unfold interval_fits, interval_elapsed, mul64. intros Hf H. apply Z.ltb_lt in H.
  rewrite wrap64_id in H by (unfold in_i64, two63 in *; lia).
  apply dur_sat_gt; [lia|assumption].
Qed.

(* While an incident is open (and its group on the list), a module's remembered time is exactly the trace of its
   open notifications during this incident (the fix for F3 is what makes the first half true; that a refresh keeps
   the record of a listed group is what carries it across refreshes). *)
Definition last_inv (mods : list nmod) (h : nhist) (k : nkey) (i j : nat) : Prop :=
  forall m, In m mods ->
    let g := c_groups (state_at mods h j) k in
    (forall t, g_last g (nm_name m) = Some t ->
       exists p, member h k i p /\ (p < j)%nat /\ open_call mods h p (nm_name m)) /\
    (forall p, member h k i p -> (p < j)%nat -> open_call mods h p (nm_name m) ->
       exists t, g_last g (nm_name m) = Some t /\ (interval_fits m -> clock_at h p <= t)).

Lemma last_inv_holds mods h :
  names_distinct mods ->
  forall j k i, (j <= length h)%nat -> open_inv h k i j -> last_inv mods h k i j.
Proof.
  intros Hnd. induction j as [|j IH]; intros k i Hlen Hopen.
  { destruct Hopen as [H _]. lia. }
  destruct (nth_error_lt_some h j ltac:(lia)) as [e Hj].
  pose proof Hopen as [Hij [Ho [Hnook Hlisted]]].
  destruct (Nat.eq_dec i j) as [->|Hne].
  - (* result j opened the incident: every remembered time was forgotten *)
    destruct (member_step mods h k j j Hnd Ho (member_self h k j Ho)) as [now [r [Hj' [Hk [H0 [_ [_ Hcase]]]]]]].
    rewrite Hj in Hj'. inversion Hj'; subst e. clear Hj'.
    destruct Hcase as [[_ Hflag]|[Hlt _]]; [|lia].
    intros m Hm. cbv zeta.
    pose proof (step_last mods h j now r m Hnd Hj Hm H0) as Hlast. cbv zeta in Hlast.
    pose proof (open_call_iff mods h j now r m Hnd Hj Hm) as Hoc. cbv zeta in Hoc.
    rewrite Hk in Hlast, Hoc. unfold last1 in Hlast, Hoc. rewrite Hflag in Hlast, Hoc.
    rewrite Hlast. split.
    + intros t Ht. exists j. split; [apply member_self; assumption|]. split; [lia|].
      apply Hoc. split; [assumption|].
      destruct (eff_action m r None now (start1 (c_groups (state_at mods h j) k) now r)); simpl in Ht; try discriminate.
      reflexivity.
    + intros p [Hp1 _] Hp2 Hcall. assert (p = j) by lia. subst p.
      apply Hoc in Hcall. destruct Hcall as [_ Ha]. rewrite Ha. simpl.
      exists now. split; [reflexivity|]. intros _. rewrite (step_clock h j now r Hj). lia.
  - (* the incident was already open before event j *)
    assert (Hlt : (i < j)%nat) by lia.
    pose proof (open_inv_restrict h k i j Hopen Hlt) as Hopen'.
    specialize (IH k i ltac:(lia) Hopen').
    assert (Hnotok : ~ ok_at h k j) by (apply Hnook; lia).
    (* events that leave the record alone: refreshes (the group stays listed), dropped results, other groups' results *)
    assert (Keep : c_groups (state_at mods h (S j)) k = c_groups (state_at mods h j) k -> ~ live_at h k j ->
                   last_inv mods h k i (S j)).
    { intros Hsame Hnl m Hm. cbv zeta. rewrite Hsame. destruct (IH m Hm) as [L1 L2]. split.
      - intros t Ht. destruct (L1 t Ht) as [p [Hp1 [Hp2 Hp3]]]. exists p. split; [assumption|]. split; [lia|assumption].
      - intros p Hp1 Hp2 Hcall. assert (p <> j) by (intros ->; destruct Hp1 as [_ [Hl _]]; contradiction).
        apply L2; [assumption|lia|assumption]. }
    destruct (is_resp e) eqn:He.
    2:{ apply Keep.
        - apply (other_record_kept mods h j e Hj He k); apply Hlisted; lia.
        - intros [s [Hs _]]. rewrite (other_status_of h j e Hj He k) in Hs. discriminate. }
    destruct e as [now r| |]; try discriminate.
    destruct (live_resp (state_at mods h j) r && nkey_eqb k (resp_key r)) eqn:Elive.
    2:{ apply Keep.
        - rewrite (step_groups mods h j now r Hj k), Elive. reflexivity.
        - intros Hl. apply (step_live_at mods h j now r Hj) in Hl. destruct Hl as [-> Hl].
          rewrite Hl, nkey_eqb_refl in Elive. discriminate. }
    apply andb_true_iff in Elive. destruct Elive as [E0 Ek]. apply nkey_eqb_eq in Ek. subst k.
    assert (Hlive : live_at h (resp_key r) j) by (apply (step_live_at mods h j now r Hj); auto).
    assert (Hmem : member h (resp_key r) i j).
    { split; [lia|]. split; [assumption|]. split; [intros l Hl; apply Hnook; lia|intros l Hl; apply Hlisted; lia]. }
    assert (E1 : nr_status r <> 1).
    { intros E. apply Hnotok. destruct Hlive as [s [Hs1 Hs2]]. unfold ok_at.
      pose proof (status_of_recorded _ _ _ _ Hs1) as Hr.
      rewrite (step_status_of h j now r Hj), nkey_eqb_refl, Hr in *. simpl. congruence. }
    destruct (member_step mods h (resp_key r) i j Hnd Ho Hmem) as [now' [r' [Hj' [_ [_ [Hs1 [_ Hcase]]]]]]].
    rewrite Hj in Hj'. inversion Hj'; subst now' r'. clear Hj'.
    destruct Hcase as [[Heq _]|[_ [Hflag _]]]; [lia|].
    intros m Hm. cbv zeta.
    pose proof (step_last mods h j now r m Hnd Hj Hm E0) as Hlast. cbv zeta in Hlast.
    pose proof (open_call_iff mods h j now r m Hnd Hj Hm) as Hoc. cbv zeta in Hoc.
    unfold last1 in Hlast, Hoc. rewrite Hflag in Hlast, Hoc. rewrite Hs1 in Hlast, Hoc.
    destruct (IH m Hm) as [L1 L2].
    set (old := g_last (c_groups (state_at mods h j) (resp_key r)) (nm_name m)) in *.
    destruct (eff_action m r old now (Some (clock_at h i))) eqn:Ha; rewrite Hlast; simpl.
    + (* nothing sent *)
      split.
      * intros t Ht. destruct (L1 t Ht) as [p [Hp1 [Hp2 Hp3]]]. exists p. split; [assumption|]. split; [lia|assumption].
      * intros p Hp1 Hp2 Hcall. destruct (Nat.eq_dec p j) as [->|Hpj].
        { apply Hoc in Hcall. destruct Hcall as [_ Hcall]. discriminate. }
        apply L2; [assumption|lia|assumption].
    + (* a close cannot be sent by a result that is not OK *)
      exfalso. unfold eff_action in Ha. destruct (module_accepts m r); [|discriminate].
      apply decide_close_iff in Ha. destruct Ha as [_ [Ha _]]. contradiction.
    + (* an open notification *)
      split.
      * intros t _. exists j. split; [assumption|]. split; [lia|]. apply Hoc. auto.
      * intros p Hp1 Hp2 Hcall. exists now. split; [reflexivity|]. intros Hfit.
        destruct (Nat.eq_dec p j) as [->|Hpj]; [rewrite (step_clock h j now r Hj); lia|].
        destruct (L2 p Hp1 ltac:(lia) Hcall) as [t0 [Ht0 Hle]]. specialize (Hle Hfit).
        apply eff_action_open in Ha. destruct Ha as [_ Ha]. apply decide_open in Ha.
        destruct Ha as [_ [_ Ha]]. rewrite Ht0 in Ha.
        pose proof (interval_elapsed_some m now t0 Hfit Ha). unfold interval_fits in Hfit. lia.
Qed.

(* Safety 1: an open notification is only made for a live result of a group on the list whose status is at or above the
   module's threshold, by a module whose lists accept the group and whose AcceptConsumerGroup agrees; it reports that
   result's status. *)
Theorem threshold_respected mods h j c :
  names_distinct mods -> In c (calls_at mods h j) -> nc_good c = false ->
  exists now r m, nth_error h j = Some (HResponse now r) /\ In m mods /\ nm_name m = nc_module c /\
    nc_status c = nr_status r /\ nr_status r <> 0 /\ recorded h (resp_key r) j = true /\
    (nc_cluster c, nc_group c) = resp_key r /\
    nm_threshold m <= nr_status r /\
    lists_accept (nm_lists m (nr_group r)) = true /\ nm_accept_group m = true.
Proof.
  intros Hnd Hc Hgood.
  destruct (calls_at_resp mods h j c Hc) as [now [r Hj]].
  destruct (calls_at_from mods h j now r c Hnd Hj Hc) as [H0 [m [Hm [Hn Hin]]]].
  apply act_calls_fields in Hin. destruct Hin as [_ [Hcl [Hgr [Hst [_ [_ [_ Hopen]]]]]]].
  apply Hopen in Hgood. apply eff_action_open in Hgood. destruct Hgood as [Hacc Hd].
  apply decide_open in Hd. destruct Hd as [Hthr _].
  unfold module_accepts in Hacc. apply andb_true_iff in Hacc. destruct Hacc as [Hl Hag].
  pose proof (live_resp_status _ _ H0) as Hs0.
  rewrite (step_live mods h j r) in H0. apply andb_true_iff in H0. destruct H0 as [_ Hrec].
  exists now, r, m. repeat split; auto. unfold resp_key. congruence.
Qed.

(* Liveness: every incident whose status reaches a module's threshold is announced to that module (if its lists
   accept the group) - at the latest by the first result that reaches the threshold.  This includes the second and
   later incidents of a group, whatever send-once, send-interval and send-close say, and whatever refreshes happen. *)
Theorem every_incident_announced mods h k i j m s :
  names_distinct mods -> opens h k i -> member h k i j -> In m mods ->
  status_of h k j = Some s -> nm_threshold m <= s ->
  lists_accept (nm_lists m (snd k)) = true -> nm_accept_group m = true ->
  exists p, member h k i p /\ (p <= j)%nat /\ open_call mods h p (nm_name m).
Proof.
  intros Hnd Ho Hm Hin Hs Hthr Hl Hag.
  (* first for a result that is not the closing OK *)
  assert (Main : forall j s, member h k i j -> status_of h k j = Some s -> s <> 1 -> nm_threshold m <= s ->
                   exists p, member h k i p /\ (p <= j)%nat /\ open_call mods h p (nm_name m)).
  { clear j s Hm Hs Hthr. intros j s Hm Hs Hs1 Hthr.
    destruct (member_step mods h k i j Hnd Ho Hm) as [now [r [Hj [Hk [H0 [Hst [_ Hcase]]]]]]].
    assert (Es : nr_status r = s).
    { pose proof (status_of_recorded _ _ _ _ Hs) as Hr.
      rewrite (step_status_of h j now r Hj k) in Hs. rewrite <- Hk in Hs, Hr. rewrite nkey_eqb_refl, Hr in Hs.
      simpl in Hs. congruence. }
    assert (Hacc : module_accepts m r = true).
    { unfold module_accepts. rewrite <- Hk in Hl. simpl in Hl. rewrite Hl, Hag. reflexivity. }
    pose proof (open_call_iff mods h j now r m Hnd Hj Hin) as Hoc. cbv zeta in Hoc. rewrite Hk, Hst in Hoc.
    assert (Hnone : last1 (c_groups (state_at mods h j) k) r (nm_name m) = None ->
                    open_call mods h j (nm_name m)).
    { intros E. apply Hoc. split; [assumption|]. rewrite E. unfold eff_action. rewrite Hacc, Es.
      apply decide_open_none; assumption. }
    destruct Hcase as [[Heq Hflag]|[Hlt [Hflag _]]].
    - exists j. split; [assumption|]. split; [lia|]. apply Hnone. unfold last1. rewrite Hflag. reflexivity.
    - destruct (g_last (c_groups (state_at mods h j) k) (nm_name m)) as [t|] eqn:Elast.
      + assert (Hlen : (j <= length h)%nat).
        { assert (j < length h)%nat; [|lia]. apply nth_error_Some. congruence. }
        destruct (last_inv_holds mods h Hnd j k i Hlen (member_open_inv h k i j Ho Hm Hlt) m Hin) as [L1 _].
        destruct (L1 t Elast) as [p [Hp1 [Hp2 Hp3]]]. exists p. split; [assumption|]. split; [lia|assumption].
      + exists j. split; [assumption|]. split; [lia|]. apply Hnone. unfold last1. rewrite Hflag. assumption. }
  destruct (Z.eq_dec s 1) as [->|Hne]; [|eapply Main; eauto].
  (* the closing OK reaches the threshold: so did the opening result *)
  pose proof Ho as [[si [Hsi1 Hsi2]] _].
  destruct (Main i si (member_self h k i Ho) Hsi1 ltac:(lia) ltac:(lia)) as [p [Hp1 [Hp2 Hp3]]].
  destruct Hm as [Hle _]. exists p. split; [assumption|]. split; [lia|assumption].
Qed.

(* Safety 2 and 3 share one fact: after an open notification to m during an incident, m's remembered time is set
   until the incident closes. *)
Lemma later_open_call mods h k i j1 j2 m :
  names_distinct mods -> opens h k i -> member h k i j1 -> member h k i j2 -> (j1 < j2)%nat -> In m mods ->
  open_call mods h j1 (nm_name m) -> open_call mods h j2 (nm_name m) ->
  exists now2 t, clock_at h j2 = now2 /\ (interval_fits m -> clock_at h j1 <= t) /\
    nm_once m = false /\ interval_elapsed now2 (Some t) (nm_interval m) = true.
Proof.
  intros Hnd Ho Hm1 Hm2 Hlt Hin Hc1 Hc2.
  destruct (member_step mods h k i j2 Hnd Ho Hm2) as [now [r [Hj [Hk [H0 [Hst [_ Hcase]]]]]]].
  assert (Hi2 : (i < j2)%nat) by (destruct Hm1 as [H _]; lia).
  destruct Hcase as [[Heq _]|[_ [Hflag _]]]; [lia|].
  assert (Hlen : (j2 <= length h)%nat).
  { assert (j2 < length h)%nat; [|lia]. apply nth_error_Some. congruence. }
  destruct (last_inv_holds mods h Hnd j2 k i Hlen (member_open_inv h k i j2 Ho Hm2 Hi2) m Hin) as [_ L2].
  destruct (L2 j1 Hm1 Hlt Hc1) as [t [Ht Hle]].
  pose proof (open_call_iff mods h j2 now r m Hnd Hj Hin) as Hoc. cbv zeta in Hoc. rewrite Hk in Hoc.
  apply Hoc in Hc2. destruct Hc2 as [_ Ha]. unfold last1 in Ha. rewrite Hflag, Ht in Ha.
  apply eff_action_open in Ha. destruct Ha as [_ Ha]. apply decide_open in Ha. destruct Ha as [_ [Honce Hiv]].
  exists now, t. split; [apply (step_clock h j2 now r Hj)|]. split; [assumption|]. split; [auto|assumption].
Qed.

(* Safety 2: within an incident, two open notifications to the same module are more than send-interval apart. *)
Theorem interval_respected mods h k i j1 j2 m :
  names_distinct mods -> opens h k i -> member h k i j1 -> member h k i j2 -> (j1 < j2)%nat -> In m mods ->
  interval_fits m ->
  open_call mods h j1 (nm_name m) -> open_call mods h j2 (nm_name m) ->
  clock_at h j2 - clock_at h j1 > nm_interval m * 1000000000.
Proof.
  intros Hnd Ho Hm1 Hm2 Hlt Hin Hfit Hc1 Hc2.
  destruct (later_open_call mods h k i j1 j2 m Hnd Ho Hm1 Hm2 Hlt Hin Hc1 Hc2) as [now2 [t [E [Hle [_ Hiv]]]]].
  pose proof (interval_elapsed_some m now2 t Hfit Hiv). specialize (Hle Hfit). lia.
Qed.

(* Safety 3: with send-once a module receives at most one open notification per incident. *)
Theorem send_once_respected mods h k i j1 j2 m c1 c2 :
  names_distinct mods -> opens h k i -> member h k i j1 -> member h k i j2 -> In m mods -> nm_once m = true ->
  In c1 (calls_at mods h j1) -> nc_module c1 = nm_name m -> nc_good c1 = false ->
  In c2 (calls_at mods h j2) -> nc_module c2 = nm_name m -> nc_good c2 = false ->
  j1 = j2 /\ c1 = c2.
Proof.
  intros Hnd Ho Hm1 Hm2 Hin Honce Hc1 Hn1 Hg1 Hc2 Hn2 Hg2.
  assert (O1 : open_call mods h j1 (nm_name m)) by (exists c1; auto).
  assert (O2 : open_call mods h j2 (nm_name m)) by (exists c2; auto).
  destruct (Nat.lt_trichotomy j1 j2) as [Hlt|[->|Hlt]].
  - destruct (later_open_call mods h k i j1 j2 m Hnd Ho Hm1 Hm2 Hlt Hin O1 O2) as [_ [_ [_ [_ [H _]]]]]. congruence.
  - split; [reflexivity|].
    destruct (live_at_step mods h k j2 (proj1 (proj2 Hm2))) as [now [r [Hj _]]].
    pose proof (calls_at_module mods h j2 now r m Hnd Hj Hin) as Hc. cbv zeta in Hc.
    assert (I1 : In c1 (calls_of (nm_name m) (calls_at mods h j2))).
    { unfold calls_of. apply filter_In. split; [assumption|]. apply Z.eqb_eq. assumption. }
    assert (I2 : In c2 (calls_of (nm_name m) (calls_at mods h j2))).
    { unfold calls_of. apply filter_In. split; [assumption|]. apply Z.eqb_eq. assumption. }
    rewrite Hc in I1, I2. destruct (live_resp (state_at mods h j2) r); [|contradiction].
    destruct (eff_action m r _ now _); simpl in I1, I2; try contradiction;
      destruct I1 as [<-|[]]; destruct I2 as [<-|[]]; reflexivity.
  - destruct (later_open_call mods h k i j2 j1 m Hnd Ho Hm2 Hm1 Hlt Hin O2 O1) as [_ [_ [_ [_ [H _]]]]]. congruence.
Qed.

(* ================================================================================================ *)
(* C10, notifier half                                                                               *)
(* ================================================================================================ *)

(* the notifier's two tests are the sentence of the property *)
Theorem lists_accept_spec a_set a_match d_set d_match :
  lists_accept (mkRx a_set a_match d_set d_match) = (negb a_set || a_match) && negb (d_set && d_match).
Proof. destruct a_set, a_match, d_set, d_match; reflexivity. Qed.

(* No Notify call - open or close - ever goes to a module whose lists reject the group, in any history. *)
Theorem notifier_rejected_silent mods h j now r m c :
  names_distinct mods -> nth_error h j = Some (HResponse now r) -> In m mods ->
  lists_accept (nm_lists m (nr_group r)) = false ->
  In c (calls_at mods h j) -> nc_module c <> nm_name m.
Proof.
  intros Hnd Hj Hm Hrej Hc E.
  pose proof (calls_at_module mods h j now r m Hnd Hj Hm) as Hcm. cbv zeta in Hcm.
  assert (I : In c (calls_of (nm_name m) (calls_at mods h j))).
  { unfold calls_of. apply filter_In. split; [assumption|]. apply Z.eqb_eq. assumption. }
  rewrite Hcm in I. destruct (live_resp (state_at mods h j) r); [|contradiction].
  unfold eff_action, module_accepts in I. rewrite Hrej in I. simpl in I. contradiction.
Qed.

(* the same fact read from the call: whoever is notified accepts the group *)
Theorem notified_module_accepts mods h j now r c :
  names_distinct mods -> nth_error h j = Some (HResponse now r) -> In c (calls_at mods h j) ->
  exists m, In m mods /\ nm_name m = nc_module c /\ lists_accept (nm_lists m (nr_group r)) = true.
Proof.
  intros Hnd Hj Hc.
  destruct (calls_at_from mods h j now r c Hnd Hj Hc) as [_ [m [Hm [Hn Hin]]]].
  exists m. split; [assumption|]. split; [auto|].
  destruct (lists_accept (nm_lists m (nr_group r))) eqn:E; [reflexivity|].
  unfold eff_action, module_accepts in Hin. rewrite E in Hin. simpl in Hin. contradiction.
Qed.

(* Positive half: for a group that every module's lists accept, the coordinator behaves exactly as if no lists were
   configured. *)
Definition without_lists (m : nmod) : nmod :=
  mkNmod (nm_name m) (nm_threshold m) (nm_interval m) (nm_once m) (nm_close m)
         (fun _ => mkRx false false false false) (nm_accept_group m).

Lemma notify_all_without_lists mods : forall g now r start id,
  (forall m, In m mods -> lists_accept (nm_lists m (nr_group r)) = true) ->
  notify_all (map without_lists mods) g now r start id = notify_all mods g now r start id.
Proof.
  induction mods as [|m ms IH]; intros g now r start id H; [reflexivity|].
  simpl.
  assert (A1 : module_accepts (without_lists m) r = nm_accept_group m) by reflexivity.
  assert (A2 : module_accepts m r = nm_accept_group m).
  { unfold module_accepts. rewrite (H m) by (simpl; auto). reflexivity. }
  assert (E : forall g, notify_module (without_lists m) g now r start id = notify_module m g now r start id) by reflexivity.
  rewrite A1, A2, E. rewrite IH by (intros; apply H; simpl; auto). reflexivity.
Qed.

Theorem notifier_accepted_as_unlisted mods st now r :
  (forall m, In m mods -> lists_accept (nm_lists m (nr_group r)) = true) ->
  on_response (map without_lists mods) st now r = on_response mods st now r.
Proof.
  intros H. unfold on_response, on_response_gen, group_step.
  rewrite notify_all_without_lists by assumption. reflexivity.
Qed.

(* ================================================================================================ *)
(* The tree before the F3 fix (documentation; [run_gen false] keeps LastNotify when an incident opens) *)
(* ================================================================================================ *)

Definition no_lists : Z -> rx4 := fun _ => mkRx false false false false.
Definition f3_mod : nmod := mkNmod 1 2 60 true false no_lists true.        (* send-once, no send-close *)
Definition f3_hist : nhist :=
  [ HClusters 0 [1]; HRefresh 0 1 [1];
    ev_response 1000000000 1 1 3; ev_response 2000000000 1 1 1; ev_response 4000000000 1 1 3 ].   (* ERR, OK, ERR *)

(* ERR, OK, ERR: the second incident reaches the threshold of an accepting module, and before the fix no result of it
   produces an open notification; the current code announces it. *)
Theorem announce_refuted_before_fix :
  exists mods h k i m s,
    names_distinct mods /\ opens h k i /\ In m mods /\ status_of h k i = Some s /\ nm_threshold m <= s /\
    lists_accept (nm_lists m (snd k)) = true /\ nm_accept_group m = true /\
    (forall p c, member h k i p -> In c (nth p (fst (run_gen false mods c_init h)) []) -> nc_good c = true) /\
    (exists c, In c (nth i (fst (run mods c_init h)) []) /\ nc_module c = nm_name m /\ nc_good c = false).
Proof.
  exists [f3_mod], f3_hist, (1, 1), 4%nat, f3_mod, 3.
  split; [repeat constructor; simpl; tauto|].
  split.
  { split; [exists 3; split; [reflexivity|lia]|].
    intros i' Hi Hb. destruct i' as [|[|[|[|i']]]]; try lia.
    - destruct Hb as [s [H1 H2]]. vm_compute in H1. discriminate.
    - destruct Hb as [s [H1 H2]]. vm_compute in H1. discriminate.
    - exists 3%nat. split; [lia|left; reflexivity].
    - destruct Hb as [s [H1 H2]]. vm_compute in H1. inversion H1. subst. lia. }
  split; [simpl; auto|]. split; [reflexivity|]. split; [simpl; lia|]. split; [reflexivity|]. split; [reflexivity|].
  split.
  - intros p c [Hp _] Hc. destruct p as [|[|[|[|[|p]]]]]; try lia.
    + vm_compute in Hc. contradiction.
    + vm_compute in Hc. destruct p; contradiction.
  - eexists. split; [vm_compute; left; reflexivity|]. split; reflexivity.
Qed.

(* ================================================================================================ *)
(* "At most once per send interval" is a statement about ONE incident                                 *)
(* ================================================================================================ *)

(* The property's two sentences meet when a group flaps: ERR, OK, ERR two seconds apart with send-interval 60.  "Every
   incident ... produces at least one open notification ... including the second and later incidents" demands a
   notification for the second ERR; "at most once per send interval", read across incidents, forbids it.  The code
   (after the F3 fix: the remembered times are forgotten when an incident opens) announces every incident; so the
   interval clause holds within an incident (interval_respected) and NOT across incidents: *)
Definition flap_mod : nmod := mkNmod 1 2 60 false false no_lists true.       (* threshold WARN, every 60 s, no send-close *)
Definition flap_hist : nhist :=
  [ HClusters 0 [1]; HRefresh 0 1 [1];
    ev_response 100000000000 1 1 3; ev_response 101000000000 1 1 1; ev_response 102000000000 1 1 3 ].   (* ERR, OK, ERR *)

Theorem interval_across_incidents_refuted :
  exists mods h k i1 i2 m,
    names_distinct mods /\ In m mods /\ interval_fits m /\
    opens h k i1 /\ opens h k i2 /\ (i1 < i2)%nat /\
    open_call mods h i1 (nm_name m) /\ open_call mods h i2 (nm_name m) /\
    clock_at h i2 - clock_at h i1 <= nm_interval m * 1000000000.
Proof.
  exists [flap_mod], flap_hist, (1, 1), 2%nat, 4%nat, flap_mod.
  split; [repeat constructor; simpl; tauto|]. split; [simpl; auto|].
  split; [unfold interval_fits, two63; simpl; lia|].
  split.
  { split; [exists 3; split; [reflexivity|lia]|]. intros i' Hi Hb. destruct i' as [|[|i']]; try lia;
      destruct Hb as [s [H1 H2]]; vm_compute in H1; discriminate. }
  split.
  { split; [exists 3; split; [reflexivity|lia]|]. intros i' Hi Hb. destruct i' as [|[|[|[|i']]]]; try lia.
    - destruct Hb as [s [H1 H2]]. vm_compute in H1. discriminate.
    - destruct Hb as [s [H1 H2]]. vm_compute in H1. discriminate.
    - exists 3%nat. split; [lia|left; reflexivity].
    - destruct Hb as [s [H1 H2]]. vm_compute in H1. inversion H1. subst. lia. }
  split; [lia|].
  split; [eexists; split; [vm_compute; left; reflexivity|split; reflexivity]|].
  split; [eexists; split; [vm_compute; left; reflexivity|split; reflexivity]|].
  vm_compute. discriminate.
Qed.

(* one result makes at most one call - open or close - to a module *)
Theorem one_call_per_module_per_event mods h j c1 c2 :
  names_distinct mods -> In c1 (calls_at mods h j) -> In c2 (calls_at mods h j) -> nc_module c1 = nc_module c2 -> c1 = c2.
Proof.
  intros Hnd H1 H2 E.
  destruct (calls_at_resp mods h j c1 H1) as [now [r Hj]].
  destruct (calls_at_from mods h j now r c1 Hnd Hj H1) as [_ [m [Hm [Hn _]]]].
  pose proof (calls_at_module mods h j now r m Hnd Hj Hm) as Hc. cbv zeta in Hc.
  assert (I1 : In c1 (calls_of (nm_name m) (calls_at mods h j))).
  { unfold calls_of. apply filter_In. split; [assumption|]. apply Z.eqb_eq. assumption. }
  assert (I2 : In c2 (calls_of (nm_name m) (calls_at mods h j))).
  { unfold calls_of. apply filter_In. split; [assumption|]. apply Z.eqb_eq. congruence. }
  rewrite Hc in I1, I2. destruct (live_resp (state_at mods h j) r); [|contradiction].
  destruct (eff_action m r _ now _); simpl in I1, I2; try contradiction;
    destruct I1 as [<-|[]]; destruct I2 as [<-|[]]; reflexivity.
Qed.

(* ================================================================================================ *)
(* Two responses of one group in flight (the tree before the per-group lock; documentation)            *)
(* ================================================================================================ *)

(* responseLoop starts one goroutine per response, and checkAndSendResponseToModules held only read locks: a second
   result r2 of the same group could be handled completely while the first, r1, was waiting in the Notify call of its
   first module (a slow HTTP endpoint).  r1's goroutine has already opened the incident; r2 finds it and - if it is OK -
   closes it and clears ID and Start; r1's goroutine then writes the first module's LastNotify and goes on to the
   remaining modules, reading cgroup.Start / cgroup.ID afresh. *)
Definition overlap_step (mods : list nmod) (g : gstate) (next now : Z) (r1 r2 : nresp)
  : gstate * list ncall * list ncall * Z :=          (* record, calls of r1, calls of r2, id counter *)
  match mods with
  | [] => let a := group_step true [] g next now r1 in
          let b := group_step true [] (fst (fst a)) (snd a) now r2 in (fst (fst b), [], [], snd b)
  | m :: ms =>
      let opening := negb (is_some (g_start g)) && (1 <? nr_status r1) in
      let g1 := if opening then mkG (Some next) (Some now) (fun _ => None) else g in
      let next1 := if opening then next + 1 else next in
      let gc := if module_accepts m r1 then notify_module m g1 now r1 (g_start g1) (g_id g1) else (g1, []) in
      let b := group_step true mods g1 next1 now r2 in                 (* r2, start to finish, on the record as r1 left it *)
      let g2 := fst (fst b) in
      let g3 := match snd gc with [] => g2 | _ => set_last g2 (nm_name m) (g_last (fst gc) (nm_name m)) end in
      let rest := notify_all ms g3 now r1 (g_start g3) (g_id g3) in
      let g5 := if nr_status r1 =? 1 then mkG None None (g_last (fst rest)) else fst rest in
      (g5, snd gc ++ snd rest, snd (fst b), snd b)
  end.

Definition ov_mods : list nmod := [ mkNmod 1 2 0 false true no_lists true; mkNmod 2 2 0 false true no_lists true ].

(* ERR (opens the incident, first module slow) overlapped by OK: the second module is told about the ERR result after the
   close has gone out, with no event id and no start time - "every notification ... carries the same non-empty event
   id" fails.  (Replayed on the real code before the fix: findings/C13.json.) *)
Theorem overlap_refuted_before_fix :
  exists mods g next now r1 r2 c,
    names_distinct mods /\ g = g_init /\ resp_key r1 = resp_key r2 /\ 1 < nr_status r1 /\
    In c (snd (fst (fst (overlap_step mods g next now r1 r2)))) /\
    nc_good c = false /\ nc_status c = nr_status r1 /\ nc_id c = None /\ nc_start c = None /\
    (* handled one after the other, the same two results give that module the incident's id and start *)
    (forall c', In c' (snd (fst (group_step true mods g next now r1))) -> nc_id c' = Some next /\ nc_start c' = Some now).
Proof.
  exists ov_mods, g_init, 1, 1000000000, (mkNresp 1 1 3), (mkNresp 1 1 1).
  eexists. split; [repeat constructor; simpl; intuition discriminate|]. split; [reflexivity|]. split; [reflexivity|].
  split; [simpl; lia|]. split; [vm_compute; right; left; reflexivity|].
  split; [reflexivity|]. split; [reflexivity|]. split; [reflexivity|]. split; [reflexivity|].
  intros c' Hc. vm_compute in Hc. destruct Hc as [<-|[<-|[]]]; split; reflexivity.
Qed.

(* ================================================================================================ *)
(* Non-vacuity: a concrete history with two groups, group-list refreshes inside an incident (all groups, a superset,  *)
(* a subset just before the closing OK), a group dropped in mid-incident and listed again, two incidents of one group  *)
(* ================================================================================================ *)

Definition ex_rejects_g2 : Z -> rx4 := fun g => if g =? 2 then mkRx true false false false else mkRx true true false false.
Definition ex_mods : list nmod :=
  [ mkNmod 1 2 60 false true no_lists true;          (* threshold WARN, every 60 s, close notifications *)
    mkNmod 2 3 0 true false ex_rejects_g2 true ].    (* threshold ERR, send-once, no close, allowlist rejects group 2 *)
Definition ex_k1 : nkey := (1, 1).
Definition ex_k2 : nkey := (1, 2).
Definition ex_hist : nhist :=
  [ HClusters 0 [1];                         (* 0   the cluster list *)
    HRefresh 0 1 [1; 2];                     (* 1   groups 1 and 2 get blank records *)
    ev_response 1000000000 1 1 3;            (* 2   g1 ERR   opens incident A *)
    ev_response 2000000000 1 2 3;            (* 3   g2 ERR   opens an incident of the other group *)
    HRefresh 3000000000 1 [2; 1; 3];         (* 4   refresh inside both incidents: a superset, both stay listed *)
    ev_response 62000000000 1 1 3;           (* 5   g1 ERR   61 s after 2: module 1 again, module 2 (send-once) not *)
    HRefresh 62500000000 1 [1];              (* 6   refresh just before the closing OK: g1 kept, g2 dropped *)
    ev_response 63000000000 1 1 1;           (* 7   g1 OK    closes A *)
    ev_response 64000000000 1 1 2;           (* 8   g1 WARN  opens incident B *)
    ev_response 65000000000 1 1 3;           (* 9   g1 ERR   B reaches module 2's threshold *)
    ev_response 66000000000 1 2 1;           (* 10  g2 OK    dropped: g2 has no record; its incident is never closed *)
    HRefresh 67000000000 1 [1; 2];           (* 11  g2 listed again: blank record *)
    HRefresh 67000000000 2 [1];              (* 12  a group list for a cluster without entry: nothing *)
    ev_response 68000000000 1 2 3 ].         (* 13  g2 ERR   opens a new incident with a fresh id *)

Lemma ex_names : names_distinct ex_mods.
Proof. repeat constructor; simpl; intuition discriminate. Qed.

Ltac ex_bad Hb := let s := fresh "s" in let H1 := fresh in let H2 := fresh in
  destruct Hb as [s [H1 H2]]; vm_compute in H1; try discriminate; inversion H1; subst; lia.

(* [bad_at] at every position below the opening one is either false or answered by the witness *)
Ltac ex_opens s wit :=
  split; [exists s; split; [reflexivity|lia]|];
  let i' := fresh "i" in let Hi := fresh in let Hb := fresh in
  intros i' Hi Hb;
  do 14 (destruct i' as [|i'];
         [try lia; first [ex_bad Hb | exists wit; split; [lia|first [left; reflexivity|right; reflexivity]]]|]);
  lia.

Lemma ex_opens_A : opens ex_hist ex_k1 2.   Proof. ex_opens 3 0%nat. Qed.
Lemma ex_opens_B : opens ex_hist ex_k1 8.   Proof. ex_opens 2 7%nat. Qed.
Lemma ex_opens_g2 : opens ex_hist ex_k2 3.  Proof. ex_opens 3 0%nat. Qed.
Lemma ex_opens_g2' : opens ex_hist ex_k2 13. Proof. ex_opens 3 7%nat. Qed.

Ltac ex_member s :=
  split; [lia|]; split; [exists s; split; [reflexivity|lia]|]; split;
  [ let l := fresh "l" in let Hl := fresh in let Hok := fresh in
    intros l Hl Hok; do 14 (destruct l as [|l]; [try lia; vm_compute in Hok; discriminate|]); lia
  | let l := fresh "l" in let Hl := fresh in
    intros l Hl; do 14 (destruct l as [|l]; [try lia; reflexivity|]); lia ].

Lemma ex_member_A5 : member ex_hist ex_k1 2 5.  Proof. ex_member 3. Qed.
Lemma ex_member_A7 : member ex_hist ex_k1 2 7.  Proof. ex_member 1. Qed.
Lemma ex_member_B9 : member ex_hist ex_k1 8 9.  Proof. ex_member 3. Qed.

(* incident_identity / close_exactly_once across refreshes: the group-list refreshes 4 (superset) and 6 (subset, just
   before the closing OK) fall inside incident A; the closing OK 7 notifies module 1 with A's id and start *)
Example ex_identity :
  names_distinct ex_mods /\ opens ex_hist ex_k1 2 /\ member ex_hist ex_k1 2 7 /\ ok_at ex_hist ex_k1 7 /\
  listed_throughout ex_hist ex_k1 2 7 /\
  is_resp (nth 4 ex_hist (HClusters 0 [])) = false /\ is_resp (nth 6 ex_hist (HClusters 0 [])) = false /\
  calls_at ex_mods ex_hist 7 = [mkNcall 1 1 1 1 (Some 1) (Some 1000000000) true] /\
  incident_id ex_mods ex_hist 2 = 1 /\ clock_at ex_hist 2 = 1000000000 /\
  close_calls 1 (calls_at ex_mods ex_hist 7) = [mkNcall 1 1 1 1 (Some 1) (Some 1000000000) true] /\
  close_calls 2 (calls_at ex_mods ex_hist 7) = [].
Proof.
  split; [exact ex_names|]. split; [exact ex_opens_A|]. split; [exact ex_member_A7|].
  split; [reflexivity|]. split; [exact (proj2 (proj2 (proj2 ex_member_A7)))|].
  repeat split; reflexivity.
Qed.

(* refresh_frame: refresh 4 lists groups 2, 1 and 3 of cluster 1 - the open records of groups 1 and 2 are unchanged
   (id, start, remembered notify time of module 1), group 3 gets a blank record; refresh 6 lists only group 1 -
   group 2 loses its record; refresh 12 names a cluster without entry and changes nothing *)
Example ex_refresh :
  let g1 st := c_groups st ex_k1 in let g2 st := c_groups st ex_k2 in
  (g_id (g1 (state_at ex_mods ex_hist 4)), g_start (g1 (state_at ex_mods ex_hist 4)), g_last (g1 (state_at ex_mods ex_hist 4)) 1)
    = (Some 1, Some 1000000000, Some 1000000000) /\
  (g_id (g1 (state_at ex_mods ex_hist 5)), g_start (g1 (state_at ex_mods ex_hist 5)), g_last (g1 (state_at ex_mods ex_hist 5)) 1)
    = (Some 1, Some 1000000000, Some 1000000000) /\
  (g_id (g2 (state_at ex_mods ex_hist 5)), g_start (g2 (state_at ex_mods ex_hist 5))) = (Some 2, Some 2000000000) /\
  recorded ex_hist (1, 3) 4 = false /\ recorded ex_hist (1, 3) 5 = true /\ recorded ex_hist (1, 3) 7 = false /\
  recorded ex_hist ex_k2 6 = true /\ recorded ex_hist ex_k2 7 = false /\
  (g_id (g2 (state_at ex_mods ex_hist 7)), g_start (g2 (state_at ex_mods ex_hist 7))) = (None, None) /\
  cluster_known ex_hist 2 12 = false /\ recorded ex_hist (2, 1) 13 = false /\ recorded ex_hist ex_k2 13 = true.
Proof. cbv zeta. repeat split; reflexivity. Qed.

(* dropped_incident_never_notified / relisted_opens_new_incident / unrecorded_dropped: group 2 leaves the list at 6
   with its incident (id 2) open; its OK result 10 is dropped, no call ever closes incident 2; after the re-listing 11
   the ERR result 13 opens a new incident: id 4, start = its own clock *)
Example ex_dropped :
  opens ex_hist ex_k2 3 /\ incident_id ex_mods ex_hist 3 = 2 /\ recorded ex_hist ex_k2 7 = false /\
  calls_at ex_mods ex_hist 10 = [] /\ status_of ex_hist ex_k2 10 = None /\
  opens ex_hist ex_k2 13 /\
  calls_at ex_mods ex_hist 13 = [mkNcall 1 1 2 3 (Some 4) (Some 68000000000) false].
Proof.
  split; [exact ex_opens_g2|]. split; [reflexivity|]. split; [reflexivity|]. split; [reflexivity|].
  split; [reflexivity|]. split; [exact ex_opens_g2'|]. reflexivity.
Qed.

(* incident_ids_distinct: incidents A, B of group 1 and the two incidents of group 2 carry ids 1, 3, 2, 4 *)
Example ex_distinct :
  opens ex_hist ex_k1 2 /\ opens ex_hist ex_k1 8 /\ opens ex_hist ex_k2 3 /\ opens ex_hist ex_k2 13 /\
  map nc_id (calls_at ex_mods ex_hist 2) = [Some 1; Some 1] /\
  map nc_id (calls_at ex_mods ex_hist 8) = [Some 3] /\
  map nc_id (calls_at ex_mods ex_hist 3) = [Some 2] /\
  map nc_id (calls_at ex_mods ex_hist 13) = [Some 4].
Proof.
  split; [exact ex_opens_A|]. split; [exact ex_opens_B|]. split; [exact ex_opens_g2|]. split; [exact ex_opens_g2'|].
  repeat split; reflexivity.
Qed.

(* no_close_without_incident / groups_independent: the record of group 2 is untouched by group 1's results *)
Example ex_frame :
  g_start (c_groups (state_at ex_mods ex_hist 4) ex_k2) = Some 2000000000 /\
  g_start (c_groups (state_at ex_mods ex_hist 6) ex_k2) = Some 2000000000 /\
  g_start (c_groups (state_at ex_mods ex_hist 8) ex_k1) = None.
Proof. repeat split; reflexivity. Qed.

(* threshold_respected / interval_respected / send_once_respected: result 5, 61 s after result 2, with the refresh 4
   between them - module 1's remembered time and module 2's send-once mark survive the refresh *)
Example ex_gating :
  member ex_hist ex_k1 2 5 /\ interval_fits (nth 0 ex_mods f3_mod) /\ nm_once (nth 1 ex_mods f3_mod) = true /\
  open_call ex_mods ex_hist 2 1 /\ open_call ex_mods ex_hist 5 1 /\
  open_call ex_mods ex_hist 2 2 /\ ~ open_call ex_mods ex_hist 5 2 /\
  clock_at ex_hist 5 - clock_at ex_hist 2 = 61000000000.
Proof.
  split; [exact ex_member_A5|]. split; [unfold interval_fits, two63; simpl; lia|]. split; [reflexivity|].
  split; [eexists; split; [vm_compute; left; reflexivity|split; reflexivity]|].
  split; [eexists; split; [vm_compute; left; reflexivity|split; reflexivity]|].
  split; [eexists; split; [vm_compute; right; left; reflexivity|split; reflexivity]|].
  split; [|reflexivity].
  intros [c [Hc [Hn Hg]]]. vm_compute in Hc. destruct Hc as [<-|[]]. discriminate.
Qed.

(* every_incident_announced: the second incident B of group 1 is announced to module 2 (send-once, no send-close,
   already notified during A) by result 9, and to module 1 by result 8 one second after the close of A *)
Example ex_announced :
  opens ex_hist ex_k1 8 /\ member ex_hist ex_k1 8 9 /\ status_of ex_hist ex_k1 9 = Some 3 /\
  open_call ex_mods ex_hist 9 2 /\ open_call ex_mods ex_hist 8 1.
Proof.
  split; [exact ex_opens_B|]. split; [exact ex_member_B9|]. split; [reflexivity|].
  split; eexists; (split; [vm_compute; left; reflexivity|split; reflexivity]).
Qed.

(* notifier_rejected_silent: module 2's allowlist rejects group 2; result 3 (ERR, above its threshold) notifies
   module 1 only *)
Example ex_rejected :
  lists_accept (nm_lists (nth 1 ex_mods f3_mod) 2) = false /\
  map nc_module (calls_at ex_mods ex_hist 3) = [1].
Proof. split; reflexivity. Qed.

(* the incident of group 2 opened after it was dropped (6) and listed again (11) is announced like a first one *)
Example ex_relisted_announced :
  recorded ex_hist ex_k2 7 = false /\ opens ex_hist ex_k2 13 /\
  calls_at ex_mods ex_hist 13 = [mkNcall 1 1 2 3 (Some 4) (Some 68000000000) false].
Proof. split; [reflexivity|]. split; [exact ex_opens_g2'|reflexivity]. Qed.

(* ================================================================================================ *)
(* Go's map iteration order over nc.modules does not matter                                         *)
(* ================================================================================================ *)

(* records are compared pointwise (the remembered times are a function) *)
Definition geq (g1 g2 : gstate) : Prop :=
  g_id g1 = g_id g2 /\ g_start g1 = g_start g2 /\ forall n, g_last g1 n = g_last g2 n.

Lemma geq_refl g : geq g g.
Proof. repeat split. Qed.

Lemma geq_trans g1 g2 g3 : geq g1 g2 -> geq g2 g3 -> geq g1 g3.
Proof. intros [A1 [A2 A3]] [B1 [B2 B3]]. split; [congruence|]. split; [congruence|]. intros n. rewrite A3. apply B3. Qed.

Definition turn (m : nmod) (g : gstate) (now : Z) (r : nresp) (start id : option Z) : gstate * list ncall :=
  if module_accepts m r then notify_module m g now r start id else (g, []).

Lemma turn_geq m g1 g2 now r start id :
  geq g1 g2 ->
  geq (fst (turn m g1 now r start id)) (fst (turn m g2 now r start id)) /\
  snd (turn m g1 now r start id) = snd (turn m g2 now r start id).
Proof.
  intros [A1 [A2 A3]]. unfold turn. split; [split; [|split]|].
  - destruct (module_turn_id_start m g1 now r start id) as [H1 _].
    destruct (module_turn_id_start m g2 now r start id) as [H2 _]. cbv zeta in *. congruence.
  - destruct (module_turn_id_start m g1 now r start id) as [_ H1].
    destruct (module_turn_id_start m g2 now r start id) as [_ H2]. cbv zeta in *. congruence.
  - intros n. pose proof (module_turn_last m g1 now r start id n) as H1.
    pose proof (module_turn_last m g2 now r start id n) as H2. cbv zeta in *.
    rewrite H1, H2, !A3. reflexivity.
  - rewrite !module_turn_calls, A3. reflexivity.
Qed.

Lemma notify_all_geq mods : forall g1 g2 now r start id,
  geq g1 g2 ->
  geq (fst (notify_all mods g1 now r start id)) (fst (notify_all mods g2 now r start id)) /\
  snd (notify_all mods g1 now r start id) = snd (notify_all mods g2 now r start id).
Proof.
  induction mods as [|m ms IH]; intros g1 g2 now r start id Hg; simpl; [split; [assumption|reflexivity]|].
  fold (turn m g1 now r start id). fold (turn m g2 now r start id).
  destruct (turn_geq m g1 g2 now r start id Hg) as [H1 H2].
  destruct (IH _ _ now r start id H1) as [H3 H4]. split; [assumption|]. rewrite H2, H4. reflexivity.
Qed.

Lemma turn_swap x y g now r start id :
  nm_name x <> nm_name y ->
  geq (fst (turn x (fst (turn y g now r start id)) now r start id))
      (fst (turn y (fst (turn x g now r start id)) now r start id)) /\
  snd (turn x (fst (turn y g now r start id)) now r start id) = snd (turn x g now r start id) /\
  snd (turn y (fst (turn x g now r start id)) now r start id) = snd (turn y g now r start id).
Proof.
  intros Hne. unfold turn.
  assert (Lx : g_last (fst (if module_accepts y r then notify_module y g now r start id else (g, []))) (nm_name x)
               = g_last g (nm_name x)).
  { rewrite module_turn_last. apply Z.eqb_neq in Hne. rewrite Hne. reflexivity. }
  assert (Ly : g_last (fst (if module_accepts x r then notify_module x g now r start id else (g, []))) (nm_name y)
               = g_last g (nm_name y)).
  { rewrite module_turn_last. assert (nm_name y <> nm_name x) by congruence.
    apply Z.eqb_neq in H. rewrite H. reflexivity. }
  split; [|split].
  - split; [|split].
    + repeat match goal with |- context [g_id (fst (if module_accepts ?m r then notify_module ?m ?g now r start id else (?g, [])))] =>
        rewrite (proj1 (module_turn_id_start m g now r start id)) end. reflexivity.
    + repeat match goal with |- context [g_start (fst (if module_accepts ?m r then notify_module ?m ?g now r start id else (?g, [])))] =>
        rewrite (proj2 (module_turn_id_start m g now r start id)) end. reflexivity.
    + intros n.
      set (gy := fst (if module_accepts y r then notify_module y g now r start id else (g, []))) in *.
      set (gx := fst (if module_accepts x r then notify_module x g now r start id else (g, []))) in *.
      rewrite (module_turn_last x gy now r start id n), (module_turn_last y gx now r start id n).
      rewrite Lx, Ly. unfold gy, gx. rewrite !module_turn_last.
      destruct (n =? nm_name x) eqn:Ex; destruct (n =? nm_name y) eqn:Ey; try reflexivity.
      apply Z.eqb_eq in Ex. apply Z.eqb_eq in Ey. congruence.
  - rewrite !module_turn_calls, Lx. reflexivity.
  - rewrite !module_turn_calls, Ly. reflexivity.
Qed.

Theorem notify_all_perm mods mods' :
  Permutation mods mods' -> names_distinct mods ->
  forall g1 g2 now r start id, geq g1 g2 ->
    geq (fst (notify_all mods g1 now r start id)) (fst (notify_all mods' g2 now r start id)) /\
    Permutation (snd (notify_all mods g1 now r start id)) (snd (notify_all mods' g2 now r start id)).
Proof.
  unfold names_distinct. induction 1 as [|x l l' Hp IH|x y l|l l' l'' Hp1 IH1 Hp2 IH2]; intros Hnd g1 g2 now r start id Hg.
  - simpl. split; [assumption|constructor].
  - simpl. fold (turn x g1 now r start id). fold (turn x g2 now r start id).
    destruct (turn_geq x g1 g2 now r start id Hg) as [H1 H2].
    simpl in Hnd. inversion Hnd; subst.
    destruct (IH H4 _ _ now r start id H1) as [H5 H6]. split; [assumption|].
    rewrite H2. apply Permutation_app_head. assumption.
  - simpl in Hnd. inversion Hnd as [|a b Hnotin Hnd']; subst.
    assert (Hne : nm_name x <> nm_name y).
    { intros E. apply Hnotin. simpl. left. auto. }
    simpl. fold (turn y g1 now r start id). fold (turn x (fst (turn y g1 now r start id)) now r start id).
    fold (turn x g2 now r start id). fold (turn y (fst (turn x g2 now r start id)) now r start id).
    destruct (turn_swap x y g1 now r start id Hne) as [S1 [S2 S3]].
    destruct (turn_geq x g1 g2 now r start id Hg) as [X1 X2].
    destruct (turn_geq y (fst (turn x g1 now r start id)) (fst (turn x g2 now r start id)) now r start id X1) as [Y1 Y2].
    pose proof (geq_trans _ _ _ S1 Y1) as G.
    destruct (notify_all_geq l _ _ now r start id G) as [N1 N2].
    split; [assumption|].
    rewrite N2, S2, X2. rewrite <- Y2, S3.
    rewrite !app_assoc. apply Permutation_app_tail. apply Permutation_app_comm.
  - assert (Hnd' : NoDup (map nm_name l')).
    { eapply Permutation_NoDup; [apply Permutation_map; eassumption|assumption]. }
    destruct (IH1 Hnd g1 g2 now r start id Hg) as [A1 A2].
    destruct (IH2 Hnd' g2 g2 now r start id (geq_refl g2)) as [B1 B2].
    split; [eapply geq_trans; eassumption|eapply Permutation_trans; eassumption].
Qed.

(* the whole response: same calls up to order, same records pointwise, same counter, same list of records *)
Theorem on_response_perm mods mods' st now r :
  Permutation mods mods' -> names_distinct mods ->
  Permutation (snd (on_response mods st now r)) (snd (on_response mods' st now r)) /\
  (forall k, geq (c_groups (fst (on_response mods st now r)) k) (c_groups (fst (on_response mods' st now r)) k)) /\
  c_next (fst (on_response mods st now r)) = c_next (fst (on_response mods' st now r)) /\
  c_reg (fst (on_response mods st now r)) = c_reg (fst (on_response mods' st now r)) /\
  c_known (fst (on_response mods st now r)) = c_known (fst (on_response mods' st now r)).
Proof.
  intros Hp Hnd. unfold on_response, on_response_gen.
  destruct (live_resp st r);
    [|split; [reflexivity|]; split; [intros; apply geq_refl|split; [reflexivity|split; reflexivity]]].
  unfold group_step. cbv zeta. simpl.
  set (g1 := if negb (is_some (g_start (c_groups st (resp_key r)))) && (1 <? nr_status r)
             then mkG (Some (c_next st)) (Some now) (fun _ : Z => None) else c_groups st (resp_key r)).
  destruct (notify_all_perm mods mods' Hp Hnd g1 g1 now r (g_start g1) (g_id g1) (geq_refl g1)) as [[A1 [A2 A3]] B].
  split; [assumption|]. split; [|split; [reflexivity|split; reflexivity]].
  intros k. destruct (nkey_eqb k (resp_key r)); [|apply geq_refl].
  destruct (nr_status r =? 1); [|split; [assumption|split; assumption]].
  split; [reflexivity|]. split; [reflexivity|]. simpl. assumption.
Qed.
