(* Theorems about the notifier incident machine (model: Notifier.v).
   C13: incident_identity, incident_ids_distinct, close_exactly_once, no_close_without_incident, groups_independent
   C14: threshold_respected, interval_respected, send_once_respected, every_incident_announced
        (+ announce_refuted_before_fix: the behaviour of the tree before the F3 fix)
   C10: notifier_rejected_silent, notifier_accepted_as_unlisted, lists_accept_spec
   All statements quantify over every module list with distinct names, every history (any clusters / groups /
   statuses / clock values interleaved) and every position in it. *)
From Coq Require Import ZArith List Bool Lia Permutation.
From Burrow Require Import Int64 Int64Proofs Notifier.
Import ListNotations.
Open Scope Z_scope.

(* ------------------------------------------------------------------------------------------------ *)
(* Reading a history (specification level: no reference to the model's state)                        *)
(* ------------------------------------------------------------------------------------------------ *)

Definition clock_at (h : nhist) (j : nat) : Z :=
  match nth_error h j with Some (now, _) => now | None => 0 end.

(* status of result j if it is a result for group k *)
Definition status_of (h : nhist) (k : nkey) (j : nat) : option Z :=
  match nth_error h j with
  | Some (_, r) => if nkey_eqb k (resp_key r) then Some (nr_status r) else None
  | None => None
  end.

Definition bad_at (h : nhist) (k : nkey) (j : nat) : Prop := exists s, status_of h k j = Some s /\ 1 < s.
Definition ok_at (h : nhist) (k : nkey) (j : nat) : Prop := status_of h k j = Some 1.
(* a result that responseLoop does not drop *)
Definition live_at (h : nhist) (k : nkey) (j : nat) : Prop := exists s, status_of h k j = Some s /\ s <> 0.

(* Result i opens an incident of group k: it is worse than OK and every earlier worse-than-OK result of the group
   has been followed by an OK before i. *)
Definition opens (h : nhist) (k : nkey) (i : nat) : Prop :=
  bad_at h k i /\
  forall i', (i' < i)%nat -> bad_at h k i' -> exists l, (i' < l < i)%nat /\ ok_at h k l.

(* Result j belongs to the incident opened at i: no OK of the group in [i, j) - so j may be the closing OK itself. *)
Definition member (h : nhist) (k : nkey) (i j : nat) : Prop :=
  (i <= j)%nat /\ live_at h k j /\ forall l, (i <= l < j)%nat -> ~ ok_at h k l.

(* observable: an open (stateGood = false) / close (stateGood = true) notification to module n by result j *)
Definition open_call (mods : list nmod) (h : nhist) (j : nat) (n : Z) : Prop :=
  exists c, In c (calls_at mods h j) /\ nc_module c = n /\ nc_good c = false.
Definition close_calls (n : Z) (cs : list ncall) : list ncall :=
  filter (fun c => (nc_module c =? n) && nc_good c) cs.

Definition names_distinct (mods : list nmod) : Prop := NoDup (map nm_name mods).

(* ------------------------------------------------------------------------------------------------ *)
(* Keys                                                                                             *)
(* ------------------------------------------------------------------------------------------------ *)

Lemma nkey_eqb_eq a b : nkey_eqb a b = true <-> a = b.
Proof.
  unfold nkey_eqb. destruct a as [a1 a2], b as [b1 b2]; simpl.
  rewrite andb_true_iff, !Z.eqb_eq. split.
  - intros [-> ->]; reflexivity.
  - intros H; inversion H; auto.
Qed.

Lemma nkey_eqb_refl a : nkey_eqb a a = true.
Proof. apply nkey_eqb_eq; reflexivity. Qed.

Lemma nkey_eqb_neq a b : nkey_eqb a b = false <-> a <> b.
Proof.
  split.
  - intros H E. apply nkey_eqb_eq in E. congruence.
  - intros H. destruct (nkey_eqb a b) eqn:E; auto. apply nkey_eqb_eq in E. contradiction.
Qed.

(* ------------------------------------------------------------------------------------------------ *)
(* notifyModule as a decision on the module's own remembered time                                   *)
(* ------------------------------------------------------------------------------------------------ *)

Inductive action := ActNone | ActClose | ActOpen.

Definition decide (m : nmod) (last : option Z) (now status : Z) (start : option Z) : action :=
  if is_some start && (status =? 1) && nm_close m then ActClose
  else if status <? nm_threshold m then ActNone
  else if is_some last && nm_once m then ActNone
  else if interval_elapsed now last (nm_interval m) then ActOpen
  else ActNone.

Definition new_last (a : action) (old : option Z) (now : Z) : option Z :=
  match a with ActNone => old | ActClose => None | ActOpen => Some now end.

Definition mk_call (m : nmod) (r : nresp) (start id : option Z) (good : bool) : ncall :=
  mkNcall (nm_name m) (nr_cluster r) (nr_group r) (nr_status r) id start good.

Definition act_calls (a : action) (m : nmod) (r : nresp) (start id : option Z) : list ncall :=
  match a with
  | ActNone => []
  | ActClose => [mk_call m r start id true]
  | ActOpen => [mk_call m r start id false]
  end.

(* what a module does with a response, lists and AcceptConsumerGroup included *)
Definition eff_action (m : nmod) (r : nresp) (last : option Z) (now : Z) (start : option Z) : action :=
  if module_accepts m r then decide m last now (nr_status r) start else ActNone.

Lemma notify_module_decide m g now r start id :
  let a := decide m (g_last g (nm_name m)) now (nr_status r) start in
  notify_module m g now r start id =
  (match a with ActNone => g | _ => set_last g (nm_name m) (new_last a (g_last g (nm_name m)) now) end,
   act_calls a m r start id).
Proof.
  unfold notify_module, decide, mk_call. cbv zeta.
  destruct (is_some start && (nr_status r =? 1) && nm_close m); [reflexivity|].
  destruct (nr_status r <? nm_threshold m); [reflexivity|].
  destruct (is_some (g_last g (nm_name m)) && nm_once m); [reflexivity|].
  destruct (interval_elapsed now (g_last g (nm_name m)) (nm_interval m)); reflexivity.
Qed.

(* one turn of the module loop, on the remembered times only *)
Lemma module_turn_last m g now r start id n :
  let gc := if module_accepts m r then notify_module m g now r start id else (g, []) in
  g_last (fst gc) n =
  if n =? nm_name m then new_last (eff_action m r (g_last g (nm_name m)) now start) (g_last g (nm_name m)) now
  else g_last g n.
Proof.
  cbv zeta. unfold eff_action.
  destruct (module_accepts m r).
  - rewrite notify_module_decide. cbv zeta.
    destruct (decide m (g_last g (nm_name m)) now (nr_status r) start); simpl;
      destruct (n =? nm_name m) eqn:E; try reflexivity.
    apply Z.eqb_eq in E; subst; reflexivity.
  - simpl. destruct (n =? nm_name m) eqn:E; try reflexivity.
    apply Z.eqb_eq in E; subst; reflexivity.
Qed.

Lemma module_turn_calls m g now r start id :
  snd (if module_accepts m r then notify_module m g now r start id else (g, [])) =
  act_calls (eff_action m r (g_last g (nm_name m)) now start) m r start id.
Proof.
  unfold eff_action. destruct (module_accepts m r); [|reflexivity].
  rewrite notify_module_decide. reflexivity.
Qed.

Lemma module_turn_id_start m g now r start id :
  let gc := if module_accepts m r then notify_module m g now r start id else (g, []) in
  g_id (fst gc) = g_id g /\ g_start (fst gc) = g_start g.
Proof.
  cbv zeta. destruct (module_accepts m r); [|split; reflexivity].
  rewrite notify_module_decide. cbv zeta.
  destruct (decide m (g_last g (nm_name m)) now (nr_status r) start); split; reflexivity.
Qed.

Lemma act_calls_module a m r start id c :
  In c (act_calls a m r start id) -> nc_module c = nm_name m.
Proof. destruct a; simpl; intros H; try contradiction; destruct H as [<-|[]]; reflexivity. Qed.

(* ------------------------------------------------------------------------------------------------ *)
(* The module loop                                                                                  *)
(* ------------------------------------------------------------------------------------------------ *)

Lemma notify_all_id_start mods : forall g now r start id,
  g_id (fst (notify_all mods g now r start id)) = g_id g /\
  g_start (fst (notify_all mods g now r start id)) = g_start g.
Proof.
  induction mods as [|m ms IH]; intros; simpl; [split; reflexivity|].
  destruct (IH (fst (if module_accepts m r then notify_module m g now r start id else (g, []))) now r start id) as [H1 H2].
  destruct (module_turn_id_start m g now r start id) as [H3 H4].
  rewrite H1, H2. split; assumption.
Qed.

Lemma notify_all_calls_names mods : forall g now r start id c,
  In c (snd (notify_all mods g now r start id)) -> In (nc_module c) (map nm_name mods).
Proof.
  induction mods as [|m ms IH]; intros g now r start id c; simpl; [tauto|].
  rewrite in_app_iff. intros [H|H].
  - left. rewrite module_turn_calls in H. symmetry. eapply act_calls_module; eauto.
  - right. eapply IH; eauto.
Qed.

Lemma notify_all_last_other mods : forall g now r start id n,
  ~ In n (map nm_name mods) -> g_last (fst (notify_all mods g now r start id)) n = g_last g n.
Proof.
  induction mods as [|m ms IH]; intros g now r start id n Hn; simpl; [reflexivity|].
  simpl in Hn. rewrite IH by tauto.
  rewrite module_turn_last. destruct (n =? nm_name m) eqn:E; [|reflexivity].
  apply Z.eqb_eq in E. subst. tauto.
Qed.

Definition calls_of (n : Z) (cs : list ncall) : list ncall := filter (fun c => nc_module c =? n) cs.

Lemma calls_of_none n cs : (forall c, In c cs -> nc_module c <> n) -> calls_of n cs = [].
Proof.
  induction cs as [|c cs IH]; intros H; simpl; [reflexivity|].
  destruct (nc_module c =? n) eqn:E.
  - apply Z.eqb_eq in E. exfalso. apply (H c); simpl; auto.
  - apply IH. intros c' Hc'. apply H. simpl; auto.
Qed.

Lemma calls_of_all n cs : (forall c, In c cs -> nc_module c = n) -> calls_of n cs = cs.
Proof.
  induction cs as [|c cs IH]; intros H; simpl; [reflexivity|].
  rewrite (H c) by (simpl; auto). rewrite Z.eqb_refl. f_equal. apply IH. intros; apply H; simpl; auto.
Qed.

(* With distinct module names each module sees, and alone changes, its own slot: the loop is the product of the
   per-module decisions taken on the state at loop entry. *)
Lemma notify_all_module mods : forall g now r start id m,
  names_distinct mods -> In m mods ->
  let res := notify_all mods g now r start id in
  let a := eff_action m r (g_last g (nm_name m)) now start in
  g_last (fst res) (nm_name m) = new_last a (g_last g (nm_name m)) now /\
  calls_of (nm_name m) (snd res) = act_calls a m r start id.
Proof.
  unfold names_distinct.
  induction mods as [|m0 ms IH]; intros g now r start id m Hnd Hin; [inversion Hin|].
  simpl in Hnd. inversion Hnd as [|x l Hnotin Hnd']; subst.
  cbv zeta. simpl notify_all.
  set (gc := if module_accepts m0 r then notify_module m0 g now r start id else (g, [])).
  simpl fst; simpl snd.
  unfold calls_of. rewrite filter_app. fold (calls_of (nm_name m) (snd gc)).
  fold (calls_of (nm_name m) (snd (notify_all ms (fst gc) now r start id))).
  destruct Hin as [->|Hin].
  - (* the head module *)
    rewrite notify_all_last_other by assumption.
    split.
    + unfold gc. rewrite module_turn_last. rewrite Z.eqb_refl. reflexivity.
    + rewrite (calls_of_none (nm_name m) (snd (notify_all ms (fst gc) now r start id))).
      * rewrite app_nil_r. unfold gc. rewrite module_turn_calls.
        apply calls_of_all. intros c Hc. eapply act_calls_module; eauto.
      * intros c Hc E. apply notify_all_calls_names in Hc. rewrite E in Hc. contradiction.
  - (* a later module *)
    assert (Hne : nm_name m <> nm_name m0).
    { intros E. apply Hnotin. rewrite <- E. apply in_map. assumption. }
    assert (Hlast : g_last (fst gc) (nm_name m) = g_last g (nm_name m)).
    { unfold gc. rewrite module_turn_last. apply Z.eqb_neq in Hne. rewrite Hne. reflexivity. }
    destruct (IH (fst gc) now r start id m Hnd' Hin) as [H1 H2].
    rewrite Hlast in H1, H2. split; [exact H1|].
    rewrite H2. rewrite (calls_of_none (nm_name m) (snd gc)); [reflexivity|].
    intros c Hc. unfold gc in Hc. rewrite module_turn_calls in Hc.
    apply act_calls_module in Hc. congruence.
Qed.

Lemma notify_all_calls_from mods : forall g now r start id c,
  names_distinct mods ->
  In c (snd (notify_all mods g now r start id)) ->
  exists m, In m mods /\ nc_module c = nm_name m /\
            In c (act_calls (eff_action m r (g_last g (nm_name m)) now start) m r start id).
Proof.
  intros g now r start id c Hnd Hc.
  pose proof (notify_all_calls_names _ _ _ _ _ _ _ Hc) as Hn.
  apply in_map_iff in Hn. destruct Hn as [m [Hm Hin]].
  exists m. split; [assumption|]. split; [auto|].
  destruct (notify_all_module mods g now r start id m Hnd Hin) as [_ H2].
  rewrite <- H2. unfold calls_of. apply filter_In. split; [assumption|].
  apply Z.eqb_eq. auto.
Qed.

(* ------------------------------------------------------------------------------------------------ *)
(* checkAndSendResponseToModules on one group record                                                *)
(* ------------------------------------------------------------------------------------------------ *)

Definition opening_flag (g : gstate) (r : nresp) : bool := negb (is_some (g_start g)) && (1 <? nr_status r).
Definition start1 (g : gstate) (now : Z) (r : nresp) : option Z := if opening_flag g r then Some now else g_start g.
Definition id1 (g : gstate) (next : Z) (r : nresp) : option Z := if opening_flag g r then Some next else g_id g.
Definition last1 (g : gstate) (r : nresp) : Z -> option Z := if opening_flag g r then (fun _ => None) else g_last g.

Lemma group_step_spec mods g next now r :
  names_distinct mods ->
  let res := group_step true mods g next now r in
  let g' := fst (fst res) in
  g_start g' = (if nr_status r =? 1 then None else start1 g now r) /\
  g_id g' = (if nr_status r =? 1 then None else id1 g next r) /\
  snd res = (if opening_flag g r then next + 1 else next) /\
  (forall m, In m mods ->
     let a := eff_action m r (last1 g r (nm_name m)) now (start1 g now r) in
     g_last g' (nm_name m) = new_last a (last1 g r (nm_name m)) now /\
     calls_of (nm_name m) (snd (fst res)) = act_calls a m r (start1 g now r) (id1 g next r)) /\
  (forall c, In c (snd (fst res)) ->
     exists m, In m mods /\ nc_module c = nm_name m /\
       In c (act_calls (eff_action m r (last1 g r (nm_name m)) now (start1 g now r)) m r (start1 g now r) (id1 g next r))).
Proof.
  intros Hnd. unfold group_step. fold (opening_flag g r). cbv zeta.
  set (g1 := if opening_flag g r then mkG (Some next) (Some now) (fun _ : Z => None) else g).
  assert (Hs : g_start g1 = start1 g now r) by (unfold g1, start1; destruct (opening_flag g r); reflexivity).
  assert (Hi : g_id g1 = id1 g next r) by (unfold g1, id1; destruct (opening_flag g r); reflexivity).
  assert (Hl : g_last g1 = last1 g r) by (unfold g1, last1; destruct (opening_flag g r); reflexivity).
  simpl fst; simpl snd.
  destruct (notify_all_id_start mods g1 now r (g_start g1) (g_id g1)) as [Hid Hst].
  split; [|split; [|split; [|split]]].
  - destruct (nr_status r =? 1); simpl; congruence.
  - destruct (nr_status r =? 1); simpl; congruence.
  - reflexivity.
  - intros m Hm. cbv zeta.
    destruct (notify_all_module mods g1 now r (g_start g1) (g_id g1) m Hnd Hm) as [H1 H2].
    rewrite Hs, Hi, Hl in *. split; [|exact H2].
    destruct (nr_status r =? 1); simpl; exact H1.
  - intros c Hc.
    destruct (notify_all_calls_from mods g1 now r (g_start g1) (g_id g1) c Hnd Hc) as [m [Hm [Hn Hin]]].
    rewrite Hs, Hi, Hl in *. exists m. auto.
Qed.

(* ------------------------------------------------------------------------------------------------ *)
(* Histories: the state before result j, and the calls of result j                                  *)
(* ------------------------------------------------------------------------------------------------ *)

Lemma state_after_app mods h1 : forall st h2,
  state_after mods st (h1 ++ h2) = state_after mods (state_after mods st h1) h2.
Proof.
  induction h1 as [|[now r] h1 IH]; intros st h2; simpl; [reflexivity|]. apply IH.
Qed.

Lemma firstn_S_nth {A : Type} (h : list A) : forall j x, nth_error h j = Some x -> firstn (S j) h = firstn j h ++ [x].
Proof.
  induction h as [|a h IH]; intros j x H.
  - destruct j; discriminate.
  - destruct j as [|j]; simpl in *.
    + inversion H; reflexivity.
    + f_equal. apply IH. assumption.
Qed.

Lemma state_at_0 mods h : state_at mods h 0 = c_init.
Proof. reflexivity. Qed.

Lemma state_at_S mods h j now r :
  nth_error h j = Some (now, r) ->
  state_at mods h (S j) = fst (on_response mods (state_at mods h j) now r).
Proof.
  intros H. unfold state_at. rewrite (firstn_S_nth h j _ H), state_after_app. reflexivity.
Qed.

(* the theorems' view of a history is the one [run] computes *)
Lemma run_gen_spec mods : forall h st j,
  nth j (fst (run mods st h)) [] =
  match nth_error h j with
  | Some (now, r) => snd (on_response mods (state_after mods st (firstn j h)) now r)
  | None => []
  end
  /\ snd (run mods st h) = state_after mods st h.
Proof.
  unfold run. induction h as [|[now r] h IH]; intros st j.
  - simpl. destruct j; split; reflexivity.
  - simpl. destruct j as [|j]; simpl.
    + split; [reflexivity|]. apply (IH _ 0%nat).
    + destruct (IH (fst (on_response_gen true mods st now r)) j) as [H1 H2]. split; assumption.
Qed.

Theorem run_calls_at mods h j : nth j (fst (run mods c_init h)) [] = calls_at mods h j.
Proof. destruct (run_gen_spec mods h c_init j) as [H _]. exact H. Qed.

Theorem run_final_state mods h : snd (run mods c_init h) = state_at mods h (length h).
Proof.
  destruct (run_gen_spec mods h c_init 0%nat) as [_ H]. rewrite H.
  unfold state_at. rewrite firstn_all. reflexivity.
Qed.

Lemma run_length mods : forall h st, length (fst (run mods st h)) = length h.
Proof.
  unfold run. induction h as [|[now r] h IH]; intros st; simpl; [reflexivity|]. f_equal. apply IH.
Qed.

(* One step of a history, as seen from any group k' *)
Section Step.
  Variable mods : list nmod.
  Variable h : nhist.
  Variable j : nat.
  Variable now : Z.
  Variable r : nresp.
  Hypothesis Hj : nth_error h j = Some (now, r).

  Let st := state_at mods h j.
  Let res := group_step true mods (c_groups st (resp_key r)) (c_next st) now r.

  Lemma step_groups k' :
    c_groups (state_at mods h (S j)) k' =
    if nr_status r =? 0 then c_groups st k'
    else if nkey_eqb k' (resp_key r) then fst (fst res) else c_groups st k'.
  Proof.
    rewrite (state_at_S mods h j now r Hj). unfold on_response, on_response_gen.
    fold st. destruct (nr_status r =? 0); reflexivity.
  Qed.

  Lemma step_next :
    c_next (state_at mods h (S j)) = if nr_status r =? 0 then c_next st else snd res.
  Proof.
    rewrite (state_at_S mods h j now r Hj). unfold on_response, on_response_gen.
    fold st. destruct (nr_status r =? 0); reflexivity.
  Qed.

  Lemma step_calls :
    calls_at mods h j = if nr_status r =? 0 then [] else snd (fst res).
  Proof.
    unfold calls_at. rewrite Hj. unfold on_response, on_response_gen.
    fold st. destruct (nr_status r =? 0); reflexivity.
  Qed.

  Lemma step_status_of k :
    status_of h k j = if nkey_eqb k (resp_key r) then Some (nr_status r) else None.
  Proof. unfold status_of. rewrite Hj. reflexivity. Qed.

  Lemma step_clock : clock_at h j = now.
  Proof. unfold clock_at. rewrite Hj. reflexivity. Qed.
End Step.

Lemma status_of_lt h k j s : status_of h k j = Some s -> (j < length h)%nat.
Proof.
  unfold status_of. destruct (nth_error h j) eqn:E; [|discriminate].
  intros _. apply nth_error_Some. congruence.
Qed.

Lemma nth_error_lt_some {A : Type} (l : list A) j : (j < length l)%nat -> exists x, nth_error l j = Some x.
Proof.
  intros H. destruct (nth_error l j) eqn:E; [eauto|]. apply nth_error_None in E. lia.
Qed.

(* ------------------------------------------------------------------------------------------------ *)
(* The incident record of a group describes the group's status sequence                             *)
(* ------------------------------------------------------------------------------------------------ *)

Definition closed_inv (h : nhist) (k : nkey) (j : nat) : Prop :=
  forall i', (i' < j)%nat -> bad_at h k i' -> exists l, (i' < l < j)%nat /\ ok_at h k l.

Definition open_inv (h : nhist) (k : nkey) (i j : nat) : Prop :=
  (i < j)%nat /\ opens h k i /\ forall l, (i <= l < j)%nat -> ~ ok_at h k l.

Definition inv_group (mods : list nmod) (h : nhist) (k : nkey) (j : nat) : Prop :=
  let g := c_groups (state_at mods h j) k in
  (g_start g = None /\ g_id g = None /\ closed_inv h k j) \/
  (exists i, open_inv h k i j /\ g_start g = Some (clock_at h i) /\
             g_id g = Some (c_next (state_at mods h i))).

Lemma bad_not_ok h k j : bad_at h k j -> ~ ok_at h k j.
Proof. intros [s [H1 H2]] H. unfold ok_at in H. rewrite H in H1. inversion H1. lia. Qed.

Lemma closed_inv_ext h k j : closed_inv h k j -> ~ bad_at h k j -> closed_inv h k (S j).
Proof.
  intros H Hn i' Hi Hb.
  assert (i' <> j) by (intros ->; contradiction).
  destruct (H i' ltac:(lia) Hb) as [l [Hl Hok]]. exists l. split; [lia|assumption].
Qed.

Lemma closed_inv_close h k j : ok_at h k j -> closed_inv h k (S j).
Proof.
  intros Hok i' Hi Hb.
  assert (i' <> j) by (intros ->; eapply bad_not_ok; eauto).
  exists j. split; [lia|assumption].
Qed.

Lemma open_inv_ext h k i j : open_inv h k i j -> ~ ok_at h k j -> open_inv h k i (S j).
Proof.
  intros [H1 [H2 H3]] Hn. split; [lia|]. split; [assumption|].
  intros l Hl. destruct (Nat.eq_dec l j) as [->|Hne]; [assumption|]. apply H3. lia.
Qed.

Lemma open_inv_start h k j : closed_inv h k j -> bad_at h k j -> open_inv h k j (S j).
Proof.
  intros Hc Hb. split; [lia|]. split.
  - split; assumption.
  - intros l Hl. assert (l = j) by lia. subst. apply bad_not_ok. assumption.
Qed.

Lemma open_inv_restrict h k i j : open_inv h k i (S j) -> (i < j)%nat -> open_inv h k i j.
Proof.
  intros [H1 [H2 H3]] Hlt. split; [assumption|]. split; [assumption|]. intros l Hl. apply H3. lia.
Qed.

(* at most one incident can be open at a position *)
Lemma open_inv_unique h k i1 i2 j : open_inv h k i1 j -> open_inv h k i2 j -> i1 = i2.
Proof.
  intros [A1 [[Ab Ao] A3]] [B1 [[Bb Bo] B3]].
  destruct (Nat.lt_trichotomy i1 i2) as [Hlt|[->|Hlt]]; [|reflexivity|].
  - destruct (Bo i1 Hlt Ab) as [l [Hl Hok]]. exfalso. apply (A3 l); [lia|assumption].
  - destruct (Ao i2 Hlt Bb) as [l [Hl Hok]]. exfalso. apply (B3 l); [lia|assumption].
Qed.

Lemma open_closed_excl h k i j : open_inv h k i j -> closed_inv h k j -> False.
Proof.
  intros [A1 [[Ab Ao] A3]] Hc. destruct (Hc i A1 Ab) as [l [Hl Hok]]. apply (A3 l); [lia|assumption].
Qed.

Theorem inv_group_holds mods h :
  names_distinct mods -> forall j, (j <= length h)%nat -> forall k, inv_group mods h k j.
Proof.
  intros Hnd. induction j as [|j IH]; intros Hlen k.
  - left. rewrite state_at_0. simpl. split; [reflexivity|]. split; [reflexivity|].
    intros i' Hi. lia.
  - destruct (nth_error_lt_some h j ltac:(lia)) as [[now r] Hj].
    specialize (IH ltac:(lia) k). unfold inv_group in *. cbv zeta in *.
    rewrite (step_groups mods h j now r Hj k).
    pose proof (step_status_of h j now r Hj k) as Hso.
    destruct (nr_status r =? 0) eqn:E0.
    { (* NOTFOUND: dropped *)
      apply Z.eqb_eq in E0.
      assert (Hnb : ~ bad_at h k j).
      { intros [s [H1 H2]]. rewrite Hso in H1. destruct (nkey_eqb k (resp_key r)); inversion H1. lia. }
      assert (Hno : ~ ok_at h k j).
      { unfold ok_at. rewrite Hso. destruct (nkey_eqb k (resp_key r)); intros H1; inversion H1. lia. }
      destruct IH as [[H1 [H2 H3]]|[i [H1 [H2 H3]]]].
      - left. split; [assumption|]. split; [assumption|]. apply closed_inv_ext; assumption.
      - right. exists i. split; [apply open_inv_ext; assumption|]. split; assumption. }
    destruct (nkey_eqb k (resp_key r)) eqn:Ek.
    2:{ (* a response for another group *)
      assert (Hnb : ~ bad_at h k j) by (intros [s [H1 H2]]; rewrite Hso in H1; discriminate).
      assert (Hno : ~ ok_at h k j) by (unfold ok_at; rewrite Hso; discriminate).
      destruct IH as [[H1 [H2 H3]]|[i [H1 [H2 H3]]]].
      - left. split; [assumption|]. split; [assumption|]. apply closed_inv_ext; assumption.
      - right. exists i. split; [apply open_inv_ext; assumption|]. split; assumption. }
    apply nkey_eqb_eq in Ek. subst k.
    destruct (group_step_spec mods (c_groups (state_at mods h j) (resp_key r)) (c_next (state_at mods h j)) now r Hnd)
      as [Gs [Gi _]].
    rewrite Gs, Gi. clear Gs Gi.
    destruct (nr_status r =? 1) eqn:E1.
    { left. split; [reflexivity|]. split; [reflexivity|]. apply closed_inv_close.
      unfold ok_at. rewrite Hso. apply Z.eqb_eq in E1. congruence. }
    apply Z.eqb_neq in E1.
    assert (Hno : ~ ok_at h (resp_key r) j).
    { unfold ok_at. rewrite Hso. intros H1; inversion H1. contradiction. }
    unfold start1, id1, opening_flag.
    destruct IH as [[H1 [H2 H3]]|[i [H1 [H2 H3]]]].
    + rewrite H1. simpl. destruct (1 <? nr_status r) eqn:E2.
      * right. exists j. split.
        { apply open_inv_start; [assumption|]. exists (nr_status r). split; [assumption|]. apply Z.ltb_lt; assumption. }
        rewrite (step_clock h j now r Hj). split; reflexivity.
      * left. split; [reflexivity|]. split; [assumption|]. apply closed_inv_ext; [assumption|].
        intros [s [Hs1 Hs2]]. rewrite Hso in Hs1. inversion Hs1. subst. apply Z.ltb_ge in E2. lia.
    + rewrite H2. simpl. right. exists i. split; [apply open_inv_ext; assumption|]. split; [reflexivity|assumption].
Qed.

(* ------------------------------------------------------------------------------------------------ *)
(* The calls of one result, in terms of the group's record before it                                *)
(* ------------------------------------------------------------------------------------------------ *)

Lemma calls_at_from mods h j now r c :
  names_distinct mods -> nth_error h j = Some (now, r) -> In c (calls_at mods h j) ->
  let g := c_groups (state_at mods h j) (resp_key r) in
  let next := c_next (state_at mods h j) in
  nr_status r <> 0 /\
  exists m, In m mods /\ nc_module c = nm_name m /\
    In c (act_calls (eff_action m r (last1 g r (nm_name m)) now (start1 g now r)) m r
                    (start1 g now r) (id1 g next r)).
Proof.
  intros Hnd Hj Hc. cbv zeta. rewrite (step_calls mods h j now r Hj) in Hc.
  destruct (nr_status r =? 0) eqn:E0; [contradiction|]. apply Z.eqb_neq in E0. split; [assumption|].
  destruct (group_step_spec mods (c_groups (state_at mods h j) (resp_key r)) (c_next (state_at mods h j)) now r Hnd)
    as [_ [_ [_ [_ H]]]].
  apply H. assumption.
Qed.

Lemma calls_at_module mods h j now r m :
  names_distinct mods -> nth_error h j = Some (now, r) -> In m mods ->
  let g := c_groups (state_at mods h j) (resp_key r) in
  let next := c_next (state_at mods h j) in
  calls_of (nm_name m) (calls_at mods h j) =
  if nr_status r =? 0 then []
  else act_calls (eff_action m r (last1 g r (nm_name m)) now (start1 g now r)) m r (start1 g now r) (id1 g next r).
Proof.
  intros Hnd Hj Hm. cbv zeta. rewrite (step_calls mods h j now r Hj).
  destruct (nr_status r =? 0); [reflexivity|].
  destruct (group_step_spec mods (c_groups (state_at mods h j) (resp_key r)) (c_next (state_at mods h j)) now r Hnd)
    as [_ [_ [_ [H _]]]].
  apply H. assumption.
Qed.

Lemma step_last mods h j now r m :
  names_distinct mods -> nth_error h j = Some (now, r) -> In m mods -> nr_status r <> 0 ->
  let g := c_groups (state_at mods h j) (resp_key r) in
  g_last (c_groups (state_at mods h (S j)) (resp_key r)) (nm_name m) =
  new_last (eff_action m r (last1 g r (nm_name m)) now (start1 g now r)) (last1 g r (nm_name m)) now.
Proof.
  intros Hnd Hj Hm H0. cbv zeta. rewrite (step_groups mods h j now r Hj).
  apply Z.eqb_neq in H0. rewrite H0, nkey_eqb_refl.
  destruct (group_step_spec mods (c_groups (state_at mods h j) (resp_key r)) (c_next (state_at mods h j)) now r Hnd)
    as [_ [_ [_ [H _]]]].
  apply H. assumption.
Qed.

(* a live result of group k, unpacked *)
Lemma live_at_step h k j :
  live_at h k j -> exists now r, nth_error h j = Some (now, r) /\ resp_key r = k /\ nr_status r <> 0.
Proof.
  intros [s [H1 H2]]. unfold status_of in H1.
  destruct (nth_error h j) as [[now r]|] eqn:E; [|discriminate].
  destruct (nkey_eqb k (resp_key r)) eqn:Ek; [|discriminate].
  apply nkey_eqb_eq in Ek. inversion H1; subst. exists now, r. auto.
Qed.

Lemma member_open_inv h k i j : opens h k i -> member h k i j -> (i < j)%nat -> open_inv h k i j.
Proof. intros Ho [_ [_ H3]] Hlt. split; [assumption|]. split; assumption. Qed.

(* The record a member result of an incident finds: the incident's start clock and id (drawn at the opening). *)
Lemma member_step mods h k i j :
  names_distinct mods -> opens h k i -> member h k i j ->
  exists now r, nth_error h j = Some (now, r) /\ resp_key r = k /\ nr_status r <> 0 /\
    let g := c_groups (state_at mods h j) k in
    start1 g now r = Some (clock_at h i) /\
    id1 g (c_next (state_at mods h j)) r = Some (c_next (state_at mods h i)) /\
    ((i = j /\ opening_flag g r = true) \/ (i < j /\ opening_flag g r = false /\ g_start g = Some (clock_at h i)))%nat.
Proof.
  intros Hnd Ho Hm. pose proof Hm as [Hle [Hlive Hnook]].
  destruct (live_at_step h k j Hlive) as [now [r [Hj [Hk H0]]]].
  exists now, r. split; [assumption|]. split; [assumption|]. split; [assumption|]. cbv zeta.
  assert (Hlen : (j <= length h)%nat).
  { assert (j < length h)%nat; [|lia]. apply nth_error_Some. congruence. }
  pose proof (inv_group_holds mods h Hnd j Hlen k) as Hinv. unfold inv_group in Hinv. cbv zeta in Hinv.
  unfold start1, id1, opening_flag.
  destruct (Nat.eq_dec i j) as [->|Hne].
  - destruct Hinv as [[H1 [H2 H3]]|[i0 [H1 _]]].
    + rewrite H1. simpl.
      assert (E : 1 <? nr_status r = true).
      { destruct Ho as [[s [Hs1 Hs2]] _]. rewrite (step_status_of h j now r Hj k) in Hs1.
        rewrite <- Hk in Hs1. rewrite nkey_eqb_refl in Hs1. inversion Hs1. apply Z.ltb_lt. lia. }
      rewrite E. rewrite (step_clock h j now r Hj). split; [reflexivity|]. split; [reflexivity|]. left. auto.
    + exfalso. destruct H1 as [A1 [[Ab _] A3]]. destruct Ho as [_ Ho].
      destruct (Ho i0 A1 Ab) as [l [Hl Hok]]. apply (A3 l); [lia|assumption].
  - assert (Hlt : (i < j)%nat) by lia.
    pose proof (member_open_inv h k i j Ho Hm Hlt) as Hopen.
    destruct Hinv as [[H1 [H2 H3]]|[i0 [H1 [H2 H3]]]].
    + exfalso. eapply open_closed_excl; eauto.
    + assert (i0 = i) by (eapply open_inv_unique; eauto). subst i0.
      rewrite H2. simpl. split; [reflexivity|]. split; [assumption|]. right. auto.
Qed.

(* ================================================================================================ *)
(* C13                                                                                              *)
(* ================================================================================================ *)

(* The id of the incident opened by result i: the counter value when that result is handled. *)
Definition incident_id (mods : list nmod) (h : nhist) (i : nat) : Z := c_next (state_at mods h i).

Lemma act_calls_fields a m r start id c :
  In c (act_calls a m r start id) ->
  nc_module c = nm_name m /\ nc_cluster c = nr_cluster r /\ nc_group c = nr_group r /\ nc_status c = nr_status r /\
  nc_id c = id /\ nc_start c = start /\ (nc_good c = true <-> a = ActClose) /\ (nc_good c = false <-> a = ActOpen).
Proof.
  destruct a; simpl; intros H; try contradiction; destruct H as [<-|[]]; simpl;
    repeat split; auto; intros; discriminate.
Qed.

(* Every notification made by a result of an incident - the closing OK included - carries the incident's id and
   the clock of the opening result as start time, and is about the group of that result. *)
Theorem incident_identity mods h k i j c :
  names_distinct mods -> opens h k i -> member h k i j -> In c (calls_at mods h j) ->
  nc_id c = Some (incident_id mods h i) /\ nc_start c = Some (clock_at h i) /\
  (nc_cluster c, nc_group c) = k.
Proof.
  intros Hnd Ho Hm Hc.
  destruct (member_step mods h k i j Hnd Ho Hm) as [now [r [Hj [Hk [H0 [Hs [Hi _]]]]]]].
  destruct (calls_at_from mods h j now r c Hnd Hj Hc) as [_ [m [Hmm [Hn Hin]]]].
  rewrite Hk in Hin. rewrite Hs, Hi in Hin.
  apply act_calls_fields in Hin. destruct Hin as [_ [Hcl [Hgr [_ [Hid [Hst _]]]]]].
  unfold incident_id. rewrite Hid, Hst, Hcl, Hgr. split; [reflexivity|]. split; [reflexivity|].
  rewrite <- Hk. reflexivity.
Qed.

(* fresh draws: the counter never decreases and every opening result advances it *)
Lemma c_next_step mods h j :
  names_distinct mods -> (c_next (state_at mods h j) <= c_next (state_at mods h (S j))).
Proof.
  intros Hnd. destruct (nth_error h j) as [[now r]|] eqn:Hj.
  - rewrite (step_next mods h j now r Hj). destruct (nr_status r =? 0); [lia|].
    destruct (group_step_spec mods (c_groups (state_at mods h j) (resp_key r)) (c_next (state_at mods h j)) now r Hnd)
      as [_ [_ [H _]]].
    rewrite H. destruct (opening_flag _ r); lia.
  - apply nth_error_None in Hj. unfold state_at. rewrite !firstn_all2 by lia. lia.
Qed.

Lemma c_next_mono mods h : names_distinct mods -> forall a b, (a <= b)%nat ->
  c_next (state_at mods h a) <= c_next (state_at mods h b).
Proof.
  intros Hnd a b Hab. induction Hab; [lia|].
  pose proof (c_next_step mods h m Hnd). lia.
Qed.

Lemma c_next_opening mods h k i :
  names_distinct mods -> opens h k i -> c_next (state_at mods h (S i)) = c_next (state_at mods h i) + 1.
Proof.
  intros Hnd Ho.
  assert (Hm : member h k i i).
  { split; [lia|]. split; [|intros l Hl; lia].
    destruct Ho as [[s [Hs1 Hs2]] _]. exists s. split; [assumption|lia]. }
  destruct (member_step mods h k i i Hnd Ho Hm) as [now [r [Hj [Hk [H0 [_ [_ Hcase]]]]]]].
  destruct Hcase as [[_ Hop]|[Hlt _]]; [|lia].
  rewrite (step_next mods h i now r Hj). apply Z.eqb_neq in H0. rewrite H0.
  destruct (group_step_spec mods (c_groups (state_at mods h i) (resp_key r)) (c_next (state_at mods h i)) now r Hnd)
    as [_ [_ [H _]]].
  rewrite H. rewrite Hk. rewrite Hop. reflexivity.
Qed.

(* Different incidents - of the same group or of different groups - have different ids. *)
Theorem incident_ids_distinct_id mods h k1 i1 k2 i2 :
  names_distinct mods -> opens h k1 i1 -> opens h k2 i2 -> i1 <> i2 ->
  incident_id mods h i1 <> incident_id mods h i2.
Proof.
  intros Hnd Ho1 Ho2 Hne. unfold incident_id.
  destruct (Nat.lt_trichotomy i1 i2) as [Hlt|[E|Hlt]]; [|contradiction|].
  - pose proof (c_next_opening mods h k1 i1 Hnd Ho1).
    pose proof (c_next_mono mods h Hnd (S i1) i2 ltac:(lia)). lia.
  - pose proof (c_next_opening mods h k2 i2 Hnd Ho2).
    pose proof (c_next_mono mods h Hnd (S i2) i1 ltac:(lia)). lia.
Qed.

(* observable form: two notifications made during different incidents never carry the same event id *)
Theorem incident_ids_distinct mods h k1 i1 j1 c1 k2 i2 j2 c2 :
  names_distinct mods ->
  opens h k1 i1 -> member h k1 i1 j1 -> In c1 (calls_at mods h j1) ->
  opens h k2 i2 -> member h k2 i2 j2 -> In c2 (calls_at mods h j2) ->
  i1 <> i2 -> nc_id c1 <> nc_id c2.
Proof.
  intros Hnd Ho1 Hm1 Hc1 Ho2 Hm2 Hc2 Hne.
  destruct (incident_identity mods h k1 i1 j1 c1 Hnd Ho1 Hm1 Hc1) as [E1 _].
  destruct (incident_identity mods h k2 i2 j2 c2 Hnd Ho2 Hm2 Hc2) as [E2 _].
  rewrite E1, E2. intros E. injection E as E.
  exact (incident_ids_distinct_id mods h k1 i1 k2 i2 Hnd Ho1 Ho2 Hne E).
Qed.

Lemma decide_close_iff m last now s start :
  decide m last now s start = ActClose <-> (is_some start = true /\ s = 1 /\ nm_close m = true).
Proof.
  unfold decide. split.
  - destruct (is_some start && (s =? 1) && nm_close m) eqn:E.
    + intros _. apply andb_true_iff in E. destruct E as [E E3]. apply andb_true_iff in E. destruct E as [E1 E2].
      apply Z.eqb_eq in E2. auto.
    + destruct (s <? nm_threshold m); [discriminate|].
      destruct (is_some last && nm_once m); [discriminate|].
      destruct (interval_elapsed now last (nm_interval m)); discriminate.
  - intros [H1 [H2 H3]]. subst s. rewrite H1, H3. reflexivity.
Qed.

Lemma close_calls_calls_of n cs : close_calls n cs = filter nc_good (calls_of n cs).
Proof.
  unfold close_calls, calls_of. induction cs as [|c cs IH]; simpl; [reflexivity|].
  destruct (nc_module c =? n); simpl; [|assumption].
  destruct (nc_good c); simpl; [f_equal|]; assumption.
Qed.

(* At the closing OK of an incident every module whose lists accept the group, whose AcceptConsumerGroup agrees and
   that is configured with send-close receives exactly one close notification, carrying the incident's id and start
   time; every other module receives none. *)
Theorem close_exactly_once mods h k i j m :
  names_distinct mods -> opens h k i -> member h k i j -> ok_at h k j -> In m mods ->
  close_calls (nm_name m) (calls_at mods h j) =
  if lists_accept (nm_lists m (snd k)) && nm_accept_group m && nm_close m
  then [mkNcall (nm_name m) (fst k) (snd k) 1 (Some (incident_id mods h i)) (Some (clock_at h i)) true]
  else [].
Proof.
  intros Hnd Ho Hm Hok Hin.
  destruct (member_step mods h k i j Hnd Ho Hm) as [now [r [Hj [Hk [H0 [Hs [Hi Hcase]]]]]]].
  assert (E1 : nr_status r = 1).
  { unfold ok_at in Hok. rewrite (step_status_of h j now r Hj k) in Hok. rewrite <- Hk in Hok.
    rewrite nkey_eqb_refl in Hok. inversion Hok. reflexivity. }
  rewrite close_calls_calls_of, (calls_at_module mods h j now r m Hnd Hj Hin).
  apply Z.eqb_neq in H0. rewrite H0. rewrite Hk, Hs, Hi.
  unfold eff_action, module_accepts. rewrite <- Hk. simpl snd. simpl fst.
  destruct (lists_accept (nm_lists m (nr_group r)) && nm_accept_group m); simpl; [|reflexivity].
  destruct (nm_close m) eqn:Ec.
  - assert (Hd : decide m (last1 (c_groups (state_at mods h j) (resp_key r)) r (nm_name m)) now (nr_status r)
                        (Some (clock_at h i)) = ActClose).
    { apply decide_close_iff. rewrite E1. auto. }
    rewrite Hd. simpl. unfold mk_call, incident_id. rewrite E1. reflexivity.
  - destruct (decide m (last1 (c_groups (state_at mods h j) (resp_key r)) r (nm_name m)) now (nr_status r)
                     (Some (clock_at h i))) eqn:Hd; simpl; try reflexivity.
    apply decide_close_iff in Hd. destruct Hd as [_ [_ Hd]]. congruence.
Qed.

(* A close notification is only ever made by the closing OK of an open incident, to a module with send-close whose
   lists accept the group: no close for a group that has no open incident. *)
Theorem no_close_without_incident mods h j c :
  names_distinct mods -> In c (calls_at mods h j) -> nc_good c = true ->
  exists k i m, opens h k i /\ member h k i j /\ ok_at h k j /\ (nc_cluster c, nc_group c) = k /\
                In m mods /\ nm_name m = nc_module c /\ nm_close m = true /\
                lists_accept (nm_lists m (snd k)) = true /\ nm_accept_group m = true.
Proof.
  intros Hnd Hc Hgood.
  destruct (nth_error h j) as [[now r]|] eqn:Hj; [|unfold calls_at in Hc; rewrite Hj in Hc; contradiction].
  destruct (calls_at_from mods h j now r c Hnd Hj Hc) as [H0 [m [Hm [Hn Hin]]]].
  apply act_calls_fields in Hin. destruct Hin as [_ [Hcl [Hgr [_ [_ [_ [Hg _]]]]]]].
  apply Hg in Hgood. clear Hg.
  unfold eff_action in Hgood. destruct (module_accepts m r) eqn:Hacc; [|discriminate].
  apply decide_close_iff in Hgood. destruct Hgood as [Hs [E1 Hclose]].
  assert (Hflag : opening_flag (c_groups (state_at mods h j) (resp_key r)) r = false).
  { unfold opening_flag. rewrite E1. simpl. apply andb_false_r. }
  unfold start1 in Hs. rewrite Hflag in Hs.
  assert (Hlen : (j <= length h)%nat).
  { assert (j < length h)%nat; [|lia]. apply nth_error_Some. congruence. }
  pose proof (inv_group_holds mods h Hnd j Hlen (resp_key r)) as Hinv. unfold inv_group in Hinv. cbv zeta in Hinv.
  destruct Hinv as [[H1 _]|[i [[A1 [A2 A3]] _]]]; [rewrite H1 in Hs; discriminate|].
  assert (Hso : status_of h (resp_key r) j = Some 1).
  { rewrite (step_status_of h j now r Hj). rewrite nkey_eqb_refl. congruence. }
  unfold module_accepts in Hacc. apply andb_true_iff in Hacc. destruct Hacc as [Hl Hag].
  exists (resp_key r), i, m. split; [assumption|]. split.
  { split; [lia|]. split; [|assumption]. exists 1. split; [assumption|lia]. }
  split; [exact Hso|]. split; [unfold resp_key; congruence|].
  split; [assumption|]. split; [auto|]. split; [assumption|]. split; assumption.
Qed.

(* Frame: a response changes no other group's record, and what it does depends only on its own group's record and
   on the id counter. *)
Theorem groups_independent mods st now r k' :
  k' <> resp_key r -> c_groups (fst (on_response mods st now r)) k' = c_groups st k'.
Proof.
  intros Hne. unfold on_response, on_response_gen. destruct (nr_status r =? 0); [reflexivity|].
  simpl. apply nkey_eqb_neq in Hne. rewrite Hne. reflexivity.
Qed.

Theorem response_local mods st1 st2 now r :
  c_groups st1 (resp_key r) = c_groups st2 (resp_key r) -> c_next st1 = c_next st2 ->
  snd (on_response mods st1 now r) = snd (on_response mods st2 now r) /\
  c_groups (fst (on_response mods st1 now r)) (resp_key r) = c_groups (fst (on_response mods st2 now r)) (resp_key r) /\
  c_next (fst (on_response mods st1 now r)) = c_next (fst (on_response mods st2 now r)).
Proof.
  intros Hg Hn. unfold on_response, on_response_gen. destruct (nr_status r =? 0).
  - simpl. auto.
  - simpl. rewrite nkey_eqb_refl, Hg, Hn. auto.
Qed.

(* ================================================================================================ *)
(* C14 (and the gating facts used by C10)                                                           *)
(* ================================================================================================ *)

Lemma decide_open m last now s start :
  decide m last now s start = ActOpen ->
  nm_threshold m <= s /\ (is_some last = true -> nm_once m = false) /\
  interval_elapsed now last (nm_interval m) = true.
Proof.
  unfold decide.
  destruct (is_some start && (s =? 1) && nm_close m); [discriminate|].
  destruct (s <? nm_threshold m) eqn:E1; [discriminate|].
  destruct (is_some last && nm_once m) eqn:E2; [discriminate|].
  destruct (interval_elapsed now last (nm_interval m)) eqn:E3; [|discriminate].
  intros _. apply Z.ltb_ge in E1. split; [assumption|]. split; [|reflexivity].
  intros H. rewrite H in E2. simpl in E2. assumption.
Qed.

Lemma decide_open_none m now s start :
  s <> 1 -> nm_threshold m <= s -> decide m None now s start = ActOpen.
Proof.
  intros H1 H2. unfold decide. apply Z.eqb_neq in H1. rewrite H1, andb_false_r. simpl.
  apply Z.ltb_ge in H2. rewrite H2. reflexivity.
Qed.

Lemma eff_action_open m r last now start :
  eff_action m r last now start = ActOpen ->
  module_accepts m r = true /\ decide m last now (nr_status r) start = ActOpen.
Proof. unfold eff_action. destruct (module_accepts m r); [auto|discriminate]. Qed.

(* an open notification to module m by result j, in terms of the record before it *)
Lemma open_call_iff mods h j now r m :
  names_distinct mods -> nth_error h j = Some (now, r) -> In m mods ->
  let g := c_groups (state_at mods h j) (resp_key r) in
  open_call mods h j (nm_name m) <->
  (nr_status r <> 0 /\ eff_action m r (last1 g r (nm_name m)) now (start1 g now r) = ActOpen).
Proof.
  intros Hnd Hj Hm. cbv zeta.
  pose proof (calls_at_module mods h j now r m Hnd Hj Hm) as Hc. cbv zeta in Hc.
  split.
  - intros [c [Hin [Hn Hg]]].
    assert (Hin' : In c (calls_of (nm_name m) (calls_at mods h j))).
    { unfold calls_of. apply filter_In. split; [assumption|]. apply Z.eqb_eq. assumption. }
    rewrite Hc in Hin'. destruct (nr_status r =? 0) eqn:E0; [contradiction|].
    apply Z.eqb_neq in E0. split; [assumption|].
    apply act_calls_fields in Hin'. destruct Hin' as [_ [_ [_ [_ [_ [_ [_ Hopen]]]]]]]. apply Hopen. assumption.
  - intros [H0 Ha]. apply Z.eqb_neq in H0. rewrite H0, Ha in Hc. simpl in Hc.
    set (c := mk_call m r (start1 (c_groups (state_at mods h j) (resp_key r)) now r)
                      (id1 (c_groups (state_at mods h j) (resp_key r)) (c_next (state_at mods h j)) r) false) in *.
    assert (Hin : In c (calls_of (nm_name m) (calls_at mods h j))) by (rewrite Hc; simpl; auto).
    unfold calls_of in Hin. apply filter_In in Hin. destruct Hin as [Hin _].
    exists c. split; [assumption|]. split; reflexivity.
Qed.

Lemma dur_sat_gt x d : 0 <= d -> d < dur_sat x -> d < x.
Proof.
  unfold dur_sat. intros Hd H.
  destruct (Z.ltb_spec x (- two63)); [unfold two63 in *; lia|].
  destruct (Z.leb_spec two63 x); unfold two63 in *; lia.
Qed.

Definition interval_fits (m : nmod) : Prop := 0 <= nm_interval m * 1000000000 < two63.

Lemma interval_elapsed_some m now t :
  interval_fits m -> interval_elapsed now (Some t) (nm_interval m) = true ->
  nm_interval m * 1000000000 < now - t.
Proof.
  unfold interval_fits, interval_elapsed, mul64. intros Hf H. apply Z.ltb_lt in H.
  rewrite wrap64_id in H by (unfold in_i64, two63 in *; lia).
  apply dur_sat_gt; [lia|assumption].
Qed.

(* While an incident is open, a module's remembered time is exactly the trace of its open notifications during
   this incident (the fix for F3 is what makes the first half true). *)
Definition last_inv (mods : list nmod) (h : nhist) (k : nkey) (i j : nat) : Prop :=
  forall m, In m mods ->
    let g := c_groups (state_at mods h j) k in
    (forall t, g_last g (nm_name m) = Some t ->
       exists p, member h k i p /\ (p < j)%nat /\ open_call mods h p (nm_name m)) /\
    (forall p, member h k i p -> (p < j)%nat -> open_call mods h p (nm_name m) ->
       exists t, g_last g (nm_name m) = Some t /\ (interval_fits m -> clock_at h p <= t)).

Lemma member_self h k i : opens h k i -> member h k i i.
Proof.
  intros [[s [Hs1 Hs2]] _]. split; [lia|]. split; [|intros l Hl; lia]. exists s. split; [assumption|lia].
Qed.

Lemma last_inv_holds mods h :
  names_distinct mods ->
  forall j k i, (j <= length h)%nat -> open_inv h k i j -> last_inv mods h k i j.
Proof.
  intros Hnd. induction j as [|j IH]; intros k i Hlen Hopen.
  { destruct Hopen as [H _]. lia. }
  destruct (nth_error_lt_some h j ltac:(lia)) as [[now r] Hj].
  pose proof Hopen as [Hij [Ho Hnook]].
  destruct (Nat.eq_dec i j) as [->|Hne].
  - (* result j opened the incident: every remembered time was forgotten *)
    destruct (member_step mods h k j j Hnd Ho (member_self h k j Ho)) as [now' [r' [Hj' [Hk [H0 [_ [_ Hcase]]]]]]].
    rewrite Hj in Hj'. inversion Hj'; subst now' r'. clear Hj'.
    destruct Hcase as [[_ Hflag]|[Hlt _]]; [|lia].
    intros m Hm. cbv zeta.
    pose proof (step_last mods h j now r m Hnd Hj Hm H0) as Hlast. cbv zeta in Hlast.
    pose proof (open_call_iff mods h j now r m Hnd Hj Hm) as Hoc. cbv zeta in Hoc.
    rewrite Hk in Hlast, Hoc. unfold last1 in Hlast, Hoc. rewrite Hflag in Hlast, Hoc.
    rewrite Hlast. split.
    + intros t Ht. exists j. split; [apply member_self; assumption|]. split; [lia|].
      apply Hoc. split; [assumption|].
      destruct (eff_action m r None now (start1 (c_groups (state_at mods h j) k) now r)); simpl in Ht; try discriminate.
      reflexivity.
    + intros p [Hp1 _] Hp2 Hcall. assert (p = j) by lia. subst p.
      apply Hoc in Hcall. destruct Hcall as [_ Ha]. rewrite Ha. simpl.
      exists now. split; [reflexivity|]. intros _. rewrite (step_clock h j now r Hj). lia.
  - (* the incident was already open before result j *)
    assert (Hlt : (i < j)%nat) by lia.
    pose proof (open_inv_restrict h k i j Hopen Hlt) as Hopen'.
    specialize (IH k i ltac:(lia) Hopen').
    pose proof (step_status_of h j now r Hj k) as Hso.
    assert (Hnotok : ~ ok_at h k j) by (apply Hnook; lia).
    destruct (nkey_eqb k (resp_key r) && negb (nr_status r =? 0)) eqn:Elive.
    2:{ (* not a live result of this group: the record is untouched *)
      assert (Hsame : c_groups (state_at mods h (S j)) k = c_groups (state_at mods h j) k).
      { rewrite (step_groups mods h j now r Hj k). destruct (nr_status r =? 0); [reflexivity|].
        rewrite andb_true_r in Elive. rewrite Elive. reflexivity. }
      assert (Hnl : ~ live_at h k j).
      { intros [s [Hs1 Hs2]]. rewrite Hso in Hs1. destruct (nkey_eqb k (resp_key r)); [|discriminate].
        inversion Hs1; subst s. apply Z.eqb_neq in Hs2. rewrite Hs2 in Elive. discriminate. }
      intros m Hm. cbv zeta. rewrite Hsame. destruct (IH m Hm) as [L1 L2]. split.
      - intros t Ht. destruct (L1 t Ht) as [p [Hp1 [Hp2 Hp3]]]. exists p. split; [assumption|]. split; [lia|assumption].
      - intros p Hp1 Hp2 Hcall. assert (p <> j) by (intros ->; destruct Hp1 as [_ [Hl _]]; contradiction).
        apply L2; [assumption|lia|assumption]. }
    apply andb_true_iff in Elive. destruct Elive as [Ek E0]. apply nkey_eqb_eq in Ek. subst k.
    apply negb_true_iff in E0. apply Z.eqb_neq in E0.
    rewrite nkey_eqb_refl in Hso.
    assert (Hmem : member h (resp_key r) i j).
    { split; [lia|]. split; [exists (nr_status r); auto|]. intros l Hl. apply Hnook. lia. }
    assert (E1 : nr_status r <> 1).
    { intros E. apply Hnotok. unfold ok_at. rewrite Hso, E. reflexivity. }
    destruct (member_step mods h (resp_key r) i j Hnd Ho Hmem) as [now' [r' [Hj' [_ [_ [Hs1 [_ Hcase]]]]]]].
    rewrite Hj in Hj'. inversion Hj'; subst now' r'. clear Hj'.
    destruct Hcase as [[Heq _]|[_ [Hflag _]]]; [lia|].
    intros m Hm. cbv zeta.
    pose proof (step_last mods h j now r m Hnd Hj Hm E0) as Hlast. cbv zeta in Hlast.
    pose proof (open_call_iff mods h j now r m Hnd Hj Hm) as Hoc. cbv zeta in Hoc.
    unfold last1 in Hlast, Hoc. rewrite Hflag in Hlast, Hoc. rewrite Hs1 in Hlast, Hoc.
    destruct (IH m Hm) as [L1 L2].
    set (old := g_last (c_groups (state_at mods h j) (resp_key r)) (nm_name m)) in *.
    destruct (eff_action m r old now (Some (clock_at h i))) eqn:Ha; rewrite Hlast; simpl.
    + (* nothing sent *)
      split.
      * intros t Ht. destruct (L1 t Ht) as [p [Hp1 [Hp2 Hp3]]]. exists p. split; [assumption|]. split; [lia|assumption].
      * intros p Hp1 Hp2 Hcall. destruct (Nat.eq_dec p j) as [->|Hpj].
        { apply Hoc in Hcall. destruct Hcall as [_ Hcall]. discriminate. }
        apply L2; [assumption|lia|assumption].
    + (* a close cannot be sent by a result that is not OK *)
      exfalso. unfold eff_action in Ha. destruct (module_accepts m r); [|discriminate].
      apply decide_close_iff in Ha. destruct Ha as [_ [Ha _]]. contradiction.
    + (* an open notification *)
      split.
      * intros t _. exists j. split; [assumption|]. split; [lia|]. apply Hoc. auto.
      * intros p Hp1 Hp2 Hcall. exists now. split; [reflexivity|]. intros Hfit.
        destruct (Nat.eq_dec p j) as [->|Hpj]; [rewrite (step_clock h j now r Hj); lia|].
        destruct (L2 p Hp1 ltac:(lia) Hcall) as [t0 [Ht0 Hle]]. specialize (Hle Hfit).
        apply eff_action_open in Ha. destruct Ha as [_ Ha]. apply decide_open in Ha.
        destruct Ha as [_ [_ Ha]]. rewrite Ht0 in Ha.
        pose proof (interval_elapsed_some m now t0 Hfit Ha). unfold interval_fits in Hfit. lia.
Qed.

(* Safety 1: an open notification is only made for a live result whose status is at or above the module's threshold,
   by a module whose lists accept the group and whose AcceptConsumerGroup agrees; it reports that result's status. *)
Theorem threshold_respected mods h j c :
  names_distinct mods -> In c (calls_at mods h j) -> nc_good c = false ->
  exists now r m, nth_error h j = Some (now, r) /\ In m mods /\ nm_name m = nc_module c /\
    nc_status c = nr_status r /\ nr_status r <> 0 /\ (nc_cluster c, nc_group c) = resp_key r /\
    nm_threshold m <= nr_status r /\
    lists_accept (nm_lists m (nr_group r)) = true /\ nm_accept_group m = true.
Proof.
  intros Hnd Hc Hgood.
  destruct (nth_error h j) as [[now r]|] eqn:Hj; [|unfold calls_at in Hc; rewrite Hj in Hc; contradiction].
  destruct (calls_at_from mods h j now r c Hnd Hj Hc) as [H0 [m [Hm [Hn Hin]]]].
  apply act_calls_fields in Hin. destruct Hin as [_ [Hcl [Hgr [Hst [_ [_ [_ Hopen]]]]]]].
  apply Hopen in Hgood. apply eff_action_open in Hgood. destruct Hgood as [Hacc Hd].
  apply decide_open in Hd. destruct Hd as [Hthr _].
  unfold module_accepts in Hacc. apply andb_true_iff in Hacc. destruct Hacc as [Hl Hag].
  exists now, r, m. repeat split; auto. unfold resp_key. congruence.
Qed.

(* Liveness: every incident whose status reaches a module's threshold is announced to that module (if its lists
   accept the group) - at the latest by the first result that reaches the threshold.  This includes the second and
   later incidents of a group, whatever send-once, send-interval and send-close say. *)
Theorem every_incident_announced mods h k i j m s :
  names_distinct mods -> opens h k i -> member h k i j -> In m mods ->
  status_of h k j = Some s -> nm_threshold m <= s ->
  lists_accept (nm_lists m (snd k)) = true -> nm_accept_group m = true ->
  exists p, member h k i p /\ (p <= j)%nat /\ open_call mods h p (nm_name m).
Proof.
  intros Hnd Ho Hm Hin Hs Hthr Hl Hag.
  (* first for a result that is not the closing OK *)
  assert (Main : forall j s, member h k i j -> status_of h k j = Some s -> s <> 1 -> nm_threshold m <= s ->
                   exists p, member h k i p /\ (p <= j)%nat /\ open_call mods h p (nm_name m)).
  { clear j s Hm Hs Hthr. intros j s Hm Hs Hs1 Hthr.
    destruct (member_step mods h k i j Hnd Ho Hm) as [now [r [Hj [Hk [H0 [Hst [_ Hcase]]]]]]].
    assert (Es : nr_status r = s).
    { rewrite (step_status_of h j now r Hj k) in Hs. rewrite <- Hk in Hs. rewrite nkey_eqb_refl in Hs. congruence. }
    assert (Hacc : module_accepts m r = true).
    { unfold module_accepts. rewrite <- Hk in Hl. simpl in Hl. rewrite Hl, Hag. reflexivity. }
    pose proof (open_call_iff mods h j now r m Hnd Hj Hin) as Hoc. cbv zeta in Hoc. rewrite Hk, Hst in Hoc.
    assert (Hnone : last1 (c_groups (state_at mods h j) k) r (nm_name m) = None ->
                    open_call mods h j (nm_name m)).
    { intros E. apply Hoc. split; [assumption|]. rewrite E. unfold eff_action. rewrite Hacc, Es.
      apply decide_open_none; assumption. }
    destruct Hcase as [[Heq Hflag]|[Hlt [Hflag _]]].
    - exists j. split; [assumption|]. split; [lia|]. apply Hnone. unfold last1. rewrite Hflag. reflexivity.
    - destruct (g_last (c_groups (state_at mods h j) k) (nm_name m)) as [t|] eqn:Elast.
      + assert (Hlen : (j <= length h)%nat).
        { assert (j < length h)%nat; [|lia]. apply nth_error_Some. congruence. }
        destruct (last_inv_holds mods h Hnd j k i Hlen (member_open_inv h k i j Ho Hm Hlt) m Hin) as [L1 _].
        destruct (L1 t Elast) as [p [Hp1 [Hp2 Hp3]]]. exists p. split; [assumption|]. split; [lia|assumption].
      + exists j. split; [assumption|]. split; [lia|]. apply Hnone. unfold last1. rewrite Hflag. assumption. }
  destruct (Z.eq_dec s 1) as [->|Hne]; [|eapply Main; eauto].
  (* the closing OK reaches the threshold: so did the opening result *)
  destruct Ho as [[si [Hsi1 Hsi2]] Ho'].
  destruct (Main i si (member_self h k i (conj (ex_intro _ si (conj Hsi1 Hsi2)) Ho')) Hsi1 ltac:(lia) ltac:(lia))
    as [p [Hp1 [Hp2 Hp3]]].
  destruct Hm as [Hle _]. exists p. split; [assumption|]. split; [lia|assumption].
Qed.

(* Safety 2 and 3 share one fact: after an open notification to m during an incident, m's remembered time is set
   until the incident closes. *)
Lemma later_open_call mods h k i j1 j2 m :
  names_distinct mods -> opens h k i -> member h k i j1 -> member h k i j2 -> (j1 < j2)%nat -> In m mods ->
  open_call mods h j1 (nm_name m) -> open_call mods h j2 (nm_name m) ->
  exists now2 t, clock_at h j2 = now2 /\ (interval_fits m -> clock_at h j1 <= t) /\
    nm_once m = false /\ interval_elapsed now2 (Some t) (nm_interval m) = true.
Proof.
  intros Hnd Ho Hm1 Hm2 Hlt Hin Hc1 Hc2.
  destruct (member_step mods h k i j2 Hnd Ho Hm2) as [now [r [Hj [Hk [H0 [Hst [_ Hcase]]]]]]].
  assert (Hi2 : (i < j2)%nat) by (destruct Hm1 as [H _]; lia).
  destruct Hcase as [[Heq _]|[_ [Hflag _]]]; [lia|].
  assert (Hlen : (j2 <= length h)%nat).
  { assert (j2 < length h)%nat; [|lia]. apply nth_error_Some. congruence. }
  destruct (last_inv_holds mods h Hnd j2 k i Hlen (member_open_inv h k i j2 Ho Hm2 Hi2) m Hin) as [_ L2].
  destruct (L2 j1 Hm1 Hlt Hc1) as [t [Ht Hle]].
  pose proof (open_call_iff mods h j2 now r m Hnd Hj Hin) as Hoc. cbv zeta in Hoc. rewrite Hk in Hoc.
  apply Hoc in Hc2. destruct Hc2 as [_ Ha]. unfold last1 in Ha. rewrite Hflag, Ht in Ha.
  apply eff_action_open in Ha. destruct Ha as [_ Ha]. apply decide_open in Ha. destruct Ha as [_ [Honce Hiv]].
  exists now, t. split; [apply (step_clock h j2 now r Hj)|]. split; [assumption|]. split; [auto|assumption].
Qed.

(* Safety 2: within an incident, two open notifications to the same module are more than send-interval apart. *)
Theorem interval_respected mods h k i j1 j2 m :
  names_distinct mods -> opens h k i -> member h k i j1 -> member h k i j2 -> (j1 < j2)%nat -> In m mods ->
  interval_fits m ->
  open_call mods h j1 (nm_name m) -> open_call mods h j2 (nm_name m) ->
  clock_at h j2 - clock_at h j1 > nm_interval m * 1000000000.
Proof.
  intros Hnd Ho Hm1 Hm2 Hlt Hin Hfit Hc1 Hc2.
  destruct (later_open_call mods h k i j1 j2 m Hnd Ho Hm1 Hm2 Hlt Hin Hc1 Hc2) as [now2 [t [E [Hle [_ Hiv]]]]].
  pose proof (interval_elapsed_some m now2 t Hfit Hiv). specialize (Hle Hfit). lia.
Qed.

(* Safety 3: with send-once a module receives at most one open notification per incident. *)
Theorem send_once_respected mods h k i j1 j2 m c1 c2 :
  names_distinct mods -> opens h k i -> member h k i j1 -> member h k i j2 -> In m mods -> nm_once m = true ->
  In c1 (calls_at mods h j1) -> nc_module c1 = nm_name m -> nc_good c1 = false ->
  In c2 (calls_at mods h j2) -> nc_module c2 = nm_name m -> nc_good c2 = false ->
  j1 = j2 /\ c1 = c2.
Proof.
  intros Hnd Ho Hm1 Hm2 Hin Honce Hc1 Hn1 Hg1 Hc2 Hn2 Hg2.
  assert (O1 : open_call mods h j1 (nm_name m)) by (exists c1; auto).
  assert (O2 : open_call mods h j2 (nm_name m)) by (exists c2; auto).
  destruct (Nat.lt_trichotomy j1 j2) as [Hlt|[->|Hlt]].
  - destruct (later_open_call mods h k i j1 j2 m Hnd Ho Hm1 Hm2 Hlt Hin O1 O2) as [_ [_ [_ [_ [H _]]]]]. congruence.
  - split; [reflexivity|].
    destruct (live_at_step h k j2 (proj1 (proj2 Hm2))) as [now [r [Hj _]]].
    pose proof (calls_at_module mods h j2 now r m Hnd Hj Hin) as Hc. cbv zeta in Hc.
    assert (I1 : In c1 (calls_of (nm_name m) (calls_at mods h j2))).
    { unfold calls_of. apply filter_In. split; [assumption|]. apply Z.eqb_eq. assumption. }
    assert (I2 : In c2 (calls_of (nm_name m) (calls_at mods h j2))).
    { unfold calls_of. apply filter_In. split; [assumption|]. apply Z.eqb_eq. assumption. }
    rewrite Hc in I1, I2. destruct (nr_status r =? 0); [contradiction|].
    destruct (eff_action m r _ now _); simpl in I1, I2; try contradiction;
      destruct I1 as [<-|[]]; destruct I2 as [<-|[]]; reflexivity.
  - destruct (later_open_call mods h k i j2 j1 m Hnd Ho Hm2 Hm1 Hlt Hin O2 O1) as [_ [_ [_ [_ [H _]]]]]. congruence.
Qed.

(* ================================================================================================ *)
(* C10, notifier half                                                                               *)
(* ================================================================================================ *)

(* the notifier's two tests are the sentence of the property *)
Theorem lists_accept_spec a_set a_match d_set d_match :
  lists_accept (mkRx a_set a_match d_set d_match) = (negb a_set || a_match) && negb (d_set && d_match).
Proof. destruct a_set, a_match, d_set, d_match; reflexivity. Qed.

(* No Notify call - open or close - ever goes to a module whose lists reject the group, in any history. *)
Theorem notifier_rejected_silent mods h j now r m c :
  names_distinct mods -> nth_error h j = Some (now, r) -> In m mods ->
  lists_accept (nm_lists m (nr_group r)) = false ->
  In c (calls_at mods h j) -> nc_module c <> nm_name m.
Proof.
  intros Hnd Hj Hm Hrej Hc E.
  pose proof (calls_at_module mods h j now r m Hnd Hj Hm) as Hcm. cbv zeta in Hcm.
  assert (I : In c (calls_of (nm_name m) (calls_at mods h j))).
  { unfold calls_of. apply filter_In. split; [assumption|]. apply Z.eqb_eq. assumption. }
  rewrite Hcm in I. destruct (nr_status r =? 0); [contradiction|].
  unfold eff_action, module_accepts in I. rewrite Hrej in I. simpl in I. contradiction.
Qed.

(* the same fact read from the call: whoever is notified accepts the group *)
Theorem notified_module_accepts mods h j now r c :
  names_distinct mods -> nth_error h j = Some (now, r) -> In c (calls_at mods h j) ->
  exists m, In m mods /\ nm_name m = nc_module c /\ lists_accept (nm_lists m (nr_group r)) = true.
Proof.
  intros Hnd Hj Hc.
  destruct (calls_at_from mods h j now r c Hnd Hj Hc) as [_ [m [Hm [Hn Hin]]]].
  exists m. split; [assumption|]. split; [auto|].
  destruct (lists_accept (nm_lists m (nr_group r))) eqn:E; [reflexivity|].
  unfold eff_action, module_accepts in Hin. rewrite E in Hin. simpl in Hin. contradiction.
Qed.

(* Positive half: for a group that every module's lists accept, the coordinator behaves exactly as if no lists were
   configured. *)
Definition without_lists (m : nmod) : nmod :=
  mkNmod (nm_name m) (nm_threshold m) (nm_interval m) (nm_once m) (nm_close m)
         (fun _ => mkRx false false false false) (nm_accept_group m).

Lemma notify_all_without_lists mods : forall g now r start id,
  (forall m, In m mods -> lists_accept (nm_lists m (nr_group r)) = true) ->
  notify_all (map without_lists mods) g now r start id = notify_all mods g now r start id.
Proof.
  induction mods as [|m ms IH]; intros g now r start id H; [reflexivity|].
  simpl.
  assert (A1 : module_accepts (without_lists m) r = nm_accept_group m) by reflexivity.
  assert (A2 : module_accepts m r = nm_accept_group m).
  { unfold module_accepts. rewrite (H m) by (simpl; auto). reflexivity. }
  assert (E : forall g, notify_module (without_lists m) g now r start id = notify_module m g now r start id) by reflexivity.
  rewrite A1, A2, E. rewrite IH by (intros; apply H; simpl; auto). reflexivity.
Qed.

Theorem notifier_accepted_as_unlisted mods st now r :
  (forall m, In m mods -> lists_accept (nm_lists m (nr_group r)) = true) ->
  on_response (map without_lists mods) st now r = on_response mods st now r.
Proof.
  intros H. unfold on_response, on_response_gen, group_step.
  rewrite notify_all_without_lists by assumption. reflexivity.
Qed.

(* ================================================================================================ *)
(* The tree before the F3 fix (documentation; [run_gen false] keeps LastNotify when an incident opens) *)
(* ================================================================================================ *)

Definition no_lists : Z -> rx4 := fun _ => mkRx false false false false.
Definition f3_mod : nmod := mkNmod 1 2 60 true false no_lists true.        (* send-once, no send-close *)
Definition f3_hist : nhist :=
  [(1000000000, mkNresp 1 1 3); (2000000000, mkNresp 1 1 1); (4000000000, mkNresp 1 1 3)].   (* ERR, OK, ERR *)

(* ERR, OK, ERR: the second incident reaches the threshold of an accepting module, and before the fix no result of it
   produces an open notification; the current code announces it. *)
Theorem announce_refuted_before_fix :
  exists mods h k i m s,
    names_distinct mods /\ opens h k i /\ In m mods /\ status_of h k i = Some s /\ nm_threshold m <= s /\
    lists_accept (nm_lists m (snd k)) = true /\ nm_accept_group m = true /\
    (forall p c, member h k i p -> In c (nth p (fst (run_gen false mods c_init h)) []) -> nc_good c = true) /\
    (exists c, In c (nth i (fst (run mods c_init h)) []) /\ nc_module c = nm_name m /\ nc_good c = false).
Proof.
  exists [f3_mod], f3_hist, (1, 1), 2%nat, f3_mod, 3.
  split; [repeat constructor; simpl; tauto|].
  split.
  { split; [exists 3; split; [reflexivity|lia]|].
    intros i' Hi Hb. destruct i' as [|[|i']]; try lia.
    - exists 1%nat. split; [lia|reflexivity].
    - destruct Hb as [s [H1 H2]]. vm_compute in H1. inversion H1. subst. lia. }
  split; [simpl; auto|]. split; [reflexivity|]. split; [simpl; lia|]. split; [reflexivity|]. split; [reflexivity|].
  split.
  - intros p c [Hp _] Hc. destruct p as [|[|[|p]]]; try lia.
    + vm_compute in Hc. contradiction.
    + vm_compute in Hc. destruct p; contradiction.
  - eexists. split; [vm_compute; left; reflexivity|]. split; reflexivity.
Qed.

(* ================================================================================================ *)
(* Non-vacuity: a concrete history with two groups, two incidents of one group, both kinds of module  *)
(* ================================================================================================ *)

Definition ex_rejects_g2 : Z -> rx4 := fun g => if g =? 2 then mkRx true false false false else mkRx true true false false.
Definition ex_mods : list nmod :=
  [ mkNmod 1 2 60 false true no_lists true;          (* threshold WARN, every 60 s, close notifications *)
    mkNmod 2 3 0 true false ex_rejects_g2 true ].    (* threshold ERR, send-once, no close, allowlist rejects group 2 *)
Definition ex_k1 : nkey := (1, 1).
Definition ex_k2 : nkey := (1, 2).
Definition ex_hist : nhist :=
  [ (1000000000,  mkNresp 1 1 3);    (* 0  g1 ERR   opens incident A *)
    (2000000000,  mkNresp 1 2 3);    (* 1  g2 ERR   opens an incident of the other group *)
    (62000000000, mkNresp 1 1 3);    (* 2  g1 ERR   61 s later: module 1 again, module 2 (send-once) not *)
    (63000000000, mkNresp 1 1 1);    (* 3  g1 OK    closes A *)
    (64000000000, mkNresp 1 1 2);    (* 4  g1 WARN  opens incident B *)
    (65000000000, mkNresp 1 1 3) ].  (* 5  g1 ERR   B reaches module 2's threshold *)

Lemma ex_names : names_distinct ex_mods.
Proof. repeat constructor; simpl; intuition discriminate. Qed.

Ltac ex_bad Hb := let s := fresh "s" in let H1 := fresh in let H2 := fresh in
  destruct Hb as [s [H1 H2]]; vm_compute in H1; try discriminate; inversion H1; subst; lia.

Lemma ex_opens_A : opens ex_hist ex_k1 0.
Proof. split; [exists 3; split; [reflexivity|lia]|]. intros i' Hi. lia. Qed.

Lemma ex_opens_B : opens ex_hist ex_k1 4.
Proof.
  split; [exists 2; split; [reflexivity|lia]|].
  intros i' Hi Hb. destruct i' as [|[|[|[|i']]]]; try lia.
  - exists 3%nat. split; [lia|reflexivity].
  - ex_bad Hb.
  - exists 3%nat. split; [lia|reflexivity].
  - ex_bad Hb.
Qed.

Lemma ex_opens_g2 : opens ex_hist ex_k2 1.
Proof.
  split; [exists 3; split; [reflexivity|lia]|].
  intros i' Hi Hb. destruct i' as [|i']; try lia. ex_bad Hb.
Qed.

Ltac ex_member s := split; [lia|]; split; [exists s; split; [reflexivity|lia]|];
  let l := fresh "l" in let Hl := fresh in let Hok := fresh in
  intros l Hl Hok; do 6 (destruct l as [|l]; try lia; try (vm_compute in Hok; discriminate)).

Lemma ex_member_A2 : member ex_hist ex_k1 0 2.  Proof. ex_member 3. Qed.
Lemma ex_member_A3 : member ex_hist ex_k1 0 3.  Proof. ex_member 1. Qed.
Lemma ex_member_B5 : member ex_hist ex_k1 4 5.  Proof. ex_member 3. Qed.

(* incident_identity / close_exactly_once: the closing OK of A notifies module 1 with A's id and start *)
Example ex_identity :
  names_distinct ex_mods /\ opens ex_hist ex_k1 0 /\ member ex_hist ex_k1 0 3 /\ ok_at ex_hist ex_k1 3 /\
  calls_at ex_mods ex_hist 3 = [mkNcall 1 1 1 1 (Some 1) (Some 1000000000) true] /\
  incident_id ex_mods ex_hist 0 = 1 /\ clock_at ex_hist 0 = 1000000000 /\
  close_calls 1 (calls_at ex_mods ex_hist 3) = [mkNcall 1 1 1 1 (Some 1) (Some 1000000000) true] /\
  close_calls 2 (calls_at ex_mods ex_hist 3) = [].
Proof.
  split; [exact ex_names|]. split; [exact ex_opens_A|]. split; [exact ex_member_A3|].
  repeat split; reflexivity.
Qed.

(* incident_ids_distinct: incidents A, B of group 1 and the incident of group 2 carry ids 1, 3, 2 *)
Example ex_distinct :
  opens ex_hist ex_k1 0 /\ opens ex_hist ex_k1 4 /\ opens ex_hist ex_k2 1 /\
  map nc_id (calls_at ex_mods ex_hist 0) = [Some 1; Some 1] /\
  map nc_id (calls_at ex_mods ex_hist 4) = [Some 3] /\
  map nc_id (calls_at ex_mods ex_hist 1) = [Some 2].
Proof.
  split; [exact ex_opens_A|]. split; [exact ex_opens_B|]. split; [exact ex_opens_g2|]. repeat split; reflexivity.
Qed.

(* no_close_without_incident / groups_independent: the record of group 2 is untouched by group 1's results *)
Example ex_frame :
  g_start (c_groups (state_at ex_mods ex_hist 2) ex_k2) = Some 2000000000 /\
  g_start (c_groups (state_at ex_mods ex_hist 6) ex_k2) = Some 2000000000 /\
  g_start (c_groups (state_at ex_mods ex_hist 4) ex_k1) = None.
Proof. repeat split; reflexivity. Qed.

(* threshold_respected / interval_respected / send_once_respected: result 2, 61 s after result 0 *)
Example ex_gating :
  member ex_hist ex_k1 0 2 /\ interval_fits (nth 0 ex_mods f3_mod) /\ nm_once (nth 1 ex_mods f3_mod) = true /\
  open_call ex_mods ex_hist 0 1 /\ open_call ex_mods ex_hist 2 1 /\
  open_call ex_mods ex_hist 0 2 /\ ~ open_call ex_mods ex_hist 2 2 /\
  clock_at ex_hist 2 - clock_at ex_hist 0 = 61000000000.
Proof.
  split; [exact ex_member_A2|]. split; [unfold interval_fits, two63; simpl; lia|]. split; [reflexivity|].
  split; [eexists; split; [vm_compute; left; reflexivity|split; reflexivity]|].
  split; [eexists; split; [vm_compute; left; reflexivity|split; reflexivity]|].
  split; [eexists; split; [vm_compute; right; left; reflexivity|split; reflexivity]|].
  split; [|reflexivity].
  intros [c [Hc [Hn Hg]]]. vm_compute in Hc. destruct Hc as [<-|[]]. discriminate.
Qed.

(* every_incident_announced: the second incident B of group 1 is announced to module 2 (send-once, no send-close,
   already notified during A) by result 5, and to module 1 by result 4 one second after the close of A *)
Example ex_announced :
  opens ex_hist ex_k1 4 /\ member ex_hist ex_k1 4 5 /\ status_of ex_hist ex_k1 5 = Some 3 /\
  open_call ex_mods ex_hist 5 2 /\ open_call ex_mods ex_hist 4 1.
Proof.
  split; [exact ex_opens_B|]. split; [exact ex_member_B5|]. split; [reflexivity|].
  split; eexists; (split; [vm_compute; left; reflexivity|split; reflexivity]).
Qed.

(* notifier_rejected_silent: module 2's allowlist rejects group 2; result 1 (ERR, above its threshold) notifies
   module 1 only *)
Example ex_rejected :
  lists_accept (nm_lists (nth 1 ex_mods f3_mod) 2) = false /\
  map nc_module (calls_at ex_mods ex_hist 1) = [1].
Proof. split; reflexivity. Qed.

(* ================================================================================================ *)
(* Go's map iteration order over nc.modules does not matter                                         *)
(* ================================================================================================ *)

(* records are compared pointwise (the remembered times are a function) *)
Definition geq (g1 g2 : gstate) : Prop :=
  g_id g1 = g_id g2 /\ g_start g1 = g_start g2 /\ forall n, g_last g1 n = g_last g2 n.

Lemma geq_refl g : geq g g.
Proof. repeat split. Qed.

Lemma geq_trans g1 g2 g3 : geq g1 g2 -> geq g2 g3 -> geq g1 g3.
Proof. intros [A1 [A2 A3]] [B1 [B2 B3]]. split; [congruence|]. split; [congruence|]. intros n. rewrite A3. apply B3. Qed.

Definition turn (m : nmod) (g : gstate) (now : Z) (r : nresp) (start id : option Z) : gstate * list ncall :=
  if module_accepts m r then notify_module m g now r start id else (g, []).

Lemma turn_geq m g1 g2 now r start id :
  geq g1 g2 ->
  geq (fst (turn m g1 now r start id)) (fst (turn m g2 now r start id)) /\
  snd (turn m g1 now r start id) = snd (turn m g2 now r start id).
Proof.
  intros [A1 [A2 A3]]. unfold turn. split; [split; [|split]|].
  - destruct (module_turn_id_start m g1 now r start id) as [H1 _].
    destruct (module_turn_id_start m g2 now r start id) as [H2 _]. cbv zeta in *. congruence.
  - destruct (module_turn_id_start m g1 now r start id) as [_ H1].
    destruct (module_turn_id_start m g2 now r start id) as [_ H2]. cbv zeta in *. congruence.
  - intros n. pose proof (module_turn_last m g1 now r start id n) as H1.
    pose proof (module_turn_last m g2 now r start id n) as H2. cbv zeta in *.
    rewrite H1, H2, !A3. reflexivity.
  - rewrite !module_turn_calls, A3. reflexivity.
Qed.

Lemma notify_all_geq mods : forall g1 g2 now r start id,
  geq g1 g2 ->
  geq (fst (notify_all mods g1 now r start id)) (fst (notify_all mods g2 now r start id)) /\
  snd (notify_all mods g1 now r start id) = snd (notify_all mods g2 now r start id).
Proof.
  induction mods as [|m ms IH]; intros g1 g2 now r start id Hg; simpl; [split; [assumption|reflexivity]|].
  fold (turn m g1 now r start id). fold (turn m g2 now r start id).
  destruct (turn_geq m g1 g2 now r start id Hg) as [H1 H2].
  destruct (IH _ _ now r start id H1) as [H3 H4]. split; [assumption|]. rewrite H2, H4. reflexivity.
Qed.

Lemma turn_swap x y g now r start id :
  nm_name x <> nm_name y ->
  geq (fst (turn x (fst (turn y g now r start id)) now r start id))
      (fst (turn y (fst (turn x g now r start id)) now r start id)) /\
  snd (turn x (fst (turn y g now r start id)) now r start id) = snd (turn x g now r start id) /\
  snd (turn y (fst (turn x g now r start id)) now r start id) = snd (turn y g now r start id).
Proof.
  intros Hne. unfold turn.
  assert (Lx : g_last (fst (if module_accepts y r then notify_module y g now r start id else (g, []))) (nm_name x)
               = g_last g (nm_name x)).
  { rewrite module_turn_last. apply Z.eqb_neq in Hne. rewrite Hne. reflexivity. }
  assert (Ly : g_last (fst (if module_accepts x r then notify_module x g now r start id else (g, []))) (nm_name y)
               = g_last g (nm_name y)).
  { rewrite module_turn_last. assert (nm_name y <> nm_name x) by congruence.
    apply Z.eqb_neq in H. rewrite H. reflexivity. }
  split; [|split].
  - split; [|split].
    + repeat match goal with |- context [g_id (fst (if module_accepts ?m r then notify_module ?m ?g now r start id else (?g, [])))] =>
        rewrite (proj1 (module_turn_id_start m g now r start id)) end. reflexivity.
    + repeat match goal with |- context [g_start (fst (if module_accepts ?m r then notify_module ?m ?g now r start id else (?g, [])))] =>
        rewrite (proj2 (module_turn_id_start m g now r start id)) end. reflexivity.
    + intros n.
      set (gy := fst (if module_accepts y r then notify_module y g now r start id else (g, []))) in *.
      set (gx := fst (if module_accepts x r then notify_module x g now r start id else (g, []))) in *.
      rewrite (module_turn_last x gy now r start id n), (module_turn_last y gx now r start id n).
      rewrite Lx, Ly. unfold gy, gx. rewrite !module_turn_last.
      destruct (n =? nm_name x) eqn:Ex; destruct (n =? nm_name y) eqn:Ey; try reflexivity.
      apply Z.eqb_eq in Ex. apply Z.eqb_eq in Ey. congruence.
  - rewrite !module_turn_calls, Lx. reflexivity.
  - rewrite !module_turn_calls, Ly. reflexivity.
Qed.

Theorem notify_all_perm mods mods' :
  Permutation mods mods' -> names_distinct mods ->
  forall g1 g2 now r start id, geq g1 g2 ->
    geq (fst (notify_all mods g1 now r start id)) (fst (notify_all mods' g2 now r start id)) /\
    Permutation (snd (notify_all mods g1 now r start id)) (snd (notify_all mods' g2 now r start id)).
Proof.
  unfold names_distinct. induction 1 as [|x l l' Hp IH|x y l|l l' l'' Hp1 IH1 Hp2 IH2]; intros Hnd g1 g2 now r start id Hg.
  - simpl. split; [assumption|constructor].
  - simpl. fold (turn x g1 now r start id). fold (turn x g2 now r start id).
    destruct (turn_geq x g1 g2 now r start id Hg) as [H1 H2].
    simpl in Hnd. inversion Hnd; subst.
    destruct (IH H4 _ _ now r start id H1) as [H5 H6]. split; [assumption|].
    rewrite H2. apply Permutation_app_head. assumption.
  - simpl in Hnd. inversion Hnd as [|a b Hnotin Hnd']; subst.
    assert (Hne : nm_name x <> nm_name y).
    { intros E. apply Hnotin. simpl. left. auto. }
    simpl. fold (turn y g1 now r start id). fold (turn x (fst (turn y g1 now r start id)) now r start id).
    fold (turn x g2 now r start id). fold (turn y (fst (turn x g2 now r start id)) now r start id).
    destruct (turn_swap x y g1 now r start id Hne) as [S1 [S2 S3]].
    destruct (turn_geq x g1 g2 now r start id Hg) as [X1 X2].
    destruct (turn_geq y (fst (turn x g1 now r start id)) (fst (turn x g2 now r start id)) now r start id X1) as [Y1 Y2].
    pose proof (geq_trans _ _ _ S1 Y1) as G.
    destruct (notify_all_geq l _ _ now r start id G) as [N1 N2].
    split; [assumption|].
    rewrite N2, S2, X2. rewrite <- Y2, S3.
    rewrite !app_assoc. apply Permutation_app_tail. apply Permutation_app_comm.
  - assert (Hnd' : NoDup (map nm_name l')).
    { eapply Permutation_NoDup; [apply Permutation_map; eassumption|assumption]. }
    destruct (IH1 Hnd g1 g2 now r start id Hg) as [A1 A2].
    destruct (IH2 Hnd' g2 g2 now r start id (geq_refl g2)) as [B1 B2].
    split; [eapply geq_trans; eassumption|eapply Permutation_trans; eassumption].
Qed.

(* the whole response: same calls up to order, same records pointwise, same counter *)
Theorem on_response_perm mods mods' st now r :
  Permutation mods mods' -> names_distinct mods ->
  Permutation (snd (on_response mods st now r)) (snd (on_response mods' st now r)) /\
  (forall k, geq (c_groups (fst (on_response mods st now r)) k) (c_groups (fst (on_response mods' st now r)) k)) /\
  c_next (fst (on_response mods st now r)) = c_next (fst (on_response mods' st now r)).
Proof.
  intros Hp Hnd. unfold on_response, on_response_gen.
  destruct (nr_status r =? 0); [split; [reflexivity|]; split; [intros; apply geq_refl|reflexivity]|].
  unfold group_step. cbv zeta. simpl.
  set (g1 := if negb (is_some (g_start (c_groups st (resp_key r)))) && (1 <? nr_status r)
             then mkG (Some (c_next st)) (Some now) (fun _ : Z => None) else c_groups st (resp_key r)).
  destruct (notify_all_perm mods mods' Hp Hnd g1 g1 now r (g_start g1) (g_id g1) (geq_refl g1)) as [[A1 [A2 A3]] B].
  split; [assumption|]. split; [|reflexivity].
  intros k. destruct (nkey_eqb k (resp_key r)); [|apply geq_refl].
  destruct (nr_status r =? 1); [|split; [assumption|split; assumption]].
  split; [reflexivity|]. split; [reflexivity|]. simpl. assumption.
Qed.
